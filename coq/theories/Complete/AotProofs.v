(** C16 proofs, part 1: the tree walks of generator/utils.rs are sound and complete
    (trees of any depth), [compgen -W] is the prefix filter. *)
From ClapModel Require Import Base.Bytes Complete.AotTree Complete.BashModel.
Open Scope list_scope.

(** ---- induction over command trees (nested inductive) ---- *)
Section CmdInd.
  Variable P : cmd -> Prop.
  Hypothesis H : forall n al args subs bin h v s g, Forall P subs -> P (mkCmd n al args subs bin h v s g).
  Fixpoint cmd_ind' (c : cmd) : P c :=
    match c with
    | mkCmd n al args subs bin h v s g =>
        H n al args subs bin h v s g
          ((fix go (l : list cmd) : Forall P l :=
              match l with [] => Forall_nil P | x :: t => Forall_cons x (cmd_ind' x) (go t) end) subs)
    end.
End CmdInd.

(** ---- list helpers ---- *)
Lemma map_opt_nil {A B} (f : A -> option B) : map_opt f [] = Some [].
Proof. reflexivity. Qed.
Lemma map_opt_cons {A B} (f : A -> option B) a t :
  map_opt f (a :: t) =
  match f a with None => None | Some b => match map_opt f t with Some r => Some (b :: r) | None => None end end.
Proof. reflexivity. Qed.

Lemma map_opt_Forall2 {A B} (f : A -> option B) l : forall r,
  map_opt f l = Some r <-> Forall2 (fun a b => f a = Some b) l r.
Proof.
  induction l as [|a t IH]; intros r.
  - rewrite map_opt_nil. split; intros Hx.
    + inversion Hx; constructor.
    + inversion Hx; reflexivity.
  - rewrite map_opt_cons. split; intros Hx.
    + destruct (f a) as [b|] eqn:Ea; [|discriminate].
      destruct (map_opt f t) as [r'|] eqn:Et; [|discriminate].
      inversion Hx; subst. constructor; [assumption|]. apply IH; reflexivity.
    + inversion Hx as [|a' b l' r' Hab Hrest]; subst. rewrite Hab.
      apply IH in Hrest. rewrite Hrest. reflexivity.
Qed.

Lemma map_opt_total {A B} (f : A -> option B) l :
  (forall a, In a l -> f a <> None) -> exists r, map_opt f l = Some r.
Proof.
  induction l as [|a t IH]; intros Hn.
  - exists []; reflexivity.
  - rewrite map_opt_cons. destruct (f a) as [b|] eqn:Ea.
    + destruct IH as [r Hr]; [intros x Hx; apply Hn; right; exact Hx|]. rewrite Hr. eexists; reflexivity.
    + exfalso. apply (Hn a); [left; reflexivity|exact Ea].
Qed.

Lemma Forall2_concat_in {A B} (f : A -> option (list B)) l r :
  Forall2 (fun a b => f a = Some b) l r ->
  forall x, In x (List.concat r) <-> exists a b, In a l /\ f a = Some b /\ In x b.
Proof.
  induction 1 as [|a b l r Hab Hrest IH]; intros x; simpl.
  - split; [intros []|intros (a & b & [] & _)].
  - rewrite in_app_iff, IH. split.
    + intros [Hx|(a' & b' & Ha' & Hf & Hx)].
      * exists a, b; auto.
      * exists a', b'; auto.
    + intros (a' & b' & [Heq|Ha'] & Hf & Hx).
      * subst a'. rewrite Hab in Hf; inversion Hf; subst; auto.
      * right; exists a', b'; auto.
Qed.

Lemma filter_map_in {A B} (f : A -> option B) l y :
  In y (filter_map f l) <-> exists a, In a l /\ f a = Some y.
Proof.
  induction l as [|a t IH]; simpl.
  - split; [intros []|intros (a & [] & _)].
  - destruct (f a) as [b|] eqn:Ea; simpl; rewrite IH; split.
    + intros [Hb|(a' & Ha' & Hf)]; [subst; exists a; auto|exists a'; auto].
    + intros (a' & [Heq|Ha'] & Hf); [subst; rewrite Ea in Hf; inversion Hf; auto|right; exists a'; auto].
    + intros (a' & Ha' & Hf); exists a'; auto.
    + intros (a' & [Heq|Ha'] & Hf); [subst; rewrite Ea in Hf; discriminate|exists a'; auto].
Qed.

Lemma in_concat_iff {A} (l : list (list A)) x : In x (List.concat l) <-> exists y, In y l /\ In x y.
Proof.
  induction l as [|a t IH]; simpl.
  - split; [intros []|intros (y & [] & _)].
  - rewrite in_app_iff, IH. split.
    + intros [Hx|(y & Hy & Hx)]; [exists a; auto|exists y; auto].
    + intros (y & [Heq|Hy] & Hx); [subst; auto|right; exists y; auto].
Qed.

Lemma visible_in (l : list (bytes * bool)) s : In s (visible l) <-> In (s, true) l.
Proof.
  unfold visible. rewrite filter_map_in. split.
  - intros ([x v] & Hin & Hf); simpl in Hf. destruct v; inversion Hf; subst; exact Hin.
  - intros Hin; exists (s, true); auto.
Qed.

(** ---- the tree ---- *)
(** proper descendants *)
Inductive desc : cmd -> cmd -> Prop :=
| desc_child c sc : In sc (c_subs c) -> desc c sc
| desc_step c sc n : In sc (c_subs c) -> desc sc n -> desc c n.

Lemma desc_trans a b c : desc a b -> desc b c -> desc a c.
Proof.
  induction 1 as [a b Hin|a sc b Hin Hd IH]; intros Hbc.
  - eapply desc_step; eauto.
  - eapply desc_step; eauto.
Qed.

(** every subcommand at every level has a bin name ([Command::build] has run) *)
Definition bins_built (c : cmd) : Prop := forall n, desc c n -> c_bin n <> None.

Lemma all_subcommands_unfold c :
  all_subcommands c =
  match subcommands c, map_opt all_subcommands (c_subs c) with
  | Some own, Some rest => Some (own ++ List.concat rest)
  | _, _ => None
  end.
Proof. destruct c; reflexivity. Qed.

Lemma sc_entries_spec sc e :
  sc_entries sc = Some e ->
  exists b, c_bin sc = Some b /\
            forall w b', In (w, b') e <-> b' = b /\ In w (get_name_and_visible_aliases sc).
Proof.
  unfold sc_entries. destruct (c_bin sc) as [b|]; [|discriminate].
  intros He; inversion He; subst; clear He. exists b; split; [reflexivity|].
  intros w b'. unfold get_name_and_visible_aliases. simpl. rewrite in_map_iff. split.
  - intros [Heq|(a & Heq & Ha)]; inversion Heq; subst; auto.
  - intros (-> & [Hw|Hw]); [left; subst; reflexivity|right; exists w; auto].
Qed.

(** [utils::subcommands]: exactly (name | visible alias, bin name) of the children *)
Lemma subcommands_spec p :
  (forall sc, In sc (c_subs p) -> c_bin sc <> None) ->
  exists l, subcommands p = Some l /\
    forall w b, In (w, b) l <->
      exists sc, In sc (c_subs p) /\ c_bin sc = Some b /\ In w (get_name_and_visible_aliases sc).
Proof.
  intros Hb. unfold subcommands.
  destruct (map_opt_total sc_entries (c_subs p)) as [r Hr].
  { intros sc Hin. unfold sc_entries. specialize (Hb sc Hin). destruct (c_bin sc); [discriminate|contradiction]. }
  rewrite Hr. eexists; split; [reflexivity|]. intros w b.
  apply map_opt_Forall2 in Hr. rewrite (Forall2_concat_in _ _ _ Hr). split.
  - intros (sc & e & Hin & He & Hx). destruct (sc_entries_spec _ _ He) as (b0 & Hb0 & Hspec).
    apply Hspec in Hx. destruct Hx as [-> Hw]. exists sc; auto.
  - intros (sc & Hin & Hbin & Hw).
    destruct (sc_entries sc) as [e|] eqn:He.
    + exists sc, e. split; [exact Hin|split; [exact He|]].
      destruct (sc_entries_spec _ _ He) as (b0 & Hb0 & Hspec). apply Hspec.
      rewrite Hbin in Hb0; inversion Hb0; auto.
    + unfold sc_entries in He. rewrite Hbin in He. discriminate.
Qed.

(** C16_tree_walk: [utils::all_subcommands] lists exactly the (name | visible alias, bin name)
    pairs of every non-root node of the tree, whatever its depth *)
Theorem all_subcommands_spec : forall c,
  bins_built c ->
  exists l, all_subcommands c = Some l /\
    forall w b, In (w, b) l <->
      exists n, desc c n /\ c_bin n = Some b /\ In w (get_name_and_visible_aliases n).
Proof.
  induction c as [n al args subs bin h v s g IH] using cmd_ind'. intros Hb.
  set (c := mkCmd n al args subs bin h v s g) in *.
  destruct (subcommands_spec c) as (own & Hown & Hown_spec).
  { intros sc Hin. apply Hb. apply desc_child. exact Hin. }
  assert (Hsub : forall sc, In sc subs -> bins_built sc).
  { intros sc Hin m Hm. apply Hb. eapply desc_step; [exact Hin|exact Hm]. }
  destruct (map_opt_total all_subcommands subs) as [rest Hrest].
  { intros sc Hin. rewrite Forall_forall in IH. destruct (IH sc Hin (Hsub sc Hin)) as (l & Hl & _).
    rewrite Hl; discriminate. }
  rewrite all_subcommands_unfold. change (c_subs c) with subs. rewrite Hown, Hrest.
  eexists; split; [reflexivity|]. intros w b. rewrite in_app_iff.
  apply map_opt_Forall2 in Hrest. rewrite (Forall2_concat_in _ _ _ Hrest). split.
  - intros [Hx|(sc & l & Hin & Hl & Hx)].
    + apply Hown_spec in Hx. destruct Hx as (sc & Hin & Hbin & Hw). exists sc. split; [apply desc_child; exact Hin|auto].
    + rewrite Forall_forall in IH. destruct (IH sc Hin (Hsub sc Hin)) as (l' & Hl' & Hspec).
      rewrite Hl in Hl'; inversion Hl'; subst l'. apply Hspec in Hx.
      destruct Hx as (m & Hd & Hbin & Hw). exists m. split; [eapply desc_step; eauto|auto].
  - intros (m & Hd & Hbin & Hw). inversion Hd as [c0 sc Hin|c0 sc m0 Hin Hd']; subst.
    + left. apply Hown_spec. exists m; auto.
    + right. rewrite Forall_forall in IH. destruct (IH sc Hin (Hsub sc Hin)) as (l' & Hl' & Hspec).
      exists sc, l'. split; [exact Hin|split; [exact Hl'|]]. apply Hspec. exists m; auto.
Qed.

(** ---- options ---- *)
(** [shorts_and_visible_aliases]: the short and the visible short aliases of every non-positional
    argument that HAS a short; nothing else (hidden aliases never appear) *)
Theorem shorts_spec p s :
  In s (shorts_and_visible_aliases p) <->
  exists a, In a (c_args p) /\ a_is_positional a = false /\
            exists sh, a_short a = Some sh /\ (s = sh \/ In (s, true) (a_short_aliases a)).
Proof.
  unfold shorts_and_visible_aliases. rewrite in_concat_iff. split.
  - intros (y & Hy & Hs). apply filter_map_in in Hy. destruct Hy as (a & Ha & Hf).
    exists a. split; [exact Ha|]. unfold arg_shorts, get_visible_short_aliases in Hf.
    destruct (a_is_positional a); simpl in Hf; [discriminate|]. split; [reflexivity|].
    destruct (a_short a) as [sh|]; [exists sh; split; [reflexivity|]|destruct (is_nil (a_short_aliases a)); discriminate].
    destruct (is_nil (a_short_aliases a)) eqn:En; inversion Hf; subst; clear Hf.
    + destruct Hs as [Hs|[]]; auto.
    + apply in_app_iff in Hs. destruct Hs as [Hs|[Hs|[]]]; [right; apply visible_in; exact Hs|auto].
  - intros (a & Ha & Hp & sh & Hsh & Hs).
    unfold arg_shorts, get_visible_short_aliases.
    destruct (is_nil (a_short_aliases a)) eqn:En.
    + exists [sh]. split.
      * apply filter_map_in. exists a. split; [exact Ha|]. unfold arg_shorts, get_visible_short_aliases.
        rewrite Hp, En, Hsh. reflexivity.
      * destruct Hs as [->|Hs]; [left; reflexivity|].
        destruct (a_short_aliases a); [destruct Hs|discriminate].
    + exists (visible (a_short_aliases a) ++ [sh]). split.
      * apply filter_map_in. exists a. split; [exact Ha|]. unfold arg_shorts, get_visible_short_aliases.
        rewrite Hp, En, Hsh. reflexivity.
      * apply in_app_iff. destruct Hs as [->|Hs]; [right; left; reflexivity|left; apply visible_in; exact Hs].
Qed.

Theorem longs_spec p s :
  In s (longs_and_visible_aliases p) <->
  exists a, In a (c_args p) /\ a_is_positional a = false /\
            exists lg, a_long a = Some lg /\ (s = lg \/ In (s, true) (a_aliases a)).
Proof.
  unfold longs_and_visible_aliases. rewrite in_concat_iff. split.
  - intros (y & Hy & Hs). apply filter_map_in in Hy. destruct Hy as (a & Ha & Hf).
    exists a. split; [exact Ha|]. unfold arg_longs, get_visible_aliases in Hf.
    destruct (a_is_positional a); simpl in Hf; [discriminate|]. split; [reflexivity|].
    destruct (a_long a) as [lg|]; [exists lg; split; [reflexivity|]|destruct (is_nil (a_aliases a)); discriminate].
    destruct (is_nil (a_aliases a)) eqn:En; inversion Hf; subst; clear Hf.
    + destruct Hs as [Hs|[]]; auto.
    + apply in_app_iff in Hs. destruct Hs as [Hs|[Hs|[]]]; [right; apply visible_in; exact Hs|auto].
  - intros (a & Ha & Hp & lg & Hlg & Hs).
    unfold arg_longs, get_visible_aliases.
    destruct (is_nil (a_aliases a)) eqn:En.
    + exists [lg]. split.
      * apply filter_map_in. exists a. split; [exact Ha|]. unfold arg_longs, get_visible_aliases.
        rewrite Hp, En, Hlg. reflexivity.
      * destruct Hs as [->|Hs]; [left; reflexivity|].
        destruct (a_aliases a); [destruct Hs|discriminate].
    + exists (visible (a_aliases a) ++ [lg]). split.
      * apply filter_map_in. exists a. split; [exact Ha|]. unfold arg_longs, get_visible_aliases.
        rewrite Hp, En, Hlg. reflexivity.
      * apply in_app_iff. destruct Hs as [->|Hs]; [right; left; reflexivity|left; apply visible_in; exact Hs].
Qed.

(** the part of the property the code does not deliver: a visible alias of an option without the
    corresponding primary spelling is never returned (finding: alias-without-primary) *)
Definition aliases_have_primary (p : cmd) : Prop :=
  forall a, In a (c_args p) ->
    (a_short_aliases a <> [] -> a_short a <> None) /\ (a_aliases a <> [] -> a_long a <> None).

Theorem shorts_complete p :
  aliases_have_primary p ->
  forall a s, In a (c_args p) -> a_is_positional a = false ->
    (a_short a = Some s \/ In (s, true) (a_short_aliases a)) -> In s (shorts_and_visible_aliases p).
Proof.
  intros Hp a s Ha Hpos Hs. apply shorts_spec. exists a. split; [exact Ha|split; [exact Hpos|]].
  destruct Hs as [Hs|Hs].
  - exists s; auto.
  - destruct (Hp a Ha) as [H1 _]. destruct (a_short a) as [sh|] eqn:Es.
    + exists sh; auto.
    + exfalso. apply H1; [intros Hn; rewrite Hn in Hs; destruct Hs|reflexivity].
Qed.

Theorem longs_complete p :
  aliases_have_primary p ->
  forall a s, In a (c_args p) -> a_is_positional a = false ->
    (a_long a = Some s \/ In (s, true) (a_aliases a)) -> In s (longs_and_visible_aliases p).
Proof.
  intros Hp a s Ha Hpos Hs. apply longs_spec. exists a. split; [exact Ha|split; [exact Hpos|]].
  destruct Hs as [Hs|Hs].
  - exists s; auto.
  - destruct (Hp a Ha) as [_ H2]. destruct (a_long a) as [lg|] eqn:El.
    + exists lg; auto.
    + exfalso. apply H2; [intros Hn; rewrite Hn in Hs; destruct Hs|reflexivity].
Qed.

(** hidden aliases never leak *)
Theorem shorts_sound_hidden p s :
  In s (shorts_and_visible_aliases p) ->
  exists a, In a (c_args p) /\ (a_short a = Some s \/ In (s, true) (a_short_aliases a)).
Proof.
  intros Hs. apply shorts_spec in Hs. destruct Hs as (a & Ha & _ & sh & Hsh & [->|Hs]); exists a; auto.
Qed.
Theorem longs_sound_hidden p s :
  In s (longs_and_visible_aliases p) ->
  exists a, In a (c_args p) /\ (a_long a = Some s \/ In (s, true) (a_aliases a)).
Proof.
  intros Hs. apply longs_spec in Hs. destruct Hs as (a & Ha & _ & lg & Hlg & [->|Hs]); exists a; auto.
Qed.

(** witness: `--long` with [visible_short_alias('x')] and no short *)
Definition alias_only_arg : arg :=
  mkArg [111] None (Some [111; 112; 116]) [([120], true)] [] ASetTrue None None None false false false.
Definition alias_only_cmd : cmd :=
  mkCmd [112] [] [alias_only_arg] [] (Some [112]) false false sets0 sets0.
Lemma shorts_alias_without_primary_refuted :
  exists p a s, In a (c_args p) /\ a_is_positional a = false /\ In (s, true) (a_short_aliases a) /\
                ~ In s (shorts_and_visible_aliases p).
Proof.
  exists alias_only_cmd, alias_only_arg, [120]. repeat split; try (left; reflexivity); try reflexivity.
  vm_compute. intros [].
Qed.

(** [flags] and [possible_values] *)
Theorem flags_spec p a :
  In a (flags p) <-> In a (c_args p) /\ a_takes_values a = false /\ a_is_positional a = false.
Proof.
  unfold flags. rewrite filter_In. split.
  - intros [Ha Hf]. apply andb_true_iff in Hf. destruct Hf as [H1 H2].
    apply negb_true_iff in H1. apply negb_true_iff in H2. auto.
  - intros (Ha & H1 & H2). split; [exact Ha|]. rewrite H1, H2. reflexivity.
Qed.
Theorem opts_spec p a :
  In a (get_opts p) <-> In a (c_args p) /\ a_takes_values a = true /\ a_is_positional a = false.
Proof.
  unfold get_opts. rewrite filter_In. split.
  - intros [Ha Hf]. apply andb_true_iff in Hf. destruct Hf as [H1 H2]. apply negb_true_iff in H2. auto.
  - intros (Ha & H1 & H2). split; [exact Ha|]. rewrite H1, H2. reflexivity.
Qed.
Theorem possible_values_spec a :
  possible_values a = (if a_takes_values a then a_pvs a else None).
Proof. unfold possible_values. destruct (a_takes_values a); reflexivity. Qed.

(** every non-positional argument is an option or a flag, never both *)
Theorem opts_flags_partition p a :
  In a (c_args p) -> a_is_positional a = false ->
  (In a (get_opts p) /\ ~ In a (flags p)) \/ (In a (flags p) /\ ~ In a (get_opts p)).
Proof.
  intros Ha Hp. destruct (a_takes_values a) eqn:Et.
  - left. split; [apply opts_spec; auto|]. intros Hf. apply flags_spec in Hf. destruct Hf as (_ & Hf & _). congruence.
  - right. split; [apply flags_spec; auto|]. intros Hf. apply opts_spec in Hf. destruct Hf as (_ & Hf & _). congruence.
Qed.

(** ---- [compgen -W "${opts}" -- "${cur}"] ---- *)
Theorem compgen_W_spec words cur w :
  In w (compgen_W words cur) <-> In w words /\ exists t, w = cur ++ t.
Proof. unfold compgen_W. rewrite filter_In, starts_with_spec. reflexivity. Qed.

(** the replies keep the order of the word list and nothing is invented *)
Theorem compgen_W_sublist words cur : exists keep, compgen_W words cur = filter keep words.
Proof. eexists; reflexivity. Qed.

(** ---- [Command::build] gives every subcommand a bin name (the hypothesis of the tree walk
    is what [_generate] establishes before calling a generator) ---- *)
Lemma assign_bins_subs inh c :
  c_subs (assign_bins inh c) =
  map (fun sc =>
         assign_bins (Some ((match (match c_bin c with Some b => Some b | None => inh end) with
                             | Some b => b | None => c_name c end)
                            ++ (if is_nil (match (match c_bin c with Some b => Some b | None => inh end) with
                                           | Some b => b | None => c_name c end) then [] else [32])
                            ++ c_name sc)) sc) (c_subs c).
Proof. destruct c; reflexivity. Qed.

Lemma assign_bins_bin inh c :
  c_bin (assign_bins inh c) = match c_bin c with Some b => Some b | None => inh end.
Proof. destruct c; reflexivity. Qed.

Lemma assign_bins_built : forall c inh, bins_built (assign_bins inh c).
Proof.
  induction c as [n al args subs bin h v s g IH] using cmd_ind'. intros inh m Hd.
  rewrite Forall_forall in IH.
  inversion Hd as [c0 sc Hin|c0 sc m0 Hin Hd']; subst.
  - rewrite assign_bins_subs in Hin. apply in_map_iff in Hin. destruct Hin as (sc0 & <- & Hin0).
    rewrite assign_bins_bin. destruct (c_bin sc0); discriminate.
  - rewrite assign_bins_subs in Hin. apply in_map_iff in Hin. destruct Hin as (sc0 & <- & Hin0).
    simpl in Hin0. exact (IH sc0 Hin0 _ m Hd').
Qed.

Theorem build_bins_built c b : build c = Some b -> bins_built b.
Proof.
  unfold build. destruct (build_recursive (build_fuel c) c) as [c'|]; [|discriminate].
  intros Hb; inversion Hb; subst. apply assign_bins_built.
Qed.

(** non-vacuity: a built two-level tree *)
Definition example_tree : cmd :=
  mkCmd [112] [] [] [mkCmd [97; 45; 98] [([120], true); ([121], false)] [] [cmd_new [99]] None false false sets0 sets0]
        None false false sets0 sets0.
Example build_example : exists b, build (set_bin_name example_tree [112]) = Some b /\ c_subs b <> [].
Proof. eexists; split; [vm_compute; reflexivity|discriminate]. Qed.
