(** The fuel of [EngineModel.build_full] is sufficient: [build_full (build_fuel c) c] never
    answers [BFuel], hence [complete_model] never answers [CFuel] (property C18).

    One unit of fuel is spent per level of the tree.  [build_self_x] keeps the subcommands of a
    level (their own subtrees untouched) and appends at most one help subcommand, whose subtree
    is a copy of the level's subtrees plus the [help help] leaf: not deeper than the level itself
    (the help subcommand is only generated for a level that has subcommands).  The help
    subcommand carries [DisableHelpSubcommand] as a global setting, which every command below it
    inherits: no further help subcommand is generated inside the help tree.  So a level of depth
    [d] is built with [d + 1] units ([build_full_enough]), and [d] units may not be enough
    ([fuel_bound_tight]). *)
From ClapModel Require Import Base.Bytes Base.Machine Base.Utf8.
From ClapModel Require Import Parse.Cmd Parse.Build Parse.Valid Complete.EngineModel Complete.EngineProofs.
From Coq Require Import ZArith Lia Bool List.
From RecordUpdate Require Import RecordSet.
Import RecordSetNotations. Import ListNotations.
Open Scope N_scope.

Ltac destruct_ifs :=
  repeat match goal with
         | |- context [if ?b then _ else _] => destruct b
         | |- context [match ?x with Some _ => _ | None => _ end] => destruct x
         end.

Ltac destruct_matches :=
  repeat match goal with
         | |- context [match ?x with _ => _ end] => destruct x
         end.

(** * [depth] unfolded *)
Fixpoint maxd (l : list cmd) : nat :=
  match l with [] => O | s :: t => Nat.max (depth s) (maxd t) end.

Lemma depth_eq : forall c, depth c = S (maxd (c_subs c)).
Proof.
  intros c. destruct c as [n al sf lf sfa lfa ar gr subs cs gs v lv ev bn dn ab lab].
  change (c_subs (mkCmd n al sf lf sfa lfa ar gr subs cs gs v lv ev bn dn ab lab)) with subs.
  (* the nested [fix] of [depth] is [maxd] itself *)
  reflexivity.
Qed.

Lemma depth_pos : forall c, (1 <= depth c)%nat.
Proof. intros c. rewrite depth_eq. lia. Qed.

Lemma in_maxd : forall s l, In s l -> (depth s <= maxd l)%nat.
Proof.
  intros s l. induction l as [|a t IH]; intros H; [contradiction|].
  cbn [maxd]. destruct H as [H|H].
  - subst a. apply Nat.le_max_l.
  - apply IH in H. pose proof (Nat.le_max_r (depth a) (maxd t)). lia.
Qed.

Lemma maxd_app : forall l l', maxd (l ++ l') = Nat.max (maxd l) (maxd l').
Proof.
  induction l as [|a t IH]; intros l'; [reflexivity|].
  cbn [app maxd]. rewrite IH. apply Nat.max_assoc.
Qed.

Lemma maxd_map_le : forall (g : cmd -> cmd) l,
  (forall s, In s l -> (depth (g s) <= depth s)%nat) -> (maxd (map g l) <= maxd l)%nat.
Proof.
  intros g l. induction l as [|a t IH]; intros H; [apply le_n|].
  cbn [map maxd]. apply Nat.max_le_compat.
  - apply H. left. reflexivity.
  - apply IH. intros s Hs. apply H. right. exact Hs.
Qed.

Lemma maxd_nonempty : forall l, l <> [] -> (1 <= maxd l)%nat.
Proof.
  intros [|a t] H; [congruence|]. cbn [maxd].
  pose proof (depth_pos a). pose proof (Nat.le_max_l (depth a) (maxd t)). lia.
Qed.

Lemma map_nonempty : forall (g : cmd -> cmd) l, l <> [] -> map g l <> [].
Proof. intros g [|a t] H; [congruence|discriminate]. Qed.

(** two commands with the same subcommands have the same depth *)
Lemma depth_same_subs : forall a b, c_subs a = c_subs b -> depth a = depth b.
Proof. intros a b H. rewrite (depth_eq a), (depth_eq b), H. reflexivity. Qed.

(** * [copy_subtree_for_help] does not deepen a tree *)
Lemma copy_subs : forall c,
  c_subs (copy_subtree_for_help c) = map copy_subtree_for_help (c_subs c).
Proof.
  intros c. destruct c as [n al sf lf sfa lfa ar gr subs cs gs v lv ev bn dn ab lab].
  change (c_subs (mkCmd n al sf lf sfa lfa ar gr subs cs gs v lv ev bn dn ab lab)) with subs.
  change (c_subs (copy_subtree_for_help (mkCmd n al sf lf sfa lfa ar gr subs cs gs v lv ev bn dn ab lab)))
    with ((fix go (l : list cmd) : list cmd :=
             match l with [] => [] | s :: t => copy_subtree_for_help s :: go t end) subs).
  induction subs as [|s t IH]; [reflexivity|].
  cbn [map]. rewrite <- IH. reflexivity.
Qed.

Lemma copy_depth_aux : forall n s, (depth s <= n)%nat -> (depth (copy_subtree_for_help s) <= depth s)%nat.
Proof.
  induction n as [|n IH]; intros s H.
  - pose proof (depth_pos s). lia.
  - rewrite (depth_eq (copy_subtree_for_help s)), (depth_eq s), copy_subs.
    apply le_n_S. apply maxd_map_le. intros s' Hin. apply IH.
    apply in_maxd in Hin. rewrite (depth_eq s) in H. lia.
Qed.

Lemma copy_depth : forall s, (depth (copy_subtree_for_help s) <= depth s)%nat.
Proof. intros s. apply (copy_depth_aux (depth s)). apply le_n. Qed.

(** * The blocks of [build_self_x]: what they do to the subcommands and to the global
      [DisableHelpSubcommand] *)
Definition hd (c : cmd) : bool := s_disable_help_sub (c_gset c).

Lemma hd_is_set : forall c, hd c = true -> is_set s_disable_help_sub c = true.
Proof. intros c H. unfold is_set. unfold hd in H. rewrite H. apply orb_true_r. Qed.

Lemma prop_subs : forall p sc, c_subs (propagate_subcommand p sc) = c_subs sc.
Proof.
  intros p sc. unfold propagate_subcommand. cbv zeta. destruct_matches; reflexivity.
Qed.

Lemma prop_hd : forall p sc, hd (propagate_subcommand p sc) = hd sc || hd p.
Proof.
  intros p sc. unfold propagate_subcommand, hd. cbv zeta. destruct_matches; reflexivity.
Qed.

Lemma settings_subs : forall c, c_subs (bs_settings c) = c_subs c.
Proof. intros c. unfold bs_settings. cbv zeta. destruct_ifs; reflexivity. Qed.

Lemma settings_gset : forall c, c_gset (bs_settings c) = c_gset c.
Proof. intros c. unfold bs_settings. cbv zeta. destruct_ifs; reflexivity. Qed.

(** no subcommands: [DisableHelpSubcommand] is set *)
Lemma settings_leaf : forall c, c_subs c = [] -> is_set s_disable_help_sub (bs_settings c) = true.
Proof.
  intros c H. unfold bs_settings. cbv zeta. unfold has_subcommands at 1.
  match goal with |- context [c_subs ?x] =>
    replace (c_subs x) with (@nil cmd) by (rewrite <- H; destruct_ifs; reflexivity) end.
  cbn [is_nil negb]. destruct_ifs; reflexivity.
Qed.

Lemma propagate_eq : forall c, c_subs (bs_propagate c) = map (propagate_subcommand c) (c_subs c).
Proof. reflexivity. Qed.

(** [bs_help_version_x]: the generated arguments first, then the help subcommand *)
Definition hv_args (c : cmd) : cmd :=
  let c := if negb (is_set s_disable_help_flag c) then c <| c_args := c_args c ++ [help_arg] |> else c in
  if negb (is_disable_version_flag_set c) then c <| c_args := c_args c ++ [version_arg] |> else c.

Lemma hvx_unfold : forall c,
  bs_help_version_x c =
  if negb (is_set s_disable_help_sub (hv_args c))
  then (hv_args c) <| c_subs := c_subs (hv_args c) ++ [fix_help_unset (help_subcommand_x (hv_args c))] |>
  else hv_args c.
Proof. reflexivity. Qed.

Lemma hv_args_subs : forall c, c_subs (hv_args c) = c_subs c.
Proof. intros c. unfold hv_args. cbv zeta. destruct_ifs; reflexivity. Qed.
Lemma hv_args_set : forall c, c_set (hv_args c) = c_set c.
Proof. intros c. unfold hv_args. cbv zeta. destruct_ifs; reflexivity. Qed.
Lemma hv_args_gset : forall c, c_gset (hv_args c) = c_gset c.
Proof. intros c. unfold hv_args. cbv zeta. destruct_ifs; reflexivity. Qed.
Lemma hv_args_is_set : forall f c, is_set f (hv_args c) = is_set f c.
Proof. intros f c. unfold is_set. rewrite hv_args_set, hv_args_gset. reflexivity. Qed.

(** the help subcommand *)
Definition hh : cmd :=
  (cmd_new s_help) <| c_about := Some s_help_about |>
    <| c_set := settings_none <| s_disable_help_flag := true |> <| s_disable_version_flag := true |> |>.
Definition h0 (parent : cmd) : cmd :=
  let dh := settings_none <| s_disable_help_sub := true |> in
  (cmd_new s_help) <| c_about := Some s_help_about |> <| c_set := dh |> <| c_gset := dh |>
    <| c_subs := map copy_subtree_for_help (c_subs parent) ++ [hh] |>.

Definition h_post (h : cmd) : cmd :=
  h <| c_version := None |> <| c_long_version := None |>
    <| c_set := (c_set h) <| s_disable_help_flag := true |> <| s_disable_version_flag := true |> |>
    <| c_gset := (c_gset h) <| s_propagate_version := false |> |>.

Lemma help_unfold : forall p, help_subcommand_x p = h_post (propagate_subcommand p (h0 p)).
Proof. reflexivity. Qed.
Lemma fix_help_subs : forall h, c_subs (fix_help_unset h) = c_subs h. Proof. reflexivity. Qed.
Lemma fix_help_hd : forall h, hd (fix_help_unset h) = hd h. Proof. reflexivity. Qed.
Lemma h_post_subs : forall h, c_subs (h_post h) = c_subs h. Proof. reflexivity. Qed.
Lemma h_post_hd : forall h, hd (h_post h) = hd h. Proof. reflexivity. Qed.

Lemma help_subs : forall p,
  c_subs (fix_help_unset (help_subcommand_x p)) = map copy_subtree_for_help (c_subs p) ++ [hh].
Proof.
  intros p. rewrite fix_help_subs, help_unfold, h_post_subs, prop_subs. reflexivity.
Qed.

Lemma help_hd : forall p, hd (fix_help_unset (help_subcommand_x p)) = true.
Proof.
  intros p. rewrite fix_help_hd, help_unfold, h_post_hd, prop_hd. reflexivity.
Qed.

Lemma help_depth : forall p, c_subs p <> [] ->
  (depth (fix_help_unset (help_subcommand_x p)) <= depth p)%nat.
Proof.
  intros p Hne. rewrite (depth_eq (fix_help_unset _)), (depth_eq p), help_subs, maxd_app.
  apply le_n_S.
  assert (H1 : (maxd (map copy_subtree_for_help (c_subs p)) <= maxd (c_subs p))%nat).
  { apply maxd_map_le. intros s _. apply copy_depth. }
  assert (H2 : maxd [hh] = 1%nat) by reflexivity.
  pose proof (maxd_nonempty _ Hne) as H3.
  rewrite H2. apply Nat.max_lub; lia.
Qed.

(** [bs_globals] *)
Definition gl_add (sc : cmd) (a : arg) : cmd :=
  if is_some (find_arg sc (a_id a)) then sc else sc <| c_args := c_args sc ++ [a] |>.
Definition gl_step (c sc : cmd) : cmd :=
  if beq (c_name sc) s_help && negb (is_set s_disable_help_sub c) then sc
  else fold_left gl_add (filter a_global (c_args c)) sc.

Lemma globals_eq : forall c, c_subs (bs_globals c) = map (gl_step c) (c_subs c).
Proof. reflexivity. Qed.

Lemma gl_fold_same : forall gs sc,
  c_subs (fold_left gl_add gs sc) = c_subs sc /\ c_gset (fold_left gl_add gs sc) = c_gset sc.
Proof.
  induction gs as [|a t IH]; intros sc; [split; reflexivity|].
  cbn [fold_left]. destruct (IH (gl_add sc a)) as [H1 H2]. rewrite H1, H2.
  unfold gl_add. destruct (is_some (find_arg sc (a_id a))); split; reflexivity.
Qed.

Lemma gl_step_same : forall c sc,
  c_subs (gl_step c sc) = c_subs sc /\ c_gset (gl_step c sc) = c_gset sc.
Proof.
  intros c sc. unfold gl_step.
  destruct (beq (c_name sc) s_help && negb (is_set s_disable_help_sub c)); [split; reflexivity|].
  apply gl_fold_same.
Qed.

Lemma subs_set_subs : forall (c : cmd) l, c_subs (c <| c_subs := l |>) = l.
Proof. reflexivity. Qed.
Lemma c_subs_mark : forall x, c_subs (bs_mark x) = c_subs x. Proof. reflexivity. Qed.
Lemma c_subs_deprecated : forall x, c_subs (bs_deprecated x) = c_subs x. Proof. reflexivity. Qed.
Lemma c_subs_args : forall x, c_subs (bs_args x) = c_subs x. Proof. reflexivity. Qed.

(** * The subcommands of one built level *)
Lemma self_subs : forall c s, In s (c_subs (build_self_x c)) ->
  exists s0, c_subs s = c_subs s0 /\ c_gset s = c_gset s0 /\
    ((exists s1, In s1 (c_subs c) /\ s0 = propagate_subcommand (bs_settings c) s1)
     \/ (is_set s_disable_help_sub (bs_settings c) = false /\
         exists c', c_subs c' = map (propagate_subcommand (bs_settings c)) (c_subs c) /\
                    s0 = fix_help_unset (help_subcommand_x c'))).
Proof.
  intros c s H.
  unfold build_self_x in H. rewrite c_subs_mark, c_subs_deprecated, c_subs_args in H.
  rewrite globals_eq in H. apply in_map_iff in H. destruct H as [s0 [Hs0 Hin]].
  exists s0. rewrite <- Hs0.
  destruct (gl_step_same (bs_help_version_x (bs_propagate (bs_settings c))) s0) as [G1 G2].
  split; [exact G1|]. split; [exact G2|].
  clear G1 G2 Hs0.
  assert (Hsubs : c_subs (hv_args (bs_propagate (bs_settings c)))
                  = map (propagate_subcommand (bs_settings c)) (c_subs c)).
  { rewrite hv_args_subs, propagate_eq, settings_subs. reflexivity. }
  rewrite hvx_unfold in Hin.
  destruct (negb (is_set s_disable_help_sub (hv_args (bs_propagate (bs_settings c))))) eqn:E.
  - rewrite subs_set_subs in Hin. apply in_app_or in Hin. destruct Hin as [Hin|Hin].
    + left. rewrite Hsubs in Hin. apply in_map_iff in Hin. destruct Hin as [s1 [E1 Hin1]].
      exists s1. split; [exact Hin1|]. symmetry. exact E1.
    + right. split.
      * rewrite hv_args_is_set in E. apply negb_true_iff in E. exact E.
      * exists (hv_args (bs_propagate (bs_settings c))). split; [exact Hsubs|].
        destruct Hin as [Hin|[]]. symmetry. exact Hin.
  - left. rewrite Hsubs in Hin. apply in_map_iff in Hin. destruct Hin as [s1 [E1 Hin1]].
    exists s1. split; [exact Hin1|]. symmetry. exact E1.
Qed.

(** in general: an original subcommand (strictly less deep), or the help subcommand (not deeper,
    and with [DisableHelpSubcommand] global) *)
Lemma self_subs_any : forall c s, In s (c_subs (build_self_x c)) ->
  (depth s < depth c)%nat \/ (hd s = true /\ (depth s <= depth c)%nat).
Proof.
  intros c s H. destruct (self_subs c s H) as [s0 [Hs [Hg [[s1 [Hin E]]|[Hset [c' [Hc' E]]]]]]].
  - left. rewrite (depth_same_subs s s0 Hs). subst s0.
    rewrite (depth_same_subs _ s1 (prop_subs _ _)).
    apply in_maxd in Hin. rewrite (depth_eq c). lia.
  - right. split.
    + unfold hd. rewrite Hg. subst s0. apply help_hd.
    + rewrite (depth_same_subs s s0 Hs). subst s0.
      assert (Hne : c_subs c <> []).
      { intros Hnil. rewrite (settings_leaf c Hnil) in Hset. discriminate. }
      assert (Hne' : c_subs c' <> []).
      { rewrite Hc'. apply map_nonempty. exact Hne. }
      pose proof (help_depth c' Hne') as Hd.
      assert (Hle : (depth c' <= depth c)%nat).
      { rewrite (depth_eq c'), (depth_eq c), Hc'. apply le_n_S. apply maxd_map_le.
        intros x _. rewrite (depth_same_subs _ x (prop_subs _ _)). apply le_n. }
      lia.
Qed.

(** below a command with [DisableHelpSubcommand] global: only the original subcommands, which
    inherit the setting *)
Lemma self_subs_hd : forall c s, hd c = true -> In s (c_subs (build_self_x c)) ->
  hd s = true /\ (depth s < depth c)%nat.
Proof.
  intros c s Hc H. destruct (self_subs c s H) as [s0 [Hs [Hg [[s1 [Hin E]]|[Hset _]]]]].
  - split.
    + unfold hd. rewrite Hg. subst s0. fold (hd (propagate_subcommand (bs_settings c) s1)).
      rewrite prop_hd. unfold hd at 2. rewrite settings_gset. fold (hd c). rewrite Hc.
      apply orb_true_r.
    + rewrite (depth_same_subs s s0 Hs). subst s0.
      rewrite (depth_same_subs _ s1 (prop_subs _ _)).
      apply in_maxd in Hin. rewrite (depth_eq c). lia.
  - exfalso. rewrite hd_is_set in Hset; [discriminate|].
    unfold hd. rewrite settings_gset. exact Hc.
Qed.

(** * One level *)
Lemma build_list_no_fuel : forall rec l,
  (forall s, In s l -> rec s <> BFuel) -> build_list rec l <> None.
Proof.
  intros rec l. induction l as [|a t IH]; intros H.
  - cbn [build_list]. discriminate.
  - cbn [build_list]. fold (build_list rec t).
    assert (Ha : rec a <> BFuel) by (apply H; left; reflexivity).
    assert (Ht : build_list rec t <> None) by (apply IH; intros s Hs; apply H; right; exact Hs).
    destruct (rec a) as [a'| |]; [|discriminate|congruence].
    destruct (build_list rec t) as [[t'|]|]; [discriminate|discriminate|congruence].
Qed.

Lemma build_node_no_fuel : forall rec c,
  (forall s, In s (c_subs c) -> rec s <> BFuel) -> build_node rec c <> BFuel.
Proof.
  intros rec c H. unfold build_node.
  destruct (negb (assert_app c)); [discriminate|].
  pose proof (build_list_no_fuel rec (c_subs c) H) as Hl.
  destruct (build_list rec (c_subs c)) as [[subs|]|]; [discriminate|discriminate|congruence].
Qed.

(** * The fuel *)
Local Strategy 100 [build_node build_self_x assert_app].

(** inside the help tree: [depth] units are enough *)
Lemma build_full_enough_hd : forall f c,
  hd c = true -> (depth c <= f)%nat -> build_full f c <> BFuel.
Proof.
  induction f as [|f IH]; intros c Hc Hd.
  - pose proof (depth_pos c). lia.
  - cbn [build_full]. apply build_node_no_fuel. intros s Hin.
    destruct (self_subs_hd c s Hc Hin) as [Hs Hlt]. apply IH; [exact Hs|lia].
Qed.

Theorem build_full_enough : forall f c, (depth c + 1 <= f)%nat -> build_full f c <> BFuel.
Proof.
  induction f as [|f IH]; intros c Hd.
  - lia.
  - cbn [build_full]. apply build_node_no_fuel. intros s Hin.
    destruct (self_subs_any c s Hin) as [Hlt|[Hs Hle]].
    + apply IH. lia.
    + apply build_full_enough_hd; [exact Hs|lia].
Qed.

Theorem build_no_fuel : forall c, build_full (build_fuel c) c <> BFuel.
Proof. intros c. apply build_full_enough. unfold build_fuel. lia. Qed.

Theorem model_no_fuel : forall tbl c args i, complete_model tbl c args i <> CFuel.
Proof.
  intros tbl c args i. unfold complete_model.
  pose proof (build_no_fuel c) as Hb.
  destruct (build_full (build_fuel c) c) as [b| |] eqn:E.
  - apply (built_no_fuel tbl (build_fuel c) c b args i E).
  - discriminate.
  - congruence.
Qed.

(** * Non-vacuity and tightness *)
Definition ex_leaf : cmd := cmd_new [99].
Definition ex_mid : cmd := (cmd_new [98]) <| c_subs := [ex_leaf] |>.
Definition ex_top : cmd := (cmd_new [97]) <| c_subs := [ex_mid; cmd_new [100]] |>.

(** a command with two levels of subcommands is built *)
Example build_fuel_ok : exists b, build_full (build_fuel ex_top) ex_top = BOk b.
Proof. vm_compute. eexists. reflexivity. Qed.

Example ex_depths : (depth ex_top, depth ex_mid, depth ex_leaf) = (3, 2, 1)%nat.
Proof. reflexivity. Qed.

(** [depth c + 1] in [build_full_enough] cannot be lowered to [depth c]: the help subcommand of a
    command with subcommands is as deep as the command itself *)
Example fuel_bound_tight :
  build_full (depth ex_mid) ex_mid = BFuel /\ build_full (depth ex_top) ex_top = BFuel
  /\ build_full 1 ex_mid = BFuel.
Proof. vm_compute. repeat split. Qed.

Example fuel_bound_reached :
  (exists b, build_full (depth ex_mid + 1) ex_mid = BOk b)
  /\ (exists b, build_full (depth ex_top + 1) ex_top = BOk b).
Proof. vm_compute. split; eexists; reflexivity. Qed.

Print Assumptions build_no_fuel.
Print Assumptions model_no_fuel.
