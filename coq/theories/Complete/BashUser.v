(** C16 (bash) for the tree the user wrote.  [bash_table_spec] / [bash_complete_spec] assume [linked] and [mangle_safe] of the
    BUILT tree.  [linked] is what [build] establishes ([BuildLinked.build_linked]): it is no hypothesis of
    [bash_generate_table].  Of [mangle_safe], the name conditions and sibling distinctness are carried over from the user's
    tree ([BuildSkeleton]); the injectivity of the mangled function names ([ms_inj]) is proved for the class of trees whose
    subcommand names contain no hyphen ([bash_name]: then [mangle] is the identity on them and the joined path splits back):
    [bash_generate_table_plain] has hypotheses on the user's tree only. *)
From ClapModel Require Import Base.Bytes Complete.AotTree Complete.BashModel Complete.AotProofs Complete.BashProofs
  Complete.BuildTexts Complete.BuildLinked Complete.BuildSkeleton.
From Coq Require Import String Lia.
Open Scope N_scope.
Open Scope list_scope.

(** [generate] on a user tree: the table exists, the script is its rendering, and every path of the built tree is served *)
Theorem bash_generate_table c bin b :
  nb c = true -> build (set_bin_name c bin) = Some b -> mangle_safe b bin ->
  exists t, bash_table b = Some t /\ generate_bash c bin = Some (render t) /\
    forall w0 ws ns n, reach b ws ns n ->
      fold_left (step (k_label (t_root t)) w0 (t_trans t)) (w0 :: ws) [] = fn_of (mangle bin) ns /\
      exists k, lookup_case t (fn_of (mangle bin) ns) = Some k /\
                opts_tokens n = Some (k_opts k) /\ k_details k = option_details n /\
                k_level k = N.of_nat (S (List.length ws)).
Proof.
  intros Hnb Hb Hm. destruct (build_linked c bin b Hnb (ms_root_ne _ _ Hm) Hb) as [Hbin Hl].
  destruct (bash_table_spec b bin Hbin Hl Hm) as (t & Ht & H). exists t. split; [exact Ht|]. split; [|exact H].
  unfold generate_bash. rewrite Hb, Ht. reflexivity.
Qed.

(** ---- names without a hyphen: the mangled function names determine the node ---- *)
Definition no_hyphen (s : bytes) : bool := negb (existsb (N.eqb 45) s).
Definition bash_name (s : bytes) : bool := dd_safe s && no_hyphen s.

Lemma mangle_id s : no_hyphen s = true -> mangle s = s.
Proof.
  unfold no_hyphen, mangle, replace_byte. induction s as [|x s IH]; intros H; [reflexivity|].
  cbn [existsb] in H. apply negb_true_iff, orb_false_iff in H. destruct H as [H1 H2].
  cbn [flat_map]. rewrite N.eqb_sym in H1. rewrite H1. cbn [app]. f_equal. apply IH. apply negb_true_iff. exact H2.
Qed.

Lemma fn_of_plain r ns : Forall (fun x => bash_name x = true) ns -> fn_of r ns = r ++ join_with dd ns.
Proof.
  intros H. unfold fn_of, join_with. f_equal. f_equal. apply map_ext_in. intros x Hx.
  rewrite Forall_forall in H. specialize (H x Hx). apply andb_true_iff in H. rewrite (mangle_id x (proj2 H)). reflexivity.
Qed.

Lemma join_dd_inj ns1 ns2 :
  Forall (fun x => dd_safe x = true) ns1 -> Forall (fun x => dd_safe x = true) ns2 ->
  join_with dd ns1 = join_with dd ns2 -> ns1 = ns2.
Proof.
  intros H1 H2 E.
  pose proof (split_dd_path ns1 [] eq_refl H1) as S1. pose proof (split_dd_path ns2 [] eq_refl H2) as S2.
  cbn [app] in S1, S2. rewrite E in S1. rewrite S1 in S2. inversion S2. reflexivity.
Qed.

Lemma reach_names_ok Q c ws ns n : reach c ws ns n -> names_ok Q c -> Forall (fun x => Q x = true) ns.
Proof.
  induction 1 as [c|c sc w ws ns n Hin Hw Hr IH]; intros Hs; constructor.
  - apply Hs. apply desc_child; exact Hin.
  - apply IH. intros m Hm. apply Hs. eapply desc_step; eauto.
Qed.

Lemma node_at_names r c f n : node_at r c f n -> exists ns, f = fn_of r ns /\ reach c ns ns n.
Proof.
  induction 1 as [r c|r c sc f n Hin Hn IH].
  - exists []. split; [symmetry; apply fn_of_nil|apply reach_nil].
  - destruct IH as (ns & -> & Hr). exists (c_name sc :: ns). split; [symmetry; apply fn_of_cons|].
    eapply reach_cons; [exact Hin|left; reflexivity|exact Hr].
Qed.

Lemma Forall_impl' {A} (P Q : A -> Prop) l : (forall a, P a -> Q a) -> Forall P l -> Forall Q l.
Proof. intros H. induction 1; constructor; auto. Qed.

Theorem ms_inj_plain c r :
  siblings_ok c -> names_ok bash_name c ->
  forall f n1 n2, node_at r c f n1 -> node_at r c f n2 -> n1 = n2.
Proof.
  intros Hs Hn f n1 n2 H1 H2.
  destruct (node_at_names _ _ _ _ H1) as (ns1 & E1 & R1). destruct (node_at_names _ _ _ _ H2) as (ns2 & E2 & R2).
  pose proof (reach_names_ok _ _ _ _ _ R1 Hn) as P1. pose proof (reach_names_ok _ _ _ _ _ R2 Hn) as P2.
  rewrite (fn_of_plain r ns1 P1) in E1. rewrite (fn_of_plain r ns2 P2) in E2. rewrite E1 in E2.
  apply app_inv_head in E2.
  assert (Hdd : forall x, bash_name x = true -> dd_safe x = true) by (intros x Hx; apply andb_true_iff in Hx; tauto).
  apply join_dd_inj in E2; [|exact (Forall_impl' _ _ _ Hdd P1)|exact (Forall_impl' _ _ _ Hdd P2)]. subst ns2.
  pose proof (find_path_reach _ _ _ _ R1 Hs) as F1. pose proof (find_path_reach _ _ _ _ R2 Hs) as F2. congruence.
Qed.

(** [mangle_safe] of the built tree from the user's tree *)
Theorem build_mangle_safe c bin b :
  build (set_bin_name c bin) = Some b -> dd_safe bin = true -> bin <> [] ->
  siblings_ok c -> help_free false c = true -> names_ok dd_safe c ->
  (forall f n1 n2, node_at (mangle bin) b f n1 -> node_at (mangle bin) b f n2 -> n1 = n2) ->
  mangle_safe b bin.
Proof.
  intros Hb Hs Hne Hsib Hhf Hn Hinj. constructor; [exact Hs|exact Hne| | |exact Hinj].
  - exact (build_names dd_safe c bin b eq_refl Hb Hn).
  - exact (build_siblings_ok c bin b Hb Hsib Hhf).
Qed.

Theorem build_mangle_safe_plain c bin b :
  build (set_bin_name c bin) = Some b -> dd_safe bin = true -> bin <> [] ->
  siblings_ok c -> help_free false c = true -> names_ok bash_name c -> mangle_safe b bin.
Proof.
  intros Hb Hs Hne Hsib Hhf Hn.
  pose proof (build_siblings_ok c bin b Hb Hsib Hhf) as Hsb.
  pose proof (build_names bash_name c bin b eq_refl Hb Hn) as Hnb.
  constructor; [exact Hs|exact Hne| |exact Hsb|exact (ms_inj_plain b (mangle bin) Hsb Hnb)].
  intros n Hd. specialize (Hnb n Hd). apply andb_true_iff in Hnb. tauto.
Qed.

(** hypotheses on the USER's tree only *)
Theorem bash_generate_table_plain c bin :
  nb c = true -> dd_safe bin = true -> bin <> [] -> siblings_ok c -> help_free false c = true -> names_ok bash_name c ->
  exists b t, build (set_bin_name c bin) = Some b /\ bash_table b = Some t /\ generate_bash c bin = Some (render t) /\
    forall w0 ws ns n, reach b ws ns n ->
      fold_left (step (k_label (t_root t)) w0 (t_trans t)) (w0 :: ws) [] = fn_of (mangle bin) ns /\
      exists k, lookup_case t (fn_of (mangle bin) ns) = Some k /\
                opts_tokens n = Some (k_opts k) /\ k_details k = option_details n /\
                k_level k = N.of_nat (S (List.length ws)).
Proof.
  intros Hnb Hs Hne Hsib Hhf Hn.
  destruct (build (set_bin_name c bin)) as [b|] eqn:Hb; [|exfalso; exact (build_total _ Hb)].
  pose proof (build_mangle_safe_plain c bin b Hb Hs Hne Hsib Hhf Hn) as Hm.
  destruct (bash_generate_table c bin b Hnb Hb Hm) as (t & H1 & H2 & H3). exists b, t. auto.
Qed.

(** satisfiable: a user tree with an alias, two levels and an option; the built tree has the generated [help] tree *)
Definition bu_leaf : cmd := mkCmd (lit "x") [] [] [] None false false sets0 sets0.
Definition bu_add : cmd :=
  mkCmd (lit "add") [(lit "a", true); (lit "hidden", false)]
        [mkArg (lit "color") (Some (lit "c")) (Some (lit "color")) [] [] ASet None None None false false false]
        [bu_leaf] None false false sets0 sets0.
Definition bu_root : cmd := mkCmd (lit "p") [] [] [bu_add; mkCmd (lit "add_all") [] [] [] None false false sets0 sets0] None false false sets0 sets0.
Example bash_generate_table_plain_hyps :
  nb bu_root = true /\ dd_safe (lit "my-prog") = true /\ lit "my-prog" <> [] /\ siblings_ok bu_root /\
  help_free false bu_root = true /\ names_ok bash_name bu_root /\
  exists b n, build (set_bin_name bu_root (lit "my-prog")) = Some b /\
    reach b [lit "help"; lit "add"; lit "x"] [lit "help"; lit "add"; lit "x"] n.
Proof.
  split; [reflexivity|]. split; [reflexivity|]. split; [discriminate|]. split; [apply siblings_okb_sound; reflexivity|].
  split; [reflexivity|]. split; [apply names_okb_sound; reflexivity|].
  destruct (build (set_bin_name bu_root (lit "my-prog"))) as [b|] eqn:E; [|exfalso; exact (build_total _ E)].
  vm_compute in E. inversion E; subst b; clear E. eexists _, _. split; [reflexivity|].
  assert (R : forall c sc w ws nm ns n, In sc (c_subs c) -> In w (sc_words sc) -> c_name sc = nm -> reach sc ws ns n ->
                reach c (w :: ws) (nm :: ns) n) by (intros c sc w ws nm ns n H1 H2 <- H3; eapply reach_cons; eauto).
  eapply R; [right; right; left; reflexivity|left; reflexivity|reflexivity|].
  eapply R; [left; reflexivity|left; reflexivity|reflexivity|].
  eapply R; [left; reflexivity|left; reflexivity|reflexivity|apply reach_nil].
Qed.
