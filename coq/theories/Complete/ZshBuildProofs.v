(** C16 (zsh) at the level of the command tree the user wrote: [generate_zsh c d bin] = [set_bin_name] + [Command::build]
    + the generator.  When no subcommand of the user's tree carries an explicit bin name ([binless]: nothing in the spec
    formats sets one) and the bin name given to [generate] is not empty, [build] yields a [linked] tree
    ([_build_bin_names_internal] gives every subcommand "parent's bin name, a space, its name"), so [zsh_total] applies:
    the generator writes a script for EVERY such tree. *)
From ClapModel Require Import Base.Bytes Complete.AotTree Complete.AotProofs Complete.BashModel Complete.BashProofs.
From ClapModel Require Import Complete.FishModel Complete.BuildTexts Complete.ZshModel Complete.ZshProofs.
From Coq Require Import String Lia.
Open Scope N_scope.
Open Scope list_scope.

(** no proper descendant carries a bin name *)
Fixpoint binless (c : cmd) : bool :=
  match c with
  | mkCmd _ _ _ subs _ _ _ _ _ => forallb (fun s => negb (is_some (c_bin s)) && binless s) subs
  end.
Definition unnamed (sc : cmd) : Prop := c_bin sc = None /\ binless sc = true.

Lemma binless_iff c : binless c = true <-> forall sc, In sc (c_subs c) -> unnamed sc.
Proof.
  destruct c as [n al args subs bin h v s g]. cbn [binless c_subs]. rewrite forallb_forall. unfold unnamed. split.
  - intros H sc Hin. specialize (H sc Hin). apply andb_true_iff in H. destruct H as [H1 H2].
    split; [|exact H2]. destruct (c_bin sc); [discriminate|reflexivity].
  - intros H sc Hin. destruct (H sc Hin) as [H1 H2]. rewrite H1, H2. reflexivity.
Qed.

Lemma binless_with_sets c s g : binless (with_sets c s g) = binless c. Proof. destruct c; reflexivity. Qed.
Lemma binless_with_args c l : binless (with_args c l) = binless c. Proof. destruct c; reflexivity. Qed.
Lemma binless_with_version c v : binless (with_version c v) = binless c. Proof. destruct c; reflexivity. Qed.
Lemma binless_with_bin c b : binless (with_bin c b) = binless c. Proof. destruct c; reflexivity. Qed.
Lemma bin_with_version c v : c_bin (with_version c v) = c_bin c. Proof. destruct c; reflexivity. Qed.

Lemma unnamed_with_args sc l : unnamed sc -> unnamed (with_args sc l).
Proof. intros [H1 H2]. split; [rewrite bin_with_args; exact H1|rewrite binless_with_args; exact H2]. Qed.
Lemma unnamed_with_sets sc s g : unnamed sc -> unnamed (with_sets sc s g).
Proof. intros [H1 H2]. split; [rewrite bin_with_sets; exact H1|rewrite binless_with_sets; exact H2]. Qed.
Lemma unnamed_with_version sc v : unnamed sc -> unnamed (with_version sc v).
Proof. intros [H1 H2]. split; [rewrite bin_with_version; exact H1|rewrite binless_with_version; exact H2]. Qed.

Lemma unnamed_propagate p sc : unnamed sc -> unnamed (propagate_subcommand p sc).
Proof.
  intros H. unfold propagate_subcommand. apply unnamed_with_sets.
  destruct (s_pver (c_set p) && c_version p); [apply unnamed_with_version|]; exact H.
Qed.

Lemma unnamed_copy : forall c, unnamed (copy_subtree_for_help c).
Proof.
  induction c as [n al args subs bin h v s g IH] using cmd_ind'. cbn [copy_subtree_for_help].
  split; [reflexivity|]. apply binless_iff. cbn [c_subs]. intros sc Hin. apply in_map_iff in Hin.
  destruct Hin as (x & <- & Hx). rewrite Forall_forall in IH. apply IH. exact Hx.
Qed.

Lemma unnamed_help_subcommand p : unnamed (help_subcommand p).
Proof.
  unfold help_subcommand. apply unnamed_with_sets, unnamed_with_version, unnamed_propagate.
  split; [reflexivity|]. apply binless_iff. cbn [c_subs]. intros sc Hin. apply in_app_or in Hin. destruct Hin as [Hin|[<-|[]]].
  - apply in_map_iff in Hin. destruct Hin as (x & <- & _). apply unnamed_copy.
  - split; reflexivity.
Qed.

Lemma unnamed_add_globals gl sc : unnamed sc -> unnamed (add_globals gl sc).
Proof. apply add_globals_inv. intros x l. apply unnamed_with_args. Qed.

Lemma build_self_binless c : binless c = true -> binless (build_self c) = true.
Proof.
  intros H. apply binless_iff. intros sc Hin.
  unfold build_self, bs_globals in Hin. set (x := bs_help_version _) in Hin. rewrite subs_with_subs in Hin.
  apply in_map_iff in Hin. destruct Hin as (y & <- & Hy).
  assert (Hu : unnamed y).
  { unfold x in Hy. rewrite help_version_subs in Hy.
    assert (Hp : forall z, In z (c_subs (bs_propagate (bs_settings c))) -> unnamed z).
    { intros z Hz. rewrite propagate_subs in Hz. apply in_map_iff in Hz. destruct Hz as (w & <- & Hw).
      apply unnamed_propagate. apply (proj1 (binless_iff c) H w Hw). }
    destruct (negb (is_set s_dhs (bs_propagate (bs_settings c)))); [|apply Hp; exact Hy].
    apply in_app_or in Hy. destruct Hy as [Hy|[<-|[]]]; [apply Hp; exact Hy|apply unnamed_help_subcommand]. }
  destruct (beq (c_name y) (lit "help") && negb (is_set s_dhs x)); [exact Hu|].
  apply (unnamed_add_globals (filter a_global (c_args x)) y Hu).
Qed.

Lemma build_recursive_binless : forall fuel c b,
  build_recursive fuel c = Some b -> binless c = true -> binless b = true /\ c_bin b = c_bin c.
Proof.
  induction fuel as [|f IH]; intros c b H Hb; [discriminate|]. cbn [build_recursive] in H.
  destruct (map_opt (build_recursive f) (c_subs (build_self c))) as [subs|] eqn:E; [|discriminate].
  inversion H; subst b; clear H. split; [|rewrite bin_with_subs; apply bin_build_self].
  apply binless_iff. rewrite subs_with_subs. intros sc Hin.
  apply map_opt_Forall2 in E.
  assert (Hex : exists x, In x (c_subs (build_self c)) /\ build_recursive f x = Some sc).
  { clear -E Hin. induction E as [|x y l r Hxy Hrest IHE]; [destruct Hin|].
    destruct Hin as [->|Hin]; [exists x; split; [left; reflexivity|exact Hxy]|].
    destruct (IHE Hin) as (z & Hz & Hr). exists z. split; [right; exact Hz|exact Hr]. }
  destruct Hex as (x & Hx & Hr).
  destruct (proj1 (binless_iff _) (build_self_binless c Hb) x Hx) as [Hx1 Hx2].
  destruct (IH x sc Hr Hx2) as [H1 H2]. split; [rewrite H2; exact Hx1|exact H1].
Qed.

(** [_build_bin_names_internal] on a tree whose descendants carry no bin name *)
Lemma assign_bins_linked : forall c inh,
  binless c = true ->
  match c_bin c with Some b => b <> [] | None => exists ib, inh = Some ib /\ ib <> [] end ->
  linked (assign_bins inh c).
Proof.
  induction c as [n al args subs bin h v s g IH] using cmd_ind'. intros inh Hb Hne.
  set (c := mkCmd n al args subs bin h v s g) in *.
  assert (Hself : exists sb, c_bin (assign_bins inh c) = Some sb /\ sb <> [] /\
            c_subs (assign_bins inh c) = map (fun sc => assign_bins (Some (sb ++ lit " " ++ c_name sc)) sc) subs).
  { cbn [c assign_bins c_bin c_subs]. cbn [c c_bin] in Hne. destruct bin as [b|].
    - exists b. split; [reflexivity|]. split; [exact Hne|]. apply map_ext. intros sc.
      destruct b; [contradiction|reflexivity].
    - destruct Hne as (ib & -> & Hib). exists ib. split; [reflexivity|]. split; [exact Hib|]. apply map_ext. intros sc.
      destruct ib; [contradiction|reflexivity]. }
  destruct Hself as (sb & Esb & Hsb & Esubs).
  rewrite Forall_forall in IH.
  assert (Hchild : forall sc0, In sc0 subs ->
            linked (assign_bins (Some (sb ++ lit " " ++ c_name sc0)) sc0) /\
            c_bin (assign_bins (Some (sb ++ lit " " ++ c_name sc0)) sc0) = Some (sb ++ [32] ++ c_name sc0) /\
            c_name (assign_bins (Some (sb ++ lit " " ++ c_name sc0)) sc0) = c_name sc0).
  { intros sc0 Hin. destruct (proj1 (binless_iff c) Hb sc0 Hin) as [H1 H2]. split; [|split].
    - apply IH; [exact Hin|exact H2|]. rewrite H1. eexists; split; [reflexivity|]. destruct sb; [contradiction|discriminate].
    - rewrite assign_bins_bin, H1. reflexivity.
    - destruct sc0; reflexivity. }
  intros p sc Hp Hin. destruct Hp as [->|Hd].
  - rewrite Esubs in Hin. apply in_map_iff in Hin. destruct Hin as (sc0 & <- & Hin0).
    destruct (Hchild sc0 Hin0) as (_ & Hbin & Hname). exists sb. split; [exact Esb|]. rewrite Hbin, Hname. reflexivity.
  - inversion Hd as [c0 x Hx|c0 x p0 Hx Hd']; subst.
    + rewrite Esubs in Hx. apply in_map_iff in Hx. destruct Hx as (sc0 & <- & Hin0).
      destruct (Hchild sc0 Hin0) as (Hl & _ & _). apply (Hl _ sc (or_introl eq_refl) Hin).
    + rewrite Esubs in Hx. apply in_map_iff in Hx. destruct Hx as (sc0 & <- & Hin0).
      destruct (Hchild sc0 Hin0) as (Hl & _ & _). apply (Hl p sc (or_intror Hd') Hin).
Qed.

(** [Command::build] on a user tree without explicit bin names below the root yields a linked tree with the bin name *)
Theorem build_linked c bin b :
  binless c = true -> bin <> [] -> build (set_bin_name c bin) = Some b -> c_bin b = Some bin /\ linked b.
Proof.
  intros Hb Hne H. split; [exact (build_root_bin c bin b H)|].
  unfold build in H. destruct (build_recursive _ _) as [c'|] eqn:E; [|discriminate].
  inversion H; subst b. unfold build_bin_names.
  destruct (build_recursive_binless _ _ _ E) as [H1 H2]; [unfold set_bin_name; rewrite binless_with_bin; exact Hb|].
  apply assign_bins_linked; [exact H1|]. rewrite H2. destruct c; cbn. exact Hne.
Qed.

(** C16 (zsh), generate: for EVERY command tree without explicit bin names on subcommands, every assignment of texts and
    every non-empty bin name, [clap_complete::aot::generate(Zsh, ..)] writes a script: [build] does not run out of fuel,
    no [expect] of the generator fires, the recursion through the lookup by bin name ends *)
Theorem generate_zsh_total bl c d bin :
  binless c = true -> bin <> [] -> exists s, generate_zsh bl c d bin = Some s.
Proof.
  intros Hb Hne. unfold generate_zsh.
  destruct (build (set_bin_name c bin)) as [b|] eqn:E; [|exfalso; exact (build_total _ E)].
  destruct (build_linked c bin b Hb Hne E) as [H1 H2]. exact (zsh_total bl b _ bin H1 H2).
Qed.

Theorem generate_zsh_is_built bl c d bin b :
  build (set_bin_name c bin) = Some b -> generate_zsh bl c d bin = zsh_script bl b (dbuild (set_bin_name c bin) d).
Proof. intros H. unfold generate_zsh. rewrite H. reflexivity. Qed.

Example generate_zsh_total_example :
  binless (mkCmd (lit "p") [] [] [mkCmd (lit "add") [] [] [] None false false sets0 sets0;
                                  mkCmd (lit "add-all") [] [] [] None false false sets0 sets0] None false false sets0 sets0) = true.
Proof. reflexivity. Qed.
