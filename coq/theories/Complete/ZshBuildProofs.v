(** C16 (zsh) at the level of the command tree the user wrote: [generate_zsh c d bin] = [set_bin_name] + [Command::build]
    + the generator.  When no subcommand of the user's tree carries an explicit bin name ([BuildLinked.nb]: nothing in the
    spec formats sets one) and the bin name given to [generate] is not empty, [build] yields a [linked] tree
    ([BuildLinked.build_linked]), so [zsh_total] applies: the generator writes a script for EVERY such tree.
    Round 3: the class [zsh_ok] of the exact-lookup, dispatch and coverage theorems is established by [build] from
    conditions on the USER's tree ([build_zsh_ok]; the names of the built tree are [BuildSkeleton.bskel] of the user's). *)
From ClapModel Require Import Base.Bytes Complete.AotTree Complete.AotProofs Complete.BashModel Complete.BashProofs.
From ClapModel Require Import Complete.FishModel Complete.BuildTexts Complete.ZshModel Complete.ZshProofs.
From ClapModel Require Import Complete.BuildLinked Complete.BuildSkeleton Complete.NushellLexProofs.
From Coq Require Import String Lia.
Open Scope N_scope.
Open Scope list_scope.

(** C16 (zsh), generate: for EVERY command tree without explicit bin names on subcommands, every assignment of texts and
    every non-empty bin name, [clap_complete::aot::generate(Zsh, ..)] writes a script: [build] does not run out of fuel,
    no [expect] of the generator fires, the recursion through the lookup by bin name ends *)
(** round 4: ... and no [arg_conflicts] call panics.  Two classes: trees whose conflicts resolve on the BUILT tree
    ([generate_zsh_total_resolved]; the local boolean class [ZshProofs.conflicts_local] at every node of the built tree
    gives it, [ZshProofs.zsh_ok_local]), and -- on the USER's tree -- trees without any [conflicts_with]
    ([args_all no_bl]: kept by [build], the generated arguments have none) *)
Definition no_bl (a : arg) : bool := is_nil (a_blacklist a).
Lemma aa_desc P c n : args_all P c = true -> desc c n -> args_all P n = true.
Proof.
  intros H Hd. induction Hd as [c sc Hin|c sc m Hin Hd IH].
  - eapply aa_subs; eassumption.
  - apply IH. eapply aa_subs; eassumption.
Qed.
Lemma aa_nobl b : args_all no_bl b = true -> nobl b.
Proof.
  intros H n Hn a Ha.
  assert (Hn' : args_all no_bl n = true) by (destruct Hn as [->|Hd]; [exact H|eapply aa_desc; eassumption]).
  pose proof (aa_args no_bl n Hn') as Hargs. rewrite forallb_forall in Hargs. specialize (Hargs a Ha).
  unfold no_bl in Hargs. destruct (a_blacklist a); [reflexivity|discriminate].
Qed.
Theorem build_nobl c bin b : build (set_bin_name c bin) = Some b -> args_all no_bl c = true -> nobl b.
Proof. intros Hb Hc. apply aa_nobl. apply (aa_build no_bl eq_refl eq_refl _ b Hb). apply aa_with_bin. exact Hc. Qed.

Theorem generate_zsh_total_resolved c d bin :
  nb c = true -> bin <> [] ->
  (forall b, build (set_bin_name c bin) = Some b -> conflicts_resolve b None = true /\ cres_below b) ->
  exists s, generate_zsh c d bin = Some s.
Proof.
  intros Hb Hne Hcr. unfold generate_zsh.
  destruct (build (set_bin_name c bin)) as [b|] eqn:E; [|exfalso; exact (build_total _ E)].
  destruct (build_linked c bin b Hb Hne E) as [H1 H2]. destruct (Hcr b eq_refl) as [H3 H4].
  exact (zsh_total b _ bin H1 H2 H3 H4).
Qed.
Theorem generate_zsh_total c d bin :
  nb c = true -> bin <> [] -> args_all no_bl c = true -> exists s, generate_zsh c d bin = Some s.
Proof.
  intros Hb Hne Hnb. apply generate_zsh_total_resolved; [exact Hb|exact Hne|].
  intros b E. apply nobl_cres. exact (build_nobl c bin b E Hnb).
Qed.

Theorem generate_zsh_is_built c d bin b :
  build (set_bin_name c bin) = Some b -> generate_zsh c d bin = zsh_script b (dbuild (set_bin_name c bin) d).
Proof. intros H. unfold generate_zsh. rewrite H. reflexivity. Qed.

Example generate_zsh_total_example :
  nb (mkCmd (lit "p") [] [] [mkCmd (lit "add") [] [] [] None false false sets0 sets0;
                             mkCmd (lit "add-all") [] [] [] None false false sets0 sets0] None false false sets0 sets0) = true.
Proof. reflexivity. Qed.

(** ---- the class [zsh_ok] from the user's tree ---- *)
Definition no_blank (s : bytes) : bool := negb (existsb (N.eqb 32) s).

Lemma no_blank_iff s : no_blank s = true <-> ~ In 32 s.
Proof.
  unfold no_blank. rewrite negb_true_iff. split.
  - intros H Hin. assert (E : existsb (N.eqb 32) s = true); [|congruence].
    apply existsb_exists. exists 32. split; [exact Hin|reflexivity].
  - intros H. destruct (existsb (N.eqb 32) s) eqn:E; [|reflexivity]. exfalso. apply H.
    apply existsb_exists in E. destruct E as (x & Hx & Ex). apply N.eqb_eq in Ex. subst x. exact Hx.
Qed.

Lemma nospace_names c : nospace c <-> names_ok no_blank c.
Proof. unfold nospace, names_ok. split; intros H n Hn; apply no_blank_iff, H, Hn. Qed.

Lemma siblings_ok_names c : siblings_ok c -> sibling_names c.
Proof. intros H p Hp. apply nodup_names. exact (H p Hp). Qed.

(** [Command::build] takes a user tree with distinct sibling names and aliases, no blank in a subcommand name, no explicit
    bin names and no subcommand called [help] where clap generates one into the class of the zsh theorems *)
Theorem build_zsh_ok_resolved c bin b :
  nb c = true -> bin <> [] -> nospace c -> siblings_ok c -> help_free false c = true ->
  build (set_bin_name c bin) = Some b -> conflicts_resolve b None = true -> cres_below b -> zsh_ok b bin.
Proof.
  intros Hnb Hne Hsp Hsib Hhf Hb Hc0 Hcr. destruct (build_linked c bin b Hnb Hne Hb) as [H1 H2].
  constructor; [exact H1|exact H2| | |exact Hc0|exact Hcr].
  - apply nospace_names. apply (build_names no_blank c bin b eq_refl Hb). apply nospace_names. exact Hsp.
  - apply siblings_ok_names. exact (build_siblings_ok c bin b Hb Hsib Hhf).
Qed.
Theorem build_zsh_ok c bin b :
  nb c = true -> bin <> [] -> nospace c -> siblings_ok c -> help_free false c = true -> args_all no_bl c = true ->
  build (set_bin_name c bin) = Some b -> zsh_ok b bin.
Proof.
  intros Hnb Hne Hsp Hsib Hhf Hbl Hb. destruct (nobl_cres b (build_nobl c bin b Hb Hbl)) as [Hc0 Hcr].
  exact (build_zsh_ok_resolved c bin b Hnb Hne Hsp Hsib Hhf Hb Hc0 Hcr).
Qed.

(** [generate] as a whole: the file it writes is the file of a tree in the class, so the theorems about [zsh_ok] trees
    (exact lookup, one arm per path at every depth, the [_commands] functions, coverage) speak about it *)
Theorem generate_zsh_ok c d bin :
  nb c = true -> bin <> [] -> nospace c -> siblings_ok c -> help_free false c = true -> args_all no_bl c = true ->
  exists b s, build (set_bin_name c bin) = Some b /\ zsh_ok b bin /\
              generate_zsh c d bin = Some s /\ zsh_script b (dbuild (set_bin_name c bin) d) = Some s.
Proof.
  intros Hnb Hne Hsp Hsib Hhf Hbl.
  destruct (build (set_bin_name c bin)) as [b|] eqn:E; [|exfalso; exact (build_total _ E)].
  pose proof (build_zsh_ok c bin b Hnb Hne Hsp Hsib Hhf Hbl E) as Hok.
  destruct (zsh_total b (dbuild (set_bin_name c bin) d) bin (zo_bin _ _ Hok) (zo_linked _ _ Hok)
                      (zo_conflicts_root _ _ Hok) (zo_conflicts _ _ Hok)) as [s Hs].
  exists b, s. split; [reflexivity|]. split; [exact Hok|]. split; [|exact Hs].
  rewrite (generate_zsh_is_built c d bin b E). exact Hs.
Qed.

(** the hypotheses hold for the tree of [zsh_ok_example] as a user writes it (no bin names): siblings [add] / [add-all],
    a visible and a hidden alias, two levels; the built tree has the path [a x] through the alias and the generated
    [help add x] *)
Definition zx_user : cmd := strip_bins zx_root.
Lemma reach_cons' c sc w ws nm ns n :
  In sc (c_subs c) -> In w (sc_words sc) -> c_name sc = nm -> reach sc ws ns n -> reach c (w :: ws) (nm :: ns) n.
Proof. intros H1 H2 <- H3. eapply reach_cons; eauto. Qed.
Example generate_zsh_ok_example :
  nb zx_user = true /\ nospace zx_user /\ siblings_ok zx_user /\ help_free false zx_user = true /\
  args_all no_bl zx_user = true /\
  exists b n m, build (set_bin_name zx_user (lit "p")) = Some b /\
    reach b [lit "a"; lit "x"] [lit "add"; lit "x"] n /\ In zx_opt (c_args n) /\
    reach b [lit "help"; lit "add"; lit "x"] [lit "help"; lit "add"; lit "x"] m.
Proof.
  split; [reflexivity|]. split; [apply nospace_names, names_okb_sound; reflexivity|].
  split; [apply siblings_okb_sound; reflexivity|]. split; [reflexivity|]. split; [reflexivity|].
  destruct (build (set_bin_name zx_user (lit "p"))) as [b|] eqn:E; [|exfalso; exact (build_total _ E)].
  vm_compute in E. inversion E; subst b; clear E.
  eexists _, _, _. split; [reflexivity|]. split; [|split].
  - eapply reach_cons'; [left; reflexivity|right; left; reflexivity|reflexivity|].
    eapply reach_cons'; [left; reflexivity|left; reflexivity|reflexivity|apply reach_nil].
  - left; reflexivity.
  - eapply reach_cons'; [right; right; left; reflexivity|left; reflexivity|reflexivity|].
    eapply reach_cons'; [left; reflexivity|left; reflexivity|reflexivity|].
    eapply reach_cons'; [left; reflexivity|left; reflexivity|reflexivity|apply reach_nil].
Qed.
