(** C17 for the zsh generator model ([ZshModel.v]): whole-script structure invariance at the level of shell words.

    Every description slot of the file ([Zh]: help of an option or flag inside [...], about of a subcommand in a
    [_describe] item, tooltip of a possible value; [Zp]: help of a positional) is written inside a single-quoted
    word.  [zrun] threads the POSIX-word lexer of [ShellLex.v] ([sh_step]) through the pieces of the file and checks
    that every slot is met in state [ZSQ]; when it succeeds the per-slot theorems of [EscapeProofs.v]
    ([zsh_sq_context], [zsh_pos_sq_context]) compose: the token skeleton of the rendered file is that of the fixed
    text alone, the final state too, and the level-1 payload (what zsh hands to [_arguments] / [_describe]) is the
    fixed payload plus, per slot, the level-1 image of the text ([zrun_events]).  The fixed text does not depend on
    the texts ([zsh_pieces_erase]); for trees whose names are tame (no quote, backslash, hash) [zrun] succeeds on
    the file of every decoration ([zsh_file_runs]).  Together: [zsh_text_invariance]. *)
From ClapModel Require Import Base.Bytes Complete.AotTree Complete.AotProofs Complete.BashModel Complete.FishModel.
From ClapModel Require Import Complete.FishLexProofs Complete.ZshModel Complete.ZshProofs.
From ClapModel Require Import Gen.EscapeTables Escape.EscapeModel Escape.ShellLex Escape.EscapeProofs.
From Coq Require Import String Lia.
Open Scope N_scope.
Open Scope list_scope.

(** ---- the lexer threaded through the pieces ---- *)
Fixpoint zrun (st : zstate) (l : list zpiece) : option zstate :=
  match l with
  | [] => Some st
  | Zx b :: r => zrun (final sh_step st b) r
  | Zh _ :: r => match st with ZSQ => zrun ZSQ r | _ => None end
  | Zp _ :: r => match st with ZSQ => zrun ZSQ r | _ => None end
  end.

(** the token skeleton of the fixed text alone *)
Fixpoint zpskel (st : zstate) (l : list zpiece) : list ev :=
  match l with
  | [] => []
  | Zx b :: r => skeleton (events sh_step st b) ++ zpskel (final sh_step st b) r
  | _ :: r => zpskel st r
  end.

(** the level-1 payload, slot by slot *)
Fixpoint zplits (st : zstate) (l : list zpiece) : list N :=
  match l with
  | [] => []
  | Zx b :: r => lits (events sh_step st b) ++ zplits (final sh_step st b) r
  | Zh t :: r => zsh_l1 t ++ zplits st r
  | Zp t :: r => zsh_pos_l1 (lit " -- " ++ t) ++ zplits st r
  end.

Lemma zrun_app a : forall st b, zrun st (a ++ b) = match zrun st a with Some st' => zrun st' b | None => None end.
Proof.
  induction a as [|p a IH]; intros st b; [reflexivity|].
  destruct p as [x|t|t]; cbn [zrun app].
  - apply IH.
  - destruct st; try reflexivity. apply IH.
  - destruct st; try reflexivity. apply IH.
Qed.

Lemma zrender_cons p l : zrender (p :: l) = zrender1 p ++ zrender l.
Proof. reflexivity. Qed.

Theorem zrun_events l : forall st st', zrun st l = Some st' ->
  final sh_step st (zrender l) = st' /\
  skeleton (events sh_step st (zrender l)) = zpskel st l /\
  lits (events sh_step st (zrender l)) = zplits st l.
Proof.
  induction l as [|p l IH]; intros st st' H.
  - cbn in H. inversion H; subst. repeat split.
  - rewrite zrender_cons. destruct p as [b|t|t]; cbn [zrun zrender1 zpskel zplits] in *.
    + destruct (IH _ _ H) as (F & S & L).
      rewrite final_app, events_app, skeleton_app, lits_app, F, S, L. repeat split.
    + destruct st; try discriminate. destruct (IH _ _ H) as (F & S & L).
      destruct (zsh_sq_context t (zrender l)) as (F' & S' & L'). rewrite F', S', L', F, S, L. repeat split.
    + destruct st; try discriminate. destruct (IH _ _ H) as (F & S & L).
      destruct (zsh_pos_sq_context (lit " -- " ++ t) (zrender l)) as (F' & S' & L'). rewrite F', S', L', F, S, L. repeat split.
Qed.

(** erasing the texts changes neither [zrun] nor the skeleton of the fixed text *)
Definition zperase (p : zpiece) : zpiece :=
  match p with Zx b => Zx b | Zh _ => Zh [] | Zp _ => Zp [] end.

Lemma zrun_perase l : forall st, zrun st (map zperase l) = zrun st l.
Proof.
  induction l as [|p l IH]; intros st; [reflexivity|].
  destruct p as [b|t|t]; cbn [map zperase zrun]; [apply IH| |]; destruct st; try reflexivity; apply IH.
Qed.

Lemma zpskel_perase l : forall st, zpskel st (map zperase l) = zpskel st l.
Proof.
  induction l as [|p l IH]; intros st; [reflexivity|].
  destruct p as [b|t|t]; cbn [map zperase zpskel]; now rewrite IH.
Qed.

(** ---- the fixed text does not depend on the texts ---- *)
Lemma is_nil_map {A B} (f : A -> B) l : is_nil (map f l) = is_nil l.
Proof. destruct l; reflexivity. Qed.

Lemma zjoin_erase sep l :
  map zperase (zjoin sep l) = zjoin (map zperase sep) (map (map zperase) l).
Proof.
  induction l as [|x t IH]; [reflexivity|]. cbn [zjoin map]. destruct t as [|y t']; [reflexivity|].
  cbn [map] in *. rewrite !map_app, IH. reflexivity.
Qed.

Lemma znl_erase : map zperase znl = znl.
Proof. reflexivity. Qed.

Lemma text_or_default_erase o : text_or_default (erase_opt o) = [].
Proof. destruct o; reflexivity. Qed.

Lemma is_some_erase o : is_some (erase_opt o) = is_some o.
Proof. destruct o; reflexivity. Qed.

Lemma existsb_map {A B} (f : B -> bool) (g : A -> B) l : existsb f (map g l) = existsb (fun x => f (g x)) l.
Proof. induction l as [|a l IH]; [reflexivity|]. cbn [map existsb]. now rewrite IH. Qed.

Lemma filter_map_comm {A B} (f : B -> bool) (g : A -> B) l : filter f (map g l) = map g (filter (fun x => f (g x)) l).
Proof. induction l as [|a l IH]; [reflexivity|]. cbn [map filter]. destruct (f (g a)); cbn [map]; now rewrite IH. Qed.

Lemma existsb_ext' {A} (f g : A -> bool) l : (forall a, f a = g a) -> existsb f l = existsb g l.
Proof. intros H. induction l as [|a l IH]; [reflexivity|]. cbn [existsb]. now rewrite H, IH. Qed.

Definition option_map' {A B} (f : A -> B) (o : option A) : option B := match o with Some x => Some (f x) | None => None end.

Lemma zvalue_completion_erase a ad :
  zvalue_completion (a, erase_adesc ad) = option_map' (map zperase) (zvalue_completion (a, ad)).
Proof.
  unfold zvalue_completion. cbn [fst snd]. destruct (possible_values a) as [values|].
  - unfold erase_adesc. cbn [ad_pvh]. rewrite (zipd_map erase_opt None values eq_refl).
    rewrite existsb_map. cbn [fst snd].
    assert (E : forall l : list (pval * option bytes),
              existsb (fun x => pv_shown (fst x, erase_opt (snd x)) && is_some (erase_opt (snd x))) l =
              existsb (fun q => pv_shown q && is_some (snd q)) l).
    { intros l. apply existsb_ext'. intros [v h]. cbn [fst snd]. rewrite is_some_erase. reflexivity. }
    rewrite E. destruct (existsb _ _); cbn [option_map']; [|reflexivity].
    f_equal. rewrite !map_app, zjoin_erase, znl_erase. cbn [map zperase]. do 2 f_equal.
    rewrite filter_map_comm, !map_map. unfold pv_shown. cbn [fst]. f_equal. apply map_ext.
    intros [v h]. unfold tip_entry. cbn [map zperase fst snd]. rewrite text_or_default_erase. reflexivity.
  - destruct (zhint_completion (a_get_hint a)); reflexivity.
Qed.

Lemma concat_repeat_map {A B} (f : A -> B) (x : list A) n :
  map f (List.concat (repeat x n)) = List.concat (repeat (map f x) n).
Proof. induction n as [|n IH]; [reflexivity|]. cbn [repeat List.concat]. now rewrite map_app, IH. Qed.

Lemma opt_vc_erase a ad : opt_vc (a, erase_adesc ad) = map zperase (opt_vc (a, ad)).
Proof.
  unfold opt_vc. cbn [fst]. rewrite concat_repeat_map. f_equal. f_equal. rewrite zvalue_completion_erase.
  destruct (zvalue_completion (a, ad)); reflexivity.
Qed.

Lemma ad_help_erase ad : ad_help (erase_adesc ad) = erase_opt (ad_help ad).
Proof. reflexivity. Qed.

Lemma opt_lines_erase c g a ad : opt_lines c g (a, erase_adesc ad) = map (map zperase) (opt_lines c g (a, ad)).
Proof.
  unfold ZshModel.opt_lines. cbn [fst]. rewrite map_app. f_equal.
  - destruct (get_short_and_visible_aliases a); [|reflexivity]. rewrite map_map. apply map_ext. intros s.
    unfold ZshModel.opt_short_line. cbn [fst snd]. rewrite !map_app. cbn [map zperase].
    rewrite ad_help_erase, text_or_default_erase, opt_vc_erase. reflexivity.
  - destruct (get_long_and_visible_aliases a); [|reflexivity]. rewrite map_map. apply map_ext. intros s.
    unfold ZshModel.opt_long_line. cbn [fst snd]. rewrite !map_app. cbn [map zperase].
    rewrite ad_help_erase, text_or_default_erase, opt_vc_erase. reflexivity.
Qed.

Lemma zflag_line_erase c g a ad x y : zflag_line c g (a, erase_adesc ad) x y = map zperase (zflag_line c g (a, ad) x y).
Proof. unfold ZshModel.zflag_line. cbn [fst snd map zperase]. rewrite ad_help_erase, text_or_default_erase. reflexivity. Qed.

Lemma flag_lines_erase c g a ad : flag_lines c g (a, erase_adesc ad) = map (map zperase) (flag_lines c g (a, ad)).
Proof.
  rewrite !flag_lines_spellings. cbn [fst]. rewrite map_map. apply map_ext. intros x. apply zflag_line_erase.
Qed.

Lemma positional_line_erase card a ad :
  positional_line card (a, erase_adesc ad) = map zperase (positional_line card (a, ad)).
Proof.
  unfold positional_line. cbn [fst snd]. rewrite !map_app. cbn [map zperase]. rewrite ad_help_erase, zvalue_completion_erase.
  destruct (ad_help ad); destruct (zvalue_completion (a, ad)); reflexivity.
Qed.

Lemma positional_lines_erase hs : forall l ce,
  positional_lines hs ce (map (fun p : arg * adesc => (fst p, erase_adesc (snd p))) l) =
  map (map zperase) (positional_lines hs ce l).
Proof.
  induction l as [|[a ad] l IH]; intros ce; [reflexivity|].
  cbn [map positional_lines fst snd].
  destruct (ce && (arg_is_last a || (1 <? a_max_values a))); [apply IH|].
  destruct ((1 <? a_max_values a) && negb hs).
  - unfold arg_terminator. destruct (a_terminator a); cbn [map]; rewrite IH, positional_line_erase; reflexivity.
  - destruct (negb (a_required a)); cbn [map]; rewrite IH, positional_line_erase; reflexivity.
Qed.

Lemma zipd_args_erase c d :
  zipd ad0 (c_args c) (cd_args (erase_desc d)) =
  map (fun p : arg * adesc => (fst p, erase_adesc (snd p))) (zipd ad0 (c_args c) (cd_args d)).
Proof. rewrite erase_desc_args. apply (zipd_map erase_adesc ad0 (c_args c) erase_adesc_ad0). Qed.

Lemma zipd_subs_erase c d :
  zipd cd0 (c_subs c) (cd_subs (erase_desc d)) =
  map (fun p : cmd * cdesc => (fst p, erase_desc (snd p))) (zipd cd0 (c_subs c) (cd_subs d)).
Proof. rewrite erase_desc_subs. apply (zipd_map erase_desc cd0 (c_subs c) erase_desc_cd0). Qed.

Lemma write_opts_of_erase c d g : write_opts_of c (erase_desc d) g = map zperase (write_opts_of c d g).
Proof.
  unfold ZshModel.write_opts_of. rewrite zipd_args_erase, zjoin_erase, znl_erase. f_equal.
  unfold is_opt. rewrite (filter_map_fst (fun a => a_takes_values a && negb (a_is_positional a)) erase_adesc).
  rewrite flat_map_map, map_flat_map. apply flat_map_ext. intros [a ad]. apply opt_lines_erase.
Qed.

Lemma write_flags_of_erase c d g : write_flags_of c (erase_desc d) g = map zperase (write_flags_of c d g).
Proof.
  unfold ZshModel.write_flags_of. rewrite zipd_args_erase, zjoin_erase, znl_erase. f_equal.
  unfold is_flag. rewrite (filter_map_fst (fun a => negb (a_takes_values a) && negb (a_is_positional a)) erase_adesc).
  rewrite flat_map_map, map_flat_map. apply flat_map_ext. intros [a ad]. apply flag_lines_erase.
Qed.

Lemma write_positionals_of_erase c d : write_positionals_of c (erase_desc d) = map zperase (write_positionals_of c d).
Proof.
  unfold write_positionals_of. rewrite zipd_args_erase, zjoin_erase, znl_erase. f_equal.
  unfold is_pos. rewrite (filter_map_fst a_is_positional erase_adesc). apply positional_lines_erase.
Qed.

Lemma args_body_erase c d g : args_body c (erase_desc d) g = option_map' (map zperase) (args_body c d g).
Proof.
  unfold ZshModel.args_body. rewrite write_opts_of_erase, write_flags_of_erase, write_positionals_of_erase, !is_nil_map.
  assert (E : forall tl : list (list zpiece), map (map zperase) tl = tl ->
    zjoin znl (([args_header]
                 ++ (if negb (is_nil (write_opts_of c d g)) then [map zperase (write_opts_of c d g)] else [])
                 ++ (if negb (is_nil (write_flags_of c d g)) then [map zperase (write_flags_of c d g)] else [])
                 ++ (if negb (is_nil (write_positionals_of c d)) then [map zperase (write_positionals_of c d)] else []))
                ++ tl) =
    map zperase (zjoin znl (([args_header]
                 ++ (if negb (is_nil (write_opts_of c d g)) then [write_opts_of c d g] else [])
                 ++ (if negb (is_nil (write_flags_of c d g)) then [write_flags_of c d g] else [])
                 ++ (if negb (is_nil (write_positionals_of c d)) then [write_positionals_of c d] else []))
                ++ tl))).
  { intros tl Htl. rewrite zjoin_erase, znl_erase. f_equal. rewrite !map_app, Htl. cbn [map].
    destruct (negb (is_nil (write_opts_of c d g))), (negb (is_nil (write_flags_of c d g))),
             (negb (is_nil (write_positionals_of c d))); reflexivity. }
  destruct (has_subcommands c).
  - destruct (c_bin c); [|reflexivity]. cbn [option_map']. f_equal. apply E. reflexivity.
  - cbn [option_map']. f_equal. apply E. reflexivity.
Qed.
(** whether an [arg_conflicts] call panics does not depend on the texts *)
Lemma get_args_of_erase c d g : get_args_of c (erase_desc d) g = option_map' (map zperase) (get_args_of c d g).
Proof.
  unfold ZshModel.get_args_of. destruct (negb (conflicts_resolve c g)); [reflexivity|apply args_body_erase].
Qed.

Lemma parser_of_d_erase : forall c d b,
  parser_of_d c (erase_desc d) b = option_map' (fun q : cmd * cdesc => (fst q, erase_desc (snd q))) (parser_of_d c d b).
Proof.
  induction c as [n al args subs bin h v s g IH] using cmd_ind'. intros d b.
  set (c := mkCmd n al args subs bin h v s g) in *.
  rewrite !parser_of_d_unfold. destruct (beq b (bin_or_default c)); [reflexivity|].
  rewrite zipd_subs_erase. rewrite Forall_forall in IH. change (c_subs c) with subs.
  assert (Hin : forall q, In q (zipd cd0 subs (cd_subs d)) -> In (fst q) subs) by (intros [x xd] H; eapply zipd_in_l; exact H).
  induction (zipd cd0 subs (cd_subs d)) as [|[x xd] l IHl]; [reflexivity|].
  cbn [map first_some fst snd]. rewrite (IH x (Hin (x, xd) (or_introl eq_refl))).
  destruct (parser_of_d x xd b) as [[m md]|]; cbn [option_map']; [reflexivity|].
  apply IHl. intros q Hq. apply Hin. right. exact Hq.
Qed.

Lemma map_opt_ext_in {A B} (f g : A -> option B) l : (forall a, In a l -> f a = g a) -> map_opt f l = map_opt g l.
Proof.
  induction l as [|a l IH]; intros H; [reflexivity|]. rewrite !map_opt_cons, (H a (or_introl eq_refl)), IH; [reflexivity|].
  intros x Hx. apply H. right; exact Hx.
Qed.

Lemma map_opt_map_post {A B C} (f : A -> option B) (g : B -> C) l :
  map_opt (fun a => option_map' g (f a)) l = option_map' (map g) (map_opt f l).
Proof.
  induction l as [|a l IH]; [reflexivity|]. rewrite !map_opt_cons, IH. destruct (f a); cbn [option_map']; [|reflexivity].
  destruct (map_opt f l); reflexivity.
Qed.

Lemma get_subcommands_of_erase : forall f p d,
  get_subcommands_of f p (erase_desc d) = option_map' (map zperase) (get_subcommands_of f p d).
Proof.
  induction f as [|f IH]; intros p d; cbn [ZshModel.get_subcommands_of]; destruct (negb (has_subcommands p)); try reflexivity.
  destruct (subcommands p) as [names|]; [|reflexivity].
  match goal with |- match map_opt ?F names with _ => _ end = option_map' _ (match map_opt ?G names with _ => _ end) =>
    assert (E : map_opt F names = option_map' (map (map zperase)) (map_opt G names)) end.
  { rewrite <- map_opt_map_post. apply map_opt_ext_in. intros [w b] _. cbn [fst snd].
    rewrite parser_of_d_erase. destruct (parser_of_d p d b) as [[m md]|]; cbn [option_map' fst snd]; [|reflexivity].
    rewrite get_args_of_erase, IH.
    destruct (get_args_of m md (Some p)) as [sa|]; cbn [option_map']; [|reflexivity].
    destruct (get_subcommands_of f m md) as [ch|]; cbn [option_map']; [|reflexivity].
    f_equal. rewrite zjoin_erase, znl_erase, !is_nil_map. f_equal. rewrite !map_app. cbn [map zperase].
    destruct (negb (is_nil sa)), (negb (is_nil ch)); reflexivity. }
  rewrite E. clear E. destruct (map_opt _ names) as [arms|]; cbn [option_map']; [|reflexivity].
  destruct (c_bin p); [|reflexivity]. cbn [option_map']. f_equal.
  unfold zcase_block. rewrite !map_app, zjoin_erase, znl_erase. reflexivity.
Qed.

Lemma subcommands_of_erase p d : subcommands_of p (erase_desc d) = map zperase (subcommands_of p d).
Proof.
  unfold subcommands_of. rewrite zipd_subs_erase, flat_map_map.
  set (segs := flat_map _ (zipd cd0 (c_subs p) (cd_subs d))).
  set (segs' := flat_map _ (zipd cd0 (c_subs p) (cd_subs d))).
  assert (E : segs = map (map zperase) segs').
  { unfold segs, segs'. rewrite map_flat_map. apply flat_map_ext. intros [sc sd]. cbn [fst snd].
    rewrite map_map. apply map_ext. intros w. unfold describe_entry. cbn [map zperase].
    rewrite erase_desc_about, text_or_default_erase. reflexivity. }
  rewrite E, is_nil_map. destruct (negb (is_nil segs')).
  - rewrite zjoin_erase, znl_erase, !map_app. reflexivity.
  - rewrite zjoin_erase, znl_erase. reflexivity.
Qed.

Lemma commands_function_erase b x : commands_function b (map zperase x) = map zperase (commands_function b x).
Proof. unfold commands_function. rewrite !map_app. reflexivity. Qed.

Lemma zsubcommand_details_erase c d :
  zsubcommand_details c (erase_desc d) = option_map' (map zperase) (zsubcommand_details c d).
Proof.
  unfold zsubcommand_details. destruct (c_bin c) as [b|]; [|reflexivity].
  destruct (all_subcommands c) as [l|]; [|reflexivity].
  match goal with |- match map_opt ?F ?L with _ => _ end = option_map' _ (match map_opt ?G ?L with _ => _ end) =>
    assert (E : map_opt F L = option_map' (map (map zperase)) (map_opt G L)) end.
  { rewrite <- map_opt_map_post. apply map_opt_ext_in. intros x _.
    rewrite parser_of_d_erase. destruct (parser_of_d c d x) as [[m md]|]; cbn [option_map' fst snd]; [|reflexivity].
    rewrite subcommands_of_erase, commands_function_erase. reflexivity. }
  rewrite E. clear E. destruct (map_opt _ _) as [rest|]; cbn [option_map']; [|reflexivity].
  f_equal. rewrite zjoin_erase, znl_erase. cbn [map]. rewrite subcommands_of_erase, commands_function_erase. reflexivity.
Qed.

Theorem zsh_pieces_erase c d : zsh_pieces c (erase_desc d) = option_map' (map zperase) (zsh_pieces c d).
Proof.
  unfold ZshModel.zsh_pieces. destruct (c_bin c) as [name|]; [|reflexivity].
  rewrite get_args_of_erase, get_subcommands_of_erase, zsubcommand_details_erase.
  destruct (get_args_of c d None); cbn [option_map']; [|reflexivity].
  destruct (get_subcommands_of (depth c) c d); cbn [option_map']; [|reflexivity].
  destruct (zsubcommand_details c d); cbn [option_map']; [|reflexivity].
  f_equal. rewrite !map_app. reflexivity.
Qed.

(** ---- tame names: the file of every decoration runs ---- *)
Definition zbare (st : zstate) : bool := match st with ZB | ZW => true | _ => false end.
Definition is_sq (st : zstate) : bool := match st with ZSQ => true | _ => false end.
Definition is_dq (st : zstate) : bool := match st with ZDQ => true | _ => false end.
Definition is_bs (st : zstate) : bool := match st with ZBS => true | _ => false end.
(** between words, in a word, or after the backslash that ends a spec line *)
Definition zbb (st : zstate) : bool := zbare st || is_bs st.

(** reading [b] takes every state of [P] to a state of [Q] *)
Definition pres (P Q : zstate -> bool) (b : bytes) : Prop :=
  forall st, P st = true -> Q (final sh_step st b) = true.
Lemma pres_nil P : pres P P [].
Proof. intros st H. exact H. Qed.
Lemma pres_app P Q R a b : pres P Q a -> pres Q R b -> pres P R (a ++ b).
Proof. intros Ha Hb st H. rewrite final_app. apply Hb, Ha, H. Qed.
Lemma pres_weaken (P P' Q Q' : zstate -> bool) b :
  (forall st, P' st = true -> P st = true) -> (forall st, Q st = true -> Q' st = true) -> pres P Q b -> pres P' Q' b.
Proof. intros HP HQ H st Hst. apply HQ, H, HP, Hst. Qed.

Definition all_states : list zstate := [ZB; ZW; ZBS; ZSQ; ZDQ; ZDQB; ZC].
Definition pres_checkb (P Q : zstate -> bool) (b : bytes) : bool :=
  forallb (fun st => implb (P st) (Q (final sh_step st b))) all_states.
Lemma pres_checkb_ok P Q b : pres_checkb P Q b = true -> pres P Q b.
Proof.
  unfold pres_checkb. intros H st Hst. rewrite forallb_forall in H.
  assert (Hin : In st all_states) by (destruct st; cbn; tauto).
  specialize (H st Hin). rewrite Hst in H. exact H.
Qed.
Ltac lit_pres := apply pres_checkb_ok; vm_compute; reflexivity.

Lemma tame_byte_sh c : tame_byte c = true ->
  (forall st, zbare st = true -> zbare (fst (sh_step st c)) = true) /\
  fst (sh_step ZSQ c) = ZSQ /\ fst (sh_step ZDQ c) = ZDQ.
Proof.
  unfold tame_byte. intros H. apply negb_true_iff in H.
  apply orb_false_iff in H. destruct H as [H H35]. apply orb_false_iff in H. destruct H as [H H92].
  apply orb_false_iff in H. destruct H as [H34 H39]. split; [|split].
  - intros [] Hst; try discriminate; cbn [sh_step]; rewrite H39, H34, H92, H35; cbn [andb];
      destruct (is_ws c || (c =? 10)); try reflexivity;
      destruct ((c =? 59) || (c =? 38) || (c =? 124) || (c =? 40) || (c =? 41) || (c =? 60) || (c =? 62)); try reflexivity;
      destruct ((c =? 36) || (c =? 96)); reflexivity.
  - cbn [sh_step]. rewrite H39. reflexivity.
  - cbn [sh_step]. rewrite H34, H92. destruct ((c =? 36) || (c =? 96)); reflexivity.
Qed.

Lemma pres_tame_bare s : tame s = true -> pres zbare zbare s.
Proof.
  induction s as [|c s IH]; intros H; [apply pres_nil|].
  cbn [tame forallb] in H. apply andb_true_iff in H. destruct H as [Hc Hs].
  intros st Hst. cbn [final]. apply (IH Hs). apply (proj1 (tame_byte_sh c Hc)). exact Hst.
Qed.
Lemma pres_tame_sq s : tame s = true -> pres is_sq is_sq s.
Proof.
  induction s as [|c s IH]; intros H; [apply pres_nil|].
  cbn [tame forallb] in H. apply andb_true_iff in H. destruct H as [Hc Hs].
  intros [] Hst; try discriminate. cbn [final]. rewrite (proj1 (proj2 (tame_byte_sh c Hc))). apply (IH Hs). reflexivity.
Qed.
Lemma pres_tame_dq s : tame s = true -> pres is_dq is_dq s.
Proof.
  induction s as [|c s IH]; intros H; [apply pres_nil|].
  cbn [tame forallb] in H. apply andb_true_iff in H. destruct H as [Hc Hs].
  intros [] Hst; try discriminate. cbn [final]. rewrite (proj2 (proj2 (tame_byte_sh c Hc))). apply (IH Hs). reflexivity.
Qed.

Lemma tame_replace_byte c r s : tame r = true -> tame s = true -> tame (replace_byte c r s) = true.
Proof.
  intros Hr. unfold replace_byte. induction s as [|x s IH]; intros H; [reflexivity|].
  cbn [tame forallb] in H. apply andb_true_iff in H. destruct H as [Hx Hs].
  cbn [flat_map]. rewrite tame_app, (IH Hs), andb_true_r. destruct (x =? c); [exact Hr|].
  change (tame [x]) with (tame_byte x && true). rewrite Hx. reflexivity.
Qed.

Lemma tame_dec_digits : forall fuel n acc, tame acc = true -> tame (dec_digits fuel n acc) = true.
Proof.
  induction fuel as [|f IH]; intros n acc Ha; [exact Ha|]. cbn [dec_digits].
  assert (Hd : tame ((48 + n mod 10) :: acc) = true).
  { change (tame ((48 + n mod 10) :: acc)) with (tame_byte (48 + n mod 10) && tame acc).
    rewrite Ha, andb_true_r. unfold tame_byte.
    pose proof (N.mod_upper_bound n 10 ltac:(discriminate)) as Hlt. set (m := n mod 10) in *. clearbody m.
    apply negb_true_iff. repeat (apply orb_false_iff; split); apply N.eqb_neq; lia. }
  destruct (n / 10 =? 0); [exact Hd|apply IH; exact Hd].
Qed.
Lemma tame_dec n : tame (dec n) = true.
Proof. apply tame_dec_digits. reflexivity. Qed.

(** ---- pieces ---- *)
Definition run_to (P Q : zstate -> bool) (l : list zpiece) : Prop :=
  forall st, P st = true -> exists st', zrun st l = Some st' /\ Q st' = true.

Lemma run_to_nil P : run_to P P [].
Proof. intros st H. exists st. split; [reflexivity|exact H]. Qed.
Lemma run_to_app P Q R a b : run_to P Q a -> run_to Q R b -> run_to P R (a ++ b).
Proof.
  intros Ha Hb st H. destruct (Ha st H) as (s1 & R1 & B1). destruct (Hb s1 B1) as (s2 & R2 & B2).
  exists s2. rewrite zrun_app, R1. split; assumption.
Qed.
Lemma run_to_weaken (P P' Q Q' : zstate -> bool) l :
  (forall st, P' st = true -> P st = true) -> (forall st, Q st = true -> Q' st = true) -> run_to P Q l -> run_to P' Q' l.
Proof. intros HP HQ H st Hst. destruct (H st (HP st Hst)) as (s & R & B). exists s. split; [exact R|apply HQ, B]. Qed.
Lemma run_to_zx P Q b : pres P Q b -> run_to P Q [Zx b].
Proof. intros Hb st H. eexists. split; [reflexivity|]. apply Hb, H. Qed.
Lemma run_to_cons_zx P Q R b l : pres P Q b -> run_to Q R l -> run_to P R (Zx b :: l).
Proof. intros Hb Hl. apply (run_to_app P Q R [Zx b] l); [apply run_to_zx; exact Hb|exact Hl]. Qed.
Lemma run_to_zh t : run_to is_sq is_sq [Zh t].
Proof. intros [] H; try discriminate. exists ZSQ. split; reflexivity. Qed.
Lemma run_to_zp t : run_to is_sq is_sq [Zp t].
Proof. intros [] H; try discriminate. exists ZSQ. split; reflexivity. Qed.
Lemma run_to_cons_zh R t l : run_to is_sq R l -> run_to is_sq R (Zh t :: l).
Proof. intros Hl. apply (run_to_app is_sq is_sq R [Zh t] l); [apply run_to_zh|exact Hl]. Qed.

Lemma zbare_zbb st : zbare st = true -> zbb st = true.
Proof. unfold zbb. intros ->. reflexivity. Qed.
Lemma is_bs_zbb st : is_bs st = true -> zbb st = true.
Proof. unfold zbb. intros ->. apply orb_true_r. Qed.

Lemma pres_lf_zbb : pres zbb zbare lf.
Proof. lit_pres. Qed.
Lemma pres_lf_sq : pres is_sq is_sq lf.
Proof. lit_pres. Qed.

(** [Vec::join("\n")] of segments that end between words or on the backslash of a spec line *)
Lemma zjoin_run l : (forall x, In x l -> run_to zbare zbb x) -> run_to zbare zbb (zjoin znl l).
Proof.
  induction l as [|x t IH]; intros H.
  - apply (run_to_weaken zbare zbare zbare zbb); [intros st Hst; exact Hst|apply zbare_zbb|apply run_to_nil].
  - rewrite zjoin_cons. destruct t as [|y t']; [apply H; left; reflexivity|].
    apply (run_to_app zbare zbb zbb); [apply H; left; reflexivity|].
    apply (run_to_app zbb zbare zbb); [apply run_to_zx, pres_lf_zbb|].
    apply IH. intros z Hz. apply H. right. exact Hz.
Qed.
Lemma zjoin_run_last l last :
  (forall x, In x l -> run_to zbare zbb x) -> run_to zbare zbare last -> run_to zbare zbare (zjoin znl (l ++ [last])).
Proof.
  induction l as [|x t IH]; intros H Hl; [exact Hl|].
  cbn [app]. rewrite zjoin_cons. destruct (t ++ [last]) as [|y t'] eqn:E; [destruct t; discriminate|].
  apply (run_to_app zbare zbb zbare); [apply H; left; reflexivity|].
  apply (run_to_app zbb zbare zbare); [apply run_to_zx, pres_lf_zbb|].
  apply IH; [|exact Hl]. intros z Hz. apply H. right. exact Hz.
Qed.
Lemma zjoin_run_bare l : (forall x, In x l -> run_to zbare zbare x) -> run_to zbare zbare (zjoin znl l).
Proof.
  induction l as [|x t IH]; intros H; [apply run_to_nil|].
  rewrite zjoin_cons. destruct t as [|y t']; [apply H; left; reflexivity|].
  apply (run_to_app zbare zbare zbare); [apply H; left; reflexivity|].
  apply (run_to_app zbare zbare zbare).
  - apply run_to_zx. apply (pres_weaken zbb zbare zbare zbare); [apply zbare_zbb|intros st Hst; exact Hst|apply pres_lf_zbb].
  - apply IH. intros z Hz. apply H. right. exact Hz.
Qed.
Lemma zjoin_run_sq l : (forall x, In x l -> run_to is_sq is_sq x) -> run_to is_sq is_sq (zjoin znl l).
Proof.
  induction l as [|x t IH]; intros H; [apply run_to_nil|].
  rewrite zjoin_cons. destruct t as [|y t']; [apply H; left; reflexivity|].
  apply (run_to_app is_sq is_sq is_sq); [apply H; left; reflexivity|].
  apply (run_to_app is_sq is_sq is_sq); [apply run_to_zx, pres_lf_sq|].
  apply IH. intros z Hz. apply H. right. exact Hz.
Qed.

(** ---- value completions, inside a single-quoted spec ---- *)
(** [escape_value] of ANY name keeps the lexer inside the quotes (a quote becomes '\'' : out, escaped quote, in again) *)
Lemma escape_value_char c : final sh_step ZSQ (apply_chain zsh_escape_value_chain [c]) = ZSQ.
Proof.
  destruct (in_dec N.eq_dec c (keys zsh_escape_value_chain)) as [Hin|Hout].
  - cbn in Hin. repeat (destruct Hin as [<-|Hin]; [reflexivity|]). destruct Hin.
  - rewrite apply_chain_other by (reflexivity || assumption).
    cbn [final sh_step fst]. destruct (c =? 39) eqn:E; [|reflexivity].
    exfalso. apply Hout. apply N.eqb_eq in E. subst. cbn. tauto.
Qed.
Lemma pres_escape_value s : pres is_sq is_sq (zsh_escape_value s).
Proof.
  unfold zsh_escape_value. rewrite apply_chain_charwise by reflexivity.
  induction s as [|c s IH]; [apply pres_nil|]. cbn [flat_map].
  apply (pres_app is_sq is_sq is_sq); [|exact IH].
  intros [] H; try discriminate. rewrite escape_value_char. reflexivity.
Qed.

Lemma run_tip_entry q : run_to is_sq is_sq (tip_entry q).
Proof.
  unfold tip_entry. apply (run_to_cons_zx is_sq is_sq).
  - apply (pres_app is_sq is_sq is_sq); [apply pres_escape_value|lit_pres].
  - apply run_to_cons_zh. apply run_to_zx. lit_pres.
Qed.

Lemma pres_intercalate_sq l : (forall x, In x l -> tame x = true) -> pres is_sq is_sq (intercalate (lit " ") l).
Proof.
  induction l as [|x t IH]; intros H; [apply pres_nil|]. cbn [intercalate].
  destruct t as [|y t']; [apply pres_tame_sq, H; left; reflexivity|].
  apply (pres_app is_sq is_sq is_sq); [apply pres_tame_sq, H; left; reflexivity|].
  apply (pres_app is_sq is_sq is_sq); [lit_pres|]. apply IH. intros z Hz. apply H. right. exact Hz.
Qed.

Lemma pres_hint_sq h s : zhint_completion h = Some s -> pres is_sq is_sq s.
Proof. destruct h; intros E; inversion E; subst; lit_pres. Qed.

Lemma tame_pvs a vs pv : tame_arg a = true -> possible_values a = Some vs -> In pv vs -> tame (pv_name pv) = true.
Proof.
  intros H Hv Hin. destruct (tame_arg_parts a H) as (_ & _ & _ & _ & Hp).
  unfold possible_values in Hv. destruct (negb (a_takes_values a)); [discriminate|]. rewrite Hv in Hp.
  apply (forallb_in _ _ _ Hp Hin).
Qed.

Lemma run_zvalue_completion p val : tame_arg (fst p) = true -> zvalue_completion p = Some val -> run_to is_sq is_sq val.
Proof.
  intros Ht. unfold zvalue_completion. destruct (possible_values (fst p)) as [values|] eqn:Ev.
  - destruct (existsb _ _); intros E; inversion E; subst; clear E.
    + apply (run_to_cons_zx is_sq is_sq); [lit_pres|].
      apply (run_to_app is_sq is_sq is_sq); [|apply run_to_zx; lit_pres].
      apply zjoin_run_sq. intros x Hx. apply in_map_iff in Hx. destruct Hx as (q & <- & _). apply run_tip_entry.
    + apply run_to_zx. apply (pres_app is_sq is_sq is_sq [40]); [lit_pres|].
      apply (pres_app is_sq is_sq is_sq); [|lit_pres]. apply pres_intercalate_sq.
      intros x Hx. apply in_map_iff in Hx. destruct Hx as (pv & <- & Hpv). apply filter_In in Hpv.
      apply (tame_pvs (fst p) values pv Ht Ev (proj1 Hpv)).
  - destruct (zhint_completion (a_get_hint (fst p))) as [s|] eqn:Eh; intros E; inversion E; subst.
    apply run_to_zx. eapply pres_hint_sq. exact Eh.
Qed.

Lemma run_concat_repeat P x n : run_to P P x -> run_to P P (List.concat (repeat x n)).
Proof.
  intros H. induction n as [|n IH]; [apply run_to_nil|]. cbn [repeat List.concat].
  apply (run_to_app P P P); assumption.
Qed.

(** value names are written as they are between the colons of an option spec: part of the class *)
Definition vn_tame (a : arg) : bool := forallb tame (a_value_names a).
Lemma tame_value_name a : vn_tame a = true -> tame (value_name a) = true.
Proof.
  unfold vn_tame, value_name. destruct (a_value_names a) as [|v t]; [reflexivity|]. cbn [forallb].
  intros H. apply andb_true_iff in H. tauto.
Qed.
Lemma run_opt_vc p : tame_arg (fst p) = true -> vn_tame (fst p) = true -> run_to is_sq is_sq (opt_vc p).
Proof.
  intros Ht Hv. unfold opt_vc. apply run_concat_repeat.
  assert (Hvn : pres is_sq is_sq (value_name (fst p))) by (apply pres_tame_sq, tame_value_name; exact Hv).
  destruct (zvalue_completion p) as [val|] eqn:E.
  - apply (run_to_cons_zx is_sq is_sq).
    { apply (pres_app is_sq is_sq is_sq [58]); [lit_pres|]. apply (pres_app is_sq is_sq is_sq); [exact Hvn|lit_pres]. }
    eapply run_zvalue_completion; eassumption.
  - apply run_to_zx. apply (pres_app is_sq is_sq is_sq [58]); [lit_pres|]. apply (pres_app is_sq is_sq is_sq); [exact Hvn|lit_pres].
Qed.

(** ---- spec lines: from between words to the backslash at the end of the line ---- *)

Lemma pres_multiple a : pres is_sq is_sq (multiple_of a).
Proof. unfold multiple_of. destruct (a_action a); lit_pres. Qed.

Lemma pres_open_sq : pres zbare is_sq (lit "'").
Proof. lit_pres. Qed.
Lemma pres_close_line : pres is_sq is_bs (lit "' \").
Proof. lit_pres. Qed.

Lemma run_opt_short_line c g p s :
  tame (arg_conflicts c (fst p) g) = true ->
  tame_arg (fst p) = true -> vn_tame (fst p) = true -> tame s = true -> run_to zbare is_bs (opt_short_line c g p s).
Proof.
  intros Hcf Ht Hv Hs. unfold ZshModel.opt_short_line.
  apply (run_to_cons_zx zbare is_sq).
  { apply (pres_app zbare is_sq is_sq [39]); [apply pres_open_sq|].
    apply (pres_app is_sq is_sq is_sq (arg_conflicts c (fst p) g)); [apply pres_tame_sq; exact Hcf|].
    apply (pres_app is_sq is_sq is_sq (multiple_of (fst p))); [apply pres_multiple|].
    apply (pres_app is_sq is_sq is_sq [45]); [lit_pres|].
    apply (pres_app is_sq is_sq is_sq s); [apply pres_tame_sq; exact Hs|lit_pres]. }
  apply run_to_cons_zh. apply (run_to_cons_zx is_sq is_sq); [lit_pres|].
  apply (run_to_app is_sq is_sq is_bs); [apply run_opt_vc; [exact Ht|exact Hv]|]. apply run_to_zx, pres_close_line.
Qed.
Lemma run_opt_long_line c g p s :
  tame (arg_conflicts c (fst p) g) = true ->
  tame_arg (fst p) = true -> vn_tame (fst p) = true -> tame s = true -> run_to zbare is_bs (opt_long_line c g p s).
Proof.
  intros Hcf Ht Hv Hs. unfold ZshModel.opt_long_line.
  apply (run_to_cons_zx zbare is_sq).
  { apply (pres_app zbare is_sq is_sq [39]); [apply pres_open_sq|].
    apply (pres_app is_sq is_sq is_sq (arg_conflicts c (fst p) g)); [apply pres_tame_sq; exact Hcf|].
    apply (pres_app is_sq is_sq is_sq (multiple_of (fst p))); [apply pres_multiple|].
    apply (pres_app is_sq is_sq is_sq [45; 45]); [lit_pres|].
    apply (pres_app is_sq is_sq is_sq s); [apply pres_tame_sq; exact Hs|lit_pres]. }
  apply run_to_cons_zh. apply (run_to_cons_zx is_sq is_sq); [lit_pres|].
  apply (run_to_app is_sq is_sq is_bs); [apply run_opt_vc; [exact Ht|exact Hv]|]. apply run_to_zx, pres_close_line.
Qed.
Lemma run_opt_lines c g p line :
  tame (arg_conflicts c (fst p) g) = true -> tame_arg (fst p) = true -> vn_tame (fst p) = true ->
  In line (opt_lines c g p) -> run_to zbare is_bs line.
Proof.
  intros Hcf Ht Hv Hl. unfold ZshModel.opt_lines in Hl. apply in_app_or in Hl. destruct Hl as [Hl|Hl].
  - destruct (get_short_and_visible_aliases (fst p)) as [ss|] eqn:E; [|destruct Hl]. apply in_map_iff in Hl.
    destruct Hl as (s & <- & Hs). apply run_opt_short_line; [exact Hcf|exact Ht|exact Hv|]. eapply tame_shorts; eassumption.
  - destruct (get_long_and_visible_aliases (fst p)) as [ss|] eqn:E; [|destruct Hl]. apply in_map_iff in Hl.
    destruct Hl as (s & <- & Hs). apply run_opt_long_line; [exact Hcf|exact Ht|exact Hv|]. eapply tame_longs; eassumption.
Qed.

Lemma run_zflag_line c g p dashes name :
  tame (arg_conflicts c (fst p) g) = true ->
  tame dashes = true -> tame name = true -> run_to zbare is_bs (zflag_line c g p dashes name).
Proof.
  intros Hcf Hd Hn. unfold ZshModel.zflag_line.
  apply (run_to_cons_zx zbare is_sq).
  { apply (pres_app zbare is_sq is_sq [39]); [apply pres_open_sq|].
    apply (pres_app is_sq is_sq is_sq (arg_conflicts c (fst p) g)); [apply pres_tame_sq; exact Hcf|].
    apply (pres_app is_sq is_sq is_sq (multiple_of (fst p))); [apply pres_multiple|].
    apply (pres_app is_sq is_sq is_sq dashes); [apply pres_tame_sq; exact Hd|].
    apply (pres_app is_sq is_sq is_sq name); [apply pres_tame_sq; exact Hn|lit_pres]. }
  apply run_to_cons_zh. apply run_to_zx. lit_pres.
Qed.

Lemma tame_flag_spellings a x : tame_arg a = true -> In x (flag_spellings a) -> tame (fst x) = true /\ tame (snd x) = true.
Proof.
  intros Ht Hx. destruct (tame_arg_parts a Ht) as (Hsh & Hlg & Hsa & Hal & _).
  unfold flag_spellings in Hx. apply in_app_or in Hx. destruct Hx as [Hx|Hx].
  - destruct (a_short a) as [s|]; [|destruct Hx]. destruct Hx as [<-|Hx]; [split; [reflexivity|exact Hsh]|].
    apply in_map_iff in Hx. destruct Hx as (y & <- & Hy). split; [reflexivity|].
    unfold get_visible_short_aliases in Hy. destruct (is_nil (a_short_aliases a)); [destruct Hy|].
    exact (tame_visible _ _ Hsa Hy).
  - destruct (a_long a) as [s|]; [|destruct Hx]. destruct Hx as [<-|Hx]; [split; [reflexivity|exact Hlg]|].
    apply in_map_iff in Hx. destruct Hx as (y & <- & Hy). split; [reflexivity|].
    unfold get_visible_aliases in Hy. destruct (is_nil (a_aliases a)); [destruct Hy|].
    exact (tame_visible _ _ Hal Hy).
Qed.

Lemma run_flag_lines c g p line :
  tame (arg_conflicts c (fst p) g) = true -> tame_arg (fst p) = true -> In line (flag_lines c g p) -> run_to zbare is_bs line.
Proof.
  intros Hcf Ht Hl. rewrite flag_lines_spellings in Hl. apply in_map_iff in Hl. destruct Hl as (x & <- & Hx).
  destruct (tame_flag_spellings _ _ Ht Hx) as [H1 H2]. apply run_zflag_line; assumption.
Qed.

Lemma run_positional_line card p :
  pres is_sq is_sq card -> tame_arg (fst p) = true -> tame (a_id (fst p)) = true -> run_to zbare is_bs (positional_line card p).
Proof.
  intros Hc Ht Hi. unfold positional_line.
  apply (run_to_app zbare is_sq is_bs [Zx ([39] ++ card ++ [58] ++ a_id (fst p))]).
  { apply run_to_zx.
    apply (pres_app zbare is_sq is_sq [39]); [apply pres_open_sq|].
    apply (pres_app is_sq is_sq is_sq card); [exact Hc|].
    apply (pres_app is_sq is_sq is_sq [58]); [lit_pres|apply pres_tame_sq; exact Hi]. }
  apply (run_to_app is_sq is_sq is_bs).
  { destruct (ad_help (snd p)); [apply run_to_zp|apply run_to_nil]. }
  apply (run_to_cons_zx is_sq is_sq); [lit_pres|].
  apply (run_to_app is_sq is_sq is_bs); [|apply run_to_zx, pres_close_line].
  destruct (zvalue_completion p) as [val|] eqn:E; [eapply run_zvalue_completion; eassumption|apply run_to_nil].
Qed.

(** (the terminator is written through [escape_value], which keeps the shell word intact for EVERY terminator; the
    [_arguments]-level reading of the ['*pattern:'] prefix wants it free of quotes) *)
Definition ztame_arg (a : arg) : bool := tame_arg a && tame (a_id a) && vn_tame a && tame_opt (a_terminator a).
Lemma ztame_arg_parts a :
  ztame_arg a = true -> tame_arg a = true /\ tame (a_id a) = true /\ vn_tame a = true /\ tame_opt (a_terminator a) = true.
Proof.
  unfold ztame_arg. intros H. apply andb_true_iff in H. destruct H as [H H4]. apply andb_true_iff in H.
  destruct H as [H H3]. apply andb_true_iff in H. tauto.
Qed.

Lemma run_positional_lines hs : forall l ce line,
  (forall p, In p l -> ztame_arg (fst p) = true) -> In line (positional_lines hs ce l) -> run_to zbare is_bs line.
Proof.
  induction l as [|p l IH]; intros ce line Ht Hl; [destruct Hl|].
  assert (Hp : tame_arg (fst p) = true /\ tame (a_id (fst p)) = true).
  { specialize (Ht p (or_introl eq_refl)). apply ztame_arg_parts in Ht. tauto. }
  assert (Ht' : forall q, In q l -> ztame_arg (fst q) = true) by (intros q Hq; apply Ht; right; exact Hq).
  cbn [positional_lines] in Hl.
  destruct (ce && (arg_is_last (fst p) || (1 <? a_max_values (fst p)))); [eapply IH; eassumption|].
  destruct ((1 <? a_max_values (fst p)) && negb hs).
  - unfold arg_terminator in Hl. destruct (a_terminator (fst p)) as [tm|].
    + destruct Hl as [<-|Hl]; [apply run_positional_line; [|tauto|tauto]|eapply IH; eassumption].
      apply (pres_app is_sq is_sq is_sq [42]); [lit_pres|]. apply (pres_app is_sq is_sq is_sq); [apply pres_escape_value|lit_pres].
    + destruct Hl as [<-|Hl]; [apply run_positional_line; [lit_pres|tauto|tauto]|eapply IH; eassumption].
  - destruct (negb (a_required (fst p))); (destruct Hl as [<-|Hl]; [apply run_positional_line; [lit_pres|tauto|tauto]|eapply IH; eassumption]).
Qed.

(** ---- commands whose names, aliases, argument names and bin names are tame ---- *)
Fixpoint ztame_cmd (c : cmd) : bool :=
  match c with
  | mkCmd n al args subs bin _ _ _ _ =>
      tame n && tame_fst al && forallb ztame_arg args && tame_opt bin && forallb ztame_cmd subs
  end.
Lemma ztame_cmd_unfold c :
  ztame_cmd c = tame (c_name c) && tame_fst (c_aliases c) && forallb ztame_arg (c_args c) && tame_opt (c_bin c)
                && forallb ztame_cmd (c_subs c).
Proof. destruct c; reflexivity. Qed.
Lemma ztame_cmd_parts c : ztame_cmd c = true ->
  tame (c_name c) = true /\ tame_fst (c_aliases c) = true /\ forallb ztame_arg (c_args c) = true /\
  tame_opt (c_bin c) = true /\ forallb ztame_cmd (c_subs c) = true.
Proof.
  rewrite ztame_cmd_unfold. intros H. repeat (apply andb_true_iff in H; destruct H as [H ?]). auto.
Qed.
Lemma ztame_sub c sc : ztame_cmd c = true -> In sc (c_subs c) -> ztame_cmd sc = true.
Proof. intros H Hin. destruct (ztame_cmd_parts c H) as (_ & _ & _ & _ & Hs). apply (forallb_in _ _ _ Hs Hin). Qed.
Lemma ztame_desc c n : ztame_cmd c = true -> desc c n -> ztame_cmd n = true.
Proof.
  intros H Hd. induction Hd as [c sc Hin|c sc n Hin Hd IH]; [eapply ztame_sub; eauto|].
  apply IH. eapply ztame_sub; eauto.
Qed.
Lemma ztame_names sc w : ztame_cmd sc = true -> In w (get_name_and_visible_aliases sc) -> tame w = true.
Proof.
  intros H Hw. destruct (ztame_cmd_parts sc H) as (Hn & Ha & _). destruct Hw as [<-|Hw]; [exact Hn|].
  eapply tame_visible; eassumption.
Qed.
Lemma ztame_bin c b : ztame_cmd c = true -> c_bin c = Some b -> tame b = true.
Proof. intros H Hb. destruct (ztame_cmd_parts c H) as (_ & _ & _ & Ht & _). rewrite Hb in Ht. exact Ht. Qed.
Lemma ztame_args c d p : ztame_cmd c = true -> In p (zipd ad0 (c_args c) (cd_args d)) -> ztame_arg (fst p) = true.
Proof.
  intros H Hin. destruct (ztame_cmd_parts c H) as (_ & _ & Ha & _). destruct p as [a ad].
  apply zipd_in_l in Hin. apply (forallb_in _ _ _ Ha Hin).
Qed.
Lemma ztame_arg_tame a : ztame_arg a = true -> tame_arg a = true.
Proof. intros H. apply ztame_arg_parts in H. tauto. Qed.
Lemma ztame_arg_vn a : ztame_arg a = true -> vn_tame a = true.
Proof. intros H. apply ztame_arg_parts in H. tauto. Qed.

(** the exclusion list [(-x --exclude ...)] of an argument: spellings of arguments of the command written, of the parent
    or (global arguments) of subcommands of the parent -- tame when those commands are *)
Definition gtame (g : option cmd) : Prop := forall x, g = Some x -> ztame_cmd x = true.
Lemma subcommands_containing_desc : forall c id m, In m (subcommands_containing c id) -> desc c m.
Proof.
  induction c as [n al args subs bin h v s g IH] using cmd_ind'. intros id m Hin. cbn [subcommands_containing] in Hin.
  apply in_flat_map in Hin. destruct Hin as (x & Hx & Hm). rewrite Forall_forall in IH.
  destruct (existsb _ _); [|destruct Hm]. destruct Hm as [<-|Hm]; [apply desc_child; exact Hx|].
  eapply desc_step; [exact Hx|]. eapply IH; eassumption.
Qed.
Lemma map_opt_in_inv {A B} (f : A -> option B) : forall l r y,
  map_opt f l = Some r -> In y r -> exists x, In x l /\ f x = Some y.
Proof.
  induction l as [|h t IH]; intros r y E Hy.
  - rewrite map_opt_nil in E. inversion E; subst. destruct Hy.
  - rewrite map_opt_cons in E. destruct (f h) as [b|] eqn:Eh; [|discriminate].
    destruct (map_opt f t) as [rt|] eqn:Et; [|discriminate]. inversion E; subst. destruct Hy as [<-|Hy].
    + exists h. split; [left; reflexivity|exact Eh].
    + destruct (IH rt y eq_refl Hy) as (x & Hx & Ex). exists x. split; [right; exact Hx|exact Ex].
Qed.
(** whatever a blacklist entry resolves to -- the argument of that id, or the members of the group of that id -- is an
    argument of the command (or, for a global argument, of a subcommand that contains it) *)
Lemma conflicts_tame x a l y : ztame_cmd x = true -> get_arg_conflicts_with x a = Some l -> In y l -> ztame_arg y = true.
Proof.
  intros Ht El Hin. unfold get_arg_conflicts_with in El.
  assert (Hargs : forall m, (m = x \/ desc x m) -> forall z, In z (c_args m) -> ztame_arg z = true).
  { intros m Hm z Hz. assert (Htm : ztame_cmd m = true) by (destruct Hm as [->|Hd]; [exact Ht|eapply ztame_desc; eassumption]).
    destruct (ztame_cmd_parts m Htm) as (_ & _ & Ha & _). apply (forallb_in _ _ _ Ha Hz). }
  assert (Hfind : forall id z, find_arg x id = Some z -> ztame_arg z = true).
  { intros id z Hf. unfold find_arg in Hf. apply find_some in Hf. destruct Hf as [Hf _]. apply (Hargs x (or_introl eq_refl) z Hf). }
  destruct (a_global a).
  - unfold get_global_arg_conflicts_with in El.
    destruct (map_opt (global_conflict_targets x a) (a_blacklist a)) as [ls|] eqn:Els; [|discriminate]. inversion El; subst l.
    apply in_concat in Hin. destruct Hin as (ys & Hys & Hy).
    destruct (map_opt_in_inv _ _ _ _ Els Hys) as (id & _ & Hid). unfold global_conflict_targets in Hid.
    destruct (find (fun z => beq (a_id z) id) (c_args x ++ flat_map c_args (subcommands_containing x (a_id a)))) as [z|] eqn:Ez.
    + inversion Hid; subst ys. destruct Hy as [<-|[]]. apply find_some in Ez. destruct Ez as [Hf _].
      apply in_app_or in Hf. destruct Hf as [Hf|Hf].
      * apply (Hargs x (or_introl eq_refl) z Hf).
      * apply in_flat_map in Hf. destruct Hf as (m & Hm & Hz). apply (Hargs m (or_intror (subcommands_containing_desc _ _ _ Hm)) z Hz).
    + destruct (find (fun c => find_group c id) (x :: subcommands_containing x (a_id a))) as [c|] eqn:Ec; [|discriminate].
      apply find_some in Ec. destruct Ec as [Hc _]. unfold group_targets in Hid.
      destruct (unroll_args_in_group c id) as [ids|]; [|discriminate].
      destruct (map_opt_in_inv _ _ _ _ Hid Hy) as (n & _ & Hn). unfold find_arg in Hn. apply find_some in Hn. destruct Hn as [Hn _].
      destruct Hc as [<-|Hc]; [apply (Hargs x (or_introl eq_refl) y Hn)|].
      apply (Hargs c (or_intror (subcommands_containing_desc _ _ _ Hc)) y Hn).
  - destruct (map_opt (conflict_targets x) (a_blacklist a)) as [ls|] eqn:Els; [|discriminate]. inversion El; subst l.
    apply in_concat in Hin. destruct Hin as (ys & Hys & Hy).
    destruct (map_opt_in_inv _ _ _ _ Els Hys) as (id & _ & Hid). unfold conflict_targets in Hid.
    destruct (find_arg x id) as [z|] eqn:Ez.
    + inversion Hid; subst ys. destruct Hy as [<-|[]]. apply (Hfind id z Ez).
    + destruct (find_group x id); [|discriminate]. destruct (unroll_args_in_group x id) as [ids|]; [|discriminate].
      destruct (map_opt_in_inv _ _ _ _ Hid Hy) as (n & _ & Hn). apply (Hfind n y Hn).
Qed.
Lemma tame_push_conflicts l : (forall y, In y l -> ztame_arg y = true) -> forall w, In w (push_conflicts l) -> tame w = true.
Proof.
  intros H w Hw. unfold push_conflicts in Hw. apply in_flat_map in Hw. destruct Hw as (y & Hy & Hw).
  destruct (tame_arg_parts y (ztame_arg_tame y (H y Hy))) as (Hsh & Hlg & _).
  apply in_app_or in Hw. destruct Hw as [Hw|Hw].
  - destruct (a_short y) as [sh|]; [|destruct Hw]. destruct Hw as [<-|[]]. rewrite tame_app. cbn [tame_opt] in Hsh. rewrite Hsh. reflexivity.
  - destruct (a_long y) as [lg|]; [|destruct Hw]. destruct Hw as [<-|[]]. rewrite tame_app. cbn [tame_opt] in Hlg. rewrite Hlg. reflexivity.
Qed.
Lemma tame_intercalate' l : (forall x, In x l -> tame x = true) -> tame (intercalate (lit " ") l) = true.
Proof.
  induction l as [|x t IH]; intros H; [reflexivity|]. cbn [intercalate].
  destruct t as [|y t']; [apply H; left; reflexivity|].
  rewrite !tame_app, (H x (or_introl eq_refl)), IH; [reflexivity|]. intros z Hz. apply H. right. exact Hz.
Qed.
Lemma tame_arg_conflicts c a g : ztame_cmd c = true -> gtame g -> tame (arg_conflicts c a g) = true.
Proof.
  intros Ht Hg. unfold ZshModel.arg_conflicts, ZshModel.arg_conflicts_opt.
  set (res := match g with Some x => if a_global a then _ else _ | None => _ end).
  assert (Hc : forall conflicts y, res = Some conflicts -> In y conflicts -> ztame_arg y = true).
  { intros conflicts y Er Hy. unfold res in Er. destruct g as [x|].
    - destruct (a_global a) eqn:Eg; [eapply (conflicts_tame x); [apply Hg; reflexivity|exact Er|exact Hy]|eapply (conflicts_tame c); [exact Ht|exact Er|exact Hy]].
    - eapply (conflicts_tame c); [exact Ht|exact Er|exact Hy]. }
  clearbody res. destruct res as [conflicts|]; [|reflexivity]. destruct (is_nil conflicts); [reflexivity|].
  rewrite !tame_app, (tame_intercalate' _ (tame_push_conflicts conflicts (fun y => Hc conflicts y eq_refl))). reflexivity.
Qed.

Lemma Some_inj {A} (a b : A) : Some a = Some b -> a = b.
Proof. intros H. inversion H. reflexivity. Qed.

(** ---- the [_arguments] block ---- *)
Lemma is_bs_zbb' l : run_to zbare is_bs l -> run_to zbare zbb l.
Proof. apply run_to_weaken; [intros st H; exact H|apply is_bs_zbb]. Qed.

Lemma zjoin_lines l : (forall x, In x l -> run_to zbare is_bs x) -> zjoin znl l <> [] -> run_to zbare zbb (zjoin znl l).
Proof. intros H _. apply zjoin_run. intros x Hx. apply is_bs_zbb', H, Hx. Qed.

Lemma run_write_opts_of c d g : ztame_cmd c = true -> gtame g -> run_to zbare zbb (write_opts_of c d g).
Proof.
  intros Ht Hg. unfold ZshModel.write_opts_of. apply zjoin_run. intros x Hx. apply is_bs_zbb'.
  apply in_flat_map in Hx. destruct Hx as (p & Hp & Hx). apply filter_In in Hp.
  apply (run_opt_lines c g p x); [apply tame_arg_conflicts; assumption| | |exact Hx];
    [apply ztame_arg_tame|apply ztame_arg_vn]; (eapply ztame_args; [exact Ht|exact (proj1 Hp)]).
Qed.
Lemma run_write_flags_of c d g : ztame_cmd c = true -> gtame g -> run_to zbare zbb (write_flags_of c d g).
Proof.
  intros Ht Hg. unfold ZshModel.write_flags_of. apply zjoin_run. intros x Hx. apply is_bs_zbb'.
  apply in_flat_map in Hx. destruct Hx as (p & Hp & Hx). apply filter_In in Hp.
  apply (run_flag_lines c g p x); [apply tame_arg_conflicts; assumption| |exact Hx]. apply ztame_arg_tame. eapply ztame_args; [exact Ht|exact (proj1 Hp)].
Qed.
Lemma run_write_positionals_of c d : ztame_cmd c = true -> run_to zbare zbb (write_positionals_of c d).
Proof.
  intros Ht. unfold write_positionals_of. apply zjoin_run. intros x Hx. apply is_bs_zbb'.
  eapply run_positional_lines; [|exact Hx]. intros p Hp. apply filter_In in Hp.
  eapply ztame_args; [exact Ht|exact (proj1 Hp)].
Qed.

Lemma pres_header : pres zbare zbb (lit "_arguments ""${_arguments_options[@]}"" : \").
Proof. lit_pres. Qed.
Lemma pres_ret : pres zbare zbare (lit "&& ret=0").
Proof. lit_pres. Qed.

Lemma run_get_args_of c d g blk : ztame_cmd c = true -> gtame g -> get_args_of c d g = Some blk -> run_to zbare zbare blk.
Proof.
  intros Ht Hg Hget. apply get_args_of_body in Hget. revert Hget. unfold ZshModel.args_body.
  set (A := if negb (is_nil (write_opts_of c d g)) then [write_opts_of c d g] else []).
  set (B := if negb (is_nil (write_flags_of c d g)) then [write_flags_of c d g] else []).
  set (C := if negb (is_nil (write_positionals_of c d)) then [write_positionals_of c d] else []).
  assert (Hsegs : forall x, In x ([args_header] ++ A ++ B ++ C) -> run_to zbare zbb x).
  { intros x Hx. apply in_app_or in Hx. destruct Hx as [[<-|[]]|Hx]; [apply run_to_zx, pres_header|].
    apply in_app_or in Hx. destruct Hx as [Hx|Hx].
    { unfold A in Hx. destruct (negb (is_nil (write_opts_of c d g))); [|destruct Hx]. destruct Hx as [<-|[]].
      apply run_write_opts_of; assumption. }
    apply in_app_or in Hx. destruct Hx as [Hx|Hx].
    { unfold B in Hx. destruct (negb (is_nil (write_flags_of c d g))); [|destruct Hx]. destruct Hx as [<-|[]].
      apply run_write_flags_of; assumption. }
    unfold C in Hx. destruct (negb (is_nil (write_positionals_of c d))); [|destruct Hx]. destruct Hx as [<-|[]].
    apply run_write_positionals_of; exact Ht. }
  destruct (has_subcommands c).
  - destruct (c_bin c) as [b|] eqn:Eb; [|discriminate]. intros E; apply Some_inj in E; subst blk.
    pose proof (ztame_bin c b Ht Eb) as Hb. destruct (ztame_cmd_parts c Ht) as (Hn & _).
    match goal with |- run_to _ _ (zjoin znl (?S ++ [?l1; ?l2; ?l3])) =>
      replace (S ++ [l1; l2; l3]) with ((S ++ [l1; l2]) ++ [l3]) by (rewrite <- app_assoc; reflexivity) end.
    apply zjoin_run_last; [|apply run_to_zx, pres_ret].
    intros x Hx. apply in_app_or in Hx. destruct Hx as [Hx|Hx]; [apply Hsegs; exact Hx|].
    destruct Hx as [<-|[<-|[]]]; apply run_to_zx.
    + apply (pres_app zbare is_dq zbb (lit """:: :_")); [lit_pres|].
      apply (pres_app is_dq is_dq zbb (space_to_dd b)); [apply pres_tame_dq, tame_replace_byte; [reflexivity|exact Hb]|lit_pres].
    + apply (pres_app zbare is_dq zbb (lit """*::: :->")); [lit_pres|].
      apply (pres_app is_dq is_dq zbb (c_name c)); [apply pres_tame_dq; exact Hn|lit_pres].
  - intros E; apply Some_inj in E; subst blk. apply zjoin_run_last; [exact Hsegs|apply run_to_zx, pres_ret].
Qed.

(** ---- the subcommand section ---- *)
Ltac pchunk Q tac := apply (pres_app _ Q _); [tac|].

Lemma subcommands_words p names w b :
  subcommands p = Some names -> In (w, b) names -> exists sc, In sc (c_subs p) /\ In w (get_name_and_visible_aliases sc).
Proof.
  unfold subcommands. destruct (map_opt sc_entries (c_subs p)) as [l|] eqn:E; [|discriminate].
  intros H Hin. apply Some_inj in H. subst names. apply map_opt_Forall2 in E.
  apply (Forall2_concat_in _ _ _ E) in Hin. destruct Hin as (sc & e & Hsc & He & Hx).
  destruct (sc_entries_spec _ _ He) as (b0 & _ & Hspec). apply Hspec in Hx. exists sc. tauto.
Qed.

Lemma Forall2_in_r {A B} (R : A -> B -> Prop) l r b : Forall2 R l r -> In b r -> exists a, In a l /\ R a b.
Proof.
  induction 1 as [|x y l r Hxy Hrest IH]; intros Hin; [destruct Hin|].
  destruct Hin as [->|Hin]; [exists x; split; [left; reflexivity|exact Hxy]|].
  destruct (IH Hin) as (a & Ha & Hr). exists a. split; [right; exact Ha|exact Hr].
Qed.

Lemma parser_of_d_tame p d b m md : ztame_cmd p = true -> parser_of_d p d b = Some (m, md) -> ztame_cmd m = true.
Proof.
  intros Ht H. apply parser_of_d_inv in H. destruct (parser_of_sound _ _ _ H) as [[->|Hd] _]; [exact Ht|].
  eapply ztame_desc; eassumption.
Qed.

Lemma run_zcase_block name hy pos body :
  tame name = true -> tame hy = true -> tame pos = true -> run_to zbare zbare body ->
  run_to zbare zbare (zcase_block name hy pos body).
Proof.
  intros Hn Hh Hp Hb. unfold zcase_block.
  apply (run_to_app zbare zbare zbare); [|apply (run_to_app zbare zbare zbare); [exact Hb|apply run_to_zx; lit_pres]].
  apply run_to_zx.
  pchunk zbare lit_pres. pchunk zbare lit_pres. pchunk zbare lit_pres. pchunk zbare lit_pres.
  pchunk zbare ltac:(apply pres_tame_bare; exact Hn).
  pchunk zbare lit_pres. pchunk zbare lit_pres. pchunk zbare lit_pres.
  pchunk zbare ltac:(apply pres_tame_bare; exact Hp).
  pchunk zbare lit_pres. pchunk zbare lit_pres. pchunk zbare lit_pres. pchunk zbare lit_pres.
  pchunk is_dq lit_pres.
  pchunk is_dq ltac:(apply pres_tame_dq; exact Hh).
  pchunk is_dq lit_pres.
  pchunk is_dq ltac:(apply pres_tame_dq; exact Hp).
  pchunk zbare lit_pres. pchunk zbare lit_pres. pchunk zbare lit_pres.
  pchunk zbare ltac:(apply pres_tame_bare; exact Hp).
  pchunk zbare lit_pres. pchunk zbare lit_pres. lit_pres.
Qed.

Lemma run_label w : tame w = true -> run_to zbare zbare [Zx (lit "(" ++ w ++ lit ")")].
Proof.
  intros Hw. apply run_to_zx. pchunk zbare lit_pres. pchunk zbare ltac:(apply pres_tame_bare; exact Hw). lit_pres.
Qed.

Lemma run_get_subcommands_of : forall f p d r,
  ztame_cmd p = true -> get_subcommands_of f p d = Some r -> run_to zbare zbare r.
Proof.
  induction f as [|f IH]; intros p d r Ht; cbn [ZshModel.get_subcommands_of]; destruct (negb (has_subcommands p));
    try (intros E; apply Some_inj in E; subst r; apply run_to_nil); [discriminate|].
  destruct (subcommands p) as [names|] eqn:En; [|discriminate].
  match goal with |- match map_opt ?F names with _ => _ end = _ -> _ => destruct (map_opt F names) as [arms|] eqn:Er; [|discriminate] end.
  destruct (c_bin p) as [pb|] eqn:Eb; [|discriminate]. intros E; apply Some_inj in E; subst r.
  destruct (ztame_cmd_parts p Ht) as (Hn & _).
  apply run_zcase_block; [exact Hn|apply tame_replace_byte; [reflexivity|exact (ztame_bin p pb Ht Eb)]|apply tame_dec|].
  apply zjoin_run_bare. intros y Hy. apply map_opt_Forall2 in Er.
  destruct (Forall2_in_r _ _ _ _ Er Hy) as ([w b] & Hnb & Hf). cbn [fst snd] in Hf.
  destruct (subcommands_words p names w b En Hnb) as (sc & Hsc & Hw).
  pose proof (ztame_names sc w (ztame_sub _ _ Ht Hsc) Hw) as Htw.
  destruct (parser_of_d p d b) as [[m md]|] eqn:Em; [|discriminate].
  pose proof (parser_of_d_tame _ _ _ _ _ Ht Em) as Htm.
  destruct (get_args_of m md (Some p)) as [sa|] eqn:Ea; [|discriminate].
  destruct (get_subcommands_of f m md) as [ch|] eqn:Ec; [|discriminate].
  apply Some_inj in Hf. subst y. apply zjoin_run_bare. intros x Hx.
  apply in_app_or in Hx. destruct Hx as [[<-|[]]|Hx]; [apply run_label; exact Htw|].
  apply in_app_or in Hx. destruct Hx as [Hx|Hx].
  { destruct (negb (is_nil sa)); [|destruct Hx]. destruct Hx as [<-|[]]. apply (run_get_args_of m md (Some p) sa Htm); [intros x0 Ex; congruence|exact Ea]. }
  apply in_app_or in Hx. destruct Hx as [Hx|Hx].
  { destruct (negb (is_nil ch)); [|destruct Hx]. destruct Hx as [<-|[]]. eapply IH; eassumption. }
  destruct Hx as [<-|[]]. apply run_to_zx. lit_pres.
Qed.

(** ---- the [_..._commands] functions ---- *)
Lemma run_describe_entry about w : tame w = true -> run_to zbare zbb (describe_entry about w).
Proof.
  intros Hw. unfold describe_entry. apply (run_to_cons_zx zbare is_sq).
  { pchunk is_sq lit_pres. pchunk is_sq ltac:(apply pres_tame_sq; exact Hw). lit_pres. }
  apply run_to_cons_zh. apply run_to_zx. lit_pres.
Qed.

Lemma run_subcommands_of p d : ztame_cmd p = true -> run_to zbare zbare (subcommands_of p d).
Proof.
  intros Ht. unfold subcommands_of. set (segs := flat_map _ _).
  assert (Hs : forall x, In x segs -> run_to zbare zbb x).
  { intros x Hx. apply in_flat_map in Hx. destruct Hx as ([sc sd] & Hin & Hx). cbn [fst snd] in Hx.
    apply in_map_iff in Hx. destruct Hx as (w & <- & Hw). apply run_describe_entry.
    apply zipd_in_l in Hin. exact (ztame_names sc w (ztame_sub _ _ Ht Hin) Hw). }
  clearbody segs. destruct segs as [|s0 segs']; [apply run_to_nil|]. cbn [is_nil negb].
  rewrite app_assoc. apply zjoin_run_last; [|apply run_to_zx; lit_pres].
  intros x Hx. apply in_app_or in Hx. destruct Hx as [[<-|[]]|Hx]; [|apply Hs; exact Hx].
  apply (run_to_weaken zbare zbare zbare zbb); [intros st H; exact H|apply zbare_zbb|apply run_to_nil].
Qed.

Lemma run_commands_function bin body :
  tame bin = true -> run_to zbare zbare body -> run_to zbare zbare (commands_function bin body).
Proof.
  intros Hb Hbody. unfold commands_function.
  assert (Hdd : tame (space_to_dd bin) = true) by (apply tame_replace_byte; [reflexivity|exact Hb]).
  apply (run_to_app zbare zbare zbare); [|apply (run_to_app zbare zbare zbare); [exact Hbody|]]; apply run_to_zx.
  - pchunk zbare lit_pres. pchunk zbare ltac:(apply pres_tame_bare; exact Hdd). pchunk zbare lit_pres. pchunk zbare lit_pres.
    pchunk zbare lit_pres. pchunk zbare ltac:(apply pres_tame_bare; exact Hdd). pchunk zbare lit_pres. pchunk zbare lit_pres.
    lit_pres.
  - pchunk zbare lit_pres. pchunk zbare lit_pres. pchunk is_sq lit_pres.
    pchunk is_sq ltac:(apply pres_tame_sq; exact Hb). pchunk zbare lit_pres. pchunk zbare lit_pres. lit_pres.
Qed.

Lemma run_zsubcommand_details c d det : ztame_cmd c = true -> zsubcommand_details c d = Some det -> run_to zbare zbare det.
Proof.
  intros Ht. unfold zsubcommand_details. destruct (c_bin c) as [b|] eqn:Eb; [|discriminate].
  destruct (all_subcommands c) as [l|]; [|discriminate].
  match goal with |- match map_opt ?F ?L with _ => _ end = _ -> _ => destruct (map_opt F L) as [rest|] eqn:Er; [|discriminate] end.
  intros E; apply Some_inj in E; subst det. apply zjoin_run_bare. intros x [<-|Hx].
  - apply run_commands_function; [exact (ztame_bin c b Ht Eb)|apply run_subcommands_of; exact Ht].
  - apply map_opt_Forall2 in Er. destruct (Forall2_in_r _ _ _ _ Er Hx) as (bn & _ & Hf).
    destruct (parser_of_d c d bn) as [[m md]|] eqn:Em; [|discriminate]. apply Some_inj in Hf. subst x.
    pose proof (parser_of_d_tame _ _ _ _ _ Ht Em) as Htm.
    destruct (parser_of_sound _ _ _ (parser_of_d_inv _ _ _ _ _ Em)) as [_ Hbin].
    apply run_commands_function; [|apply run_subcommands_of; exact Htm].
    unfold bin_or_default in Hbin. destruct (c_bin m) as [mb|] eqn:Emb; [|subst bn; reflexivity].
    subst bn. exact (ztame_bin m mb Htm Emb).
Qed.

(** a comment, or between words: where the [#compdef] line leaves the lexer while the bin name is read *)
Definition zcb (st : zstate) : bool := match st with ZC | ZB | ZW => true | _ => false end.
Lemma pres_tame_zcb s : tame s = true -> pres zcb zcb s.
Proof.
  induction s as [|c s IH]; intros H; [apply pres_nil|].
  cbn [tame forallb] in H. apply andb_true_iff in H. destruct H as [Hc Hs].
  intros st Hst. cbn [final]. apply (IH Hs). destruct st; try discriminate.
  - assert (Hb : zbare (fst (sh_step ZB c)) = true) by (apply (proj1 (tame_byte_sh c Hc)); reflexivity).
    destruct (fst (sh_step ZB c)); try discriminate; reflexivity.
  - assert (Hb : zbare (fst (sh_step ZW c)) = true) by (apply (proj1 (tame_byte_sh c Hc)); reflexivity).
    destruct (fst (sh_step ZW c)); try discriminate; reflexivity.
  - cbn [sh_step]. destruct (c =? 10); reflexivity.
Qed.

Lemma run_script_head name : tame name = true ->
  pres zbare zbare (lit "#compdef " ++ name ++ lf ++ lf ++
                     lit "autoload -U is-at-least" ++ lf ++ lf ++
                     lit "_" ++ name ++ lit "() {" ++ lf ++
                     lit "    typeset -A opt_args" ++ lf ++
                     lit "    typeset -a _arguments_options" ++ lf ++
                     lit "    local ret=1" ++ lf ++ lf ++
                     lit "    if is-at-least 5.2; then" ++ lf ++
                     lit "        _arguments_options=(-s -S -C)" ++ lf ++
                     lit "    else" ++ lf ++
                     lit "        _arguments_options=(-s -C)" ++ lf ++
                     lit "    fi" ++ lf ++ lf ++
                     lit "    local context curcontext=""$curcontext"" state line" ++ lf ++
                     lit "    ").
Proof.
  intros Hn. pchunk zcb lit_pres. pchunk zcb ltac:(apply pres_tame_zcb; exact Hn). pchunk zbare lit_pres.
  pchunk zbare lit_pres. pchunk zbare lit_pres. pchunk zbare lit_pres. pchunk zbare lit_pres. pchunk zbare lit_pres.
  pchunk zbare ltac:(apply pres_tame_bare; exact Hn). lit_pres.
Qed.

Lemma run_script_tail name : tame name = true ->
  pres zbare zbare (lf ++ lf ++
                    lit "if [ ""$funcstack[1]"" = ""_" ++ name ++ lit """ ]; then" ++ lf ++
                    lit "    _" ++ name ++ lit " ""$@""" ++ lf ++
                    lit "else" ++ lf ++
                    lit "    compdef _" ++ name ++ lit " " ++ name ++ lf ++
                    lit "fi" ++ lf).
Proof.
  intros Hn. pchunk zbare lit_pres. pchunk zbare lit_pres. pchunk is_dq lit_pres.
  pchunk is_dq ltac:(apply pres_tame_dq; exact Hn). pchunk zbare lit_pres. pchunk zbare lit_pres. pchunk zbare lit_pres.
  pchunk zbare ltac:(apply pres_tame_bare; exact Hn). pchunk zbare lit_pres. pchunk zbare lit_pres. pchunk zbare lit_pres.
  pchunk zbare lit_pres. pchunk zbare lit_pres.
  pchunk zbare ltac:(apply pres_tame_bare; exact Hn). pchunk zbare lit_pres.
  pchunk zbare ltac:(apply pres_tame_bare; exact Hn). lit_pres.
Qed.

(** for a tame tree every slot of the file is met inside a single-quoted word, whatever the texts; the file ends between words *)
Theorem zsh_file_runs c d ps :
  ztame_cmd c = true -> zsh_pieces c d = Some ps -> exists st, zrun ZB ps = Some st /\ zbare st = true.
Proof.
  intros Ht. unfold ZshModel.zsh_pieces. destruct (c_bin c) as [name|] eqn:Eb; [|discriminate].
  destruct (get_args_of c d None) as [ia|] eqn:Ea; [|discriminate].
  destruct (get_subcommands_of (depth c) c d) as [sc|] eqn:Es; [|discriminate].
  destruct (zsubcommand_details c d) as [de|] eqn:Ed; [|discriminate].
  intros E; apply Some_inj in E; subst ps. pose proof (ztame_bin c name Ht Eb) as Hn.
  assert (R : run_to zbare zbare
    ([Zx (lit "#compdef " ++ name ++ lf ++ lf ++
                     lit "autoload -U is-at-least" ++ lf ++ lf ++
                     lit "_" ++ name ++ lit "() {" ++ lf ++
                     lit "    typeset -A opt_args" ++ lf ++
                     lit "    typeset -a _arguments_options" ++ lf ++
                     lit "    local ret=1" ++ lf ++ lf ++
                     lit "    if is-at-least 5.2; then" ++ lf ++
                     lit "        _arguments_options=(-s -S -C)" ++ lf ++
                     lit "    else" ++ lf ++
                     lit "        _arguments_options=(-s -C)" ++ lf ++
                     lit "    fi" ++ lf ++ lf ++
                     lit "    local context curcontext=""$curcontext"" state line" ++ lf ++
                     lit "    ")]
                ++ ia ++ sc
                ++ [Zx (lf ++ lit "}" ++ lf ++ lf)]
                ++ de
                ++ [Zx (lf ++ lf ++
                        lit "if [ ""$funcstack[1]"" = ""_" ++ name ++ lit """ ]; then" ++ lf ++
                        lit "    _" ++ name ++ lit " ""$@""" ++ lf ++
                        lit "else" ++ lf ++
                        lit "    compdef _" ++ name ++ lit " " ++ name ++ lf ++
                        lit "fi" ++ lf)])).
  { apply (run_to_app zbare zbare zbare); [apply run_to_zx, run_script_head; exact Hn|].
    apply (run_to_app zbare zbare zbare); [apply (run_get_args_of c d None ia Ht); [intros x0 Ex; discriminate Ex|exact Ea]|].
    apply (run_to_app zbare zbare zbare); [eapply run_get_subcommands_of; eassumption|].
    apply (run_to_app zbare zbare zbare); [apply run_to_zx; lit_pres|].
    apply (run_to_app zbare zbare zbare); [eapply run_zsubcommand_details; eassumption|].
    apply run_to_zx, run_script_tail; exact Hn. }
  exact (R ZB eq_refl).
Qed.

(** ---- the theorems ---- *)
(** every description text of the whole file is read by zsh's word lexer inside a single-quoted word only: the
    token skeleton of the file is that of the fixed text alone, the level-1 payload is the fixed payload plus,
    per slot, the level-1 image of the text; the file ends between words *)
Theorem zsh_texts_literal c d :
  ztame_cmd c = true -> forall ps, zsh_pieces c d = Some ps ->
  exists s, zsh_script c d = Some s /\
    skeleton (events sh_step ZB s) = zpskel ZB ps /\ lits (events sh_step ZB s) = zplits ZB ps /\
    zbare (final sh_step ZB s) = true.
Proof.
  intros Ht ps Hp. destruct (zsh_file_runs c d ps Ht Hp) as (st & R & B).
  destruct (zrun_events ps ZB st R) as (F & S & L).
  unfold ZshModel.zsh_script. rewrite Hp. eexists; split; [reflexivity|]. rewrite F. auto.
Qed.

(** the token skeleton (and the final lexer state) of the ENTIRE generated file is the same for any two
    assignments of description texts with the same presence shape *)
Theorem zsh_text_invariance c d1 d2 s1 :
  ztame_cmd c = true -> erase_desc d1 = erase_desc d2 -> zsh_script c d1 = Some s1 ->
  exists s2, zsh_script c d2 = Some s2 /\
    skeleton (events sh_step ZB s1) = skeleton (events sh_step ZB s2) /\
    final sh_step ZB s1 = final sh_step ZB s2.
Proof.
  intros Ht He H1. unfold ZshModel.zsh_script in H1. destruct (zsh_pieces c d1) as [p1|] eqn:E1; [|discriminate].
  apply Some_inj in H1. subst s1.
  pose proof (zsh_pieces_erase c d1) as X1. pose proof (zsh_pieces_erase c d2) as X2.
  rewrite He, E1 in X1. rewrite X1 in X2. destruct (zsh_pieces c d2) as [p2|] eqn:E2; [|discriminate].
  cbn [option_map'] in X2. apply Some_inj in X2.
  destruct (zsh_file_runs c d1 p1 Ht E1) as (st1 & R1 & _). destruct (zsh_file_runs c d2 p2 Ht E2) as (st2 & R2 & _).
  destruct (zrun_events p1 ZB st1 R1) as (F1 & S1 & _). destruct (zrun_events p2 ZB st2 R2) as (F2 & S2 & _).
  unfold ZshModel.zsh_script. rewrite E2. eexists; split; [reflexivity|].
  rewrite S1, S2, F1, F2. rewrite <- (zpskel_perase p1), <- (zpskel_perase p2), X2.
  split; [reflexivity|].
  rewrite <- (zrun_perase p1), X2, zrun_perase, R2 in R1. inversion R1. reflexivity.
Qed.

(** the pair of files the harness generates for the oracle (texts as given / innocuous text of the same emptiness) is an instance *)
Theorem zsh_adversarial_innocuous c d s1 :
  ztame_cmd c = true -> zsh_script c d = Some s1 ->
  exists s2, zsh_script c (innocuous_desc d) = Some s2 /\
    skeleton (events sh_step ZB s1) = skeleton (events sh_step ZB s2) /\
    final sh_step ZB s1 = final sh_step ZB s2.
Proof. intros Ht H. apply (zsh_text_invariance c d (innocuous_desc d) s1 Ht); [symmetry; apply erase_innocuous|exact H]. Qed.

(** ---- level 2: the payload of a quoted spec, read by the lexer of [_arguments] / [_describe] ---- *)
(** [zrun2] threads BOTH lexers through the pieces of one shell word list: [sh_step] over the bytes, [zspec_step] over
    the level-1 payload; an [escape_help] slot must be met inside quotes in the description or in a field of the spec,
    a positional's help inside quotes in a field *)
Fixpoint zrun2 (s1 : zstate) (s2 : zsstate) (l : list zpiece) : option (zstate * zsstate) :=
  match l with
  | [] => Some (s1, s2)
  | Zx b :: r => zrun2 (final sh_step s1 b) (final zspec_step s2 (lits (events sh_step s1 b))) r
  | Zh _ :: r => match s1, s2 with
                 | ZSQ, ZsDescr => zrun2 s1 s2 r
                 | ZSQ, ZsField => zrun2 s1 s2 r
                 | _, _ => None end
  | Zp _ :: r => match s1, s2 with
                 | ZSQ, ZsField => zrun2 s1 s2 r
                 | _, _ => None end
  end.
(** the level-2 events, slot by slot: a text contributes itself (newlines flattened by escape_help), as literal payload *)
Fixpoint zpev2 (s1 : zstate) (s2 : zsstate) (l : list zpiece) : list ev :=
  match l with
  | [] => []
  | Zx b :: r => events zspec_step s2 (lits (events sh_step s1 b))
                 ++ zpev2 (final sh_step s1 b) (final zspec_step s2 (lits (events sh_step s1 b))) r
  | Zh t :: r => map Lit (flatten t) ++ zpev2 s1 s2 r
  | Zp t :: r => map Lit (lit " -- " ++ t) ++ zpev2 s1 s2 r
  end.
Fixpoint zpskel2 (s1 : zstate) (s2 : zsstate) (l : list zpiece) : list ev :=
  match l with
  | [] => []
  | Zx b :: r => skeleton (events zspec_step s2 (lits (events sh_step s1 b)))
                 ++ zpskel2 (final sh_step s1 b) (final zspec_step s2 (lits (events sh_step s1 b))) r
  | _ :: r => zpskel2 s1 s2 r
  end.

(** what zsh hands to the second level: the payload of the words *)
Definition payload (l : list zpiece) (s1 : zstate) : list N := lits (events sh_step s1 (zrender l)).

Theorem zrun2_events l : forall s1 s2 st, zrun2 s1 s2 l = Some st ->
  events zspec_step s2 (payload l s1) = zpev2 s1 s2 l /\ final zspec_step s2 (payload l s1) = snd st.
Proof.
  unfold payload. induction l as [|p l IH]; intros s1 s2 st H.
  - cbn in H. inversion H; subst. split; reflexivity.
  - rewrite zrender_cons. destruct p as [b|t|t]; cbn [zrun2 zrender1 zpev2] in *.
    + destruct (IH _ _ _ H) as [E F].
      rewrite events_app, lits_app, events_app, final_app, E, F. split; reflexivity.
    + destruct (zsh_sq_context t (zrender l)) as (_ & _ & L').
      destruct s1; try discriminate; destruct s2; try discriminate; destruct (IH _ _ _ H) as [E F]; rewrite L'.
      * destruct (zsh_descr_context t (lits (events sh_step ZSQ (zrender l)))) as [F2 E2]. rewrite E2, F2, E, F. split; reflexivity.
      * destruct (zsh_field_context t (lits (events sh_step ZSQ (zrender l)))) as [F2 E2]. rewrite E2, F2, E, F. split; reflexivity.
    + destruct (zsh_pos_sq_context (lit " -- " ++ t) (zrender l)) as (_ & _ & L').
      destruct s1; try discriminate; destruct s2; try discriminate; destruct (IH _ _ _ H) as [E F]; rewrite L'.
      destruct (zsh_pos_field_context (lit " -- " ++ t) (lits (events sh_step ZSQ (zrender l)))) as [F2 E2].
      rewrite E2, F2, E, F. split; reflexivity.
Qed.

Lemma zpev2_skeleton l : forall s1 s2, skeleton (zpev2 s1 s2 l) = zpskel2 s1 s2 l.
Proof.
  induction l as [|p l IH]; intros s1 s2; [reflexivity|].
  destruct p as [b|t|t]; cbn [zpev2 zpskel2]; rewrite skeleton_app.
  - now rewrite IH.
  - now rewrite skeleton_map_Lit, IH.
  - now rewrite skeleton_map_Lit, IH.
Qed.
Lemma zrun2_perase l : forall s1 s2, zrun2 s1 s2 (map zperase l) = zrun2 s1 s2 l.
Proof.
  induction l as [|p l IH]; intros s1 s2; [reflexivity|].
  destruct p as [b|t|t]; cbn [map zperase zrun2]; [apply IH| |]; destruct s1; try reflexivity; destruct s2; try reflexivity; apply IH.
Qed.
Lemma zpskel2_perase l : forall s1 s2, zpskel2 s1 s2 (map zperase l) = zpskel2 s1 s2 l.
Proof.
  induction l as [|p l IH]; intros s1 s2; [reflexivity|].
  destruct p as [b|t|t]; cbn [map zperase zpskel2]; now rewrite IH.
Qed.

(** two word lists with the same fixed text: the same level-2 token skeleton and final level-2 state, whatever the texts *)
Theorem level2_invariance l1 l2 s1 s2 st :
  zrun2 s1 s2 l1 = Some st -> map zperase l1 = map zperase l2 ->
  skeleton (events zspec_step s2 (payload l1 s1)) = skeleton (events zspec_step s2 (payload l2 s1)) /\
  final zspec_step s2 (payload l1 s1) = final zspec_step s2 (payload l2 s1).
Proof.
  intros R1 E. assert (R2 : zrun2 s1 s2 l2 = Some st) by (rewrite <- zrun2_perase, <- E, zrun2_perase; exact R1).
  destruct (zrun2_events l1 s1 s2 st R1) as [E1 F1]. destruct (zrun2_events l2 s1 s2 st R2) as [E2 F2].
  rewrite E1, E2, F1, F2, !zpev2_skeleton, <- (zpskel2_perase l1), <- (zpskel2_perase l2), E. split; reflexivity.
Qed.

(** ---- every spec line of a tame tree runs at level 2 ---- *)
(** inside the quotes: the payload of fixed text without a quote is the text itself *)
Definition nosq (b : bytes) : bool := forallb (fun c => negb (c =? 39)) b.
Lemma sq_lits b : nosq b = true -> final sh_step ZSQ b = ZSQ /\ lits (events sh_step ZSQ b) = b.
Proof.
  induction b as [|c b IH]; intros H; [split; reflexivity|].
  cbn [nosq forallb] in H. apply andb_true_iff in H. destruct H as [Hc Hb]. apply negb_true_iff in Hc.
  cbn [final events sh_step]. rewrite Hc. cbn [fst snd app lits]. destruct (IH Hb) as [F L]. rewrite F, L. split; reflexivity.
Qed.
Lemma nosq_app a b : nosq (a ++ b) = nosq a && nosq b.
Proof. apply forallb_app. Qed.
Lemma tame_nosq s : tame s = true -> nosq s = true.
Proof.
  unfold tame, nosq. intros H. rewrite forallb_forall in *. intros c Hc. specialize (H c Hc).
  unfold tame_byte in H. apply negb_true_iff in H. apply negb_true_iff.
  apply orb_false_iff in H. destruct H as [H _]. apply orb_false_iff in H. destruct H as [H _].
  apply orb_false_iff in H. tauto.
Qed.
Lemma nosq_escape_value_char c : tame_byte c = true -> nosq (apply_chain zsh_escape_value_chain [c]) = true.
Proof.
  intros Hc. destruct (in_dec N.eq_dec c (keys zsh_escape_value_chain)) as [Hin|Hout].
  - cbn in Hin. repeat (destruct Hin as [<-|Hin]; [try reflexivity; discriminate Hc|]). destruct Hin.
  - rewrite apply_chain_other by (reflexivity || assumption). apply tame_nosq. cbn [tame forallb]. rewrite Hc. reflexivity.
Qed.
Lemma nosq_escape_value s : tame s = true -> nosq (zsh_escape_value s) = true.
Proof.
  unfold zsh_escape_value. rewrite apply_chain_charwise by reflexivity.
  induction s as [|c s IH]; intros H; [reflexivity|].
  cbn [tame forallb] in H. apply andb_true_iff in H. destruct H as [Hc Hs].
  cbn [flat_map]. rewrite nosq_app, (nosq_escape_value_char c Hc), (IH Hs). reflexivity.
Qed.

(** the content of a quoted word: the level-2 lexer alone *)
Fixpoint run_in (s2 : zsstate) (l : list zpiece) : option zsstate :=
  match l with
  | [] => Some s2
  | Zx b :: r => if nosq b then run_in (final zspec_step s2 b) r else None
  | Zh _ :: r => match s2 with ZsDescr => run_in s2 r | ZsField => run_in s2 r | _ => None end
  | Zp _ :: r => match s2 with ZsField => run_in s2 r | _ => None end
  end.
Lemma zrun2_in l : forall s2 s2' tail, run_in s2 l = Some s2' -> zrun2 ZSQ s2 (l ++ tail) = zrun2 ZSQ s2' tail.
Proof.
  induction l as [|p l IH]; intros s2 s2' tail H; [cbn in H; inversion H; reflexivity|].
  destruct p as [b|t|t]; cbn [run_in zrun2 app] in *.
  - destruct (nosq b) eqn:Eb; [|discriminate]. destruct (sq_lits b Eb) as [F L]. rewrite F, L. apply IH. exact H.
  - destruct s2; try discriminate; apply IH; exact H.
  - destruct s2; try discriminate; apply IH; exact H.
Qed.
(** a whole line: quote, content, quote, the continuation backslash *)
Lemma zrun2_line a inner st s2 s2' :
  zbare st = true -> nosq a = true -> run_in (final zspec_step s2 a) inner = Some s2' ->
  zrun2 st s2 (Zx (39 :: a) :: inner ++ [Zx (lit "' \")]) = Some (ZBS, s2').
Proof.
  intros Hst Ha Hin. destruct (sq_lits a Ha) as [F L].
  assert (E : final sh_step st (39 :: a) = ZSQ /\ lits (events sh_step st (39 :: a)) = a).
  { destruct st; try discriminate; (split; [exact F|]);
      change (lits (Qm 39 :: events sh_step ZSQ a) = a); cbn [lits]; exact L. }
  cbn [zrun2]. destruct E as [E1 E2]. rewrite E1, E2. rewrite (zrun2_in inner _ s2' _ Hin). reflexivity.
Qed.

Definition run2_to (P Q : zsstate -> bool) (l : list zpiece) : Prop :=
  forall s, P s = true -> exists s', run_in s l = Some s' /\ Q s' = true.
Lemma run2_nil P : run2_to P P [].
Proof. intros s H. exists s. split; [reflexivity|exact H]. Qed.
Lemma run_in_app a : forall s b, run_in s (a ++ b) = match run_in s a with Some s' => run_in s' b | None => None end.
Proof.
  induction a as [|p a IH]; intros s b; [reflexivity|].
  destruct p as [x|t|t]; cbn [run_in app].
  - destruct (nosq x); [apply IH|reflexivity].
  - destruct s; try reflexivity; apply IH.
  - destruct s; try reflexivity; apply IH.
Qed.
Lemma run2_app P Q R a b : run2_to P Q a -> run2_to Q R b -> run2_to P R (a ++ b).
Proof.
  intros Ha Hb s H. destruct (Ha s H) as (s1 & R1 & B1). destruct (Hb s1 B1) as (s2 & R2 & B2).
  exists s2. rewrite run_in_app, R1. split; assumption.
Qed.
Definition pres2 (P Q : zsstate -> bool) (b : bytes) : Prop := forall s, P s = true -> Q (final zspec_step s b) = true.
Lemma pres2_nil P : pres2 P P [].
Proof. intros s H. exact H. Qed.
Lemma pres2_app P Q R a b : pres2 P Q a -> pres2 Q R b -> pres2 P R (a ++ b).
Proof. intros Ha Hb s H. rewrite final_app. apply Hb, Ha, H. Qed.
Definition all_states2 : list zsstate := [ZsPre; ZsPreB; ZsDescr; ZsDescrB; ZsField; ZsFieldB].
Definition pres2_checkb (P Q : zsstate -> bool) (b : bytes) : bool :=
  forallb (fun s => implb (P s) (Q (final zspec_step s b))) all_states2.
Lemma pres2_checkb_ok P Q b : pres2_checkb P Q b = true -> pres2 P Q b.
Proof.
  unfold pres2_checkb. intros H s Hs. rewrite forallb_forall in H.
  assert (Hin : In s all_states2) by (destruct s; cbn; tauto).
  specialize (H s Hin). rewrite Hs in H. exact H.
Qed.
Ltac lit_pres2 := apply pres2_checkb_ok; vm_compute; reflexivity.
Lemma run2_zx P Q b : nosq b = true -> pres2 P Q b -> run2_to P Q [Zx b].
Proof. intros Hn Hb s H. cbn [run_in]. rewrite Hn. eexists. split; [reflexivity|]. apply Hb, H. Qed.

(** not after a backslash / where a slot may stand / in a field *)
Definition nob (s : zsstate) : bool := match s with ZsPre | ZsDescr | ZsField => true | _ => false end.
Definition slot_ok (s : zsstate) : bool := match s with ZsDescr | ZsField => true | _ => false end.
Definition is_field (s : zsstate) : bool := match s with ZsField => true | _ => false end.
Definition is_pre (s : zsstate) : bool := match s with ZsPre => true | _ => false end.
Lemma run2_zh : run2_to slot_ok slot_ok [Zh []] /\ forall t, run2_to slot_ok slot_ok [Zh t].
Proof. split; [|intros t]; intros [] H; try discriminate; eexists; split; reflexivity. Qed.
Lemma run2_zh_field t : run2_to is_field is_field [Zh t].
Proof. intros [] H; try discriminate; eexists; split; reflexivity. Qed.
Lemma run2_zp t : run2_to is_field is_field [Zp t].
Proof. intros [] H; try discriminate; eexists; split; reflexivity. Qed.

Lemma tame_byte_spec c : tame_byte c = true ->
  (forall s, nob s = true -> nob (fst (zspec_step s c)) = true) /\
  (forall s, slot_ok s = true -> slot_ok (fst (zspec_step s c)) = true) /\
  fst (zspec_step ZsField c) = ZsField.
Proof.
  unfold tame_byte. intros H. apply negb_true_iff in H.
  apply orb_false_iff in H. destruct H as [H _]. apply orb_false_iff in H. destruct H as [_ H92].
  split; [|split].
  - intros [] Hs; try discriminate; cbn [zspec_step]; rewrite H92.
    + destruct (c =? 91); [reflexivity|]. destruct (c =? 58); reflexivity.
    + destruct (c =? 93); reflexivity.
    + destruct (c =? 58); reflexivity.
  - intros [] Hs; try discriminate; cbn [zspec_step]; rewrite H92.
    + destruct (c =? 93); reflexivity.
    + destruct (c =? 58); reflexivity.
  - cbn [zspec_step]. rewrite H92. destruct (c =? 58); reflexivity.
Qed.
Lemma pres2_tame_nob s : tame s = true -> pres2 nob nob s.
Proof.
  induction s as [|c s IH]; intros H; [apply pres2_nil|].
  cbn [tame forallb] in H. apply andb_true_iff in H. destruct H as [Hc Hs].
  intros st Hst. cbn [final]. apply (IH Hs). apply (proj1 (tame_byte_spec c Hc)). exact Hst.
Qed.
Lemma pres2_tame_slot s : tame s = true -> pres2 slot_ok slot_ok s.
Proof.
  induction s as [|c s IH]; intros H; [apply pres2_nil|].
  cbn [tame forallb] in H. apply andb_true_iff in H. destruct H as [Hc Hs].
  intros st Hst. cbn [final]. apply (IH Hs). apply (proj1 (proj2 (tame_byte_spec c Hc))). exact Hst.
Qed.
Lemma pres2_tame_field s : tame s = true -> pres2 is_field is_field s.
Proof.
  induction s as [|c s IH]; intros H; [apply pres2_nil|].
  cbn [tame forallb] in H. apply andb_true_iff in H. destruct H as [Hc Hs].
  intros [] Hst; try discriminate. cbn [final]. rewrite (proj2 (proj2 (tame_byte_spec c Hc))). apply (IH Hs). reflexivity.
Qed.
Lemma slot_nob s : slot_ok s = true -> nob s = true.
Proof. destruct s; auto. Qed.
Lemma field_slot s : is_field s = true -> slot_ok s = true.
Proof. destruct s; auto. Qed.

(** a whole line whose last piece carries fixed text before the closing quote *)
Lemma zrun2_line' a inner b st s2 s2' :
  zbare st = true -> nosq a = true -> nosq b = true -> run_in (final zspec_step s2 a) inner = Some s2' ->
  zrun2 st s2 (Zx (39 :: a) :: inner ++ [Zx (b ++ lit "' \")]) = Some (ZBS, final zspec_step s2' b).
Proof.
  intros Hst Ha Hb Hin. destruct (sq_lits a Ha) as [F L]. destruct (sq_lits b Hb) as [Fb Lb].
  assert (E : final sh_step st (39 :: a) = ZSQ /\ lits (events sh_step st (39 :: a)) = a).
  { destruct st; try discriminate; (split; [exact F|]);
      change (lits (Qm 39 :: events sh_step ZSQ a) = a); cbn [lits]; exact L. }
  cbn [zrun2]. destruct E as [E1 E2]. rewrite E1, E2. rewrite (zrun2_in inner _ s2' _ Hin). cbn [zrun2].
  rewrite final_app, events_app, lits_app, Fb, Lb. f_equal. f_equal. rewrite app_nil_r. reflexivity.
Qed.

Lemma escape_value_char_field c : final zspec_step ZsField (apply_chain zsh_escape_value_chain [c]) = ZsField.
Proof.
  destruct (in_dec N.eq_dec c (keys zsh_escape_value_chain)) as [Hin|Hout].
  - cbn in Hin. repeat (destruct Hin as [<-|Hin]; [reflexivity|]). destruct Hin.
  - rewrite apply_chain_other by (reflexivity || assumption).
    cbn [final zspec_step fst]. destruct (c =? 92) eqn:E.
    + exfalso. apply Hout. apply N.eqb_eq in E. subst. cbn. tauto.
    + destruct (c =? 58); reflexivity.
Qed.
Lemma pres2_escape_value s : pres2 is_field is_field (zsh_escape_value s).
Proof.
  unfold zsh_escape_value. rewrite apply_chain_charwise by reflexivity.
  induction s as [|c s IH]; [apply pres2_nil|]. cbn [flat_map].
  apply (pres2_app is_field is_field is_field); [|exact IH].
  intros [] H; try discriminate. rewrite escape_value_char_field. reflexivity.
Qed.

Lemma run2_tip_entry q : tame (pv_name (fst q)) = true -> run2_to is_field is_field (tip_entry q).
Proof.
  intros Ht. unfold tip_entry.
  apply (run2_app is_field is_field is_field [Zx (zsh_escape_value (pv_name (fst q)) ++ lit "\:""")]).
  { apply run2_zx; [rewrite nosq_app, (nosq_escape_value _ Ht); reflexivity|].
    apply (pres2_app is_field is_field is_field); [apply pres2_escape_value|lit_pres2]. }
  apply (run2_app is_field is_field is_field [Zh (text_or_default (snd q))]); [apply run2_zh_field|].
  apply run2_zx; [reflexivity|lit_pres2].
Qed.

Lemma run2_zjoin_field l : (forall x, In x l -> run2_to is_field is_field x) -> run2_to is_field is_field (zjoin znl l).
Proof.
  induction l as [|x t IH]; intros H; [apply run2_nil|].
  rewrite zjoin_cons. destruct t as [|y t']; [apply H; left; reflexivity|].
  apply (run2_app is_field is_field is_field); [apply H; left; reflexivity|].
  apply (run2_app is_field is_field is_field); [apply run2_zx; [reflexivity|lit_pres2]|].
  apply IH. intros z Hz. apply H. right. exact Hz.
Qed.

Lemma tame_intercalate l : (forall x, In x l -> tame x = true) -> tame (intercalate (lit " ") l) = true.
Proof.
  induction l as [|x t IH]; intros H; [reflexivity|]. cbn [intercalate].
  destruct t as [|y t']; [apply H; left; reflexivity|].
  rewrite !tame_app, (H x (or_introl eq_refl)), IH; [reflexivity|]. intros z Hz. apply H. right. exact Hz.
Qed.

Lemma hint_field h s : zhint_completion h = Some s -> nosq s = true /\ pres2 is_field is_field s.
Proof. destruct h; intros E; inversion E; subst; (split; [reflexivity|lit_pres2]). Qed.

Lemma run2_zvalue_completion p val :
  tame_arg (fst p) = true -> zvalue_completion p = Some val -> run2_to is_field is_field val.
Proof.
  intros Ht. unfold zvalue_completion. destruct (possible_values (fst p)) as [values|] eqn:Ev.
  - destruct (existsb _ _); intros E; apply Some_inj in E; subst val.
    + apply (run2_app is_field is_field is_field [Zx (lit "((")]); [apply run2_zx; [reflexivity|lit_pres2]|].
      apply (run2_app is_field is_field is_field); [|apply run2_zx; [reflexivity|lit_pres2]].
      apply run2_zjoin_field. intros x Hx. apply in_map_iff in Hx. destruct Hx as (q & <- & Hq).
      apply run2_tip_entry. apply filter_In in Hq. destruct Hq as [Hq _]. destruct q as [pv h]. cbn [fst].
      apply zipd_in_l in Hq. exact (tame_pvs (fst p) values pv Ht Ev Hq).
    + assert (Hn : tame (intercalate (lit " ") (map pv_name (filter (fun pv => negb (pv_hide pv)) values))) = true).
      { apply tame_intercalate. intros x Hx. apply in_map_iff in Hx. destruct Hx as (pv & <- & Hpv). apply filter_In in Hpv.
        apply (tame_pvs (fst p) values pv Ht Ev (proj1 Hpv)). }
      apply run2_zx; [rewrite !nosq_app, (tame_nosq _ Hn); reflexivity|].
      apply (pres2_app is_field is_field is_field); [lit_pres2|].
      apply (pres2_app is_field is_field is_field); [apply pres2_tame_field; exact Hn|lit_pres2].
  - destruct (zhint_completion (a_get_hint (fst p))) as [s|] eqn:Eh; intros E; [|discriminate E].
    apply Some_inj in E. subst val. destruct (hint_field _ _ Eh) as [H1 H2]. apply run2_zx; assumption.
Qed.

Lemma run2_concat_repeat P x n : run2_to P P x -> run2_to P P (List.concat (repeat x n)).
Proof.
  intros H. induction n as [|n IH]; [apply run2_nil|]. cbn [repeat List.concat]. apply (run2_app P P P); assumption.
Qed.
Lemma run2_opt_vc p : tame_arg (fst p) = true -> vn_tame (fst p) = true -> run2_to is_field is_field (opt_vc p).
Proof.
  intros Ht Hv. unfold opt_vc. apply run2_concat_repeat.
  pose proof (tame_value_name _ Hv) as Hvn.
  assert (Hn : forall tl, nosq tl = true -> nosq (lit ":" ++ value_name (fst p) ++ tl) = true).
  { intros tl Htl. rewrite !nosq_app, (tame_nosq _ Hvn), Htl. reflexivity. }
  assert (Hp : forall tl, pres2 is_field is_field tl -> pres2 is_field is_field (lit ":" ++ value_name (fst p) ++ tl)).
  { intros tl Htl. apply (pres2_app is_field is_field is_field); [lit_pres2|].
    apply (pres2_app is_field is_field is_field); [apply pres2_tame_field; exact Hvn|exact Htl]. }
  destruct (zvalue_completion p) as [val|] eqn:E.
  - apply (run2_app is_field is_field is_field [Zx (lit ":" ++ value_name (fst p) ++ lit ":")]).
    { apply run2_zx; [apply Hn; reflexivity|apply Hp; lit_pres2]. }
    eapply run2_zvalue_completion; eassumption.
  - apply run2_zx; [apply Hn; reflexivity|apply Hp; lit_pres2].
Qed.

Lemma tame_multiple a : tame (multiple_of a) = true.
Proof. unfold multiple_of. destruct (a_action a); reflexivity. Qed.

(** the head of an option / flag spec: [*], the dashes, the name, ([+] or [=]), the opening bracket *)
Lemma spec_head_pres cf m x y : tame cf = true -> tame m = true -> tame x = true -> tame y = true ->
  nosq (cf ++ m ++ x ++ y ++ [91]) = true /\ pres2 is_pre slot_ok (cf ++ m ++ x ++ y ++ [91]).
Proof.
  intros Hcf Hm Hx Hy. split.
  - rewrite !nosq_app, (tame_nosq _ Hcf), (tame_nosq _ Hm), (tame_nosq _ Hx), (tame_nosq _ Hy). reflexivity.
  - apply (pres2_app is_pre nob slot_ok).
    { intros s Hs. apply (pres2_tame_nob cf Hcf). destruct s; try discriminate; reflexivity. }
    apply (pres2_app nob nob slot_ok); [apply pres2_tame_nob; exact Hm|].
    apply (pres2_app nob nob slot_ok); [apply pres2_tame_nob; exact Hx|].
    apply (pres2_app nob nob slot_ok); [apply pres2_tame_nob; exact Hy|lit_pres2].
Qed.

Lemma run2_opt_short_line c g p s st :
  tame (arg_conflicts c (fst p) g) = true ->
  tame_arg (fst p) = true -> vn_tame (fst p) = true -> tame s = true -> zbare st = true ->
  exists s2, zrun2 st ZsPre (opt_short_line c g p s) = Some (ZBS, s2).
Proof.
  intros Hcf Ht Hv Hs Hst. unfold ZshModel.opt_short_line.
  destruct (spec_head_pres (arg_conflicts c (fst p) g) (multiple_of (fst p)) (lit "-") (s ++ lit "+") Hcf (tame_multiple _) eq_refl) as [Hn Hp].
  { rewrite tame_app, Hs. reflexivity. }
  rewrite <- !app_assoc in Hn, Hp.
  assert (R : run2_to slot_ok is_field ([Zh (text_or_default (ad_help (snd p))); Zx (lit "]")] ++ opt_vc p)).
  { apply (run2_app slot_ok slot_ok is_field [Zh (text_or_default (ad_help (snd p)))]); [apply run2_zh|].
    apply (run2_app slot_ok is_field is_field [Zx (lit "]")]); [apply run2_zx; [reflexivity|lit_pres2]|].
    apply run2_opt_vc; [exact Ht|exact Hv]. }
  destruct (R _ (Hp ZsPre eq_refl)) as (s2 & R2 & _).
  exists s2. apply (zrun2_line _ _ st ZsPre s2 Hst Hn R2).
Qed.
Lemma run2_opt_long_line c g p s st :
  tame (arg_conflicts c (fst p) g) = true ->
  tame_arg (fst p) = true -> vn_tame (fst p) = true -> tame s = true -> zbare st = true ->
  exists s2, zrun2 st ZsPre (opt_long_line c g p s) = Some (ZBS, s2).
Proof.
  intros Hcf Ht Hv Hs Hst. unfold ZshModel.opt_long_line.
  destruct (spec_head_pres (arg_conflicts c (fst p) g) (multiple_of (fst p)) (lit "--") (s ++ lit "=") Hcf (tame_multiple _) eq_refl) as [Hn Hp].
  { rewrite tame_app, Hs. reflexivity. }
  rewrite <- !app_assoc in Hn, Hp.
  assert (R : run2_to slot_ok is_field ([Zh (text_or_default (ad_help (snd p))); Zx (lit "]")] ++ opt_vc p)).
  { apply (run2_app slot_ok slot_ok is_field [Zh (text_or_default (ad_help (snd p)))]); [apply run2_zh|].
    apply (run2_app slot_ok is_field is_field [Zx (lit "]")]); [apply run2_zx; [reflexivity|lit_pres2]|].
    apply run2_opt_vc; [exact Ht|exact Hv]. }
  destruct (R _ (Hp ZsPre eq_refl)) as (s2 & R2 & _).
  exists s2. apply (zrun2_line _ _ st ZsPre s2 Hst Hn R2).
Qed.

Lemma run2_zflag_line c g p dashes name st :
  tame (arg_conflicts c (fst p) g) = true ->
  tame dashes = true -> tame name = true -> zbare st = true ->
  exists s2, zrun2 st ZsPre (zflag_line c g p dashes name) = Some (ZBS, s2).
Proof.
  intros Hcf Hd Hn Hst. unfold ZshModel.zflag_line.
  destruct (spec_head_pres (arg_conflicts c (fst p) g) (multiple_of (fst p)) dashes name Hcf (tame_multiple _) Hd Hn) as [Hq Hp].
  destruct (proj2 run2_zh (text_or_default (ad_help (snd p))) _ (Hp ZsPre eq_refl)) as (s2 & R2 & _).
  eexists. apply (zrun2_line' _ [Zh (text_or_default (ad_help (snd p)))] (lit "]") st ZsPre s2 Hst Hq eq_refl R2).
Qed.

(** the cardinality prefixes: ["*:"], [":"], [""] and ["*" ++ escape_value terminator ++ ":"] *)
Definition card_ok (card : bytes) : Prop := nosq card = true /\ pres2 is_pre is_field (card ++ lit ":").
Lemma escape_value_char_pre c : tame_byte c = true -> final zspec_step ZsPre (apply_chain zsh_escape_value_chain [c]) = ZsPre.
Proof.
  intros Hc. destruct (in_dec N.eq_dec c (keys zsh_escape_value_chain)) as [Hin|Hout].
  - cbn in Hin. repeat (destruct Hin as [<-|Hin]; [try reflexivity; discriminate Hc|]). destruct Hin.
  - rewrite apply_chain_other by (reflexivity || assumption).
    cbn [final zspec_step fst].
    destruct (c =? 92) eqn:E1; [exfalso; apply Hout; apply N.eqb_eq in E1; subst; cbn; tauto|].
    destruct (c =? 91) eqn:E2; [exfalso; apply Hout; apply N.eqb_eq in E2; subst; cbn; tauto|].
    destruct (c =? 58) eqn:E3; [exfalso; apply Hout; apply N.eqb_eq in E3; subst; cbn; tauto|]. reflexivity.
Qed.
Lemma pres2_escape_value_pre s : tame s = true -> pres2 is_pre is_pre (zsh_escape_value s).
Proof.
  unfold zsh_escape_value. rewrite apply_chain_charwise by reflexivity.
  induction s as [|c s IH]; intros H; [apply pres2_nil|].
  cbn [tame forallb] in H. apply andb_true_iff in H. destruct H as [Hc Hs]. cbn [flat_map].
  apply (pres2_app is_pre is_pre is_pre); [|apply IH; exact Hs].
  intros [] Hst; try discriminate. rewrite (escape_value_char_pre c Hc). reflexivity.
Qed.
Lemma card_ok_terminator t : tame t = true -> card_ok (lit "*" ++ zsh_escape_value t ++ lit ":").
Proof.
  intros Ht. split.
  - rewrite !nosq_app, (nosq_escape_value _ Ht). reflexivity.
  - rewrite <- !app_assoc. apply (pres2_app is_pre is_pre is_field); [lit_pres2|].
    apply (pres2_app is_pre is_pre is_field); [apply pres2_escape_value_pre; exact Ht|lit_pres2].
Qed.
Lemma card_ok_fixed card : In card [lit "*:"; lit ":"; []] -> card_ok card.
Proof. intros Hc. destruct Hc as [<-|[<-|[<-|[]]]]; (split; [reflexivity|lit_pres2]). Qed.

Lemma run2_positional_line card p st :
  card_ok card -> tame_arg (fst p) = true -> tame (a_id (fst p)) = true -> zbare st = true ->
  exists s2, zrun2 st ZsPre (positional_line card p) = Some (ZBS, s2).
Proof.
  intros Hcard Ht Hi Hst. unfold positional_line.
  destruct Hcard as [Hct Hcp].
  assert (Hn : nosq (card ++ lit ":" ++ a_id (fst p)) = true).
  { rewrite !nosq_app, Hct, (tame_nosq _ Hi). reflexivity. }
  assert (Hp : pres2 is_pre is_field (card ++ lit ":" ++ a_id (fst p))).
  { rewrite app_assoc. apply (pres2_app is_pre is_field is_field); [exact Hcp|apply pres2_tame_field; exact Hi]. }
  assert (R : run2_to is_field is_field
                ((match ad_help (snd p) with Some t => [Zp t] | None => [] end) ++ [Zx (lit ":")]
                 ++ (match zvalue_completion p with Some v => v | None => [] end))).
  { apply (run2_app is_field is_field is_field); [destruct (ad_help (snd p)); [apply run2_zp|apply run2_nil]|].
    apply (run2_app is_field is_field is_field [Zx (lit ":")]); [apply run2_zx; [reflexivity|lit_pres2]|].
    destruct (zvalue_completion p) as [val|] eqn:E; [eapply run2_zvalue_completion; eassumption|apply run2_nil]. }
  destruct (R _ (Hp ZsPre eq_refl)) as (s2 & R2 & _). exists s2.
  replace ([Zx (lit "'" ++ card ++ lit ":" ++ a_id (fst p))] ++
           (match ad_help (snd p) with Some t => [Zp t] | None => [] end) ++ [Zx (lit ":")] ++
           (match zvalue_completion p with Some v => v | None => [] end) ++ [Zx (lit "' \")])
    with (Zx (39 :: card ++ lit ":" ++ a_id (fst p)) ::
          ((match ad_help (snd p) with Some t => [Zp t] | None => [] end) ++ [Zx (lit ":")] ++
           (match zvalue_completion p with Some v => v | None => [] end)) ++ [Zx (lit "' \")])
    by (cbn [app]; rewrite <- !app_assoc; reflexivity).
  apply (zrun2_line _ _ st ZsPre s2 Hst Hn). exact R2.
Qed.

Lemma positional_lines_cards hs : forall l ce line,
  (forall p, In p l -> tame_opt (a_terminator (fst p)) = true) ->
  In line (positional_lines hs ce l) -> exists card p, In p l /\ card_ok card /\ line = positional_line card p.
Proof.
  induction l as [|p l IH]; intros ce line Htm Hl; [destruct Hl|]. cbn [positional_lines] in Hl.
  assert (Hrec : forall ce', In line (positional_lines hs ce' l) ->
                   exists card q, In q (p :: l) /\ card_ok card /\ line = positional_line card q).
  { intros ce' H. destruct (IH ce' line (fun q Hq => Htm q (or_intror Hq)) H) as (card & q & Hq & Hc & E).
    exists card, q. split; [right; exact Hq|tauto]. }
  destruct (ce && (arg_is_last (fst p) || (1 <? a_max_values (fst p)))); [apply (Hrec _ Hl)|].
  destruct ((1 <? a_max_values (fst p)) && negb hs).
  - unfold arg_terminator in Hl. pose proof (Htm p (or_introl eq_refl)) as Hpt.
    destruct (a_terminator (fst p)) as [tm|]; (destruct Hl as [<-|Hl]; [|apply (Hrec _ Hl)]).
    + eexists; exists p. split; [left; reflexivity|]. split; [apply card_ok_terminator; exact Hpt|reflexivity].
    + exists (lit "*:"), p. split; [left; reflexivity|]. split; [apply card_ok_fixed; left; reflexivity|reflexivity].
  - destruct (negb (a_required (fst p))); (destruct Hl as [<-|Hl]; [|apply (Hrec _ Hl)]).
    + exists (lit ":"), p. split; [left; reflexivity|]. split; [apply card_ok_fixed; right; left; reflexivity|reflexivity].
    + exists [], p. split; [left; reflexivity|]. split; [apply card_ok_fixed; right; right; left; reflexivity|reflexivity].
Qed.

Lemma run2_describe_entry about w st :
  tame w = true -> zbare st = true -> exists s2, zrun2 st ZsPre (describe_entry about w) = Some (ZBS, s2).
Proof.
  intros Hw Hst. unfold describe_entry.
  assert (Hn : nosq (w ++ lit ":") = true) by (rewrite nosq_app, (tame_nosq _ Hw); reflexivity).
  assert (Hp : pres2 is_pre slot_ok (w ++ lit ":")).
  { apply (pres2_app is_pre nob slot_ok); [|lit_pres2].
    intros s Hs. apply (pres2_tame_nob w Hw). destruct s; try discriminate; reflexivity. }
  destruct (proj2 run2_zh (text_or_default about) _ (Hp ZsPre eq_refl)) as (s2 & R2 & _).
  exists s2. apply (zrun2_line _ [Zh (text_or_default about)] st ZsPre s2 Hst Hn R2).
Qed.

(** the spec lines of a command: its option, flag and positional specs and the [_describe] items of its subcommands *)
Definition spec_line (c : cmd) (d : cdesc) (g : option cmd) (line : list zpiece) : Prop :=
  (exists p, In p (zipd ad0 (c_args c) (cd_args d)) /\ (In line (opt_lines c g p) \/ In line (flag_lines c g p))) \/
  In line (positional_lines (has_subcommands c) false (filter is_pos (zipd ad0 (c_args c) (cd_args d)))) \/
  (exists sc sd w, In (sc, sd) (zipd cd0 (c_subs c) (cd_subs d)) /\ In w (get_name_and_visible_aliases sc) /\ line = describe_entry (cd_about sd) w).

(** every spec line of a tame command runs at BOTH levels: each [escape_help] slot is met inside quotes and in the
    description or a field of the spec, each positional's help inside quotes and in a field *)
Theorem zsh_spec_lines_run2 c d g line st :
  ztame_cmd c = true -> gtame g -> spec_line c d g line -> zbare st = true ->
  exists s2, zrun2 st ZsPre line = Some (ZBS, s2).
Proof.
  intros Ht Hg Hl Hst. destruct Hl as [(p & Hp & Hl)|[Hl|(sc & sd & w & Hin & Hw & ->)]].
  - pose proof (ztame_arg_tame _ (ztame_args c d p Ht Hp)) as Hta. pose proof (ztame_arg_vn _ (ztame_args c d p Ht Hp)) as Htv.
    destruct Hl as [Hl|Hl].
    + unfold ZshModel.opt_lines in Hl. apply in_app_or in Hl. destruct Hl as [Hl|Hl].
      * destruct (get_short_and_visible_aliases (fst p)) as [ss|] eqn:E; [|destruct Hl]. apply in_map_iff in Hl.
        destruct Hl as (s & <- & Hs). apply run2_opt_short_line; [apply tame_arg_conflicts; assumption|exact Hta|exact Htv|eapply tame_shorts; eassumption|exact Hst].
      * destruct (get_long_and_visible_aliases (fst p)) as [ss|] eqn:E; [|destruct Hl]. apply in_map_iff in Hl.
        destruct Hl as (s & <- & Hs). apply run2_opt_long_line; [apply tame_arg_conflicts; assumption|exact Hta|exact Htv|eapply tame_longs; eassumption|exact Hst].
    + rewrite flag_lines_spellings in Hl. apply in_map_iff in Hl. destruct Hl as (x & <- & Hx).
      destruct (tame_flag_spellings _ _ Hta Hx) as [H1 H2]. apply run2_zflag_line; [apply tame_arg_conflicts; assumption|assumption|assumption|assumption].
  - destruct (positional_lines_cards _ _ _ _ (fun q Hq => proj2 (proj2 (proj2 (ztame_arg_parts _
                 (ztame_args c d q Ht (proj1 (proj1 (filter_In _ _ _) Hq)))))) ) Hl) as (card & p & Hp & Hc & ->).
    apply filter_In in Hp.
    pose proof (ztame_arg_parts _ (ztame_args c d p Ht (proj1 Hp))) as Hz.
    apply run2_positional_line; tauto.
  - apply run2_describe_entry; [|exact Hst]. apply zipd_in_l in Hin. exact (ztame_names sc w (ztame_sub _ _ Ht Hin) Hw).
Qed.

(** level-2 invariance: a spec line and any line with the same fixed text (the line the generator writes for other
    texts) have the same [_arguments]-level token skeleton and end in the same level-2 state *)
Theorem zsh_spec_line_level2 c d g line line' st :
  ztame_cmd c = true -> gtame g -> spec_line c d g line -> zbare st = true -> map zperase line = map zperase line' ->
  skeleton (events zspec_step ZsPre (payload line st)) = skeleton (events zspec_step ZsPre (payload line' st)) /\
  final zspec_step ZsPre (payload line st) = final zspec_step ZsPre (payload line' st).
Proof.
  intros Ht Hg Hl Hst E. destruct (zsh_spec_lines_run2 c d g line st Ht Hg Hl Hst) as (s2 & R).
  exact (level2_invariance line line' st ZsPre _ R E).
Qed.

(** the lines the generator writes for other texts of the same presence shape have the same fixed text *)
Theorem spec_lines_fixed_text c g a ad card about w :
  opt_lines c g (a, erase_adesc ad) = map (map zperase) (opt_lines c g (a, ad)) /\
  flag_lines c g (a, erase_adesc ad) = map (map zperase) (flag_lines c g (a, ad)) /\
  positional_line card (a, erase_adesc ad) = map zperase (positional_line card (a, ad)) /\
  describe_entry (erase_opt about) w = map zperase (describe_entry about w).
Proof.
  split; [apply opt_lines_erase|]. split; [apply flag_lines_erase|]. split; [apply positional_line_erase|].
  unfold describe_entry. cbn [map zperase]. rewrite text_or_default_erase. reflexivity.
Qed.

(** level 3 (the [((v\:"tip"))] action is eval'd; the tooltip then stands inside double quotes): escape_help leaves a
    double quote as it is, and there it ends the string -- the recorded finding [C17-zsh-tooltip-dquote] *)
Lemma zsh_tooltip_dquote_boundary :
  zsh_escape_help [34] = [34] /\ zsh_l1 [34] = [34] /\ final sh_step ZDQ [34] = ZW.
Proof. repeat split. Qed.

(** ---- non-vacuity and the class boundary ---- *)
Definition zl_adv_text : bytes := lit "it's a ""$(rm -rf /)"" `x` [y]: \ end".
Definition zl_adv : cdesc :=
  mkCd (Some zl_adv_text) false [mkAd (Some zl_adv_text) false []]
       [mkCd (Some zl_adv_text) false [mkAd (Some zl_adv_text) false []]
             [mkCd None false [mkAd (Some zl_adv_text) false [Some zl_adv_text; None; Some zl_adv_text]; mkAd (Some zl_adv_text) false []] []];
        mkCd (Some zl_adv_text) false [mkAd None false [Some zl_adv_text]; mkAd (Some zl_adv_text) false []] []].
Definition zl_inn : cdesc := innocuous_desc zl_adv.

Example zsh_text_invariance_hyps :
  ztame_cmd zx_root = true /\ erase_desc zl_adv = erase_desc zl_inn /\ zl_adv <> zl_inn /\
  exists s1 s2, zsh_script zx_root zl_adv = Some s1 /\ zsh_script zx_root zl_inn = Some s2 /\ s1 <> s2.
Proof.
  split; [reflexivity|]. split; [reflexivity|]. split; [discriminate|].
  destruct (zsh_script zx_root zl_adv) as [s1|] eqn:E1; [|vm_compute in E1; discriminate].
  destruct (zsh_script zx_root zl_inn) as [s2|] eqn:E2; [|vm_compute in E2; discriminate].
  exists s1, s2. split; [reflexivity|]. split; [reflexivity|].
  intros E. subst s2.
  assert (Hb : match zsh_script zx_root zl_adv, zsh_script zx_root zl_inn with
               | Some a, Some b => beq a b | _, _ => true end = false) by (vm_compute; reflexivity).
  rewrite E1, E2, beq_refl in Hb. discriminate.
Qed.

(** class boundary: an option NAME with a single quote is written unescaped; it closes the quoted spec early and the help
    after it is read outside the quotes, where a space separates words *)
Definition zl_untame_arg : arg := mkArg (lit "o") None (Some (lit "a'b")) [] [] ASetTrue None None None false false false.
Definition zl_untame_cmd : cmd := mkCmd (lit "p") [] [zl_untame_arg] [] (Some (lit "p")) false false sets0 sets0.
Lemma zsh_untamed_name_refuted :
  exists c d1 d2 s1 s2,
    ztame_cmd c = false /\ erase_desc d1 = erase_desc d2 /\
    zsh_script c d1 = Some s1 /\ zsh_script c d2 = Some s2 /\
    skeleton (events sh_step ZB s1) <> skeleton (events sh_step ZB s2).
Proof.
  exists zl_untame_cmd, (mkCd None false [mkAd (Some (lit "x y")) false []] []),
         (mkCd None false [mkAd (Some (lit "xy")) false []] []).
  destruct (zsh_script zl_untame_cmd (mkCd None false [mkAd (Some (lit "x y")) false []] [])) as [s1|] eqn:E1;
    [|vm_compute in E1; discriminate].
  destruct (zsh_script zl_untame_cmd (mkCd None false [mkAd (Some (lit "xy")) false []] [])) as [s2|] eqn:E2;
    [|vm_compute in E2; discriminate].
  exists s1, s2. split; [reflexivity|]. split; [reflexivity|]. split; [reflexivity|]. split; [reflexivity|].
  vm_compute in E1. vm_compute in E2. apply Some_inj in E1. apply Some_inj in E2. subst s1 s2.
  vm_compute. discriminate.
Qed.


(** ---- round 4: value names and value terminators ---- *)
(** in the class: a value name and a terminator without quote / backslash / hash ([ztame_arg] asks for both); the whole-script
    theorems above then cover option specs [':FILE:'] and positional specs ['*;:'] *)
Definition zl_vn_opt : arg :=
  mkArgX (lit "o") None (Some (lit "out")) [] [] ASet None None None false false false [lit "FILE"] None false [] [].
Definition zl_term_pos : arg :=
  mkArgX (lit "src") None None [] [] ASet (Some (1, 3)) None None false false false [] (Some (lit "a b;")) false [] [].
Definition zl_last_pos : arg :=
  mkArgX (lit "rest") None None [] [] ASet None None None false false false [] None true [] [].
Definition zl_ext_cmd : cmd := mkCmd (lit "p") [] [zl_vn_opt; zl_term_pos; zl_last_pos] [] (Some (lit "p")) false false sets0 sets0.
Example zsh_tame_value_name_terminator :
  ztame_cmd zl_ext_cmd = true /\
  exists s, zsh_script zl_ext_cmd cd0 = Some s /\
    binfix (lit "'--out=[]:FILE:_default' \") s = true /\ binfix (lit "'*a\ b;::src:_default' \") s = true /\
    binfix (lit "'::rest:_default' \") s = true.
Proof.
  split; [reflexivity|]. destruct (zsh_script zl_ext_cmd cd0) as [s|] eqn:E; [|vm_compute in E; discriminate].
  exists s. split; [reflexivity|]. vm_compute in E. inversion E; subst s. vm_compute. repeat split; reflexivity.
Qed.

(** class boundary: a VALUE NAME with a single quote is written unescaped between the colons of the option spec; it ends the
    quoted spec early, and the help of the NEXT option is read outside the quotes, where a space separates words (the
    family of the recorded finding C17-names-unescaped) *)
Definition zl_untame_vn : arg :=
  mkArgX (lit "o") None (Some (lit "out")) [] [] ASet None None None false false false [lit "a'b"] None false [] [].
Definition zl_after_vn : arg := mkArg (lit "q") None (Some (lit "quiet")) [] [] ASetTrue None None None false false false.
Definition zl_untame_vn_cmd : cmd := mkCmd (lit "p") [] [zl_untame_vn; zl_after_vn] [] (Some (lit "p")) false false sets0 sets0.
Lemma zsh_untamed_value_name_refuted :
  exists c d1 d2 s1 s2,
    ztame_cmd c = false /\ erase_desc d1 = erase_desc d2 /\
    zsh_script c d1 = Some s1 /\ zsh_script c d2 = Some s2 /\
    skeleton (events sh_step ZB s1) <> skeleton (events sh_step ZB s2).
Proof.
  exists zl_untame_vn_cmd, (mkCd None false [mkAd None false []; mkAd (Some (lit "x y")) false []] []),
         (mkCd None false [mkAd None false []; mkAd (Some (lit "xy")) false []] []).
  destruct (zsh_script zl_untame_vn_cmd (mkCd None false [mkAd None false []; mkAd (Some (lit "x y")) false []] [])) as [s1|] eqn:E1;
    [|vm_compute in E1; discriminate].
  destruct (zsh_script zl_untame_vn_cmd (mkCd None false [mkAd None false []; mkAd (Some (lit "xy")) false []] [])) as [s2|] eqn:E2;
    [|vm_compute in E2; discriminate].
  exists s1, s2. split; [reflexivity|]. split; [reflexivity|]. split; [reflexivity|]. split; [reflexivity|].
  vm_compute in E1. vm_compute in E2. apply Some_inj in E1. apply Some_inj in E2. subst s1 s2.
  vm_compute. discriminate.
Qed.
