(** C16 (bash): the [case "${prev}"] branch of the generated completion function -- what is offered for the VALUE of an
    option.  [option_details_for_path] writes one arm per spelling ([--long)] / [-s)]) of every option of the command;
    [vals_for] decides what the arm assigns to COMPREPLY: the possible values FIRST, the value hint only when there are
    none.  A seeded change let an explicit [ValueHint::Other] / [DirPath] shadow the possible values; the theorems below
    are the statements it violates:
    - [bash_value_branch]: after the words of a path to [n], the spelling [key] of an option [o] of [n] and a partial
      word, the function replies what [vals_kind o] says (the arm found is the arm of [o]);
    - [bash_value_offers_possible_values]: if [o] has possible values and its hint is not [FilePath], that is exactly the
      non-hidden possible values that start with the partial word -- WHATEVER the hint;
    - [bash_value_arm_text]: the text of the arm is [COMPREPLY=($(compgen -W "v1 v2 .." -- "${cur}"))], whatever the hint;
    - [bash_value_filepath_refuted]: with [ValueHint::FilePath] the arm runs under [IFS=$'\n'], the blank separated list is
      ONE word (observation O1 of the notes; corpus [bash.regressions]). *)
From ClapModel Require Import Base.Bytes Complete.AotTree Complete.BashModel Complete.AotProofs Complete.BashProofs.
From Coq Require Import String Lia.
Open Scope N_scope.
Open Scope list_scope.

(** the labels of the arms of one option: [--] long and visible aliases, then [-] short and visible short aliases *)
Definition opt_keys (o : arg) : list bytes :=
  (match get_long_and_visible_aliases o with Some longs => map (fun l => lit "--" ++ l) longs | None => [] end)
  ++ (match get_short_and_visible_aliases o with Some shorts => map (fun s => lit "-" ++ s) shorts | None => [] end).

Lemma option_details_keys n :
  option_details n = flat_map (fun o => map (detail_arm o) (opt_keys o)) (get_opts n).
Proof.
  unfold option_details. apply flat_map_ext. intros o. unfold opt_keys. rewrite map_app.
  destruct (get_long_and_visible_aliases o), (get_short_and_visible_aliases o); rewrite ?map_map; reflexivity.
Qed.

Lemma opt_key_dash o key : In key (opt_keys o) -> exists t, key = 45 :: t.
Proof.
  unfold opt_keys. intros H. apply in_app_iff in H.
  destruct H as [H|H]; [destruct (get_long_and_visible_aliases o)|destruct (get_short_and_visible_aliases o)];
    try destruct H; apply in_map_iff in H; destruct H as (x & <- & _); eexists; reflexivity.
Qed.

(** the first arm labelled [key] is an arm of an option that has that spelling; there is one iff some option has it *)
Lemma find_arm_sound opts key a :
  find (fun a => beq (d_key a) key) (flat_map (fun o => map (detail_arm o) (opt_keys o)) opts) = Some a ->
  exists o, In o opts /\ In key (opt_keys o) /\ a = detail_arm o key.
Proof.
  intros H. apply find_some in H. destruct H as [Hin Hk]. apply beq_eq in Hk.
  apply in_flat_map in Hin. destruct Hin as (o & Ho & Ha). apply in_map_iff in Ha. destruct Ha as (k & <- & Hk').
  cbn [detail_arm d_key] in Hk. subst k. exists o. auto.
Qed.

Lemma find_arm_complete opts key o :
  In o opts -> In key (opt_keys o) ->
  find (fun a => beq (d_key a) key) (flat_map (fun o => map (detail_arm o) (opt_keys o)) opts) <> None.
Proof.
  intros Ho Hk Hn.
  assert (Hin : In (detail_arm o key) (flat_map (fun o => map (detail_arm o) (opt_keys o)) opts)).
  { apply in_flat_map. exists o. split; [exact Ho|apply in_map; exact Hk]. }
  pose proof (find_none _ _ Hn _ Hin) as Hf. cbn [detail_arm d_key] in Hf. rewrite beq_refl in Hf. discriminate.
Qed.

(** the reply of an arm *)
Definition vals_reply (v : vals) (cur : bytes) : option (list bytes) :=
  match v with
  | VWords l => Some (compgen_W l cur)
  | VCur => Some [cur]
  | VNothing => Some []
  | VFiles => None
  end.

Theorem bash_value_branch c root_bin t w0 ws ns n o key cur :
  c_bin c = Some root_bin -> linked c -> mangle_safe c root_bin -> bash_table c = Some t ->
  reach c ws ns n -> w0 <> [] -> Forall (fun w => w <> []) ws ->
  In o (get_opts n) -> In key (opt_keys o) ->
  (forall o', In o' (get_opts n) -> In key (opt_keys o') -> o' = o) ->
  (forall sc, In sc (c_subs n) -> ~ In key (sc_words sc)) ->
  (forall sc, In sc (c_subs n) -> ~ In cur (sc_words sc)) ->
  starts_with cur (lit "-") = false ->
  bash_complete t (w0 :: ws ++ [key; cur]) = vals_reply (vals_kind o) cur.
Proof.
  intros Hb Hl Hm Ht Hr Hw0 Hws Ho Hk Huniq Hkey Hcur Hdash.
  destruct (bash_case c root_bin t ws ns n Hb Hl Hm Ht Hr) as (k & Hlook & Hopts & Hdet & Hlevel).
  destruct (bash_table_shape c root_bin t Hb Ht) as (Hlab & Htr).
  destruct (opt_key_dash o key Hk) as [kt Ekey].
  unfold bash_complete.
  assert (Ew : w0 :: ws ++ [key; cur] = ((w0 :: ws) ++ [key]) ++ [cur]) by (rewrite <- app_assoc; reflexivity).
  rewrite Ew, last_last, removelast_last, last_last.
  assert (Hstate : run_state t (((w0 :: ws) ++ [key]) ++ [cur]) = fn_of (mangle root_bin) ns).
  { unfold run_state. rewrite Hlab, Htr.
    match goal with |- context [step _ ?m _] => change m with w0 end.
    rewrite !filter_app.
    rewrite (filter_nonempty_all (w0 :: ws)) by (constructor; assumption).
    rewrite !fold_left_app.
    match goal with |- fold_left _ _ (fold_left _ _ ?st) = _ => set (st0 := st) end.
    assert (Hst : st0 = fn_of (mangle root_bin) ns) by (apply (bash_reaches c root_bin w0 ws ns n Hm Hr)).
    rewrite Hst. clear st0 Hst.
    rewrite Ekey. cbn [filter is_nil negb fold_left]. rewrite <- Ekey.
    rewrite (step_stays c root_bin w0 ns n ws key Hm Hr Hkey).
    destruct (is_nil cur); cbn [negb fold_left]; [reflexivity|].
    apply (step_stays c root_bin w0 ns n ws cur Hm Hr Hcur). }
  rewrite Hstate, Hlook, Hdash. cbn [orb].
  assert (Hcw : (N.of_nat (List.length (((w0 :: ws) ++ [key]) ++ [cur])) - 1 =? k_level k) = false).
  { rewrite Hlevel, <- (reach_lengths _ _ _ _ Hr). apply N.eqb_neq. rewrite !app_length. cbn [List.length].
    rewrite !Nat.add_1_r, !Nat2N.inj_succ. assert (Hxy : forall x y : N, x = y -> N.succ (N.succ (N.succ x)) - 1 <> N.succ y) by (intros x y E; lia).
    apply Hxy. reflexivity. }
  match goal with |- context [N.eqb ?a ?b] => replace (N.eqb a b) with false by (symmetry; exact Hcw) end.
  rewrite Hdet, option_details_keys.
  destruct (find _ _) as [a|] eqn:Ef.
  - destruct (find_arm_sound _ _ _ Ef) as (o' & Ho' & Hk' & ->). rewrite (Huniq o' Ho' Hk'). reflexivity.
  - exfalso. exact (find_arm_complete _ _ _ Ho Hk Ef).
Qed.

(** possible values win over every hint except [FilePath] (below): the non-hidden ones that start with the partial word *)
Definition visible_values (vs : list pval) : list bytes := map pv_name (filter (fun pv => negb (pv_hide pv)) vs).

Lemma vals_kind_values o vs :
  possible_values o = Some vs -> a_get_hint o <> HFilePath -> vals_kind o = VWords (visible_values vs).
Proof.
  intros Hv Hh. unfold vals_kind. rewrite Hv. destruct (a_get_hint o); try reflexivity. congruence.
Qed.

Theorem bash_value_offers_possible_values c root_bin t w0 ws ns n o key cur vs :
  c_bin c = Some root_bin -> linked c -> mangle_safe c root_bin -> bash_table c = Some t ->
  reach c ws ns n -> w0 <> [] -> Forall (fun w => w <> []) ws ->
  In o (get_opts n) -> In key (opt_keys o) ->
  (forall o', In o' (get_opts n) -> In key (opt_keys o') -> o' = o) ->
  (forall sc, In sc (c_subs n) -> ~ In key (sc_words sc)) ->
  (forall sc, In sc (c_subs n) -> ~ In cur (sc_words sc)) ->
  starts_with cur (lit "-") = false ->
  possible_values o = Some vs -> a_get_hint o <> HFilePath ->
  exists reply, bash_complete t (w0 :: ws ++ [key; cur]) = Some reply /\
    forall w, In w reply <-> (exists pv, In pv vs /\ pv_hide pv = false /\ w = pv_name pv) /\ exists tl, w = cur ++ tl.
Proof.
  intros Hb Hl Hm Ht Hr Hw0 Hws Ho Hk Huniq Hkey Hcur Hdash Hv Hh.
  exists (compgen_W (visible_values vs) cur). split.
  - rewrite (bash_value_branch c root_bin t w0 ws ns n o key cur) by assumption.
    rewrite (vals_kind_values o vs Hv Hh). reflexivity.
  - intros w. rewrite compgen_W_spec. unfold visible_values. rewrite in_map_iff. split.
    + intros [(pv & <- & Hpv) Hpre]. apply filter_In in Hpv. destruct Hpv as [Hin Hhide]. apply negb_true_iff in Hhide.
      split; [exists pv; auto|exact Hpre].
    + intros [(pv & Hin & Hhide & ->) Hpre]. split; [|exact Hpre]. exists pv. split; [reflexivity|].
      apply filter_In. split; [exact Hin|]. rewrite Hhide. reflexivity.
Qed.

(** the text of the arm: the [compgen -W] over the non-hidden values, whatever the hint *)
Theorem bash_value_arm_text o vs :
  possible_values o = Some vs ->
  vals_for o = lit "$(compgen -W """ ++ intercalate (lit " ") (visible_values vs) ++ lit """ -- ""${cur}"")".
Proof. intros Hv. unfold vals_for. rewrite Hv. reflexivity. Qed.

(** and without possible values the hint decides *)
Theorem bash_value_hint o :
  possible_values o = None ->
  vals_kind o = match a_get_hint o with HDirPath => VNothing | HOther => VCur | _ => VFiles end.
Proof. intros Hv. unfold vals_kind. rewrite Hv. reflexivity. Qed.

(** ---- non-vacuity: [--color] / [-c] / visible alias [--colour] with the values always, never, secret (hidden) and an explicit
    [ValueHint::Other] (the shape of the seeded change): all hypotheses hold, and the reply to [p --colour a] is [always] ---- *)
Definition bv_opt (h : hint) : arg :=
  mkArg (lit "color") (Some (lit "c")) (Some (lit "color")) [] [(lit "colour", true)] ASet None
        (Some [mkPv (lit "always") false; mkPv (lit "never") false; mkPv (lit "secret") true]) (Some h) false false false.
Definition bv_root (h : hint) : cmd := mkCmd (lit "p") [] [bv_opt h] [] (Some (lit "p")) false false sets0 sets0.

Lemma leaf_no_desc c n : c_subs c = [] -> ~ desc c n.
Proof. intros E H. inversion H as [c0 sc Hin|c0 sc m Hin _]; subst; rewrite E in Hin; destruct Hin. Qed.

Lemma leaf_mangle_safe c bin : c_subs c = [] -> dd_safe bin = true -> bin <> [] -> mangle_safe c bin.
Proof.
  intros E Hs Hne. constructor; [exact Hs|exact Hne| | |].
  - intros n Hn. destruct (leaf_no_desc c n E Hn).
  - intros p [->|Hd]; [rewrite E; constructor|destruct (leaf_no_desc c p E Hd)].
  - intros f n1 n2 H1 H2.
    assert (Hn : forall n, node_at (mangle bin) c f n -> n = c).
    { intros n H. inversion H as [|r c0 sc f0 n0 Hin _]; subst; [reflexivity|rewrite E in Hin; destruct Hin]. }
    rewrite (Hn n1 H1), (Hn n2 H2). reflexivity.
Qed.

Lemma leaf_linked c : c_subs c = [] -> linked c.
Proof.
  intros E p sc [->|Hd] Hin; [rewrite E in Hin; destruct Hin|destruct (leaf_no_desc c p E Hd)].
Qed.

Example bash_value_hyps :
  exists t, c_bin (bv_root HOther) = Some (lit "p") /\ linked (bv_root HOther) /\ mangle_safe (bv_root HOther) (lit "p") /\
    bash_table (bv_root HOther) = Some t /\ reach (bv_root HOther) [] [] (bv_root HOther) /\
    In (bv_opt HOther) (get_opts (bv_root HOther)) /\ In (lit "--colour") (opt_keys (bv_opt HOther)) /\
    (forall o', In o' (get_opts (bv_root HOther)) -> In (lit "--colour") (opt_keys o') -> o' = bv_opt HOther) /\
    possible_values (bv_opt HOther) = Some [mkPv (lit "always") false; mkPv (lit "never") false; mkPv (lit "secret") true] /\
    a_get_hint (bv_opt HOther) = HOther /\
    bash_complete t [lit "p"; lit "--colour"; lit "a"] = Some [lit "always"] /\
    bash_complete t [lit "p"; lit "-c"; []] = Some [lit "always"; lit "never"].
Proof.
  destruct (bash_table (bv_root HOther)) as [t|] eqn:Et; [|vm_compute in Et; discriminate].
  exists t. split; [reflexivity|]. split; [apply leaf_linked; reflexivity|].
  split; [apply leaf_mangle_safe; [reflexivity|reflexivity|discriminate]|]. split; [reflexivity|].
  split; [apply reach_nil|]. split; [left; reflexivity|]. split; [right; left; reflexivity|].
  split; [intros o' [<-|[]] _; reflexivity|]. split; [reflexivity|]. split; [reflexivity|].
  vm_compute in Et. inversion Et; subst t. split; vm_compute; reflexivity.
Qed.

(** [ValueHint::FilePath]: the arm sets [IFS=$'\n'], so [compgen -W "always never"] yields the single word "always never",
    which is not a possible value (observation O1; validated under the installed bash: corpus [bash.regressions]) *)
Lemma bash_value_filepath_refuted :
  exists t vs, bash_table (bv_root HFilePath) = Some t /\ possible_values (bv_opt HFilePath) = Some vs /\
    bash_complete t [lit "p"; lit "--color"; []] = Some [lit "always never"] /\
    ~ In (lit "always never") (map pv_name vs).
Proof.
  destruct (bash_table (bv_root HFilePath)) as [t|] eqn:Et; [|vm_compute in Et; discriminate].
  exists t. eexists. split; [reflexivity|]. split; [reflexivity|].
  vm_compute in Et. inversion Et; subst t. split; [vm_compute; reflexivity|].
  cbn. intros [H|[H|[H|[]]]]; discriminate.
Qed.
