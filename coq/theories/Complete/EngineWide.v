(** Property C18, round 4: lines that contain POSITIONAL values, and [args_conflicts_with_subcommands].

    Part 1  the engine's [find_pos] IS the parser's key lookup [get_pos] on a validated level.
    Part 2  the engine side of C09's wide class ([ParseProofs/ChainWide.v]): a value of a single-valued
            positional moves the engine's [pos_index] exactly as it moves the parser's positional counter
            ([pitems]); the values of a multi-valued positional keep the engine in [Pos pos k] at the same
            index while the parser stays in [PSPos] ([multi_vals]); while a positional is being filled a
            subcommand name is a value unless THE LEVEL REACHED sets [subcommand_precedence_over_arg].
    Part 3  lines [pline]: per level options and single-valued positionals, optionally the values of a
            multi-valued positional, then a subcommand name.  A level that sets
            [args_conflicts_with_subcommands] may be left only before any of its own arguments (the parser's
            per-level "an argument was seen" flag, which the engine does not model).
    Part 4  END TO END for [pline] (supersedes [EngineLine.candidate_accepted_line]: [cline_pline]).
    Part 5  [args_conflicts_with_subcommands]: where the two machines agree, and the witnesses where the
            engine descends but the parser does not.

    Names that exist in both models are the PARSER's when unqualified. *)
From ClapModel Require Import Base.Bytes Base.Machine Base.Utf8 Lex.OsStrExtModel Lex.OsStrExtProofs.
From ClapModel Require Import Complete.EngineModel Complete.EngineProofs.
From ClapModel Require Import Parse.Cmd Parse.Build Parse.Valid Parse.Matcher Parse.Errors Parse.Validator Parse.Parser.
From ClapModel Require Import ParseProofs.Spelling ParseProofs.Dispatch ParseProofs.ErrorSound.
From ClapModel Require Import ParseProofs.Actions ParseProofs.ActionsLoop ParseProofs.ActionsTop ParseProofs.Chain ParseProofs.ChainWide.
From ClapModel Require Import Complete.EngineAccept Complete.EngineLevel Complete.EngineLine Complete.EngineItems.
From ClapModel Require ParseProofs.UnparseLift ParseProofs.UnparseProofs.
From Coq Require Import ZArith Lia List Bool.
From RecordUpdate Require Import RecordSet.
Import RecordSetNotations.
Import ListNotations.
Open Scope N_scope.

(** * Part 1: one positional lookup *)

Lemma find_pos_index c n a : find_pos c n = Some a -> In a (c_args c) /\ a_index a = Some n.
Proof.
  unfold find_pos, positionals. intros H. apply find_some in H. destruct H as [Hin Hi].
  apply filter_In in Hin. split; [tauto|].
  destruct (a_index a) as [k|]; [|discriminate]. apply N.eqb_eq in Hi. subst. reflexivity.
Qed.

Theorem find_pos_get_pos c n : assert_app c = true -> find_pos c n = get_pos c n.
Proof.
  intros V. destruct (find_pos c n) as [a|] eqn:Ef.
  - symmetry. apply (UnparseLift.get_pos_key c V). exact (find_pos_index c n a Ef).
  - destruct (get_pos c n) as [b|] eqn:Eg; [|reflexivity]. exfalso.
    apply (UnparseLift.get_pos_key c V) in Eg. destruct Eg as [Hin Hi].
    assert (Hp : a_is_positional b = true).
    { apply (assert_arg_index_positional b n); [apply (assert_app_arg c b V Hin)|exact Hi]. }
    unfold find_pos in Ef.
    assert (Hb : In b (positionals c)) by (unfold positionals; apply filter_In; split; assumption).
    pose proof (find_none _ _ Ef b Hb) as Hn. cbv beta in Hn. rewrite Hi, N.eqb_refl in Hn. discriminate.
Qed.

(** * Part 2: the engine's steps on positional values *)

Lemma find_pos_args c c' n : c_args c = c_args c' -> find_pos c n = find_pos c' n.
Proof. unfold find_pos, positionals. intros ->. reflexivity. Qed.

Lemma exists_last_or_nil {A} (l : list A) : l = [] \/ exists init lst, l = init ++ [lst].
Proof. destruct l as [|x t]; [left; reflexivity|right]. destruct (@exists_last A (x :: t)) as [i [y E]]; [discriminate|eauto]. Qed.

Section EnginePositionals.
Variables pc cur : cmd.
Hypothesis L : elevel pc cur.
Let Hrel : lvl_rel pc cur := el_rel pc cur L.

Lemma find_pos_el pos : find_pos cur pos = get_pos pc pos.
Proof.
  rewrite <- (find_pos_args pc cur pos (proj1 Hrel)). apply find_pos_get_pos. exact (el_app pc cur L).
Qed.

(** a positional the parser calls single-valued takes one value for the engine too *)
Lemma single_num_args a : In a (c_args pc) -> a_is_multiple a = false -> (1 <? eng_num_args a) = false.
Proof.
  intros Hin Hm. unfold a_is_multiple in Hm. apply orb_false_elim in Hm. destruct Hm as [Hmv Hact].
  destruct (a_num a) as [r|] eqn:En;
    [|exfalso; exact (args_ok_num pc a (assert_app_args_ok pc (el_app pc cur L)) Hin En)].
  unfold eng_num_args. rewrite En.
  unfold a_multiple_values in Hmv. rewrite En in Hmv. cbn [opt_default] in Hmv. unfold r_is_multiple in Hmv.
  apply orb_false_elim in Hmv. destruct Hmv as [H1 H2]. apply negb_false_iff, N.eqb_eq in H1. apply N.ltb_ge in H2.
  destruct (a_get_action a); try discriminate; apply N.ltb_ge; lia.
Qed.

Lemma eng_plain_lex tok : plain_tok tok ->
  EngineModel.is_escape tok = false /\ EngineModel.to_long tok = None /\ EngineModel.to_short tok = None.
Proof. intros [He [Hl Hs]]. rewrite lex_is_escape, lex_to_long, lex_to_short. auto. Qed.

(** a word the parser does not read as a subcommand WHERE IT STANDS ([evaf] = an argument of the level was seen) is
    none for the engine either: not UTF-8, behind an argument of a level with [args_conflicts_with_subcommands], or
    no name or alias of a subcommand *)
Lemma eng_not_sub tok b evaf : possible_subcommand pc tok evaf = None ->
  (if (b && negb (is_set s_args_negate_subs cur && evaf)) && utf8_valid tok then find_subcommand cur tok else None) = None.
Proof.
  intros Hns. rewrite possible_subcommand_unfold in Hns.
  destruct (utf8_valid tok) eqn:Hu; [|rewrite andb_false_r; reflexivity]. cbn [negb] in Hns.
  rewrite <- (lvl_rel_is_set pc cur s_args_negate_subs Hrel).
  destruct (is_set s_args_negate_subs pc && evaf); [rewrite andb_false_r; reflexivity|].
  destruct b; [|reflexivity]. cbn [negb andb].
  match type of Hns with match ?x with _ => _ end = _ => destruct x end; [discriminate|].
  destruct Hrel as [_ [_ [_ Hsubs]]].
  unfold find_subcommand in *. destruct (find (fun s => aliases_to s tok) (c_subs pc)) eqn:Ef; [discriminate|].
  eapply find_none_rel; eauto.
Qed.

(** `<value>` of a single-valued positional: back in [ValueDone], index + 1, an argument was seen *)
Lemma eng_pos_single tok a pos evaf :
  possible_subcommand pc tok evaf = None -> plain_tok tok -> get_pos pc pos = Some a -> check_terminator a tok = false ->
  a_is_multiple a = false ->
  shadow_step tok cur pos false ValueDone evaf = SNext cur (pos + 1) false ValueDone true.
Proof.
  intros Hns Hpl Hg Hct Hm. destruct (eng_plain_lex tok Hpl) as [He [Hl Hs]].
  assert (Hin : In a (c_args pc)) by (apply (UnparseProofs.get_pos_in pc pos a Hg)).
  unfold shadow_step. cbn [negb]. rewrite (eng_not_sub tok _ evaf Hns).
  rewrite He, opt_allows_hyphen_vd, Hl, Hs.
  unfold parse_positional. rewrite find_pos_el, Hg, is_value_terminator_check, Hct. cbn [negb andb].
  pose proof (single_num_args a Hin Hm) as Hn. unfold eng_num_args in Hn. rewrite Hn. reflexivity.
Qed.

(** the first value of a multi-valued positional: [Pos pos 1], same index *)
Lemma eng_pos_first tok a pos evaf :
  no_sub pc tok -> plain_tok tok -> get_pos pc pos = Some a -> check_terminator a tok = false -> 1 < eng_num_args a ->
  shadow_step tok cur pos false ValueDone evaf = SNext cur pos false (Pos pos 1) true.
Proof.
  intros Hns Hpl Hg Hct Hn. destruct (eng_plain_lex tok Hpl) as [He [Hl Hs]].
  unfold shadow_step. cbn [negb]. rewrite (eng_no_sub pc cur tok _ Hrel Hns).
  rewrite He, opt_allows_hyphen_vd, Hl, Hs.
  unfold parse_positional. rewrite find_pos_el, Hg, is_value_terminator_check, Hct. cbn [negb andb].
  apply N.ltb_lt in Hn. unfold eng_num_args in Hn. rewrite Hn. reflexivity.
Qed.

Lemma opt_allows_hyphen_pos i k arg : opt_allows_hyphen (Pos i k) arg = false.
Proof. destruct arg; [reflexivity|]. cbn [opt_allows_hyphen]. apply andb_false_r. Qed.

(** a further value: the lookup for a subcommand happens only if THIS level has
    [subcommand_precedence_over_arg] *)
Lemma eng_pos_more tok a pos k evaf :
  (is_set s_sub_precedence pc = true -> no_sub pc tok) -> plain_tok tok -> get_pos pc pos = Some a ->
  check_terminator a tok = false -> k + 1 < eng_num_args a ->
  shadow_step tok cur pos false (Pos pos k) evaf = SNext cur pos false (Pos pos (k + 1)) true.
Proof.
  intros Hns Hpl Hg Hct Hn. destruct (eng_plain_lex tok Hpl) as [He [Hl Hs]].
  unfold shadow_step. cbn [negb]. rewrite orb_false_r.
  assert (Hsub : (if (is_set s_sub_precedence cur && negb (is_set s_args_negate_subs cur && evaf)) && utf8_valid tok
                  then find_subcommand cur tok else None) = None).
  { rewrite <- (lvl_rel_is_set pc cur s_sub_precedence Hrel).
    destruct (is_set s_sub_precedence pc) eqn:Ep; [|reflexivity].
    exact (eng_no_sub pc cur tok _ Hrel (Hns eq_refl)). }
  rewrite Hsub, He, opt_allows_hyphen_pos, Hl, Hs.
  unfold parse_positional. rewrite find_pos_el, Hg, is_value_terminator_check, Hct, N.eqb_refl. cbn [negb andb].
  apply N.ltb_lt in Hn. unfold eng_num_args in Hn. rewrite Hn. reflexivity.
Qed.

(** the value terminator of the positional at the index, between arguments or while that positional is being filled:
    the index moves on, back in [ValueDone] (the repair of finding C18-value-terminator) *)
Lemma eng_pos_term_vd t a pos evaf :
  possible_subcommand pc t evaf = None -> plain_tok t -> get_pos pc pos = Some a -> check_terminator a t = true ->
  shadow_step t cur pos false ValueDone evaf = SNext cur (pos + 1) false ValueDone true.
Proof.
  intros Hns Hpl Hg Hct. destruct (eng_plain_lex t Hpl) as [He [Hl Hs]].
  unfold shadow_step. cbn [negb]. rewrite (eng_not_sub t _ evaf Hns).
  rewrite He, opt_allows_hyphen_vd, Hl, Hs.
  unfold parse_positional. rewrite find_pos_el, Hg, is_value_terminator_check, Hct. reflexivity.
Qed.

Lemma eng_pos_term_pos t a pos k evaf :
  (is_set s_sub_precedence pc = true -> no_sub pc t) -> plain_tok t -> get_pos pc pos = Some a ->
  check_terminator a t = true ->
  shadow_step t cur pos false (Pos pos k) evaf = SNext cur (pos + 1) false ValueDone true.
Proof.
  intros Hns Hpl Hg Hct. destruct (eng_plain_lex t Hpl) as [He [Hl Hs]].
  unfold shadow_step. cbn [negb]. rewrite orb_false_r.
  assert (Hsub : (if (is_set s_sub_precedence cur && negb (is_set s_args_negate_subs cur && evaf)) && utf8_valid t
                  then find_subcommand cur t else None) = None).
  { rewrite <- (lvl_rel_is_set pc cur s_sub_precedence Hrel).
    destruct (is_set s_sub_precedence pc) eqn:Ep; [|reflexivity].
    exact (eng_no_sub pc cur t _ Hrel (Hns eq_refl)). }
  rewrite Hsub, He, opt_allows_hyphen_pos, Hl, Hs.
  unfold parse_positional. rewrite find_pos_el, Hg, is_value_terminator_check, Hct. reflexivity.
Qed.

Lemma eng_multi_more a pos : forall vs k,
  (is_set s_sub_precedence pc = true -> Forall (no_sub pc) vs) ->
  Forall (fun v => plain_tok v /\ takes_at pc pos a v) vs ->
  k + N.of_nat (length vs) < eng_num_args a ->
  shadow_run vs cur pos false (Pos pos k) true = SNext cur pos false (Pos pos (k + N.of_nat (length vs))) true.
Proof.
  induction vs as [|v t IH]; intros k Hprec Hall Hn.
  - cbn [shadow_run length N.of_nat]. rewrite N.add_0_r. reflexivity.
  - inversion Hall as [|v0 t0 [Hpl Ht] Hall']; subst. cbn [shadow_run].
    destruct Ht as [_ [Hg [_ [_ Hct]]]].
    rewrite (eng_pos_more v a pos k true); [|intros Ep; specialize (Hprec Ep); inversion Hprec; assumption|exact Hpl|exact Hg|exact Hct|].
    2:{ cbn [length] in Hn. lia. }
    rewrite IH.
    + replace (k + 1 + N.of_nat (length t)) with (k + N.of_nat (length (v :: t))) by (cbn [length]; lia). reflexivity.
    + intros Ep. specialize (Hprec Ep). inversion Hprec; assumption.
    + exact Hall'.
    + cbn [length] in Hn. lia.
Qed.

(** ... the values of a multi-valued positional: [Pos pos k] after [k] values, same index - the parser stands in
    [PSPos (a_id a)] at the same counter ([ChainWide.loop_multi]) *)
Theorem eng_multi a pos v1 vs evaf : multi_vals pc pos a v1 vs ->
  N.of_nat (length (v1 :: vs)) < eng_num_args a ->
  shadow_run (v1 :: vs) cur pos false ValueDone evaf = SNext cur pos false (Pos pos (N.of_nat (length (v1 :: vs)))) true.
Proof.
  intros [Hm [Hns [Hprec Hall]]] Hn. inversion Hall as [|v0 t0 [Hpl Ht] Hall']; subst.
  cbn [shadow_run]. destruct Ht as [_ [Hg [_ [_ Hct]]]].
  rewrite (eng_pos_first v1 a pos evaf Hns Hpl Hg Hct) by (cbn [length] in Hn; lia).
  rewrite (eng_multi_more a pos vs 1 Hprec Hall') by (cbn [length] in Hn; lia).
  replace (1 + N.of_nat (length vs)) with (N.of_nat (length (v1 :: vs))) by (cbn [length]; lia). reflexivity.
Qed.

(** the LAST value a bounded positional may take (the engine's [num_args] is reached): the engine moves on - back in
    [ValueDone], index + 1 - where the parser stays in [PSPos] at the same counter *)
Lemma eng_pos_only tok a pos evaf :
  no_sub pc tok -> plain_tok tok -> get_pos pc pos = Some a -> check_terminator a tok = false -> eng_num_args a <= 1 ->
  shadow_step tok cur pos false ValueDone evaf = SNext cur (pos + 1) false ValueDone true.
Proof.
  intros Hns Hpl Hg Hct Hn. destruct (eng_plain_lex tok Hpl) as [He [Hl Hs]].
  unfold shadow_step. cbn [negb]. rewrite (eng_no_sub pc cur tok _ Hrel Hns).
  rewrite He, opt_allows_hyphen_vd, Hl, Hs.
  unfold parse_positional. rewrite find_pos_el, Hg, is_value_terminator_check, Hct. cbn [negb andb].
  assert (Hn' : (1 <? eng_num_args a) = false) by (apply N.ltb_ge; exact Hn).
  unfold eng_num_args in Hn'. rewrite Hn'. reflexivity.
Qed.

Lemma eng_pos_last tok a pos k evaf :
  (is_set s_sub_precedence pc = true -> no_sub pc tok) -> plain_tok tok -> get_pos pc pos = Some a ->
  check_terminator a tok = false -> eng_num_args a <= k + 1 ->
  shadow_step tok cur pos false (Pos pos k) evaf = SNext cur (pos + 1) false ValueDone true.
Proof.
  intros Hns Hpl Hg Hct Hn. destruct (eng_plain_lex tok Hpl) as [He [Hl Hs]].
  unfold shadow_step. cbn [negb]. rewrite orb_false_r.
  assert (Hsub : (if (is_set s_sub_precedence cur && negb (is_set s_args_negate_subs cur && evaf)) && utf8_valid tok
                  then find_subcommand cur tok else None) = None).
  { rewrite <- (lvl_rel_is_set pc cur s_sub_precedence Hrel).
    destruct (is_set s_sub_precedence pc) eqn:Ep; [|reflexivity].
    exact (eng_no_sub pc cur tok _ Hrel (Hns eq_refl)). }
  rewrite Hsub, He, opt_allows_hyphen_pos, Hl, Hs.
  unfold parse_positional. rewrite find_pos_el, Hg, is_value_terminator_check, Hct, N.eqb_refl. cbn [negb andb].
  assert (Hn' : (k + 1 <? eng_num_args a) = false) by (apply N.ltb_ge; exact Hn).
  unfold eng_num_args in Hn'. rewrite Hn'. reflexivity.
Qed.

(** ... all the values a bounded multi-valued positional may take *)
Theorem eng_multi_max a pos v1 vs evaf : multi_vals pc pos a v1 vs ->
  N.of_nat (length (v1 :: vs)) = N.max 1 (eng_num_args a) ->
  shadow_run (v1 :: vs) cur pos false ValueDone evaf = SNext cur (pos + 1) false ValueDone true.
Proof.
  intros [Hm [Hns [Hprec Hall]]] Hn. inversion Hall as [|v0 t0 [Hpl Ht] Hall']; subst.
  destruct Ht as [_ [Hg [_ [_ Hct]]]].
  destruct (exists_last_or_nil vs) as [->|[init [lst ->]]].
  - cbn [shadow_run]. cbn [length] in Hn.
    rewrite (eng_pos_only v1 a pos evaf Hns Hpl Hg Hct); [reflexivity|lia].
  - rewrite app_comm_cons, shadow_run_app.
    assert (Hlen : N.of_nat (length (v1 :: init)) + 1 = eng_num_args a).
    { cbn [length] in Hn. rewrite app_length in Hn. cbn [length] in *. lia. }
    apply Forall_app in Hall'. destruct Hall' as [Hinit Hlast]. inversion Hlast as [|x t [Hpll Htl] _]; subst.
    assert (Hprec' : is_set s_sub_precedence pc = true -> Forall (no_sub pc) init /\ no_sub pc lst).
    { intros Ep. specialize (Hprec Ep). apply Forall_app in Hprec. destruct Hprec as [H1 H2]. inversion H2; subst. auto. }
    rewrite (eng_multi a pos v1 init evaf); [|refine (conj Hm (conj Hns (conj _ _)))|lia].
    + cbn [shadow_run]. destruct Htl as [_ [_ [_ [_ Hctl]]]].
      rewrite (eng_pos_last lst a pos _ true); [reflexivity|intros Ep; exact (proj2 (Hprec' Ep))|exact Hpll|exact Hg|exact Hctl|lia].
    + intros Ep. exact (proj1 (Hprec' Ep)).
    + apply Forall_cons; [split; [exact Hpl|split; [|split; [exact Hg|]]]|exact Hinit].
      * inversion Hall as [|? ? [_ [Hpp _]] _]; exact Hpp.
      * inversion Hall as [|? ? [_ [_ [_ H3]]] _]; exact H3.
Qed.

(** POS_INDEX AGREEMENT, options and single-valued positionals: along [pitems18] the engine's index moves from
    [pos] to [pos'] exactly as the parser's counter does ([EngineItems.loop_pitems18]) *)
Theorem eng_pitems evaf pos pre F pos' : pitems18 pc evaf pos pre F pos' ->
  shadow_run pre cur pos false ValueDone evaf = SNext cur pos' false ValueDone (evaf || negb (is_nil pre)).
Proof.
  induction 1 as [evaf pos|evaf pos toks F pre G pos' Hi Hp IH|evaf pos tok a pre G pos' Hns Hpl Ht Hm Hp IH
                   |evaf pos t a pre G pos' Hns Hpl Ht Hp IH|evaf pos a v1 vs t pre G pos' Hmv Hlen Hns Hpl Ht Hp IH].
  - cbn [shadow_run is_nil negb]. rewrite orb_false_r. reflexivity.
  - rewrite shadow_run_app, (eng_item18 pc cur L toks F Hi pos evaf), IH.
    pose proof (item18_nonempty pc toks F Hi) as Hne. destruct toks as [|t0 ts]; [discriminate|].
    cbn [app is_nil negb orb]. rewrite orb_true_r. reflexivity.
  - cbn [shadow_run]. destruct Ht as [_ [Hg [_ [_ Hct]]]].
    rewrite (eng_pos_single tok a pos evaf Hns Hpl Hg Hct Hm), IH. cbn [is_nil negb orb]. rewrite orb_true_r. reflexivity.
  - cbn [shadow_run]. destruct Ht as [_ [Hg [_ [_ Hct]]]].
    rewrite (eng_pos_term_vd t a pos evaf Hns Hpl Hg Hct), IH. cbn [is_nil negb orb]. rewrite orb_true_r. reflexivity.
  - rewrite shadow_run_app, (eng_multi a pos v1 vs evaf Hmv Hlen). cbn [shadow_run]. destruct Ht as [_ [Hg [_ [_ Hct]]]].
    rewrite (eng_pos_term_pos t a pos _ true Hns Hpl Hg Hct), IH. cbn [app is_nil negb orb]. rewrite orb_true_r. reflexivity.
Qed.


(** a subcommand name behind the values of a multi-valued positional, on a level with
    [subcommand_precedence_over_arg]: the engine descends *)
Lemma eng_pos_descend tok es pos k evaf :
  is_set s_sub_precedence pc = true -> (is_set s_args_negate_subs pc && evaf) = false ->
  utf8_valid tok = true -> find_subcommand cur tok = Some es ->
  shadow_step tok cur pos false (Pos pos k) evaf = SNext es 1 false ValueDone false.
Proof.
  intros Hp Hng Hu Hf. unfold shadow_step.
  rewrite <- (lvl_rel_is_set pc cur s_sub_precedence Hrel), <- (lvl_rel_is_set pc cur s_args_negate_subs Hrel), Hp, Hng, Hu.
  cbn [orb andb negb]. rewrite Hf. reflexivity.
Qed.
End EnginePositionals.

(** * Part 3: lines with positional values *)

(** the class of a parser level on the line: validated, short aliases on options, aliased arguments have a long
    name.  [args_conflicts_with_subcommands] is NOT excluded (it is in [EngineLine.lvl18]): see [pl_down] *)
Record lvlw (pc : cmd) : Prop := mkLw {
  w_app : assert_app pc = true;
  w_sa : short_aliases_on_options pc;
  w_al : aliased_have_long pc }.

Lemma lvlw_el pc cur : lvlw pc -> lvl_rel pc cur -> elevel pc cur.
Proof. intros [V Hsa Hal] Hrel. constructor; assumption. Qed.

Lemma lvl18_lvlw pc : lvl18 pc -> lvlw pc.
Proof. intros [V Hsa Hal _]. constructor; assumption. Qed.

(** the arguments of one level ([ChainWide.wbody], the counter starts at 1) together with the state the ENGINE
    ends in: [ValueDone] where the parser is in [PSValuesDone]; [Pos pos k] after [k] values of the multi-valued
    positional [a] where the parser is in [PSPos (a_id a)] - as long as [a] can take more ([k] below the
    engine's [num_args]: the maximum of the range, unbounded for an appending positional) *)
Inductive body18 (c : cmd) : list bytes -> (ps -> res ps) -> pstate_t -> N -> pstate -> N -> Prop :=
| b18_plain pre F pos' : pitems18 c false 1 pre F pos' -> body18 c pre F PSValuesDone pos' ValueDone pos'
| b18_multi pre F pos' a v1 vs : pitems18 c false 1 pre F pos' -> multi_vals c pos' a v1 vs ->
    N.of_nat (length (v1 :: vs)) < eng_num_args a ->
    body18 c (pre ++ v1 :: vs) (fun st => do st' <- F st; push_all c a (v1 :: vs) st') (PSPos (a_id a)) pos'
           (Pos pos' (N.of_nat (length (v1 :: vs)))) pos'
| b18_multi_max pre F pos' a v1 vs :   (* round 5: ALL the values a bounded positional may take - the engine moves on *)
    pitems18 c false 1 pre F pos' -> multi_vals c pos' a v1 vs ->
    N.of_nat (length (v1 :: vs)) = N.max 1 (eng_num_args a) ->
    body18 c (pre ++ v1 :: vs) (fun st => do st' <- F st; push_all c a (v1 :: vs) st') (PSPos (a_id a)) pos'
           ValueDone (pos' + 1).

(** the parser side ([ChainWide.loop_wbody] over the wider items) *)
Lemma loop_body18 c pre F pst pos' est epos : body18 c pre F pst pos' est epos -> forall rest st, fs_skip st = 0 ->
  parse_loop c (pre ++ rest) (lsV 1 false) st =
  (do st' <- F st; parse_loop c rest (mkL pst pos' (negb (is_nil pre)) false) st').
Proof.
  intros [pre0 F0 pos0 Hp|pre0 F0 pos0 a v1 vs Hp Hm _|pre0 F0 pos0 a v1 vs Hp Hm _] rest st Hfs.
  - exact (loop_pitems18 c false 1 pre0 F0 pos0 Hp rest st Hfs).
  - rewrite <- app_assoc. rewrite (loop_pitems18 c false 1 pre0 F0 pos0 Hp ((v1 :: vs) ++ rest) st Hfs).
    destruct (F0 st) as [st1|e s1|x]; cbn [rbind]; try reflexivity.
    rewrite (loop_multi c pos0 a v1 vs Hm rest _ st1).
    replace (negb (is_nil (pre0 ++ v1 :: vs))) with true; [reflexivity|].
    destruct pre0; reflexivity.
  - rewrite <- app_assoc. rewrite (loop_pitems18 c false 1 pre0 F0 pos0 Hp ((v1 :: vs) ++ rest) st Hfs).
    destruct (F0 st) as [st1|e s1|x]; cbn [rbind]; try reflexivity.
    rewrite (loop_multi c pos0 a v1 vs Hm rest _ st1).
    replace (negb (is_nil (pre0 ++ v1 :: vs))) with true; [reflexivity|].
    destruct pre0; reflexivity.
Qed.

Lemma body18_fs c pre F pst pos' est epos : body18 c pre F pst pos' est epos -> forall st st', F st = ROk st' ->
  fs_skip st' = fs_skip st /\ fs_at st' = fs_at st.
Proof.
  intros [pre0 F0 pos0 Hp|pre0 F0 pos0 a v1 vs Hp Hm _|pre0 F0 pos0 a v1 vs Hp Hm _] st st' H.
  - exact (pitems18_fs c false 1 pre0 F0 pos0 Hp st st' H).
  - destruct (F0 st) as [st1|e s1|x] eqn:E; cbn [rbind] in H; try discriminate.
    destruct (pitems18_fs c false 1 pre0 F0 pos0 Hp st st1 E) as [H1 H2].
    destruct (push_all_fs c a _ _ _ H) as [H3 H4]. rewrite H3, H4. split; assumption.
  - destruct (F0 st) as [st1|e s1|x] eqn:E; cbn [rbind] in H; try discriminate.
    destruct (pitems18_fs c false 1 pre0 F0 pos0 Hp st st1 E) as [H1 H2].
    destruct (push_all_fs c a _ _ _ H) as [H3 H4]. rewrite H3, H4. split; assumption.
Qed.

(** STATE AND POS_INDEX AGREEMENT on one level, engine side (the parser side is [loop_body18]) *)
Theorem eng_body pc cur pre F pst pos est epos : elevel pc cur -> body18 pc pre F pst pos est epos ->
  shadow_run pre cur 1 false ValueDone false = SNext cur epos false est (negb (is_nil pre)).
Proof.
  intros L [pre0 F0 pos0 Hp|pre0 F0 pos0 a v1 vs Hp Hm Hn|pre0 F0 pos0 a v1 vs Hp Hm Hn].
  - exact (eng_pitems pc cur L false 1 pre0 F0 pos0 Hp).
  - rewrite shadow_run_app, (eng_pitems pc cur L false 1 pre0 F0 pos0 Hp).
    rewrite (eng_multi pc cur L a pos0 v1 vs _ Hm Hn). destruct pre0; reflexivity.
  - rewrite shadow_run_app, (eng_pitems pc cur L false 1 pre0 F0 pos0 Hp).
    rewrite (eng_multi_max pc cur L a pos0 v1 vs _ Hm Hn). destruct pre0; reflexivity.
Qed.

(** where the parser looks for a subcommand name: between arguments, or - while a positional is being filled -
    on a level that sets [subcommand_precedence_over_arg] *)
Definition may_select (c : cmd) (pst : pstate_t) : Prop :=
  match pst with PSValuesDone => True | _ => is_set s_sub_precedence c = true end.

(** [pline pc line pcf posf vf]: [line] is `body_0 n_1 body_1 ... n_k pre_k` for the parser's (built) level [pc]:
    every [body_i] the arguments of the level reached ([body18]), every [n_i] a name or alias of a subcommand of
    that level which is not called [help], read where the parser looks for one ([may_select]); a level that sets
    [args_conflicts_with_subcommands] is left only BEFORE any of its own arguments ([body_i = []]); the last level
    [pcf] (lazily built) ends between arguments ([pitems18]) with the positional counter [posf]; [vf] = an argument
    of [pcf] was seen - the parser's flag [valid_arg_found] and, since the repair, the engine's *)
Inductive pline : cmd -> list bytes -> cmd -> N -> bool -> Prop :=
| pl_here pc pre F pos' : lvlw pc -> pitems18 pc false 1 pre F pos' -> pline pc pre pc pos' (negb (is_nil pre))
| pl_down pc pre F pst pos' est epos tok sc0 pc' rest pcf posf vf :
    lvlw pc -> body18 pc pre F pst pos' est epos -> may_select pc pst ->
    (is_set s_args_negate_subs pc = true -> pre = []) ->
    utf8_valid tok = true -> find_subcommand pc tok = Some sc0 -> aliases_to sc0 s_help = false ->
    build_subcommand pc (c_name sc0) = Some pc' -> pline pc' rest pcf posf vf ->
    pline pc (pre ++ tok :: rest) pcf posf vf.

Lemma pline_final pc line pcf posf vf : pline pc line pcf posf vf -> lvlw pcf.
Proof. induction 1; assumption. Qed.

(** [EngineLine.cline] is the special case without positional values and without [args_conflicts_with_subcommands] *)
Theorem cline_pline pc line pcf : cline pc line pcf -> exists vf, pline pc line pcf 1 vf.
Proof.
  induction 1 as [pc pre Hl [F Hp]|pc pre tok sc0 pc' rest pcf Hl [F Hp] Hu Hf Hnh Hb Hline [vf IH]].
  - eexists. eapply pl_here; [exact (lvl18_lvlw pc Hl)|exact (pitems_pitems18 pc 1 pre F 1 (prefix_pitems pc pre F Hp 1) false)].
  - exists vf. eapply (pl_down pc pre F PSValuesDone 1 ValueDone 1); try eassumption.
    + exact (lvl18_lvlw pc Hl).
    + apply b18_plain. exact (pitems_pitems18 pc 1 pre F 1 (prefix_pitems pc pre F Hp 1) false).
    + exact I.
    + intros E. rewrite (l_neg pc Hl) in E. discriminate.
Qed.

Lemma eng_descend_vd tok cur es pos evaf : (is_set s_args_negate_subs cur && evaf) = false ->
  utf8_valid tok = true -> find_subcommand cur tok = Some es ->
  shadow_step tok cur pos false ValueDone evaf = SNext es 1 false ValueDone false.
Proof.
  intros Hng Hu Hf. unfold shadow_step. cbn [negb]. rewrite orb_true_r, Hng, Hu. cbn [andb negb]. rewrite Hf. reflexivity.
Qed.

(** STATE, LEVEL AND POS_INDEX AGREEMENT, engine side: along a line the shadow parse ends in [ValueDone], not
    escaped, at a level related to the parser's final level, with [pos_index] = the parser's positional counter *)
Theorem eng_pline pc line pcf posf vf : pline pc line pcf posf vf -> forall cur, lvl_rel pc cur ->
  exists curf, shadow_run line cur 1 false ValueDone false = SNext curf posf false ValueDone vf /\ lvl_rel pcf curf.
Proof.
  induction 1 as [pc pre F pos' Hl Hp|pc pre F pst pos' est epos tok sc0 pc' rest pcf posf vf Hl Hbd Hsel Hneg Hu Hf Hnh Hb Hline IH];
    intros cur Hrel.
  - exists cur. split; [|exact Hrel]. exact (eng_pitems pc cur (lvlw_el pc cur Hl Hrel) false 1 pre F pos' Hp).
  - pose proof (lvlw_el pc cur Hl Hrel) as L.
    rewrite shadow_run_app, (eng_body pc cur pre F pst pos' est epos L Hbd). cbn [shadow_run].
    destruct (level_descent pc cur tok sc0 Hrel (w_app pc Hl) Hf (not_help_name sc0 Hnh)) as [es [pc'' [Hfe [Hb' Hrel']]]].
    rewrite Hb in Hb'. inversion Hb'; subst pc''.
    assert (Hng : (is_set s_args_negate_subs pc && negb (is_nil pre)) = false).
    { destruct (is_set s_args_negate_subs pc) eqn:En; [|reflexivity]. rewrite (Hneg eq_refl). reflexivity. }
    assert (Hstep : shadow_step tok cur epos false est (negb (is_nil pre)) = SNext es 1 false ValueDone false).
    { destruct Hbd as [pre0 F0 pos0 Hp|pre0 F0 pos0 a v1 vs Hp Hm Hn|pre0 F0 pos0 a v1 vs Hp Hm Hn].
      - apply (eng_descend_vd tok cur es pos0); [|exact Hu|exact Hfe].
        rewrite <- (lvl_rel_is_set pc cur s_args_negate_subs Hrel). exact Hng.
      - exact (eng_pos_descend pc cur L tok es pos0 _ _ Hsel Hng Hu Hfe).
      - apply (eng_descend_vd tok cur es (pos0 + 1)); [|exact Hu|exact Hfe].
        rewrite <- (lvl_rel_is_set pc cur s_args_negate_subs Hrel). exact Hng. }
    rewrite Hstep. apply IH. exact Hrel'.
Qed.

(** ** the parser side *)

Lemma body18_err c pre F pst pos est epos : body18 c pre F pst pos est epos -> forall st e s, F st = RErr e s -> reaction_error c e.
Proof.
  intros [pre0 F0 pos0 Hp|pre0 F0 pos0 a v1 vs Hp Hm _|pre0 F0 pos0 a v1 vs Hp Hm _] st e s H.
  - eapply pitems18_err; eauto.
  - destruct (F0 st) as [st1|e1 s1|x] eqn:E; cbn [rbind] in H.
    + eapply push_all_err; eauto.
    + inversion H; subst. eapply pitems18_err; eauto.
    + discriminate.
  - destruct (F0 st) as [st1|e1 s1|x] eqn:E; cbn [rbind] in H.
    + eapply push_all_err; eauto.
    + inversion H; subst. eapply pitems18_err; eauto.
    + discriminate.
Qed.

(** one level: its arguments, then [tail] in the loop state they end in *)
Lemma gmw_levelw c pre F pst pos' est epos tail : body18 c pre F pst pos' est epos ->
  (forall f st, fs_skip st = 0 ->
     no_unknown (do lr <- parse_loop c tail (mkL pst pos' (negb (is_nil pre)) false) st; dispatch_lr f c lr)) ->
  forall f st0, fs_skip st0 = 0 -> no_unknown (get_matches_with f c (pre ++ tail) st0).
Proof.
  intros Hbd Ht f st0 Hfs. destruct f as [|f]; [intros e st H; discriminate H|].
  rewrite gmw_unfold. apply post_no_unknown. rewrite parsed_of_dispatch.
  rewrite (loop_body18 c pre F pst pos' est epos Hbd tail st0 Hfs).
  destruct (F st0) as [st'|e1 s1|x] eqn:EF; cbn [rbind].
  - apply Ht. destruct (body18_fs c pre F pst pos' est epos Hbd st0 st' EF) as [H1 _].
    rewrite H1. exact Hfs.
  - intros e st H Hk. inversion H; subst. eapply reaction_not_unknown; [eapply body18_err; eauto|exact Hk].
  - intros e st H. discriminate H.
Qed.

(** [EngineAccept.accept_sub_step] in whichever loop state the parser looks for a subcommand name *)
Lemma accept_sub_step_pst c sc n rest pst pos vaf st :
  assert_app c = true -> In sc (c_subs c) -> aliases_to sc n = true -> utf8_valid n = true ->
  (is_set s_args_negate_subs c && vaf) = false -> may_select c pst ->
  exists n', aliases_to sc n' = true /\ find_subcommand c n' = Some sc /\
    parse_loop c (n :: rest) (mkL pst pos vaf false) st =
    if beq n' s_help && negb (is_set s_disable_help_sub c) then ROk (LHelpSub rest st)
    else ROk (LSub n' false vaf st rest).
Proof.
  intros V Hin Ha Hu Hng Hsel.
  destruct (accept_sub_step c sc n rest pos vaf st V Hin Ha Hu Hng) as [n' [Ha' [Hf' [Hp _]]]].
  exists n'. split; [exact Ha'|]. split; [exact Hf'|].
  cbn [parse_loop l_trailing l_pst l_vaf l_pos].
  assert (Htry : (is_set s_sub_precedence c || match pst with PSValuesDone => true | _ => false end) = true).
  { destruct pst; cbn [may_select] in Hsel; [apply orb_true_r|rewrite Hsel; reflexivity|rewrite Hsel; reflexivity]. }
  rewrite Htry, Hp.
  destruct (beq n' s_help && negb (is_set s_disable_help_sub c)); reflexivity.
Qed.

(** the dispatch to a child whose own run reports no unknown token; the level may set
    [args_conflicts_with_subcommands] as long as none of its arguments was seen *)
Lemma after_sub_no_unknown_w f c n vaf st rest sc0 pc' :
  (is_set s_args_negate_subs c && vaf) = false -> find_subcommand c n = Some sc0 ->
  build_subcommand c (c_name sc0) = Some pc' ->
  no_unknown (get_matches_with f pc' rest ps_new) ->
  no_unknown (after_sub f c n false vaf st rest).
Proof.
  intros Hneg Hf Hb Hc e s H Hk. unfold after_sub in H. rewrite Hneg, Hf in H. cbn [expect rbind] in H.
  rewrite Hb in H. destruct (negb (assert_app pc')); [discriminate|].
  change (sub_init false st) with ps_new in H.
  destruct (get_matches_with f pc' rest ps_new) as [s1|e1 s1|x] eqn:Eg; try discriminate.
  destruct (is_set s_ignore_errors c); [discriminate|]. inversion H; subst. eapply Hc; [reflexivity|exact Hk].
Qed.

(** a line, then [tail] at the final level - in [ValuesDone], at the final counter, with the final level's
    "an argument was seen" flag *)
Theorem parse_pline pc line pcf posf vf : pline pc line pcf posf vf -> forall tail,
  (forall f st, fs_skip st = 0 ->
     no_unknown (do lr <- parse_loop pcf tail (mkL PSValuesDone posf vf false) st; dispatch_lr f pcf lr)) ->
  forall f st0, fs_skip st0 = 0 -> no_unknown (get_matches_with f pc (line ++ tail) st0).
Proof.
  induction 1 as [pc pre F pos' Hl Hp|pc pre F pst pos' est epos tok sc0 pc' rest pcf posf vf Hl Hbd Hsel Hneg Hu Hf Hnh Hb Hline IH];
    intros tail Ht.
  - apply (gmw_levelw pc pre F PSValuesDone pos' ValueDone pos' tail (b18_plain pc pre F pos' Hp) Ht).
  - rewrite <- app_assoc. cbn [app]. apply (gmw_levelw pc pre F pst pos' est epos (tok :: rest ++ tail) Hbd).
    intros f st Hfs.
    assert (Hin : In sc0 (c_subs pc) /\ aliases_to sc0 tok = true) by (apply find_some in Hf; exact Hf).
    destruct Hin as [Hin Hal].
    assert (Hng : (is_set s_args_negate_subs pc && negb (is_nil pre)) = false).
    { destruct (is_set s_args_negate_subs pc) eqn:En; [|reflexivity]. rewrite (Hneg eq_refl). reflexivity. }
    destruct (accept_sub_step_pst pc sc0 tok (rest ++ tail) pst pos' _ st (w_app pc Hl) Hin Hal Hu Hng Hsel)
      as [n' [Ha' [Hf' Hloop]]].
    rewrite Hloop.
    assert (Hn' : beq n' s_help = false).
    { apply beq_neq. intros ->. rewrite Ha' in Hnh. discriminate. }
    rewrite Hn'. cbn [andb rbind dispatch_lr].
    apply (after_sub_no_unknown_w f pc n' _ st (rest ++ tail) sc0 pc' Hng Hf' Hb).
    apply IH; [exact Ht|reflexivity].
Qed.

(** * Part 4: the candidate at the end of the line *)

(** the positional at the final counter does not want negative numbers *)
Definition negnum_free_at (pc : cmd) (pos : N) : Prop :=
  match get_pos pc pos with Some p => a_negnum p = false | None => True end.

(** what is assumed of the candidate ([EngineLine.cand_class] at the counter [posf]); a SUBCOMMAND candidate is in
    the class only where the parser still looks for subcommands: the final level does not set
    [args_conflicts_with_subcommands], or none of its arguments precedes the cursor ([vf = false]).  Outside:
    [args_conflict_candidate_refuted]. *)
Definition cand_classw (pcf : cmd) (posf : N) (vf : bool) (w : bytes) (cd : cand) : Prop :=
  match cd_id cd with
  | Some (IdArg aid) =>
      typed_known pcf w /\ subs_plain pcf /\ negnum_free_at pcf posf /\
      forall a, In a (c_args pcf) -> a_id a = aid -> names_wf a
  | Some (IdCmd n) => utf8_valid (cd_value cd) = true /\ (is_set s_args_negate_subs pcf && vf) = false
  | None => False
  end.

Lemma cand_class_w pcf w cd vf : lvl18 pcf -> cand_class pcf w cd -> cand_classw pcf 1 vf w cd.
Proof.
  intros Hl. unfold cand_class, cand_classw. destruct (cd_id cd) as [[aid|n]|]; [| |auto].
  - intros [H1 [H2 [H3 H4]]]. split; [exact H1|split; [exact H2|split; [exact H3|exact H4]]].
  - intros H. split; [exact H|]. rewrite (l_neg pcf Hl). reflexivity.
Qed.

(** [EngineLine.cand_not_positional] without the hypothesis on [args_conflicts_with_subcommands] *)
Lemma cand_not_positional_w tbl w cur pi l cd aid pc : lvlw pc -> c_args pc = c_args cur ->
  complete_arg tbl w cur pi ValueDone = COk l -> In cd l -> cd_id cd = Some (IdArg aid) ->
  forall a, In a (c_args pc) -> a_id a = aid -> a_is_positional a = false.
Proof.
  intros Hl Hargs Hc Hin Hid.
  assert (Hsrc : exists a0, In a0 (c_args pc) /\ a_id a0 = aid /\ a_is_positional a0 = false).
  { cbn [complete_arg] in Hc. destruct (value_done_inv _ _ _ _ _ Hc) as [posv [opts [Hpos [Ho ->]]]].
    apply finish_incl in Hin. apply in_app_or in Hin. destruct Hin as [Hin|Hin].
    { exfalso. destruct (utf8_valid w); [|destruct Hin].
      unfold complete_subcommand in Hin. rewrite dedup_adjacent_in, sort_cands_in, filter_In in Hin.
      destruct Hin as [Hin _]. destruct (subcommands_in cur cd Hin) as [sc [n [_ [_ [Hi _]]]]]. congruence. }
    apply in_app_or in Hin. destruct Hin as [Hin|Hin]; [rewrite (Hpos cd Hin) in Hid; discriminate|].
    assert (Hnn : cd_id cd <> None) by (rewrite Hid; discriminate).
    assert (Hlong : forall a0 s, In a0 (c_args pc) -> (a_long a0 = Some s \/ In s (map fst (a_aliases a0))) ->
                    a_is_positional a0 = false).
    { intros a0 s Ha0 Hs. unfold a_is_positional.
      assert (Hsome : a_long a0 <> None).
      { destruct Hs as [Hs|Hs]; [rewrite Hs; discriminate|].
        apply (w_al pc Hl a0 Ha0). intros E. rewrite E in Hs. destruct Hs. }
      destruct (a_long a0); [reflexivity|contradiction]. }
    destruct (complete_option_shape tbl w cur opts cd Ho Hin Hnn) as [[Hx|Hx]|[y [lead [Hy [Hx _]]]]].
    - destruct (longs_in cur cd Hx) as [a0 [s [Ha0 [-> Hs]]]]. rewrite <- Hargs in Ha0.
      cbn [cd_id populate_arg_candidate] in Hid. inversion Hid as [Haid].
      exists a0. split; [exact Ha0|]. split; [reflexivity|]. exact (Hlong a0 s Ha0 Hs).
    - destruct (hidden_longs_in cur cd Hx) as [a0 [s [Ha0 [-> Hs]]]]. rewrite <- Hargs in Ha0.
      cbn [cd_id hide populate_arg_candidate] in Hid. inversion Hid as [Haid].
      exists a0. split; [exact Ha0|]. split; [reflexivity|]. exact (Hlong a0 s Ha0 (or_intror Hs)).
    - destruct (shorts_in cur y Hy) as [a0 [s [Ha0 [-> Hs]]]]. rewrite <- Hargs in Ha0. subst cd.
      cbn [cd_id add_prefix populate_arg_candidate] in Hid. inversion Hid as [Haid].
      exists a0. split; [exact Ha0|]. split; [reflexivity|].
      destruct Hs as [Hs|Hs].
      + unfold a_is_positional. rewrite Hs. cbn [is_some negb]. apply andb_false_r.
      + apply (w_sa pc Hl a0 Ha0). intros E. rewrite E in Hs. destruct Hs. }
  destruct Hsrc as [a0 [Ha0 [Hid0 Hp0]]]. intros a Ha Haid.
  pose proof (RelationsComplete.assert_app_find_arg pc (w_app pc Hl) a Ha) as F1.
  pose proof (RelationsComplete.assert_app_find_arg pc (w_app pc Hl) a0 Ha0) as F2.
  rewrite Haid in F1. rewrite Hid0 in F2. rewrite F1 in F2. inversion F2; subst. exact Hp0.
Qed.

(** the final level: the candidate as the last token, read at the counter [posf] *)
Theorem final_tailw tbl w curf pif l cd pcf posf vf : lvlw pcf -> lvl_rel pcf curf ->
  complete_arg tbl w (sub_cut curf vf) pif ValueDone = COk l -> In cd l -> cand_classw pcf posf vf w cd ->
  forall f st, fs_skip st = 0 ->
    no_unknown (do lr <- parse_loop pcf [cd_value cd] (mkL PSValuesDone posf vf false) st; dispatch_lr f pcf lr).
Proof.
  intros Hl Hrel Hc Hin Hcc f st Hfs.
  pose proof (lvl_rel_same_level pcf curf Hrel) as Hsl.
  assert (Hargs : c_args pcf = c_args (sub_cut curf vf)) by (rewrite sub_cut_args; exact (proj1 Hsl)).
  unfold cand_classw in Hcc. destruct (cd_id cd) as [[aid|n]|] eqn:Hid; [| |contradiction].
  - destruct Hcc as [Htk [Hsp [Hnn Hwf]]].
    destruct (option_candidate_step_args tbl w (sub_cut curf vf) pif l cd aid pcf (w_app pcf Hl) (w_sa pcf Hl) Hargs Hc Hin Hid
                (typed_known_args pcf (sub_cut curf vf) w Hargs Htk)) as [a [Ha [Haid H]]].
    pose proof (Hwf a Ha Haid) as Hn.
    pose proof (cand_not_positional_w tbl w (sub_cut curf vf) pif l cd aid pcf Hl Hargs Hc Hin Hid a Ha Haid) as Hp.
    destruct (cand_dash tbl w (sub_cut curf vf) pif l cd aid Hc Hin Hid) as [r Er].
    assert (Hq : quiet_state pcf (cd_value cd) posf vf st).
    { split; [rewrite Er; apply dash_no_sub; exact Hsp|]. split; [exact Hfs|].
      unfold negnum_free_at in Hnn. destruct (get_pos pcf posf); [rewrite Hnn|]; reflexivity. }
    destruct (H Hp Hn posf vf st Hq) as [h [Hocc Heq]]. rewrite (Heq []).
    apply (after_opt_nil f pcf a h posf Hocc).
  - destruct Hcc as [Hcu Hng].
    assert (Hcut : sub_cut curf vf = curf).
    { unfold sub_cut. rewrite <- (lvl_rel_is_set pcf curf s_args_negate_subs Hrel), Hng. reflexivity. }
    rewrite Hcut in Hc.
    destruct (subcommand_candidate_accepted tbl w curf pif l cd n pcf (w_app pcf Hl) Hsl Hc Hin Hid)
      as [sc [Hsc [Hn [Hal Hacc]]]].
    destruct (Hacc Hcu [] posf vf st Hng) as [n' [Ha' [Hf' [_ Hloop]]]].
    rewrite Hloop.
    destruct (beq n' s_help && negb (is_set s_disable_help_sub pcf)); cbn [rbind dispatch_lr].
    + intros e s H Hk. inversion H; subst. cbn in Hk. destruct Hk as [Hk|Hk]; discriminate Hk.
    + intros e s H Hk. unfold after_sub in H. rewrite Hng, Hf' in H. cbn [expect rbind] in H.
      destruct (build_subcommand pcf (c_name sc)) as [pc'|]; [|discriminate].
      destruct (negb (assert_app pc')); [discriminate|].
      destruct (get_matches_with f pc' [] (sub_init false st)) as [s1|e1 s1|x] eqn:Eg; try discriminate.
      destruct (is_set s_ignore_errors pcf); [discriminate|]. inversion H; subst.
      exact (gmw_nil _ _ _ _ _ Eg Hk).
Qed.

(** the engine's state at the cursor of a whole line: [ValueDone], before `--`, at a level related to the parser's,
    [pos_index] IS the parser's positional counter and [valid_arg_found] the parser's flag *)
Theorem shadow_pline c0 bin line w after pcf posf vf f b :
  tree_all unb c0 -> is_set s_no_binary_name c0 = false -> N.of_nat (length line) + 2 <= usize_max ->
  build_full f c0 = BOk b -> pline (build_self (with_bin c0 bin)) line pcf posf vf ->
  exists curf, start_walk b (bin :: line ++ w :: after) (N.of_nat (S (length line))) = WAt w curf posf ValueDone false vf
               /\ lvl_rel pcf curf.
Proof.
  intros Hu Hnb Hlen Hb Hline.
  pose proof (root_rel _ c0 bin b Hu Hb) as Hrel.
  assert (Hnb' : is_set s_no_binary_name b = false).
  { rewrite <- (lvl_rel_is_set _ _ s_no_binary_name Hrel), build_self_nbn.
    destruct (with_bin_cases c0 bin) as [-> | ->]; [exact Hnb|]. destruct c0; exact Hnb. }
  rewrite (start_walk_run b bin line w after Hnb' Hlen).
  destruct (eng_pline _ line pcf posf vf Hline b Hrel) as [curf [Hrun Hrelf]].
  exists curf. rewrite Hrun. split; [reflexivity|exact Hrelf].
Qed.

(** ... and the engine's [valid_arg_found] IS the parser's flag [vf] at the final level (the loop of [complete] as the
    fold [shadow_run]; [start_walk] does not expose the flag) *)
Theorem flag_agreement c0 bin line pcf posf vf f b :
  tree_all unb c0 -> build_full f c0 = BOk b -> pline (build_self (with_bin c0 bin)) line pcf posf vf ->
  exists curf, shadow_run line b 1 false ValueDone false = SNext curf posf false ValueDone vf /\ lvl_rel pcf curf.
Proof.
  intros Hu Hb Hline. exact (eng_pline _ line pcf posf vf Hline b (root_rel _ c0 bin b Hu Hb)).
Qed.

(** * END TO END, lines with positional values *)
Theorem candidate_accepted_pline tbl c0 bin line w after l cd pcf posf vf e :
  tree_all unb c0 -> is_set s_no_binary_name c0 = false ->
  N.of_nat (length line) + 2 <= usize_max ->
  pline (build_self (with_bin c0 bin)) line pcf posf vf ->
  complete_model tbl c0 (bin :: line ++ w :: after) (N.of_nat (S (length line))) = COk l ->
  In cd l -> cand_classw pcf posf vf w cd ->
  parse_top c0 (bin :: line ++ [cd_value cd]) = OErr e -> ~ unknown_kind (e_kind e).
Proof.
  intros Hu Hnb Hlen Hline Hm Hin Hcc Hp Hk.
  destruct (model_ok_inv tbl c0 _ _ l Hm) as [b [w' [cur [pi [st [esc [vaf [Hb [Hw [_ Hc]]]]]]]]]].
  pose proof (root_rel _ c0 bin b Hu Hb) as Hrel.
  assert (Hnb' : is_set s_no_binary_name b = false).
  { rewrite <- (lvl_rel_is_set _ _ s_no_binary_name Hrel), build_self_nbn.
    destruct (with_bin_cases c0 bin) as [-> | ->]; [exact Hnb|]. destruct c0; exact Hnb. }
  rewrite (start_walk_run b bin line w after Hnb' Hlen) in Hw.
  destruct (eng_pline _ line pcf posf vf Hline b Hrel) as [curf [Hrun Hrelf]].
  rewrite Hrun in Hw. cbn [walk_of] in Hw. inversion Hw; subst w' cur pi st esc vaf. clear Hw.
  pose proof (pline_final _ _ _ _ _ Hline) as Hlf.
  rewrite (parse_top_unfold c0 bin _ Hnb) in Hp. unfold do_parse in Hp.
  destruct (negb (valid (with_bin c0 bin))); [discriminate|].
  match type of Hp with match ?g with _ => _ end = _ => destruct g as [s1|e1 s1|x] eqn:Eg end.
  - discriminate.
  - assert (e1 = e).
    { destruct (is_set s_ignore_errors (build_self (with_bin c0 bin)) && use_stderr (e_kind e1)); [discriminate|].
      inversion Hp; reflexivity. }
    subst e1.
    refine (parse_pline _ line pcf posf vf Hline [cd_value cd] _ _ ps_new eq_refl e s1 Eg Hk).
    apply (final_tailw tbl w curf posf l cd pcf posf vf Hlf Hrelf Hc Hin Hcc).
  - destruct x; discriminate.
Qed.

(** STATE AGREEMENT on one level, stated for both machines: after the arguments of a level the engine stands in
    [est] at index [epos] where the parser's loop stands in [pst] at counter [pos] - [ValueDone] / [PSValuesDone] at the
    same index, or [Pos pos k] / [PSPos (a_id a)] with [a] the positional at [pos] for both ([find_pos] = [get_pos]),
    or - round 5, a BOUNDED multi-valued positional [a] that has ALL the values the engine's [num_args] admits -
    [ValueDone] at [pos + 1] where the parser is still in [PSPos (a_id a)] at [pos] (it keeps collecting: one more
    plain word is TooManyValues at validation; an option, the terminator or a subcommand name under
    [subcommand_precedence_over_arg] are read by both as between arguments) *)
Theorem state_agreement_positionals pc cur pre F pst pos est epos : elevel pc cur -> body18 pc pre F pst pos est epos ->
  shadow_run pre cur 1 false ValueDone false = SNext cur epos false est (negb (is_nil pre)) /\
  (forall rest st, fs_skip st = 0 ->
     parse_loop pc (pre ++ rest) (lsV 1 false) st =
     (do st' <- F st; parse_loop pc rest (mkL pst pos (negb (is_nil pre)) false) st')) /\
  match est with
  | ValueDone => (pst = PSValuesDone /\ epos = pos) \/
                 (epos = pos + 1 /\ exists a, pst = PSPos (a_id a) /\ find_pos cur pos = Some a /\ get_pos pc pos = Some a /\
                    a_is_multiple a = true)
  | Pos i k => i = pos /\ epos = pos /\ exists a, pst = PSPos (a_id a) /\ find_pos cur pos = Some a /\ get_pos pc pos = Some a /\
                 a_is_multiple a = true /\ k < eng_num_args a
  | Opt _ _ => False
  end.
Proof.
  intros L Hbd. split; [exact (eng_body pc cur pre F pst pos est epos L Hbd)|].
  split; [exact (loop_body18 pc pre F pst pos est epos Hbd)|].
  destruct Hbd as [pre0 F0 pos0 Hp|pre0 F0 pos0 a v1 vs Hp Hm Hn|pre0 F0 pos0 a v1 vs Hp Hm Hn]; [left; split; reflexivity| |].
  - split; [reflexivity|]. split; [reflexivity|]. exists a. split; [reflexivity|].
    destruct Hm as [Hmul [_ [_ Hall]]]. inversion Hall as [|x t [_ [_ [Hg _]]] _]; subst.
    rewrite (find_pos_el pc cur L pos0). repeat split; assumption.
  - right. split; [reflexivity|]. exists a. split; [reflexivity|].
    destruct Hm as [Hmul [_ [_ Hall]]]. inversion Hall as [|x t [_ [_ [Hg _]]] _]; subst.
    rewrite (find_pos_el pc cur L pos0). repeat split; assumption.
Qed.

(** * The classes are decidable *)
Definition lvlw_b (pc : cmd) : bool :=
  assert_app pc
  && forallb (fun a => is_nil (a_short_aliases a) || negb (a_is_positional a)) (c_args pc)
  && forallb (fun a => is_nil (a_aliases a) || is_some (a_long a)) (c_args pc).

Lemma lvlw_b_ok pc : lvlw_b pc = true -> lvlw pc.
Proof.
  unfold lvlw_b. intros H. apply andb_true_iff in H. destruct H as [H H3].
  apply andb_true_iff in H. destruct H as [H1 H2]. constructor.
  - exact H1.
  - intros a Ha Hne. pose proof (forall_args_dec _ _ H2 a Ha) as Hb. cbv beta in Hb.
    destruct (a_short_aliases a); [tauto|]. cbn [is_nil orb] in Hb. apply negb_true_iff in Hb. exact Hb.
  - intros a Ha Hne. pose proof (forall_args_dec _ _ H3 a Ha) as Hb. cbv beta in Hb.
    destruct (a_aliases a); [tauto|]. destruct (a_long a); [discriminate|discriminate Hb].
Qed.

Definition cand_classw_b (pcf : cmd) (posf : N) (vf : bool) (w : bytes) (cd : cand) : bool :=
  match cd_id cd with
  | Some (IdArg aid) =>
      match EngineModel.to_short w with Some lead => forallb (has_short pcf) (decode lead) | None => true end
      && subs_plain_b pcf
      && match get_pos pcf posf with Some p => negb (a_negnum p) | None => true end
      && forallb (fun a => negb (beq (a_id a) aid) || names_wf_b a) (c_args pcf)
  | Some (IdCmd n) => utf8_valid (cd_value cd) && negb (is_set s_args_negate_subs pcf && vf)
  | None => false
  end.

Lemma cand_classw_b_ok pcf posf vf w cd : cand_classw_b pcf posf vf w cd = true -> cand_classw pcf posf vf w cd.
Proof.
  unfold cand_classw_b, cand_classw. destruct (cd_id cd) as [[aid|n]|]; [| |discriminate].
  - intros H. apply andb_true_iff in H. destruct H as [H H4]. apply andb_true_iff in H. destruct H as [H H3].
    apply andb_true_iff in H. destruct H as [H1 H2]. split; [|split; [|split]].
    + unfold typed_known. destruct (EngineModel.to_short w); [exact H1|exact I].
    + apply subs_plain_b_ok. exact H2.
    + unfold negnum_free_at. destruct (get_pos pcf posf); [apply negb_true_iff in H3; exact H3|exact I].
    + intros a Ha Hid. pose proof (forall_args_dec _ _ H4 a Ha) as Hb. cbv beta in Hb.
      rewrite Hid, beq_refl in Hb. cbn [negb orb] in Hb. apply names_wf_b_ok; exact Hb.
  - intros H. apply andb_true_iff in H. destruct H as [H1 H2]. split; [exact H1|]. apply negb_true_iff in H2. exact H2.
Qed.

Theorem wide_classes_decidable :
  (forall pc, lvlw_b pc = true -> lvlw pc) /\
  (forall pcf posf vf w cd, cand_classw_b pcf posf vf w cd = true -> cand_classw pcf posf vf w cd).
Proof. exact (conj lvlw_b_ok cand_classw_b_ok). Qed.

(** * Non-vacuity: three levels; a flag and a single-valued positional at the root; an option and two values of a
    multi-valued positional, then a subcommand ALIAS, on a level with [subcommand_precedence_over_arg] (the root
    does not set it); the last level sets [args_conflicts_with_subcommands] *)
Module WideExample.
Definition b1 (x : N) : bytes := [x].
Definition w_remote : bytes := [114; 101; 109; 111; 116; 101].
Definition w_add : bytes := [97; 100; 100].
Definition w_deep : bytes := [100; 101; 101; 112].
Definition w_tag : bytes := [116; 97; 103].
Definition w_force : bytes := [102; 111; 114; 99; 101].
Definition w_src : bytes := [115; 114; 99].
Definition w_files : bytes := [102; 105; 108; 101; 115].
Definition w_name : bytes := [110; 97; 109; 101].
Definition w_pair : bytes := [112; 97; 105; 114].
Definition ddw (s : bytes) : bytes := 45 :: 45 :: s.
(** p(-v; <src>) -> remote(--tag/-t <v>...; --pair/-p <a> <b>; <files>...; precedence) -> add|ad(--force/-f; <name>; args conflict) -> deep *)
Definition exw : cmd :=
  (cmd_new (b1 112))
    <| c_args := [ ex_flag 118 118; (arg_new w_src) <| a_action := Some ASet |> ] |>
    <| c_subs :=
      [ (cmd_new w_remote)
          <| c_set := settings_none <| s_sub_precedence := true |> |>
          <| c_args := [ (arg_new w_tag) <| a_long := Some w_tag |> <| a_short := Some 116 |> <| a_action := Some AAppend |>;
                         (arg_new w_pair) <| a_long := Some w_pair |> <| a_short := Some 112 |> <| a_action := Some ASet |>
                           <| a_num := Some {| vmin := 2; vmax := 2 |} |>;
                         (arg_new w_files) <| a_action := Some AAppend |> <| a_num := Some {| vmin := 1; vmax := usize_max |} |> ] |>
          <| c_subs :=
            [ (cmd_new w_add) <| c_aliases := [([97; 100], true)] |>
                <| c_set := settings_none <| s_args_negate_subs := true |> |>
                <| c_args := [ (arg_new w_force) <| a_long := Some w_force |> <| a_short := Some 102 |> <| a_action := Some ASetTrue |>;
                               (arg_new w_name) <| a_action := Some ASet |> ] |>
                <| c_subs := [ cmd_new w_deep ] |> ] |> ] |>.
Definition root : cmd := build_self (with_bin exw (b1 112)).
Definition pc1 : cmd := match build_subcommand root w_remote with Some x => x | None => cmd_new [] end.
Definition pc2 : cmd := match build_subcommand pc1 w_add with Some x => x | None => cmd_new [] end.
(** `-v a remote --pair a b -t=x --tag x f1 f2 ad [n1]` *)
Definition pre0 : list bytes := [[45; 118]; b1 97].
Definition pre1 : list bytes := ([ddw w_pair; b1 97; b1 98] ++ [[45; 116; 61; 120]] ++ [ddw w_tag; b1 120]) ++ [102; 49] :: [[102; 50]].
Definition line_of (pre2 : list bytes) : list bytes := pre0 ++ w_remote :: (pre1 ++ [97; 100] :: pre2).
Definition lineA : list bytes := line_of [].
Definition lineB : list bytes := line_of [[110; 49]].

Lemma ex_pline pre2 F posf : pitems18 pc2 false 1 pre2 F posf -> pline root (line_of pre2) pc2 posf (negb (is_nil pre2)).
Proof.
  intros Hp2. unfold line_of.
  eapply (pl_down root pre0 _ PSValuesDone 2 ValueDone 2 w_remote _ pc1).
  - apply lvlw_b_ok. vmr.
  - apply b18_plain. eapply (p18_opt _ false 1 [[45; 118]] _ [b1 97]); [apply i18_base; flag_cluster 118|].
    eapply (p18_pos _ true 1 (b1 97) _ []); [vmr|solve_plain|solve_takes|vmr|apply p18_nil].
  - exact I.
  - intros E. vm_compute in E. discriminate E.
  - vmr.
  - vmr.
  - vmr.
  - vmr.
  - unfold pre1. eapply (pl_down pc1 _ _ _ 1 _ 1 [97; 100] _ pc2).
    + apply lvlw_b_ok. vmr.
    + eapply (b18_multi pc1 _ _ 1 _ [102; 49] [[102; 50]]).
      * eapply (p18_opt _ false 1 [ddw w_pair; b1 97; b1 98]).
        { eapply (i18_long_multi _ (ddw w_pair) w_pair _ _ [b1 97; b1 98]);
            [solve_nosub|vmr|vmr|vmr|vmr|vmr|vmr|discriminate|vmr|].
          repeat (apply Forall_cons; [split; [solve_nosub|split; [solve_plain|vmr]]|]). apply Forall_nil. }
        eapply (p18_opt _ true 1 [[45; 116; 61; 120]]).
        { eapply (i18_short_eq _ [45; 116; 61; 120] [116; 61; 120] 116 [120]);
            [solve_nosub|vmr|vmr|vmr|vmr|vmr|vmr|vmr|apply no_hyphen_of_args; vmr]. }
        eapply (p18_opt _ true 1 [ddw w_tag; b1 120] _ []); [|apply p18_nil].
        apply i18_base. eapply it_sep; [solve_nosub|vmr|vmr|vmr|vmr|vmr|vmr|vmr|solve_nosub|vmr|vmr|vmr|vmr].
      * refine (conj _ (conj _ (conj _ _))); cycle 3.
        -- repeat (apply Forall_cons; [split; [solve_plain|solve_takes]|]). apply Forall_nil.
        -- vmr.
        -- solve_nosub.
        -- intros _. apply Forall_cons; [solve_nosub|apply Forall_nil].
      * vm_compute. reflexivity.
    + vmr.
    + intros E. vm_compute in E. discriminate E.
    + vmr.
    + vmr.
    + vmr.
    + vmr.
    + eapply pl_here; [apply lvlw_b_ok; vmr|exact Hp2].
Qed.

Lemma ex_plineA : pline root lineA pc2 1 false.
Proof. exact (ex_pline [] _ 1 (p18_nil pc2 false 1)). Qed.

Lemma ex_plineB : pline root lineB pc2 2 true.
Proof.
  refine (ex_pline [[110; 49]] _ 2 _).
  eapply (p18_pos _ false 1 [110; 49] _ []); [vmr|solve_plain|solve_takes|vmr|apply p18_nil].
Qed.

(** `p <lineA> d<TAB>` offers `deep` (no argument of `add` seen: the parser still looks for subcommands);
    `p <lineB> --fo<TAB>` offers `--force` with the positional counter at 2: both in the class *)
Example ex_pline_hyps :
  unb_tree 5 exw = true /\ is_set s_no_binary_name exw = false /\
  N.of_nat (length lineB) + 2 <= usize_max /\ pline root lineA pc2 1 false /\ pline root lineB pc2 2 true /\
  (match complete_model [] exw (b1 112 :: lineA ++ [[100]]) (N.of_nat (S (length lineA))) with
   | COk l => existsb (fun cd => beq (cd_value cd) w_deep && cand_classw_b pc2 1 false [100] cd) l
   | _ => false end = true) /\
  (match complete_model [] exw (b1 112 :: lineB ++ [[45; 45; 102; 111]]) (N.of_nat (S (length lineB))) with
   | COk l => existsb (fun cd => beq (cd_value cd) (ddw w_force) && cand_classw_b pc2 2 true [45; 45; 102; 111] cd) l
   | _ => false end = true).
Proof.
  split; [vmr|]. split; [vmr|]. split; [vm_compute; discriminate|]. split; [exact ex_plineA|]. split; [exact ex_plineB|].
  split; vmr.
Qed.

(** the engine's state at the two cursors: [ValueDone] at the level of `add`, [pos_index] 1 resp. 2 *)
Example ex_pline_walk :
  (match build_full (build_fuel exw) exw with
   | BOk b => match start_walk b (b1 112 :: lineB ++ [[]]) (N.of_nat (S (length lineB))) with
              | WAt _ cur pi ValueDone false true => beq (c_name cur) w_add && (pi =? 2)
              | _ => false end
   | _ => false end) = true.
Proof. vm_compute. reflexivity. Qed.

(** the completed lines, parsed *)
Example ex_pline_parses :
  (match parse_top exw (b1 112 :: lineA ++ [w_deep]) with OOk _ => true | _ => false end,
   match parse_top exw (b1 112 :: lineB ++ [ddw w_force]) with OOk _ => true | _ => false end)
  = (true, true).
Proof. vm_compute. reflexivity. Qed.
End WideExample.

(** * Part 5: [args_conflicts_with_subcommands]

    The parser keeps, per level, the flag [valid_arg_found] ("an argument of this level was seen"); on a level that
    sets [args_conflicts_with_subcommands] a word is looked up as a subcommand only while the flag is off.  Before the
    repair (finding C18-args-conflict) the engine had no such flag and never read the setting: it descended on every
    subcommand name it met between arguments ([shadow_step_before_fix], witnesses below).  The repaired engine keeps
    the same flag, per level; the two machines agree: *)

Lemma negate_no_sub c tok : is_set s_args_negate_subs c = true -> possible_subcommand c tok true = None.
Proof. intros H. rewrite possible_subcommand_unfold, H. destruct (negb (utf8_valid tok)); reflexivity. Qed.

(** the loop on a plain word that is no subcommand where NO positional is left: the level's unknown-token error *)
Lemma loop_pos_none c pst tok rest pos vaf st :
  match pst with PSOpt _ => False | _ => True end ->
  (if is_set s_sub_precedence c || match pst with PSValuesDone => true | _ => false end
   then possible_subcommand c tok vaf else None) = None ->
  plain_tok tok -> pos_plain c -> get_pos c pos = None -> is_set s_allow_external c = false ->
  parse_loop c (tok :: rest) (mkL pst pos vaf false) st =
  (do st1 <- resolve_pending_ignore c st; RErr (match_arg_error c tok vaf false) st1).
Proof.
  intros Hpst Hns [He [Hl Hs]] [Hmiss Hlow] Hg Hext.
  cbn [parse_loop l_trailing l_pst l_vaf l_pos].
  rewrite Hns, He, Hl, Hs. cbn [rbind l_trailing l_pst l_vaf l_pos].
  destruct pst as [|i|i]; [|contradiction|];
    cbv zeta; rewrite Hlow, Hmiss; rewrite !andb_false_r; cbn [andb orb rbind]; rewrite Hg, Hext; reflexivity.
Qed.

Lemma conflict_kind c tok : has_subcommands c = true -> is_set s_args_negate_subs c = true ->
  e_kind (match_arg_error c tok true false) = EArgumentConflict.
Proof. intros Hs Hn. unfold match_arg_error. cbn [andb]. rewrite Hs, Hn. reflexivity. Qed.

(** the engine's step on a plain word that it does not read as a subcommand, between arguments: a positional value *)
Lemma eng_plain_positional pc cur tok pos evaf : elevel pc cur ->
  possible_subcommand pc tok evaf = None -> plain_tok tok ->
  shadow_step tok cur pos false ValueDone evaf =
  match parse_positional cur pos false ValueDone tok with
  | Some (st, pi) => SNext cur pi false st true
  | None => SPanic 673
  end.
Proof.
  intros L Hns Hpl. destruct (eng_plain_lex tok Hpl) as [He [Hl Hs]].
  unfold shadow_step. cbn [negb]. rewrite (eng_not_sub pc cur L tok _ evaf Hns).
  rewrite He, opt_allows_hyphen_vd, Hl, Hs. reflexivity.
Qed.

(** THE CHARACTERISATION (repaired engine).  Level [pc] sets [args_conflicts_with_subcommands]; [pre] are arguments of
    the level (options, single-valued positionals: [pitems18]); [tok] names the subcommand [sc0].
    (1) [pre = []]: the engine descends to the child and the parser dispatches to the same child;
    (2) [pre <> []]: NEITHER machine reads [tok] as a subcommand.  The engine counts it as a positional value and stays
        at the level; the parser, with a positional [a] left at the counter, takes [tok] as the value of [a] and stays at
        [pc] - and with none left rejects the line: ArgumentConflict. *)
Theorem args_conflict_levels pc cur pre F pos tok sc0 :
  lvlw pc -> lvl_rel pc cur -> is_set s_args_negate_subs pc = true ->
  pitems18 pc false 1 pre F pos -> utf8_valid tok = true -> find_subcommand pc tok = Some sc0 -> aliases_to sc0 s_help = false ->
  (pre = [] ->
     (exists es pc', shadow_step tok cur 1 false ValueDone false = SNext es 1 false ValueDone false /\
                     build_subcommand pc (c_name sc0) = Some pc' /\ lvl_rel pc' es) /\
     forall rest st, exists n', find_subcommand pc n' = Some sc0 /\
       parse_loop pc (tok :: rest) (lsV 1 false) st = ROk (LSub n' false false st rest)) /\
  (pre <> [] -> plain_tok tok ->
     shadow_run (pre ++ [tok]) cur 1 false ValueDone false =
       match parse_positional cur pos false ValueDone tok with
       | Some (st, pi) => SNext cur pi false st true
       | None => SPanic 673
       end /\
     forall rest st, fs_skip st = 0 ->
     (forall a, takes_at pc pos a tok ->
        parse_loop pc (pre ++ tok :: rest) (lsV 1 false) st =
        (do st' <- F st; do st'' <- pos_push pc a tok st'; parse_loop pc rest (after_pos a pos) st'')) /\
     (pos_plain pc -> get_pos pc pos = None -> is_set s_allow_external pc = false ->
        parse_loop pc (pre ++ tok :: rest) (lsV 1 false) st =
        (do st' <- F st; do st1 <- resolve_pending_ignore pc st'; RErr (match_arg_error pc tok true false) st1) /\
        e_kind (match_arg_error pc tok true false) = EArgumentConflict)).
Proof.
  intros Hl Hrel Hneg Hp Hu Hf Hnh.
  pose proof (lvlw_el pc cur Hl Hrel) as L.
  assert (Hin : In sc0 (c_subs pc) /\ aliases_to sc0 tok = true) by (apply find_some in Hf; exact Hf).
  destruct Hin as [Hin Hal].
  split.
  - intros _. split.
    + destruct (level_descent pc cur tok sc0 Hrel (w_app pc Hl) Hf (not_help_name sc0 Hnh)) as [es [pc' [Hfe [Hb Hrel']]]].
      exists es, pc'. split; [|split; assumption].
      apply (eng_descend_vd tok cur es 1 false); [apply andb_false_r|exact Hu|exact Hfe].
    + intros rest st.
      destruct (accept_sub_step pc sc0 tok rest 1 false st (w_app pc Hl) Hin Hal Hu (andb_false_r _))
        as [n' [Ha' [Hf' [_ Hloop]]]].
      exists n'. split; [exact Hf'|]. unfold lsV. rewrite Hloop.
      assert (Hn' : beq n' s_help = false).
      { apply beq_neq. intros ->. rewrite Ha' in Hnh. discriminate. }
      rewrite Hn'. reflexivity.
  - intros Hne Hpl.
    assert (Hvaf : negb (is_nil pre) = true) by (destruct pre; [contradiction|reflexivity]).
    split.
    + rewrite shadow_run_app, (eng_pitems pc cur L false 1 pre F pos Hp). cbn [shadow_run orb]. rewrite Hvaf.
      rewrite (eng_plain_positional pc cur tok pos true L (negate_no_sub pc tok Hneg) Hpl).
      destruct (parse_positional cur pos false ValueDone tok) as [[st0 pi0]|]; reflexivity.
    + intros rest st Hfs.
      assert (Hloop : parse_loop pc (pre ++ tok :: rest) (lsV 1 false) st =
                      (do st' <- F st; parse_loop pc (tok :: rest) (lsV pos true) st')).
      { rewrite (loop_pitems18 pc false 1 pre F pos Hp (tok :: rest) st Hfs). cbn [orb]. rewrite Hvaf. reflexivity. }
      assert (Hns : (if is_set s_sub_precedence pc || true then possible_subcommand pc tok true else None) = None).
      { rewrite orb_true_r. exact (negate_no_sub pc tok Hneg). }
      split.
      * intros a Ht. rewrite Hloop. destruct (F st) as [st'|e1 s1|x]; cbn [rbind]; try reflexivity.
        unfold lsV. exact (loop_pos_step pc PSValuesDone tok a rest pos true st' I Hns Hpl Ht).
      * intros Hpp Hg Hext. split.
        -- rewrite Hloop. destruct (F st) as [st'|e1 s1|x]; cbn [rbind]; try reflexivity.
           unfold lsV. exact (loop_pos_none pc PSValuesDone tok rest pos true st' I Hns Hpl Hpp Hg Hext).
        -- apply conflict_kind; [|exact Hneg]. unfold has_subcommands. destruct (c_subs pc); [destruct Hin|reflexivity].
Qed.

(** ** the witnesses (corpus/C18/accept.args-conflict.cases: the unrepaired crate fails on them) *)
Module Conflict.
Definition w_sub : bytes := [115; 117; 98].
Definition w_opt : bytes := [111; 112; 116].
Definition w_file : bytes := [102; 105; 108; 101].
Definition sub : cmd :=
  (cmd_new w_sub) <| c_args := [ (arg_new w_opt) <| a_long := Some w_opt |> <| a_action := Some ASetTrue |> ] |>.
(** p(-f; args_conflicts_with_subcommands) -> sub(--opt) *)
Definition c1 : cmd :=
  (cmd_new [112]) <| c_set := settings_none <| s_args_negate_subs := true |> |>
    <| c_args := [ ex_flag 102 102 ] |> <| c_subs := [ sub ] |>.
(** the same with a positional <file> *)
Definition c2 : cmd :=
  c1 <| c_args := [ ex_flag 102 102; (arg_new w_file) <| a_action := Some ASet |> ] |>.
Definition f : bytes := [45; 102].
Definition has_cand (v : bytes) (i : cid) (r : cres) : bool :=
  match r with COk l => existsb (fun cd => beq (cd_value cd) v && opt_cid_eqb (cd_id cd) (Some i)) l | _ => false end.
Definition level_of (w : walk) : option bytes :=
  match w with WAt _ cur _ ValueDone false _ => Some (c_name cur) | _ => None end.
Definition level_at (c : cmd) (args : list bytes) (i : N) : option bytes :=
  match build_full (build_fuel c) c with BOk b => level_of (start_walk b args i) | _ => None end.
Definition level_at_before_fix (c : cmd) (args : list bytes) (i : N) : option bytes :=
  match build_full (build_fuel c) c with BOk b => level_of (start_walk_before_fix b args i) | _ => None end.
Definition kind_of (o : outcome) : option ekind := match o with OErr e => Some (e_kind e) | _ => None end.
Definition accepted (o : outcome) : bool := match o with OOk _ => true | _ => false end.
End Conflict.

(** BEFORE / AFTER.  W2, `p(-f; <file>; args_conflicts) -> sub(--opt)`: the parser ACCEPTS `p -f sub` - `sub` is the value
    of <file>, the level is still `p` -; the completed line `p -f sub --opt` is rejected: UnknownArgument.
    Before the repair the engine stood at the level of `sub` behind `p -f sub` and offered its option `--opt`
    (id arg::opt): a candidate of the wrong level, rejected as unknown by the parser behind a line it accepts.
    After: the engine stands at `p` and does not offer `--opt`.
    W1 (no positional): the parser rejects `p -f sub` with ArgumentConflict.  Before, `p -f <TAB>` offered the SUBCOMMAND
    candidate `sub`; after ([complete_arg] is told the flag) it does not. *)
Theorem args_conflict_before_after :
  (* W2: the parser *)
  Conflict.accepted (parse_top Conflict.c2 [[112]; Conflict.f; Conflict.w_sub]) = true /\
  Conflict.kind_of (parse_top Conflict.c2 [[112]; Conflict.f; Conflict.w_sub; 45 :: 45 :: Conflict.w_opt]) = Some EUnknownArgument /\
  (* W2: before *)
  Conflict.level_at_before_fix Conflict.c2 [[112]; Conflict.f; Conflict.w_sub; [45; 45]] 3 = Some Conflict.w_sub /\
  Conflict.has_cand (45 :: 45 :: Conflict.w_opt) (IdArg Conflict.w_opt)
    (complete_model_before_fix [] Conflict.c2 [[112]; Conflict.f; Conflict.w_sub; [45; 45]] 3) = true /\
  (* W2: after *)
  Conflict.level_at Conflict.c2 [[112]; Conflict.f; Conflict.w_sub; [45; 45]] 3 = Some [112] /\
  Conflict.has_cand (45 :: 45 :: Conflict.w_opt) (IdArg Conflict.w_opt)
    (complete_model [] Conflict.c2 [[112]; Conflict.f; Conflict.w_sub; [45; 45]] 3) = false /\
  (* W1 *)
  Conflict.has_cand Conflict.w_sub (IdCmd Conflict.w_sub) (complete_model_before_fix [] Conflict.c1 [[112]; Conflict.f; []] 2) = true /\
  Conflict.has_cand Conflict.w_sub (IdCmd Conflict.w_sub) (complete_model [] Conflict.c1 [[112]; Conflict.f; []] 2) = false /\
  Conflict.kind_of (parse_top Conflict.c1 [[112]; Conflict.f; Conflict.w_sub]) = Some EArgumentConflict /\
  Conflict.level_at_before_fix Conflict.c1 [[112]; Conflict.f; Conflict.w_sub; []] 3 = Some Conflict.w_sub /\
  Conflict.level_at Conflict.c1 [[112]; Conflict.f; Conflict.w_sub; []] 3 = Some [112].
Proof. vm_compute. repeat split; reflexivity. Qed.

(** non-vacuity of [args_conflict_levels]: the hypotheses hold for the two witness commands, line `-f sub` *)
Example ex_conflict_hyps :
  let r1 := build_self (with_bin Conflict.c1 [112]) in
  let r2 := build_self (with_bin Conflict.c2 [112]) in
  (lvlw r1 /\ is_set s_args_negate_subs r1 = true /\ (exists F, pitems18 r1 false 1 [Conflict.f] F 1) /\
   utf8_valid Conflict.w_sub = true /\ (exists sc0, find_subcommand r1 Conflict.w_sub = Some sc0 /\ aliases_to sc0 s_help = false) /\
   plain_tok Conflict.w_sub /\ pos_plain r1 /\ get_pos r1 1 = None /\ is_set s_allow_external r1 = false) /\
  (lvlw r2 /\ is_set s_args_negate_subs r2 = true /\ (exists F, pitems18 r2 false 1 [Conflict.f] F 1) /\
   plain_tok Conflict.w_sub /\ exists a, takes_at r2 1 a Conflict.w_sub).
Proof.
  cbv zeta. split.
  - split; [apply lvlw_b_ok; vmr|]. split; [vmr|]. split.
    { eexists. eapply (p18_opt _ false 1 [Conflict.f] _ []); [apply i18_base; flag_cluster 102|apply p18_nil]. }
    split; [vmr|]. split; [eexists; split; vmr|]. split; [solve_plain|]. split; [split; vmr|]. split; vmr.
  - split; [apply lvlw_b_ok; vmr|]. split; [vmr|]. split.
    { eexists. eapply (p18_opt _ false 1 [Conflict.f] _ []); [apply i18_base; flag_cluster 102|apply p18_nil]. }
    split; [solve_plain|]. eexists. solve_takes.
Qed.

(** ... and the END-TO-END theorem now covers such lines: `p -f sub` for W2 is in [pline] - the subcommand NAME `sub`
    is the value of <file> ([p18_pos]: not read as a subcommand where it stands) -, final level `p`, counter 2; the
    candidate `-f` for the word `-` is in the class *)
Example ex_conflict_pline :
  let r2 := build_self (with_bin Conflict.c2 [112]) in
  pline r2 [Conflict.f; Conflict.w_sub] r2 2 true /\
  (match complete_model [] Conflict.c2 ([112] :: [Conflict.f; Conflict.w_sub] ++ [[45]]) 3 with
   | COk l => existsb (fun cd => beq (cd_value cd) Conflict.f && cand_classw_b r2 2 true [45] cd) l
   | _ => false end = true).
Proof.
  cbv zeta. split; [|vmr].
  change true with (negb (is_nil [Conflict.f; Conflict.w_sub])).
  eapply pl_here; [apply lvlw_b_ok; vmr|].
  eapply (p18_opt _ false 1 [Conflict.f] _ [Conflict.w_sub]); [apply i18_base; flag_cluster 102|].
  eapply (p18_pos _ true 1 Conflict.w_sub _ []); [vmr|solve_plain|solve_takes|vmr|apply p18_nil].
Qed.

(** [subcommand_precedence_over_arg] is read from the level the positional belongs to, never from the root:
    [WideExample.exw] sets it on `remote` only - `p remote f1 f2 ad <TAB>` is completed at the level of `add`
    ([WideExample.ex_pline_walk]); with the setting moved to the ROOT the word `ad` is one more value of <files> and
    the engine stays at `remote` in state [Pos] - as the parser does (`p remote f1 f2 ad --force` is rejected:
    `--force` is unknown at `remote`) *)
Definition exw_root_prec : cmd :=
  match WideExample.exw with
  | mkCmd n al sf lf sfa lfa ar gr su cs gs v lv ev bn dn ab lab =>
      mkCmd n al sf lf sfa lfa ar gr
        (map (fun s => s <| c_set := (c_set s) <| s_sub_precedence := false |> |>) su)
        (cs <| s_sub_precedence := true |>) gs v lv ev bn dn ab lab
  end.
Example ex_precedence_of_level :
  let line := [WideExample.w_remote; [102; 49]; [102; 50]; [97; 100]] in
  (match build_full (build_fuel exw_root_prec) exw_root_prec with
   | BOk b => match start_walk b ([112] :: line ++ [[]]) 5 with
              | WAt _ cur 1 (Pos 1 3) false true => beq (c_name cur) WideExample.w_remote
              | _ => false end
   | _ => false end) = true /\
  (match build_full (build_fuel WideExample.exw) WideExample.exw with
   | BOk b => match start_walk b ([112] :: line ++ [[]]) 5 with
              | WAt _ cur 1 ValueDone false false => beq (c_name cur) WideExample.w_add
              | _ => false end
   | _ => false end) = true /\
  Conflict.kind_of (parse_top exw_root_prec ([112] :: line ++ [WideExample.ddw WideExample.w_force])) = Some EUnknownArgument /\
  Conflict.accepted (parse_top WideExample.exw ([112] :: line ++ [WideExample.ddw WideExample.w_force])) = true.
Proof. vm_compute. repeat split; reflexivity. Qed.
