(** Property C18, round 4: the ORDER of the candidates.

    [complete_arg] ends with
      tags = the tags of the candidates in order of first appearance;
      completions.sort_by_key(|c| (tags.position(c.tag), c.display_order))        (a STABLE sort)
    [EngineModel.complete_arg] stops before that (its results were compared as multisets).  Here the sort is modelled:
    candidates are paired with their sort data ([okey] = tag, display order), [sort_final] is the stable sort, and
    [complete_arg_ord] is [complete_arg] with it - including the recursive call in state [Opt], whose result is already
    sorted when it is appended.  Theorems: [sort_final] returns a PERMUTATION of its input, SORTED by the key, and is
    STABLE; the ordered result is a permutation of the unordered model's result (states ValueDone / Pos; Opt while the
    minimum is not exceeded).  The extracted [complete_model_ord] is compared with the real crate AS A LIST (stream `order`).

    Sort data.  An option candidate carries the tag [help_heading] or "Options" and the argument's display order, a
    subcommand candidate "Commands" and the subcommand's display order: both come from a side table [otable]
    (id -> heading, order; filled from the `(x-heading h)` / `(x-ord n)` items of the case; 999 and no heading otherwise,
    clap's defaults for arguments it generates itself).  A VALUE candidate has no display order and the tag
    [arg.to_string()]: modelled as the abstract tag [TArg id] of the argument it is a value of - sound as long as the
    rendered names of the arguments of one level are pairwise different and differ from the headings (an option renders
    with a leading `-`, a positional with `<` or `[`). *)
From ClapModel Require Import Base.Bytes Base.Machine Base.Utf8.
From ClapModel Require Import Parse.Cmd Parse.Build Parse.Valid Complete.EngineModel Complete.EngineProofs.
From Coq Require Import ZArith Lia List Bool Permutation Sorted.
From RecordUpdate Require Import RecordSet.
Import RecordSetNotations. Import ListNotations.
Open Scope N_scope.

(** * Sort data *)
Inductive tag := THeading (h : bytes) | TArg (i : id).
Definition tag_eqb (a b : tag) : bool :=
  match a, b with
  | THeading x, THeading y => beq x y
  | TArg x, TArg y => beq x y
  | _, _ => false
  end.
Definition okey : Type := tag * option N.
Definition kcand : Type := cand * okey.

Definition otable := list (cid * (option bytes * N)).
Definition lookup_ord (ot : otable) (i : cid) : option bytes * N :=
  match List.find (fun p => cid_eqb (fst p) i) ot with Some p => snd p | None => (None, 999) end.
Definition s_options : bytes := [79; 112; 116; 105; 111; 110; 115].
Definition s_commands : bytes := [67; 111; 109; 109; 97; 110; 100; 115].
(** [populate_arg_candidate] / [populate_command_candidate]: tag and display order *)
Definition key_of_id (ot : otable) (i : cid) : okey :=
  let '(h, n) := lookup_ord ot i in
  match i with
  | IdArg _ => (THeading (match h with Some x => x | None => s_options end), Some n)
  | IdCmd _ => (THeading s_commands, Some n)
  end.
(** a candidate without id is a value of [src] ([complete_arg_value]: tag = [arg.to_string()], no display order) *)
Definition key_of (ot : otable) (src : option arg) (cd : cand) : okey :=
  match cd_id cd with
  | Some i => key_of_id ot i
  | None => (TArg (match src with Some a => a_id a | None => [] end), None)
  end.
Definition keyed (ot : otable) (src : option arg) (l : list cand) : list kcand := map (fun cd => (cd, key_of ot src cd)) l.

(** the argument whose values [complete_option] offers (`--flag=value`, `-fvalue`), if any *)
Definition option_value_src (w : bytes) (c : cmd) : option arg :=
  match to_long w with
  | Some (flag, flag_utf8, value) =>
      if flag_utf8 then
        match value with
        | Some _ => List.find (fun a => match a_long a with Some l => beq l flag | None => false end) (c_args c)
        | None => None
        end
      else None
  | None =>
      match to_short w with
      | Some short =>
          match parse_shortflags c short with
          | SFOk _ (Some o) _ => Some o
          | _ => None
          end
      | None => None
      end
  end.

(** * The tail of [complete_arg] on keyed candidates *)
Definition hide_filter_k (l : list kcand) : list kcand :=
  if existsb (fun a => negb (cd_hidden (fst a))) l then filter (fun a => negb (cd_hidden (fst a))) l else l.
Fixpoint dedup_ids_k (seen : list cid) (l : list kcand) : list kcand :=
  match l with
  | [] => []
  | a :: t =>
      match cd_id (fst a) with
      | Some i => if existsb (cid_eqb i) seen then dedup_ids_k seen t else a :: dedup_ids_k (i :: seen) t
      | None => a :: dedup_ids_k seen t
      end
  end.
Definition finish_k (l : list kcand) : list kcand := dedup_ids_k [] (hide_filter_k l).

(** [tags]: first appearance *)
Fixpoint tags_of (l : list kcand) (acc : list tag) : list tag :=
  match l with
  | [] => acc
  | x :: t => if existsb (tag_eqb (fst (snd x))) acc then tags_of t acc else tags_of t (acc ++ [fst (snd x)])
  end.
Fixpoint tag_pos (tags : list tag) (t : tag) : option N :=
  match tags with
  | [] => None
  | u :: r => if tag_eqb t u then Some 0 else match tag_pos r t with Some n => Some (n + 1) | None => None end
  end.
(** the derived [Ord] of [(Option<usize>, Option<usize>)]: [None < Some _], lexicographic *)
Definition skey : Type := option N * option N.
Definition on_cmp (a b : option N) : comparison :=
  match a, b with
  | None, None => Eq
  | None, Some _ => Lt
  | Some _, None => Gt
  | Some x, Some y => x ?= y
  end.
Definition skey_cmp (a b : skey) : comparison :=
  match on_cmp (fst a) (fst b) with Eq => on_cmp (snd a) (snd b) | c => c end.
Definition skey_lt (a b : skey) : bool := match skey_cmp a b with Lt => true | _ => false end.
Definition skey_le (a b : skey) : bool := match skey_cmp a b with Gt => false | _ => true end.

Section Sort.
Variable K : kcand -> skey.
(** stable insertion: [x] (which stood BEFORE every element of [l]) goes in front of the first element that is not
    strictly smaller *)
Fixpoint insert_k (x : kcand) (l : list kcand) : list kcand :=
  match l with
  | [] => [x]
  | y :: t => if skey_lt (K y) (K x) then y :: insert_k x t else x :: l
  end.
Definition sort_k (l : list kcand) : list kcand := fold_right insert_k [] l.
End Sort.

Definition sort_key (tags : list tag) (x : kcand) : skey := (tag_pos tags (fst (snd x)), snd (snd x)).
Definition sort_final (l : list kcand) : list kcand := sort_k (sort_key (tags_of l [])) l.

(** * [complete_arg] with the final sort *)
Inductive kres := KOk (l : list kcand) | KOther (r : cres).
Definition kbind (r : cres) (f : list cand -> kres) : kres := match r with COk l => f l | other => KOther other end.

(** state [ValueDone]: the list [complete_arg] returns, sorted, still keyed (the caller in state [Opt] appends it) *)
Definition value_done_ord (ot : otable) (tbl : pvtable) (arg : bytes) (c : cmd) (pos_index : N) : kres :=
  let subs := if utf8_valid arg then complete_subcommand arg c else [] in
  kbind (match find_pos c pos_index with
         | Some p => of_opt 535 (complete_arg_value tbl arg p)
         | None => COk [] end) (fun posv =>
  kbind (complete_option tbl arg c) (fun opts =>
  KOk (sort_final (finish_k (keyed ot None subs ++ keyed ot (find_pos c pos_index) posv
                             ++ keyed ot (option_value_src arg c) opts))))).

Definition complete_arg_keyed (ot : otable) (tbl : pvtable) (arg : bytes) (c : cmd) (pos_index : N) (st : pstate) : kres :=
  match st with
  | ValueDone => value_done_ord ot tbl arg c pos_index
  | Pos _ num_arg =>
      match find_pos c pos_index with
      | Some p =>
          kbind (of_opt 535 (complete_arg_value tbl arg p)) (fun posv =>
          kbind (if match a_num p with Some r => vmin r <=? num_arg | None => false end
                 then complete_option tbl arg c else COk []) (fun opts =>
          KOk (sort_final (finish_k (keyed ot (Some p) posv ++ keyed ot (option_value_src arg c) opts)))))
      | None => KOk (sort_final (finish_k []))
      end
  | Opt o count =>
      kbind (of_opt 535 (complete_arg_value tbl arg o)) (fun optv =>
      let min := match a_num o with Some r => vmin r | None => 0 end in
      match (if min <? count then value_done_ord ot tbl arg c pos_index else KOk []) with
      | KOk more => KOk (sort_final (finish_k (keyed ot (Some o) optv ++ more)))
      | other => other
      end)
  end.

Definition complete_arg_ord (ot : otable) (tbl : pvtable) (arg : bytes) (c : cmd) (pos_index : N) (st : pstate) : cres :=
  match complete_arg_keyed ot tbl arg c pos_index st with
  | KOk l => COk (map fst l)
  | KOther r => r
  end.

(** with [valid_arg_found]: behind an argument of a command whose arguments conflict with subcommands no subcommand is
    offered - the candidates of the command without its subcommands ([EngineProofs.complete_arg_v_cut]) *)
Definition complete_arg_ord_v (ot : otable) (tbl : pvtable) (arg : bytes) (c : cmd) (pos_index : N) (st : pstate)
           (valid_arg_found : bool) : cres :=
  complete_arg_ord ot tbl arg (sub_cut c valid_arg_found) pos_index st.

Definition complete_model_ord (ot : otable) (tbl : pvtable) (c : cmd) (args : list bytes) (arg_index : N) : cres :=
  match build_full (build_fuel c) c with
  | BInvalid => CInvalid
  | BFuel => CFuel
  | BOk b =>
      match start_walk b args arg_index with
      | WPanic s => CPanic s
      | WFuel => CFuel
      | WEnd => CErr
      | WAt arg cur pi st _ vaf => complete_arg_ord_v ot tbl arg cur pi st vaf
      end
  end.

(** * The sort: permutation, sortedness, stability *)
Section SortProofs.
Variable K : kcand -> skey.

Lemma insert_perm x : forall l, Permutation (insert_k K x l) (x :: l).
Proof.
  induction l as [|y t IH]; cbn [insert_k]; [reflexivity|].
  destruct (skey_lt (K y) (K x)); [|reflexivity].
  rewrite IH. apply perm_swap.
Qed.

Theorem sort_perm : forall l, Permutation (sort_k K l) l.
Proof.
  induction l as [|x t IH]; cbn [sort_k fold_right]; [constructor|].
  fold (sort_k K t). rewrite insert_perm. constructor. exact IH.
Qed.

Lemma on_cmp_refl a : on_cmp a a = Eq.
Proof. destruct a; cbn; [apply N.compare_refl|reflexivity]. Qed.
Lemma on_cmp_antisym a b : on_cmp b a = CompOpp (on_cmp a b).
Proof. destruct a, b; cbn; try reflexivity. apply N.compare_antisym. Qed.
Lemma on_cmp_eq a b : on_cmp a b = Eq -> a = b.
Proof. destruct a, b; cbn; try discriminate; [|reflexivity]. intros H. apply N.compare_eq in H. subst. reflexivity. Qed.
Lemma on_cmp_lt_trans a b c : on_cmp a b = Lt -> on_cmp b c = Lt -> on_cmp a c = Lt.
Proof.
  destruct a, b, c; cbn; try discriminate; try reflexivity.
  rewrite !N.compare_lt_iff. lia.
Qed.

Lemma skey_cmp_antisym a b : skey_cmp b a = CompOpp (skey_cmp a b).
Proof.
  unfold skey_cmp. rewrite (on_cmp_antisym (fst a) (fst b)).
  destruct (on_cmp (fst a) (fst b)); cbn [CompOpp]; [apply on_cmp_antisym|reflexivity|reflexivity].
Qed.

Lemma skey_lt_trans a b c : skey_cmp a b = Lt -> skey_cmp b c = Lt -> skey_cmp a c = Lt.
Proof.
  unfold skey_cmp. intros H1 H2.
  destruct (on_cmp (fst a) (fst b)) eqn:E1; try discriminate.
  - apply on_cmp_eq in E1. rewrite E1.
    destruct (on_cmp (fst b) (fst c)) eqn:E2; try discriminate; [|reflexivity].
    exact (on_cmp_lt_trans _ _ _ H1 H2).
  - destruct (on_cmp (fst b) (fst c)) eqn:E2; try discriminate.
    + apply on_cmp_eq in E2. rewrite <- E2, E1. reflexivity.
    + rewrite (on_cmp_lt_trans _ _ _ E1 E2). reflexivity.
Qed.

Lemma skey_le_trans a b c : skey_le a b = true -> skey_le b c = true -> skey_le a c = true.
Proof.
  unfold skey_le. intros H1 H2.
  destruct (skey_cmp a c) eqn:E; try reflexivity. exfalso.
  (* c < a *)
  assert (Hca : skey_cmp c a = Lt) by (rewrite skey_cmp_antisym, E; reflexivity).
  destruct (skey_cmp a b) eqn:E1; try discriminate.
  - (* a = b as keys *)
    unfold skey_cmp in E1. destruct (on_cmp (fst a) (fst b)) eqn:F1; try discriminate.
    apply on_cmp_eq in F1. apply on_cmp_eq in E1.
    assert (a = b) by (destruct a, b; cbn in *; congruence). subst b. rewrite E in H2. discriminate.
  - pose proof (skey_lt_trans _ _ _ Hca E1) as Hcb.
    rewrite skey_cmp_antisym, Hcb in H2. discriminate.
Qed.

Definition kle (x y : kcand) : Prop := skey_le (K x) (K y) = true.

Lemma insert_sorted x : forall l, StronglySorted kle l -> StronglySorted kle (insert_k K x l).
Proof.
  induction l as [|y t IH]; intros Hs; cbn [insert_k].
  - constructor; [constructor|constructor].
  - inversion Hs as [|y0 t0 Hst Hall]; subst.
    destruct (skey_lt (K y) (K x)) eqn:E.
    + constructor; [apply IH; exact Hst|].
      assert (Hyx : kle y x).
      { unfold kle, skey_le. unfold skey_lt in E. destruct (skey_cmp (K y) (K x)); try discriminate. reflexivity. }
      rewrite Forall_forall. intros z Hz.
      apply (Permutation_in _ (insert_perm x t)) in Hz. destruct Hz as [<-|Hz]; [exact Hyx|].
      rewrite Forall_forall in Hall. exact (Hall z Hz).
    + assert (Hxy : kle x y).
      { unfold kle, skey_le. unfold skey_lt in E. rewrite skey_cmp_antisym.
        destruct (skey_cmp (K y) (K x)); try discriminate; reflexivity. }
      constructor; [exact Hs|]. constructor; [exact Hxy|].
      rewrite Forall_forall in *. intros z Hz. exact (skey_le_trans _ _ _ Hxy (Hall z Hz)).
Qed.

Theorem sort_sorted : forall l, StronglySorted kle (sort_k K l).
Proof.
  induction l as [|x t IH]; cbn [sort_k fold_right]; [constructor|]. apply insert_sorted. exact IH.
Qed.

(** STABILITY: the candidates with one and the same key keep their relative order *)
Definition same_key (k : skey) (x : kcand) : bool := match skey_cmp (K x) k with Eq => true | _ => false end.

Lemma same_key_lt k y x : same_key k y = true -> same_key k x = true -> skey_lt (K y) (K x) = false.
Proof.
  unfold same_key, skey_lt. intros Hy Hx.
  destruct (skey_cmp (K y) k) eqn:E1; try discriminate. destruct (skey_cmp (K x) k) eqn:E2; try discriminate.
  assert (Eq1 : K y = k).
  { unfold skey_cmp in E1. destruct (on_cmp (fst (K y)) (fst k)) eqn:F; try discriminate.
    apply on_cmp_eq in F. apply on_cmp_eq in E1. destruct (K y), k; cbn in *; congruence. }
  assert (Eq2 : K x = k).
  { unfold skey_cmp in E2. destruct (on_cmp (fst (K x)) (fst k)) eqn:F; try discriminate.
    apply on_cmp_eq in F. apply on_cmp_eq in E2. destruct (K x), k; cbn in *; congruence. }
  rewrite Eq1, Eq2. unfold skey_cmp. rewrite !on_cmp_refl. reflexivity.
Qed.

Lemma insert_filter k x : forall l,
  filter (same_key k) (insert_k K x l) = filter (same_key k) (x :: l).
Proof.
  induction l as [|y t IH]; cbn [insert_k]; [reflexivity|].
  destruct (skey_lt (K y) (K x)) eqn:E; [|reflexivity].
  cbn [filter] in *. rewrite IH.
  destruct (same_key k y) eqn:Ey; [|reflexivity].
  destruct (same_key k x) eqn:Ex; [|reflexivity].
  rewrite (same_key_lt k y x Ey Ex) in E. discriminate.
Qed.

Theorem sort_stable k : forall l, filter (same_key k) (sort_k K l) = filter (same_key k) l.
Proof.
  induction l as [|x t IH]; cbn [sort_k fold_right]; [reflexivity|].
  fold (sort_k K t). rewrite insert_filter. cbn [filter]. rewrite IH. reflexivity.
Qed.
End SortProofs.

(** the final sort of [complete_arg]: a permutation, sorted by (position of the tag, display order), stable *)
Theorem sort_final_spec l :
  Permutation (sort_final l) l /\
  StronglySorted (kle (sort_key (tags_of l []))) (sort_final l) /\
  forall k, filter (same_key (sort_key (tags_of l [])) k) (sort_final l) = filter (same_key (sort_key (tags_of l [])) k) l.
Proof.
  unfold sort_final. split; [apply sort_perm|]. split; [apply sort_sorted|]. intros k. apply sort_stable.
Qed.

(** * The ordered result against the unordered model *)
Lemma map_fst_keyed ot src l : map fst (keyed ot src l) = l.
Proof. unfold keyed. rewrite map_map. cbn [fst]. apply map_id. Qed.

Lemma hide_filter_k_fst l : map fst (hide_filter_k l) = hide_filter (map fst l).
Proof.
  unfold hide_filter_k, hide_filter.
  assert (E : existsb (fun a => negb (cd_hidden a)) (map fst l) = existsb (fun a : cand * okey => negb (cd_hidden (fst a))) l).
  { induction l as [|x t IH]; [reflexivity|]. cbn [map existsb]. rewrite IH. reflexivity. }
  rewrite E. clear E.
  match goal with |- context [if ?b then _ else _] => destruct b end; [|reflexivity].
  induction l as [|x t IH]; [reflexivity|]. cbn [map filter]. destruct (negb (cd_hidden (fst x))); cbn [map]; rewrite IH; reflexivity.
Qed.

Lemma dedup_ids_k_fst : forall l seen, map fst (dedup_ids_k seen l) = dedup_ids seen (map fst l).
Proof.
  induction l as [|x t IH]; intros seen; [reflexivity|]. cbn [map dedup_ids_k dedup_ids].
  destruct (cd_id (fst x)) as [i|].
  - destruct (existsb (cid_eqb i) seen); [apply IH|]. cbn [map]. rewrite IH. reflexivity.
  - cbn [map]. rewrite IH. reflexivity.
Qed.

Lemma finish_k_fst l : map fst (finish_k l) = finish (map fst l).
Proof. unfold finish_k, finish. rewrite dedup_ids_k_fst, hide_filter_k_fst. reflexivity. Qed.

Lemma sort_final_fst_perm l : Permutation (map fst (sort_final l)) (map fst l).
Proof. apply Permutation_map. apply (proj1 (sort_final_spec l)). Qed.

(** state [ValueDone]: the ordered result is a permutation of [complete_arg]'s *)
Theorem value_done_ord_perm ot tbl w c pi l' : value_done_ord ot tbl w c pi = KOk l' ->
  exists l, complete_arg_value_done tbl w c pi = COk l /\ Permutation (map fst l') l.
Proof.
  unfold value_done_ord, complete_arg_value_done. intros H.
  destruct (match find_pos c pi with Some p => of_opt 535 (complete_arg_value tbl w p) | None => COk [] end)
    as [| |posv| |]; try discriminate.
  cbn [kbind cbind] in *. destruct (complete_option tbl w c) as [| |opts| |]; try discriminate.
  cbn [kbind cbind] in *. inversion H; subst l'; clear H. eexists. split; [reflexivity|].
  rewrite sort_final_fst_perm, finish_k_fst, !map_app, !map_fst_keyed. reflexivity.
Qed.

(** ... in every state in which the recursive call is not made, and in state [ValueDone] *)
Theorem complete_arg_ord_perm ot tbl w c pi st l' :
  (match st with Opt o count => (match a_num o with Some r => vmin r | None => 0 end <? count) = false | _ => True end) ->
  complete_arg_ord ot tbl w c pi st = COk l' ->
  exists l, complete_arg tbl w c pi st = COk l /\ Permutation l' l.
Proof.
  intros Hst. unfold complete_arg_ord.
  destruct (complete_arg_keyed ot tbl w c pi st) as [lk|r] eqn:Hk; [|intros H; subst r; exfalso].
  2:{ destruct st as [|idx cnt|o cnt]; cbn [complete_arg_keyed] in Hk.
      - unfold value_done_ord in Hk.
        destruct (match find_pos c pi with Some p => of_opt 535 (complete_arg_value tbl w p) | None => COk [] end)
          as [| |posv| |]; cbn [kbind] in Hk; try (inversion Hk; fail).
        destruct (complete_option tbl w c) as [| |opts| |]; cbn [kbind] in Hk; inversion Hk.
      - destruct (find_pos c pi) as [p|]; [|discriminate].
        destruct (of_opt 535 (complete_arg_value tbl w p)) as [| |posv| |]; cbn [kbind] in Hk; try (inversion Hk; fail).
        destruct (if match a_num p with Some r => vmin r <=? cnt | None => false end then complete_option tbl w c else COk [])
          as [| |opts| |]; cbn [kbind] in Hk; inversion Hk.
      - destruct (of_opt 535 (complete_arg_value tbl w o)) as [| |optv| |]; cbn [kbind] in Hk; try (inversion Hk; fail).
        rewrite Hst in Hk. discriminate. }
  intros H. inversion H; subst l'; clear H.
  destruct st as [|idx cnt|o cnt]; cbn [complete_arg_keyed complete_arg] in *.
  - exact (value_done_ord_perm ot tbl w c pi lk Hk).
  - destruct (find_pos c pi) as [p|].
    + destruct (of_opt 535 (complete_arg_value tbl w p)) as [| |posv| |]; cbn [kbind cbind] in *; try discriminate.
      destruct (if match a_num p with Some r => vmin r <=? cnt | None => false end then complete_option tbl w c else COk [])
        as [| |opts| |]; cbn [kbind cbind] in *; try discriminate.
      inversion Hk; subst lk. eexists. split; [reflexivity|].
      rewrite sort_final_fst_perm, finish_k_fst, !map_app, !map_fst_keyed. reflexivity.
    + inversion Hk; subst lk. eexists. split; [reflexivity|]. cbn. constructor.
  - destruct (of_opt 535 (complete_arg_value tbl w o)) as [| |optv| |]; cbn [kbind cbind] in *; try discriminate.
    rewrite Hst in *. cbn [cbind]. inversion Hk; subst lk. eexists. split; [reflexivity|].
    rewrite sort_final_fst_perm, finish_k_fst, !map_app, !map_fst_keyed. reflexivity.
Qed.

(** ** state [Opt] beyond the minimum: the recursive call's list is sorted before it is appended *)
Definition idlist (l : list cand) : list cid := flat_map (fun c => match cd_id c with Some i => [i] | None => [] end) l.

Lemma idlist_app a b : idlist (a ++ b) = idlist a ++ idlist b.
Proof. unfold idlist. apply flat_map_app. Qed.

Lemma idlist_noid l : (forall x, In x l -> cd_id x = None) -> idlist l = [].
Proof.
  induction l as [|x t IH]; intros H; [reflexivity|]. cbn [idlist flat_map].
  rewrite (H x (or_introl eq_refl)). cbn [app]. apply IH. intros y Hy. apply H. right. exact Hy.
Qed.

Lemma idlist_perm l1 l2 : Permutation l1 l2 -> Permutation (idlist l1) (idlist l2).
Proof.
  induction 1 as [|x l l' H IH|x y l|l l' l'' H1 IH1 H2 IH2]; cbn [idlist flat_map].
  - constructor.
  - apply Permutation_app_head. exact IH.
  - rewrite !app_assoc. apply Permutation_app_tail. apply Permutation_app_comm.
  - eapply perm_trans; eauto.
Qed.

Lemma idlist_filter_in p i : forall l, In i (idlist (filter p l)) -> In i (idlist l).
Proof.
  induction l as [|y t IH]; intros Hin; [destruct Hin|].
  cbn [filter] in Hin. cbn [idlist flat_map]. apply in_or_app.
  destruct (p y); [|right; apply IH; exact Hin].
  cbn [idlist flat_map] in Hin. apply in_app_or in Hin. destruct Hin as [Hin|Hin]; [left; exact Hin|right; apply IH; exact Hin].
Qed.

Lemma idlist_filter_nodup p : forall l, NoDup (idlist l) -> NoDup (idlist (filter p l)).
Proof.
  induction l as [|x t IH]; intros H; [constructor|]. cbn [filter]. cbn [idlist flat_map] in H.
  destruct (cd_id x) as [i|] eqn:Ei; cbn [app] in H.
  - inversion H as [|i0 r Hni Hr]; subst. destruct (p x); [|apply IH; exact Hr].
    cbn [idlist flat_map]. rewrite Ei. cbn [app]. constructor; [|apply IH; exact Hr].
    intros Hin. apply Hni. exact (idlist_filter_in p i t Hin).
  - destruct (p x); [cbn [idlist flat_map]; rewrite Ei; cbn [app]|]; apply IH; exact H.
Qed.

Lemma hide_filter_nodup l : NoDup (idlist l) -> NoDup (idlist (hide_filter l)).
Proof. unfold hide_filter. intros H. destruct (existsb _ l); [apply idlist_filter_nodup; exact H|exact H]. Qed.

Lemma hide_filter_perm l1 l2 : Permutation l1 l2 -> Permutation (hide_filter l1) (hide_filter l2).
Proof.
  intros H. unfold hide_filter.
  assert (E : existsb (fun a => negb (cd_hidden a)) l1 = existsb (fun a => negb (cd_hidden a)) l2).
  { induction H as [|x l l' H IH|x y l|l l' l'' H1 IH1 H2 IH2]; cbn [existsb]; try reflexivity.
    - rewrite IH. reflexivity.
    - destruct (negb (cd_hidden y)), (negb (cd_hidden x)); reflexivity.
    - congruence. }
  rewrite E. destruct (existsb _ l2); [|exact H]. clear E.
  induction H as [|x l l' H IH|x y l|l l' l'' H1 IH1 H2 IH2]; cbn [filter].
  - constructor.
  - destruct (negb (cd_hidden x)); [apply perm_skip|]; exact IH.
  - destruct (negb (cd_hidden y)), (negb (cd_hidden x)); try reflexivity. apply perm_swap.
  - eapply perm_trans; eauto.
Qed.

Lemma existsb_cid_false i seen : existsb (cid_eqb i) seen = false <-> ~ In i seen.
Proof.
  split.
  - intros H Hin. assert (existsb (cid_eqb i) seen = true); [|congruence].
    apply existsb_exists. exists i. split; [exact Hin|]. apply cid_eqb_eq. reflexivity.
  - intros H. destruct (existsb (cid_eqb i) seen) eqn:E; [|reflexivity]. exfalso. apply H.
    apply existsb_exists in E. destruct E as [j [Hj E]]. apply cid_eqb_eq in E. subst. exact Hj.
Qed.

(** de-duplication by id leaves a list alone whose ids are pairwise different (and not seen yet) *)
Lemma dedup_ids_fix : forall l seen, NoDup (idlist l) -> (forall i, In i (idlist l) -> ~ In i seen) -> dedup_ids seen l = l.
Proof.
  induction l as [|x t IH]; intros seen Hnd Hns; [reflexivity|]. cbn [dedup_ids]. cbn [idlist flat_map] in Hnd, Hns.
  destruct (cd_id x) as [i|] eqn:Ei; cbn [app] in *.
  - inversion Hnd as [|i0 r Hni Hr]; subst.
    rewrite (proj2 (existsb_cid_false i seen) (Hns i (or_introl eq_refl))). f_equal.
    apply IH; [exact Hr|]. intros j Hj [<-|Hin]; [exact (Hni Hj)|exact (Hns j (or_intror Hj) Hin)].
  - f_equal. apply IH; [exact Hnd|exact Hns].
Qed.

(** ... and produces such a list *)
Lemma dedup_ids_nodup : forall l seen, NoDup (idlist (dedup_ids seen l)) /\ forall i, In i (idlist (dedup_ids seen l)) -> ~ In i seen.
Proof.
  induction l as [|x t IH]; intros seen; [split; [constructor|intros i []]|]. cbn [dedup_ids].
  destruct (cd_id x) as [i|] eqn:Ei.
  - destruct (existsb (cid_eqb i) seen) eqn:Es; [apply IH|].
    destruct (IH (i :: seen)) as [H1 H2]. cbn [idlist flat_map]. rewrite Ei. cbn [app]. split.
    + constructor; [|exact H1]. intros Hin. apply (H2 i Hin). left. reflexivity.
    + intros j [<-|Hj]; [apply existsb_cid_false; exact Es|]. intros Hin. apply (H2 j Hj). right. exact Hin.
  - destruct (IH seen) as [H1 H2]. cbn [idlist flat_map]. rewrite Ei. cbn [app]. split; assumption.
Qed.

Lemma finish_nodup l : NoDup (idlist (finish l)).
Proof. unfold finish. apply dedup_ids_nodup. Qed.

Lemma finish_app_perm optv m1 m2 : (forall x, In x optv -> cd_id x = None) -> NoDup (idlist m1) -> Permutation m2 m1 ->
  Permutation (finish (optv ++ m2)) (finish (optv ++ m1)).
Proof.
  intros Hno Hnd Hp.
  assert (Hnd2 : NoDup (idlist m2)) by (eapply Permutation_NoDup; [apply Permutation_sym, idlist_perm; exact Hp|exact Hnd]).
  assert (F : forall m, NoDup (idlist m) -> finish (optv ++ m) = hide_filter (optv ++ m)).
  { intros m Hm. unfold finish. apply dedup_ids_fix; [|intros i _ []].
    apply hide_filter_nodup. rewrite idlist_app, (idlist_noid optv Hno). exact Hm. }
  rewrite (F m1 Hnd), (F m2 Hnd2). apply hide_filter_perm. apply Permutation_app_head. exact Hp.
Qed.

(** THE ORDERED RESULT IS A PERMUTATION OF THE UNORDERED MODEL'S, in every state *)
Theorem complete_arg_ord_perm_all ot tbl w c pi st l' :
  complete_arg_ord ot tbl w c pi st = COk l' ->
  exists l, complete_arg tbl w c pi st = COk l /\ Permutation l' l.
Proof.
  destruct st as [|idx cnt|o cnt]; try (apply complete_arg_ord_perm; exact I).
  destruct (match a_num o with Some r => vmin r | None => 0 end <? cnt) eqn:Em; [|apply complete_arg_ord_perm; exact Em].
  unfold complete_arg_ord. cbn [complete_arg_keyed complete_arg].
  destruct (of_opt 535 (complete_arg_value tbl w o)) as [| |optv| |] eqn:Ev; cbn [kbind cbind]; try (intros H; discriminate H).
  rewrite Em. destruct (value_done_ord ot tbl w c pi) as [mk|r] eqn:Ek.
  - intros H. inversion H; subst l'; clear H.
    destruct (value_done_ord_perm ot tbl w c pi mk Ek) as [more [Hm Hp]]. rewrite Hm. cbn [cbind].
    eexists. split; [reflexivity|].
    rewrite sort_final_fst_perm, finish_k_fst, map_app, map_fst_keyed.
    apply finish_app_perm; [| |exact Hp].
    + destruct (complete_arg_value tbl w o) as [l0|] eqn:E0; [|discriminate]. cbn [of_opt] in Ev. inversion Ev; subst.
      intros x Hx. eapply complete_arg_value_ids; eauto.
    + unfold complete_arg_value_done in Hm.
      destruct (match find_pos c pi with Some p => of_opt 535 (complete_arg_value tbl w p) | None => COk [] end)
        as [| |posv| |]; cbn [cbind] in Hm; try discriminate.
      destruct (complete_option tbl w c) as [| |opts| |]; cbn [cbind] in Hm; try discriminate.
      inversion Hm; subst. apply finish_nodup.
  - intros H. subst r. exfalso. unfold value_done_ord in Ek.
    destruct (match find_pos c pi with Some p => of_opt 535 (complete_arg_value tbl w p) | None => COk [] end)
      as [| |posv| |]; cbn [kbind] in Ek; try (inversion Ek; fail).
    destruct (complete_option tbl w c) as [| |opts| |]; cbn [kbind] in Ek; inversion Ek.
Qed.

(** ... and of the engine's function with [valid_arg_found] *)
Theorem complete_arg_ord_v_perm ot tbl w c pi st vaf l' :
  complete_arg_ord_v ot tbl w c pi st vaf = COk l' ->
  exists l, complete_arg_v tbl w c pi st vaf = COk l /\ Permutation l' l.
Proof. unfold complete_arg_ord_v. rewrite complete_arg_v_cut. apply complete_arg_ord_perm_all. Qed.

(** * Non-vacuity: display orders that reverse the declaration order, a heading, a subcommand *)
Module OrderExample.
Definition w_aa : bytes := [97; 97].
Definition w_bb : bytes := [98; 98].
Definition w_cc : bytes := [99; 99].
Definition w_sub : bytes := [115; 117; 98].
Definition w_head : bytes := [72; 101; 97; 100].
Definition c0 : cmd :=
  (cmd_new [112])
    <| c_set := settings_none <| s_disable_help_flag := true |> <| s_disable_help_sub := true |> |>
    <| c_args := [ (arg_new w_aa) <| a_long := Some w_aa |> <| a_action := Some ASetTrue |>;
                   (arg_new w_bb) <| a_long := Some w_bb |> <| a_action := Some ASetTrue |>;
                   (arg_new w_cc) <| a_long := Some w_cc |> <| a_action := Some ASetTrue |> ] |>
    <| c_subs := [ cmd_new w_sub ] |>.
(** --aa: order 5; --bb: order 1, heading "Head"; --cc: order 1; sub: order 0 *)
Definition ot : otable :=
  [ (IdArg w_aa, (None, 5)); (IdArg w_bb, (Some w_head, 1)); (IdArg w_cc, (None, 1)); (IdCmd w_sub, (None, 0)) ].
Definition show (r : cres) : list bytes := match r with COk l => map cd_value l | _ => [] end.
End OrderExample.

(** `p <TAB>`: generated `sub --aa --bb --cc`; tags in order of first appearance: Commands, Options, Head;
    sorted: sub | --cc (1) --aa (5) | --bb *)
Example ex_order :
  OrderExample.show (complete_model_ord OrderExample.ot [] OrderExample.c0 [[112]; []] 1)
    = [OrderExample.w_sub; dd ++ OrderExample.w_cc; dd ++ OrderExample.w_aa; dd ++ OrderExample.w_bb] /\
  OrderExample.show (complete_model [] OrderExample.c0 [[112]; []] 1)
    = [OrderExample.w_sub; dd ++ OrderExample.w_aa; dd ++ OrderExample.w_bb; dd ++ OrderExample.w_cc].
Proof. vm_compute. split; reflexivity. Qed.
