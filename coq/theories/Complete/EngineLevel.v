(** Property C18, round 2: the LEVEL the engine completes at is the level the parser model reaches.

    The engine walks the tree built by [Command::build] ([build_full]: every node built with
    [build_self_x], the help tree expanded); the parser model builds lazily: the root with [build_self],
    a child when it is dispatched to ([build_subcommand] = bin/display names, then [build_self]).
    [lvl_rel pc cur]: the parser's node [pc] and the engine's node [cur] have the same arguments, the same
    settings, and pairwise related children ([child_rel]: same name and aliases; unless the child is
    named [help], the engine's child is the full build of the parser's still unbuilt child).
    Proved: the roots are related ([level_root]); dispatching to a subcommand (not named [help]) on both
    sides leads to related nodes again ([level_descent]); related nodes are [same_level]
    (EngineAccept.v), which is what the acceptance theorems need.
    Class: no node of the user's tree is already built ([tree_all unb]). *)
From ClapModel Require Import Base.Bytes Base.Machine Base.Utf8.
From ClapModel Require Import Complete.EngineModel Complete.EngineProofs.
From ClapModel Require Import Parse.Cmd Parse.Build Parse.Valid.
From ClapModel Require Import Complete.EngineAccept.
From Coq Require Import ZArith Lia List Bool.
From RecordUpdate Require Import RecordSet.
Import RecordSetNotations.
Import ListNotations.
Open Scope N_scope.

(** * [build_self] does not read the bin/display names that [_build_subcommand] sets *)
Definition setnm (b d : option bytes) (x : cmd) : cmd := x <| c_bin_name := b |> <| c_display_name := d |>.
Lemma nm_propagate b d x : bs_propagate (setnm b d x) = setnm b d (bs_propagate x).
Proof. destruct x. reflexivity. Qed.
Lemma nm_globals b d x : bs_globals (setnm b d x) = setnm b d (bs_globals x).
Proof. destruct x. reflexivity. Qed.
Lemma nm_args b d x : bs_args (setnm b d x) = setnm b d (bs_args x).
Proof. destruct x. reflexivity. Qed.
Lemma nm_deprecated b d x : bs_deprecated (setnm b d x) = setnm b d (bs_deprecated x).
Proof. destruct x. reflexivity. Qed.
Lemma nm_mark b d x : bs_mark (setnm b d x) = setnm b d (bs_mark x).
Proof. destruct x. reflexivity. Qed.
Lemma nm_settings b d x : bs_settings (setnm b d x) = setnm b d (bs_settings x).
Proof.
  destruct x as [n al sf lf sfa lfa ar gr su cs gs v lv ev bn dn ab lab].
  destruct cs, gs. destruct ev, su, s_args_negate_subs, s_args_negate_subs0; reflexivity.
Qed.

Definition hv1 (c : cmd) : cmd := if negb (is_set s_disable_help_flag c) then c <| c_args := c_args c ++ [help_arg] |> else c.
Definition hv2 (c : cmd) : cmd := if negb (is_disable_version_flag_set c) then c <| c_args := c_args c ++ [version_arg] |> else c.
Definition hv3 (c : cmd) : cmd :=
  if negb (is_set s_disable_help_sub c) then c <| c_subs := c_subs c ++ [fix_help_unset (help_subcommand c)] |> else c.
Definition hv3x (c : cmd) : cmd :=
  if negb (is_set s_disable_help_sub c) then c <| c_subs := c_subs c ++ [fix_help_unset (help_subcommand_x c)] |> else c.
Lemma hv_steps c : bs_help_version c = hv3 (hv2 (hv1 c)).
Proof. reflexivity. Qed.
Lemma hvx_steps c : bs_help_version_x c = hv3x (hv2 (hv1 c)).
Proof. reflexivity. Qed.

Lemma nm_hv1 b d x : hv1 (setnm b d x) = setnm b d (hv1 x).
Proof.
  destruct x as [n al sf lf sfa lfa ar gr su cs gs v lv ev bn dn ab lab]. destruct cs, gs.
  destruct s_disable_help_flag, s_disable_help_flag0; reflexivity.
Qed.
Lemma nm_hv2 b d x : hv2 (setnm b d x) = setnm b d (hv2 x).
Proof.
  destruct x as [n al sf lf sfa lfa ar gr su cs gs v lv ev bn dn ab lab]. destruct cs, gs.
  destruct s_disable_version_flag, s_disable_version_flag0, v, lv; reflexivity.
Qed.
Lemma nm_hv3 b d x : hv3 (setnm b d x) = setnm b d (hv3 x).
Proof.
  destruct x as [n al sf lf sfa lfa ar gr su cs gs v lv ev bn dn ab lab]. destruct cs, gs.
  destruct s_disable_help_sub, s_disable_help_sub0; reflexivity.
Qed.
Lemma nm_hv b d x : bs_help_version (setnm b d x) = setnm b d (bs_help_version x).
Proof. rewrite !hv_steps, nm_hv1, nm_hv2, nm_hv3. reflexivity. Qed.

Lemma nm_build_self b d x : build_self (setnm b d x) = setnm b d (build_self x).
Proof.
  unfold build_self.
  assert (E : s_built (c_set (setnm b d x)) = s_built (c_set x)) by (destruct x; reflexivity).
  rewrite E. destruct (s_built (c_set x)); [reflexivity|].
  rewrite nm_settings, nm_propagate, nm_hv, nm_globals, nm_args, nm_deprecated, nm_mark. reflexivity.
Qed.

(** * [build_self] and [build_self_x] differ only in the subcommand list *)
Definition bs_tail (c : cmd) : cmd := bs_mark (bs_deprecated (bs_args (bs_globals c))).
Definition eq_but_subs (x y : cmd) : Prop := x <| c_subs := [] |> = y <| c_subs := [] |>.

Lemma hv3_eq_but_subs c : eq_but_subs (hv3 c) (hv3x c).
Proof. unfold hv3, hv3x, eq_but_subs. destruct (negb (is_set s_disable_help_sub c)); destruct c; reflexivity. Qed.

Lemma bs_tail_proj x y : eq_but_subs x y ->
  c_args (bs_tail x) = c_args (bs_tail y) /\ c_set (bs_tail x) = c_set (bs_tail y)
  /\ c_gset (bs_tail x) = c_gset (bs_tail y).
Proof. unfold eq_but_subs. destruct x, y; cbn. intros H; inversion H; subst. repeat split; reflexivity. Qed.

(** [_propagate_global_args] on one child *)
Definition gl (c sc : cmd) : cmd :=
  if beq (c_name sc) s_help && negb (is_set s_disable_help_sub c) then sc
  else fold_left (fun sc a => if is_some (find_arg sc (a_id a)) then sc
                              else sc <| c_args := c_args sc ++ [a] |>) (filter a_global (c_args c)) sc.
Lemma c_subs_tail c : c_subs (bs_tail c) = map (gl c) (c_subs c).
Proof. reflexivity. Qed.
Lemma gl_ext x y sc : eq_but_subs x y -> gl x sc = gl y sc.
Proof. unfold eq_but_subs. destruct x, y; cbn. intros H; inversion H; subst. reflexivity. Qed.

Definition keeps (a b : cmd) : Prop :=
  c_name a = c_name b /\ c_aliases a = c_aliases b /\ c_subs a = c_subs b /\ c_set a = c_set b /\ c_gset a = c_gset b.
Lemma keeps_refl a : keeps a a. Proof. repeat split. Qed.
Lemma keeps_trans a b c : keeps a b -> keeps b c -> keeps a c.
Proof. unfold keeps. intros [? [? [? [? ?]]]] [? [? [? [? ?]]]]. repeat split; congruence. Qed.

Lemma gl_keeps c sc : keeps (gl c sc) sc.
Proof.
  unfold gl. destruct (_ && _); [apply keeps_refl|].
  revert sc. induction (filter a_global (c_args c)) as [|a t IH]; intros sc; cbn [fold_left]; [apply keeps_refl|].
  eapply keeps_trans; [apply IH|]. destruct (is_some _); [apply keeps_refl|]. destruct sc; repeat split.
Qed.

Ltac split_match := match goal with |- context [match ?e with _ => _ end] => destruct e end.

Lemma settings_or_built a b : s_built (settings_or a b) = s_built a || s_built b.
Proof. destruct a, b; reflexivity. Qed.

Lemma propagate_keeps p sc : c_name (propagate_subcommand p sc) = c_name sc /\ c_aliases (propagate_subcommand p sc) = c_aliases sc
  /\ c_subs (propagate_subcommand p sc) = c_subs sc /\ c_set (propagate_subcommand p sc) = settings_or (c_set sc) (c_gset p)
  /\ c_gset (propagate_subcommand p sc) = settings_or (c_gset sc) (c_gset p).
Proof. unfold propagate_subcommand. repeat split_match; destruct sc; repeat split. Qed.

Lemma bs_settings_keeps x : c_name (bs_settings x) = c_name x /\ c_aliases (bs_settings x) = c_aliases x
  /\ c_subs (bs_settings x) = c_subs x /\ c_gset (bs_settings x) = c_gset x.
Proof. unfold bs_settings. repeat split_match; destruct x; repeat split. Qed.

Lemma hv1_keeps c : keeps (hv1 c) c.
Proof. unfold hv1. destruct (negb _); [destruct c|]; repeat split. Qed.
Lemma hv2_keeps c : keeps (hv2 c) c.
Proof. unfold hv2. destruct (negb _); [destruct c|]; repeat split. Qed.

Lemma build_self_x_eq x : build_self_x x = bs_tail (hv3x (hv2 (hv1 (bs_propagate (bs_settings x))))).
Proof. unfold build_self_x, bs_tail. rewrite hvx_steps. reflexivity. Qed.
Lemma build_self_eq x : s_built (c_set x) = false ->
  build_self x = bs_tail (hv3 (hv2 (hv1 (bs_propagate (bs_settings x))))).
Proof. intros H. unfold build_self. rewrite H. unfold bs_tail. rewrite hv_steps. reflexivity. Qed.

Lemma hv3x_key c : sub_key (hv3x c) = sub_key c.
Proof. unfold hv3x. destruct (negb _); reflexivity. Qed.
Lemma bs_tail_key c : sub_key (bs_tail c) = sub_key c.
Proof. reflexivity. Qed.
Lemma keeps_key a b : keeps a b -> sub_key a = sub_key b.
Proof. unfold keeps, sub_key. intros [-> [-> _]]. reflexivity. Qed.

Lemma build_self_x_key x : sub_key (build_self_x x) = sub_key x.
Proof.
  rewrite build_self_x_eq, bs_tail_key, hv3x_key, (keeps_key _ _ (hv2_keeps _)), (keeps_key _ _ (hv1_keeps _)).
  destruct (bs_settings_keeps x) as [H1 [H2 _]]. unfold sub_key.
  change (c_name (bs_propagate (bs_settings x))) with (c_name (bs_settings x)).
  change (c_aliases (bs_propagate (bs_settings x))) with (c_aliases (bs_settings x)). rewrite H1, H2. reflexivity.
Qed.

(** * [build_full] node by node *)
Local Strategy 100 [build_node build_self_x assert_app].
Lemma build_full_inv f x y : build_full f x = BOk y ->
  exists f' subs, f = S f' /\ assert_app (build_self_x x) = true /\
    build_list (build_full f') (c_subs (build_self_x x)) = Some (Some subs) /\
    y = (build_self_x x) <| c_subs := subs |>.
Proof.
  destruct f as [|f']; [discriminate|]. cbn [build_full]. unfold build_node.
  destruct (negb (assert_app (build_self_x x))) eqn:Ea; [discriminate|]. apply negb_false_iff in Ea.
  destruct (build_list (build_full f') (c_subs (build_self_x x))) as [[subs|]|] eqn:Es; try discriminate.
  intros H; inversion H; subst. exists f', subs. repeat split; assumption.
Qed.

Lemma build_list_forall2 rec : forall l l', build_list rec l = Some (Some l') -> Forall2 (fun x y => rec x = BOk y) l l'.
Proof.
  induction l as [|s t IH]; intros l' H; cbn in H.
  - inversion H; constructor.
  - destruct (rec s) eqn:Hb; try discriminate.
    destruct (build_list rec t) as [[t'|]|] eqn:Ht; try discriminate.
    inversion H; subst. constructor; [exact Hb|apply IH; reflexivity].
Qed.

Lemma build_full_key f x y : build_full f x = BOk y -> sub_key y = sub_key x.
Proof.
  intros H. destruct (build_full_inv f x y H) as [f' [subs [_ [_ [_ ->]]]]].
  rewrite <- (build_self_x_key x). generalize (build_self_x x). intros z. destruct z. reflexivity.
Qed.

(** * the relation between the parser's node and the engine's node *)
Definition unb (c : cmd) : Prop := s_built (c_set c) = false /\ s_built (c_gset c) = false.

Definition child_rel (ps es : cmd) : Prop :=
  sub_key ps = sub_key es /\ (c_name ps = s_help \/ (tree_all unb ps /\ exists f, build_full f ps = BOk es)).

Definition lvl_rel (pc cur : cmd) : Prop :=
  c_args pc = c_args cur /\ c_set pc = c_set cur /\ c_gset pc = c_gset cur /\
  Forall2 child_rel (c_subs pc) (c_subs cur).

Lemma child_rel_keys : forall l l', Forall2 child_rel l l' -> map sub_key l = map sub_key l'.
Proof. induction 1 as [|x y l l' [Hk _] _ IH]; cbn [map]; [reflexivity|]. rewrite Hk, IH. reflexivity. Qed.

Theorem lvl_rel_same_level pc cur : lvl_rel pc cur -> same_level pc cur.
Proof. intros [Ha [_ [_ Hs]]]. split; [exact Ha|apply child_rel_keys; exact Hs]. Qed.

Lemma lvl_rel_is_set pc cur f : lvl_rel pc cur -> is_set f pc = is_set f cur.
Proof. intros [_ [Hs [Hg _]]]. unfold is_set. rewrite Hs, Hg. reflexivity. Qed.

Lemma help_name p : c_name (fix_help_unset (help_subcommand p)) = s_help /\ c_aliases (fix_help_unset (help_subcommand p)) = [].
Proof. unfold fix_help_unset, help_subcommand, propagate_subcommand. repeat split_match; split; reflexivity. Qed.
Lemma help_x_name p : c_name (fix_help_unset (help_subcommand_x p)) = s_help /\ c_aliases (fix_help_unset (help_subcommand_x p)) = [].
Proof. unfold fix_help_unset, help_subcommand_x, propagate_subcommand. repeat split_match; split; reflexivity. Qed.

Lemma hv3_subs c : exists t tx, c_subs (hv3 c) = c_subs c ++ t /\ c_subs (hv3x c) = c_subs c ++ tx /\
  Forall2 (fun h hx => sub_key h = (s_help, []) /\ sub_key hx = (s_help, [])) t tx.
Proof.
  unfold hv3, hv3x. destruct (negb (is_set s_disable_help_sub c)).
  - exists [fix_help_unset (help_subcommand c)], [fix_help_unset (help_subcommand_x c)].
    split; [reflexivity|]. split; [reflexivity|]. constructor; [|constructor].
    destruct (help_name c) as [H1 H2]. destruct (help_x_name c) as [H3 H4]. unfold sub_key.
    rewrite H1, H2, H3, H4. split; reflexivity.
  - exists [], []. rewrite !app_nil_r. split; [reflexivity|]. split; [reflexivity|constructor].
Qed.

Lemma tree_all_unb_child p l : s_built (c_gset p) = false -> tree_all unb l ->
  forall c, tree_all unb (gl c (propagate_subcommand p l)).
Proof.
  intros Hp Hl c. destruct (gl_keeps c (propagate_subcommand p l)) as [_ [_ [Hs [Hset Hg]]]].
  destruct (propagate_keeps p l) as [_ [_ [Hs' [Hset' Hg']]]].
  inversion Hl as [l0 [Hu1 Hu2] Hsub]; subst.
  constructor.
  - split; [rewrite Hset, Hset'|rewrite Hg, Hg']; rewrite settings_or_built; [rewrite Hu1|rewrite Hu2]; rewrite Hp; reflexivity.
  - rewrite Hs, Hs'. exact Hsub.
Qed.

Lemma Forall2_map_l {A B C} (R : B -> C -> Prop) (g : A -> B) : forall l l', Forall2 (fun x y => R (g x) y) l l' -> Forall2 R (map g l) l'.
Proof. induction 1; cbn [map]; constructor; assumption. Qed.
Lemma Forall2_map_l_inv {A B C} (R : B -> C -> Prop) (g : A -> B) : forall l l', Forall2 R (map g l) l' -> Forall2 (fun x y => R (g x) y) l l'.
Proof. induction l as [|a t IH]; intros l' H; inversion H; subst; constructor; auto. Qed.
Lemma Forall2_impl_in {A B} (R S : A -> B -> Prop) : forall l l', (forall x y, In x l -> R x y -> S x y) -> Forall2 R l l' -> Forall2 S l l'.
Proof.
  intros l l' H F. induction F as [|x y l l' Hxy F IH]; constructor.
  - apply H; [left; reflexivity|exact Hxy].
  - apply IH. intros a b Ha. apply H. right. exact Ha.
Qed.

Lemma c_set_set_subs c l : c_set (c <| c_subs := l |>) = c_set c.
Proof. destruct c; reflexivity. Qed.
Lemma c_gset_set_subs c l : c_gset (c <| c_subs := l |>) = c_gset c.
Proof. destruct c; reflexivity. Qed.

(** the parser's build of a node and the engine's full build of the same node are related *)
Theorem node_rel f x y : tree_all unb x -> build_full f x = BOk y -> lvl_rel (build_self x) y.
Proof.
  intros Hx Hb. inversion Hx as [x0 [Hu1 Hu2] Hxs]; subst.
  destruct (build_full_inv f x y Hb) as [f' [subs [_ [_ [Hl ->]]]]]. clear Hb.
  rewrite (build_self_eq x Hu1). rewrite build_self_x_eq in *.
  set (Q := hv2 (hv1 (bs_propagate (bs_settings x)))) in *.
  pose proof (hv3_eq_but_subs Q) as He.
  destruct (bs_tail_proj _ _ He) as [Ha [Hs Hg]].
  unfold lvl_rel. rewrite assert_app_c_args_set_subs, c_set_set_subs, c_gset_set_subs, c_subs_set_subs.
  split; [exact Ha|]. split; [exact Hs|]. split; [exact Hg|].
  rewrite c_subs_tail in *.
  destruct (hv3_subs Q) as [t [tx [Et [Etx Ht]]]]. rewrite Et. rewrite Etx in Hl.
  apply build_list_forall2 in Hl. apply Forall2_map_l_inv in Hl.
  apply Forall2_map_l. apply Forall2_app_inv_l in Hl. destruct Hl as [s1 [s2 [H1 [H2 ->]]]].
  apply Forall2_app.
  - (* the user's children *)
    assert (EQ : c_subs Q = map (propagate_subcommand (bs_settings x)) (c_subs x)).
    { unfold Q. destruct (hv2_keeps (hv1 (bs_propagate (bs_settings x)))) as [_ [_ [E2 _]]].
      destruct (hv1_keeps (bs_propagate (bs_settings x))) as [_ [_ [E1 _]]]. rewrite E2, E1.
      destruct (bs_settings_keeps x) as [_ [_ [E0 _]]]. change (c_subs (bs_propagate (bs_settings x)))
        with (map (propagate_subcommand (bs_settings x)) (c_subs (bs_settings x))). rewrite E0. reflexivity. }
    rewrite EQ in *. apply Forall2_map_l_inv in H1. apply Forall2_map_l.
    eapply Forall2_impl_in; [|exact H1]. intros l es Hin Hbf. cbv beta in *.
    rewrite (gl_ext _ _ _ He). split.
    + symmetry. eapply build_full_key. exact Hbf.
    + right. split; [|eauto]. apply tree_all_unb_child.
      * destruct (bs_settings_keeps x) as [_ [_ [_ E]]]. rewrite E. exact Hu2.
      * rewrite Forall_forall in Hxs. apply Hxs. exact Hin.
  - (* the generated help subcommand *)
    clear H1 Et Etx. revert s2 H2. induction Ht as [|h hx t tx [Hh Hhx] _ IH]; intros s2 H2;
      [inversion H2; subst; constructor|inversion H2 as [|? e0 ? l0 Hhd Htl]; subst; constructor].
    + pose proof (build_full_key _ _ _ Hhd) as Hk.
      rewrite (keeps_key _ _ (gl_keeps _ _)) in Hk. split.
      * rewrite (keeps_key _ _ (gl_keeps _ _)). congruence.
      * left. destruct (gl_keeps (hv3 Q) h) as [Hn _]. rewrite Hn. unfold sub_key in Hh. congruence.
    + apply IH. exact Htl.
Qed.

(** the roots *)
Theorem level_root f c0 b : tree_all unb c0 -> build_full f c0 = BOk b -> lvl_rel (build_self c0) b.
Proof. exact (node_rel f c0 b). Qed.

(** * dispatching to a subcommand on both sides *)
Lemma find_rel n : forall l l', Forall2 child_rel l l' -> forall ps,
  find (fun s => aliases_to s n) l = Some ps ->
  exists es, find (fun s => aliases_to s n) l' = Some es /\ child_rel ps es.
Proof.
  induction 1 as [|x y l l' Hxy F IH]; intros ps Hf; [discriminate|].
  cbn [find] in *. destruct Hxy as [Hk Hr]. rewrite <- (aliases_to_key x y n Hk).
  destruct (aliases_to x n).
  - inversion Hf; subst. exists y. split; [reflexivity|split; assumption].
  - apply IH. exact Hf.
Qed.

Lemma find_name_unique : forall l sc,
  nodup_ids (flat_map (fun s => c_name s :: all_aliases s) l) = true ->
  In sc l -> find (fun s => beq (c_name s) (c_name sc)) l = Some sc.
Proof.
  induction l as [|x t IH]; intros sc Hn Hin; [destruct Hin|].
  cbn [flat_map] in Hn. apply nodup_ids_app in Hn. destruct Hn as [_ [Ht Hd]].
  cbn [find]. destruct (beq (c_name x) (c_name sc)) eqn:Ex.
  - destruct Hin as [->|Hin]; [reflexivity|]. exfalso. apply beq_eq in Ex.
    apply (Hd (c_name sc)); [left; exact Ex|].
    apply in_flat_map. exists sc. split; [exact Hin|left; reflexivity].
  - destruct Hin as [->|Hin]; [rewrite beq_refl in Ex; discriminate|]. apply IH; assumption.
Qed.

Lemma build_subcommand_found pc sc0 : find (fun s => beq (c_name s) (c_name sc0)) (c_subs pc) = Some sc0 ->
  exists b d, build_subcommand pc (c_name sc0) = Some (build_self (setnm b d sc0)).
Proof.
  intros H. unfold build_subcommand. rewrite H. clear H.
  destruct sc0 as [n al sf lf sfa lfa ar gr su cs gs v lv ev bn dn ab lab]. destruct dn as [dn|].
  - exists (Some (match c_bin_name pc with Some b => b ++ [32] ++ n | None => n end)), (Some dn). reflexivity.
  - exists (Some (match c_bin_name pc with Some b => b ++ [32] ++ n | None => n end)),
           (Some (opt_default (c_name pc) (c_display_name pc)
                  ++ (if is_nil (opt_default (c_name pc) (c_display_name pc)) then [] else [45]) ++ n)).
    reflexivity.
Qed.

Lemma lvl_rel_setnm b d z es : lvl_rel z es -> lvl_rel (setnm b d z) es.
Proof. unfold lvl_rel. destruct z. exact (fun H => H). Qed.

(** the token names (by name or alias [n]) a subcommand of the level that is not called [help]: the
    engine descends to [es], the parser dispatches to the lazily built [pc'] - related nodes again *)
Theorem level_descent pc cur n sc0 : lvl_rel pc cur -> assert_app pc = true ->
  find_subcommand pc n = Some sc0 -> c_name sc0 <> s_help ->
  exists es pc', find_subcommand cur n = Some es /\ build_subcommand pc (c_name sc0) = Some pc' /\
                 lvl_rel pc' es.
Proof.
  intros [_ [_ [_ Hsubs]]] V Hf Hnh. unfold find_subcommand in *.
  destruct (find_rel n _ _ Hsubs sc0 Hf) as [es [Hfe [_ Hr]]].
  destruct Hr as [Hr|[Hu [f Hb]]]; [contradiction|].
  pose proof (node_rel f sc0 es Hu Hb) as Hrel.
  assert (Hin : In sc0 (c_subs pc)) by (apply find_some in Hf; tauto).
  destruct (build_subcommand_found pc sc0 (find_name_unique (c_subs pc) sc0 (assert_app_subs_unique pc V) Hin))
    as [b [d Hbs]].
  exists es, (build_self (setnm b d sc0)). split; [exact Hfe|]. split; [exact Hbs|].
  rewrite nm_build_self. apply lvl_rel_setnm. exact Hrel.
Qed.

(** the class is decidable: a boolean check of the user's tree ([fuel] >= depth) *)
Fixpoint unb_tree (fuel : nat) (c : cmd) : bool :=
  match fuel with
  | O => false
  | S f => negb (s_built (c_set c)) && negb (s_built (c_gset c)) && forallb (unb_tree f) (c_subs c)
  end.
Lemma unb_tree_ok : forall fuel c, unb_tree fuel c = true -> tree_all unb c.
Proof.
  induction fuel as [|f IH]; intros c H; [discriminate|]. cbn [unb_tree] in H.
  apply andb_true_iff in H. destruct H as [H Hs]. apply andb_true_iff in H. destruct H as [H1 H2].
  apply negb_true_iff in H1, H2. constructor; [split; assumption|].
  rewrite forallb_forall in Hs. apply Forall_forall. intros s Hin. apply IH. apply Hs. exact Hin.
Qed.

(** non-vacuity: the example command; [p sub]: both sides reach related nodes *)
Example ex_level_hyps :
  unb_tree 5 EngineProofs.ex_cmd = true /\
  (match build_full (build_fuel EngineProofs.ex_cmd) EngineProofs.ex_cmd with BOk _ => true | _ => false end) = true /\
  assert_app (build_self EngineProofs.ex_cmd) = true /\
  (match find_subcommand (build_self EngineProofs.ex_cmd) EngineProofs.s_sub with
   | Some sc0 => negb (beq (c_name sc0) s_help) | None => false end) = true.
Proof. repeat split; vm_compute; reflexivity. Qed.

(** one step of both machines on a subcommand name/alias, where a new argument may start: the engine's
    shadow parse descends to [es], the parser's token loop stops with the dispatch to [sc0], which
    [parse_subcommand] builds into [pc'] - and the two nodes are related again *)
Theorem level_step_sub pc cur tok sc0 pi evaf : lvl_rel pc cur -> assert_app pc = true ->
  utf8_valid tok = true -> find_subcommand pc tok = Some sc0 -> c_name sc0 <> s_help ->
  (is_set s_args_negate_subs pc && evaf) = false ->
  exists es pc', shadow_step tok cur pi false ValueDone evaf = SNext es 1 false ValueDone false /\
    build_subcommand pc (c_name sc0) = Some pc' /\ lvl_rel pc' es /\
    forall rest pos vaf st, (is_set s_args_negate_subs pc && vaf) = false ->
      exists n', aliases_to sc0 n' = true /\ find_subcommand pc n' = Some sc0 /\
        Parser.parse_loop pc (tok :: rest) (Parser.mkL Parser.PSValuesDone pos vaf false) st =
        if beq n' s_help && negb (is_set s_disable_help_sub pc) then Parser.ROk (Parser.LHelpSub rest st)
        else Parser.ROk (Parser.LSub n' false vaf st rest).
Proof.
  intros Hrel V Hu Hf Hnh Hev.
  destruct (level_descent pc cur tok sc0 Hrel V Hf Hnh) as [es [pc' [Hfe [Hb Hrel']]]].
  exists es, pc'. split; [|split; [exact Hb|split; [exact Hrel'|]]].
  - unfold shadow_step. cbn [negb]. rewrite orb_true_r, <- (lvl_rel_is_set pc cur s_args_negate_subs Hrel), Hev, Hu.
    cbn [andb negb]. rewrite Hfe. reflexivity.
  - intros rest pos vaf st Hng.
    assert (Hin : In sc0 (c_subs pc) /\ aliases_to sc0 tok = true) by (apply find_some in Hf; exact Hf).
    destruct Hin as [Hin Hal].
    destruct (accept_sub_step pc sc0 tok rest pos vaf st V Hin Hal Hu Hng) as [n' [H1 [H2 [_ H4]]]].
    exists n'. repeat split; assumption.
Qed.
