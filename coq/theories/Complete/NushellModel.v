(** C16 / C17: clap_complete_nushell/src/lib.rs, all of it, over the built tree of [AotTree.v].

    A byte-exact TRANSCRIPTION: like the Rust code every function receives the string written so far
    ([s : bytes], Rust's [&mut String]) and returns it extended, because one function READS it:
    [append_value_completion_and_help] pads the help comment to column 30 of the line being written
    ([s.lines().last()]).  One Gallina function per Rust function, same branch structure; the
    [expect]s and the [unreachable!] are a visible [None].

    The descriptive texts ([Arg::get_help], [Command::get_about]) live in the decoration [cdesc] of
    [FishModel.v] (parallel to the tree; a missing entry reads as "no text"); [dbuild] there is what
    [Command::build] does to the texts.  [single_line_styled_str] is [Escape.EscapeModel.nushell_single_line]
    (its [.replace] chain is regenerated from the source on every run). *)
From ClapModel Require Import Base.Bytes Complete.AotTree Complete.FishModel Escape.EscapeModel.
From Coq Require Import String.
Open Scope N_scope.
Open Scope list_scope.

(** ---- std: [str::lines().last()], [str::contains(char::is_whitespace)], [{:>width$}] ---- *)
(** [str::split_inclusive('\n')]: every piece ends with its newline, the last one may lack it; no empty
    trailing piece.  [cur] is the piece being read. *)
Fixpoint split_inclusive_nl (cur s : bytes) : list bytes :=
  match s with
  | [] => match cur with [] => [] | _ :: _ => [cur] end
  | c :: t => if c =? 10 then (cur ++ [10]) :: split_inclusive_nl [] t else split_inclusive_nl (cur ++ [c]) t
  end.
(** [str::strip_suffix(char)] *)
Definition strip_suffix1 (c : N) (l : bytes) : option bytes :=
  match rev l with
  | x :: r => if x =? c then Some (rev r) else None
  | [] => None
  end.
(** [LinesMap]: strip one trailing "\n", and then (only then) one trailing "\r" *)
Definition lines_map (line : bytes) : bytes :=
  match strip_suffix1 10 line with
  | None => line
  | Some l => match strip_suffix1 13 l with None => l | Some l' => l' end
  end.
Fixpoint last_opt {A} (l : list A) : option A :=
  match l with [] => None | [x] => Some x | _ :: t => last_opt t end.
Definition lines_last (s : bytes) : option bytes :=
  match last_opt (split_inclusive_nl [] s) with Some p => Some (lines_map p) | None => None end.

(** the UTF-8 encodings of the characters with the Unicode property White_Space ([char::is_whitespace]):
    U+0009..U+000D, U+0020, U+0085, U+00A0, U+1680, U+2000..U+200A, U+2028, U+2029, U+202F, U+205F, U+3000.
    A Rust [str] is valid UTF-8, where an encoded character occurs as a byte substring iff it occurs. *)
Definition whitespace_encodings : list bytes :=
  [[9]; [10]; [11]; [12]; [13]; [32]; [194; 133]; [194; 160]; [225; 154; 128];
   [226; 128; 128]; [226; 128; 129]; [226; 128; 130]; [226; 128; 131]; [226; 128; 132]; [226; 128; 133];
   [226; 128; 134]; [226; 128; 135]; [226; 128; 136]; [226; 128; 137]; [226; 128; 138];
   [226; 128; 168]; [226; 128; 169]; [226; 128; 175]; [226; 129; 159]; [227; 128; 128]].
Fixpoint has_infix (s p : bytes) : bool :=
  starts_with s p || match s with [] => false | _ :: t => has_infix t p end.
Definition contains_whitespace (v : bytes) : bool := existsb (has_infix v) whitespace_encodings.

(** [format!("{:>width$}", x)] for an ASCII [x]: right-aligned in [width] columns, never truncated *)
Definition pad_right_aligned (width : N) (x : bytes) : bytes :=
  repeat 32 (N.to_nat (width - N.of_nat (List.length x))) ++ x.

(** ---- Arg accessors not in AotTree.v ---- *)
(** [Arg::get_possible_values]: empty unless [is_takes_value_set]; hidden values are NOT filtered *)
Definition get_possible_values (a : arg) : list pval :=
  if negb (a_takes_values a) then [] else match a_pvs a with Some l => l | None => [] end.

Definition dquote : bytes := [34].

(** ---- append_value_completion_and_help ---- *)
Definition nu_type (h : hint) : bytes :=
  match h with
  | HUnknown => lit "string"
  | HOther => lit "string"
  | HAnyPath => lit "path"
  | HFilePath => lit "path"
  | HDirPath => lit "path"
  | HExecutablePath => lit "path"
  | HCommandName => lit "string"
  | HCommandString => lit "string"
  | HCommandWithArguments => lit "string"
  | HUsername => lit "string"
  | HHostname => lit "string"
  | HUrl => lit "string"
  | HEmailAddress => lit "string"
  end.

(** [help] is [arg.get_help()] *)
Definition append_value_completion_and_help (a : arg) (help : option bytes) (name : bytes) (possible_values : list pval)
    (s : bytes) : bytes :=
  let s :=
    if a_takes_values a                (* get_num_args().map(|r| r.takes_values()).unwrap_or(false) *)
    then
      let s := s ++ lit ": " ++ nu_type (a_get_hint a) in
      if negb (is_nil possible_values)
      then s ++ lit "@" ++ dquote ++ lit "nu-complete " ++ name ++ lit " " ++ a_id a ++ dquote
      else s
    else s in
  let s :=
    match help with
    | Some h =>
        let indent := 30 in
        let width := match lines_last s with
                     | Some line => indent - N.of_nat (List.length line)       (* saturating_sub *)
                     | None => 0
                     end in
        s ++ pad_right_aligned width (lit " ") ++ lit "# " ++ nushell_single_line h
    | None => s
    end in
  s ++ lf.

(** ---- append_value_completion_defs ---- *)
Definition value_word (v : pval) : bytes :=
  let vname := pv_name v in
  if contains_whitespace vname
  then lit " " ++ dquote ++ [92] ++ dquote ++ vname ++ [92] ++ dquote ++ dquote     (* r#" "\"{vname}\"""# *)
  else lit " " ++ dquote ++ vname ++ dquote.                                         (* r#" "{vname}""# *)

Definition append_value_completion_defs (a : arg) (name : bytes) (s : bytes) : bytes :=
  let possible_values := get_possible_values a in
  if is_nil possible_values then s
  else
    let s := s ++ lit "  def " ++ dquote ++ lit "nu-complete " ++ name ++ lit " " ++ a_id a ++ dquote ++ lit " [] {" in
    let s := s ++ lf ++ lit "    [" in
    let s := fold_left (fun s v => s ++ value_word v) possible_values s in
    s ++ lit " ]" ++ lf ++ lit "  }" ++ lf ++ lf.

(** ---- append_argument ---- *)
(** the two call paths of a help text: the positional branch and the option branches below all go
    through [append_value_completion_and_help] *)
Definition append_argument (p : arg * adesc) (name : bytes) (s : bytes) : option bytes :=
  let a := fst p in
  let help := ad_help (snd p) in
  let possible_values := get_possible_values a in
  let finish := append_value_completion_and_help a help name possible_values in
  if a_is_positional a then
    let s :=
      match a_action a with
      | AAppend => s ++ lit "    ..." ++ a_id a                 (* rest arguments *)
      | _ => let s := s ++ lit "    " ++ a_id a in
             if negb (a_required a) then s ++ lit "?" else s
      end in
    Some (finish s)
  else
    match get_short_and_visible_aliases a with
    | Some shorts =>
        match get_long_and_visible_aliases a with
        | Some longs =>
            (* short options and long options; [first().expect(..)] twice *)
            match longs, shorts with
            | long0 :: longs', short0 :: shorts' =>
                let s := finish (s ++ lit "    --" ++ long0 ++ lit "(-" ++ short0 ++ lit ")") in
                let s := fold_left (fun s long => finish (s ++ lit "    --" ++ long)) longs' s in     (* skip(1) *)
                let s := fold_left (fun s short => finish (s ++ lit "    -" ++ short)) shorts' s in   (* skip(1) *)
                Some s
            | _, _ => None
            end
        | None =>
            (* short options only *)
            Some (fold_left (fun s short => finish (s ++ lit "    -" ++ short)) shorts s)
        end
    | None =>
        match get_long_and_visible_aliases a with
        | Some longs =>
            (* long options only *)
            Some (fold_left (fun s long => finish (s ++ lit "    --" ++ long)) longs s)
        | None => None                                          (* unreachable!("No short or long options found") *)
        end
    end.

(** ---- generate_completion ---- *)
Definition append_arguments (l : list (arg * adesc)) (name : bytes) (s : bytes) : option bytes :=
  fold_left (fun os p => match os with Some s => append_argument p name s | None => None end) l (Some s).

(** the part of [generate_completion] before the recursion; [None] = [expect("Failed to get bin name")] *)
Definition completion_head (c : cmd) (d : cdesc) (is_subcommand : bool) (s : bytes) : option bytes :=
  match c_bin c with
  | None => None
  | Some name =>
      let args := zipd ad0 (c_args c) (cd_args d) in
      let s := fold_left (fun s p => append_value_completion_defs (fst p) name s) args s in
      let s := match cd_about d with
               | Some about => s ++ lit "  # " ++ nushell_single_line about ++ lf
               | None => s
               end in
      let s := if is_subcommand
               then s ++ lit "  export extern " ++ dquote ++ name ++ dquote ++ lit " [" ++ lf
               else s ++ lit "  export extern " ++ name ++ lit " [" ++ lf in
      match append_arguments args name s with
      | Some s => Some (s ++ lit "  ]" ++ lf ++ lf)
      | None => None
      end
  end.

Fixpoint generate_completion (c : cmd) (d : cdesc) (is_subcommand : bool) (s : bytes) {struct c} : option bytes :=
  match c with
  | mkCmd _ _ _ subs _ _ _ _ _ =>
      match completion_head c d is_subcommand s with
      | None => None
      | Some s =>
          if is_subcommand
          then (fix go (l : list cmd) (dl : list cdesc) (s : bytes) {struct l} : option bytes :=
                  match l with
                  | [] => Some s
                  | sc :: t => match generate_completion sc (hd cd0 dl) true s with
                               | Some s => go t (tl dl) s
                               | None => None
                               end
                  end) subs (cd_subs d) s
          else Some s
      end
  end.

(** [for sub in cmd.get_subcommands() { generate_completion(&mut completions, sub, true); }] *)
Fixpoint generate_subcommands (l : list cmd) (dl : list cdesc) (s : bytes) : option bytes :=
  match l with
  | [] => Some s
  | sc :: t => match generate_completion sc (hd cd0 dl) true s with
               | Some s => generate_subcommands t (tl dl) s
               | None => None
               end
  end.

(** ---- Generator::generate ---- *)
Definition nushell_script (c : cmd) (d : cdesc) : option bytes :=
  let completions := lit "module completions {" ++ lf ++ lf in
  match generate_completion c d false completions with
  | None => None
  | Some completions =>
      match generate_subcommands (c_subs c) (cd_subs d) completions with
      | None => None
      | Some completions =>
          Some (completions ++ lit "}" ++ lf ++ lf ++ lit "export use completions *" ++ lf)
      end
  end.

(** [clap_complete::generate(Nushell, cmd, bin_name, buf)]: [set_bin_name], [build], the generator *)
Definition generate_nushell (c : cmd) (d : cdesc) (bin : bytes) : option bytes :=
  match build (set_bin_name c bin) with
  | Some b => nushell_script b (dbuild (set_bin_name c bin) d)
  | None => None
  end.
