(** C16: [Command::build] makes the bin names [linked] -- every subcommand's bin name is its parent's, a blank,
    its own name ([_build_bin_names_internal]) -- whenever no subcommand of the tree the user wrote carries a bin
    name of its own ([nb]; a [Command] has none before it is built) and the root's bin name is not empty.
    [linked] was a hypothesis of [C16_bash_table] and of the path-keyed generator theorems (round-1 notes:
    "not proved (would be next)"). *)
From ClapModel Require Import Base.Bytes Complete.AotTree Complete.AotProofs Complete.BashProofs Complete.BuildTexts.
From Coq Require Import String.
Open Scope N_scope.
Open Scope list_scope.

(** no subcommand, at any level below [c], carries a bin name *)
Fixpoint nb (c : cmd) : bool :=
  match c with
  | mkCmd _ _ _ subs _ _ _ _ _ =>
      (fix go (l : list cmd) : bool :=
         match l with [] => true | s :: l' => (negb (is_some (c_bin s)) && nb s) && go l' end) subs
  end.
Definition nb1 (s : cmd) : bool := negb (is_some (c_bin s)) && nb s.

Lemma nb_unfold c : nb c = forallb nb1 (c_subs c).
Proof.
  destruct c as [n al args subs bin h v s g]. cbn [nb c_subs].
  induction subs as [|x t IH]; [reflexivity|]. cbn [forallb]. rewrite <- IH. reflexivity.
Qed.

Lemma nb1_iff s : nb1 s = true <-> c_bin s = None /\ nb s = true.
Proof.
  unfold nb1. rewrite andb_true_iff. destruct (c_bin s); cbn; split; intros [H1 H2]; auto; discriminate.
Qed.

Lemma nb_iff c : nb c = true <-> forall sc, In sc (c_subs c) -> c_bin sc = None /\ nb sc = true.
Proof.
  rewrite nb_unfold, forallb_forall. split; intros H sc Hsc; apply nb1_iff; apply H; exact Hsc.
Qed.

Lemma bin_with_version c v : c_bin (with_version c v) = c_bin c. Proof. destruct c; reflexivity. Qed.
Lemma nb_with_sets c s g : nb (with_sets c s g) = nb c. Proof. destruct c; reflexivity. Qed.
Lemma nb_with_version c v : nb (with_version c v) = nb c. Proof. destruct c; reflexivity. Qed.
Lemma nb_with_args c l : nb (with_args c l) = nb c. Proof. destruct c; reflexivity. Qed.
Lemma nb_with_bin c b : nb (with_bin c b) = nb c. Proof. destruct c; reflexivity. Qed.
Lemma nb_with_subs c l : nb (with_subs c l) = forallb nb1 l.
Proof. rewrite nb_unfold. destruct c; reflexivity. Qed.

Lemma nb1_propagate p sc : nb1 (propagate_subcommand p sc) = nb1 sc.
Proof.
  unfold nb1, propagate_subcommand. rewrite bin_with_sets, nb_with_sets.
  destruct (s_pver (c_set p) && c_version p); rewrite ?bin_with_version, ?nb_with_version; reflexivity.
Qed.

Lemma forallb_map' {A B} (f : A -> B) (p : B -> bool) l : forallb p (map f l) = forallb (fun a => p (f a)) l.
Proof. induction l as [|a l IH]; [reflexivity|]. cbn [map forallb]. rewrite IH. reflexivity. Qed.
Lemma forallb_ext_in {A} (f g : A -> bool) l : (forall a, In a l -> f a = g a) -> forallb f l = forallb g l.
Proof.
  induction l as [|a l IH]; intros H; [reflexivity|]. cbn [forallb].
  rewrite (H a (or_introl eq_refl)), IH; [reflexivity|]. intros x Hx. apply H. right. exact Hx.
Qed.
Lemma forallb_const_true {A} (f : A -> bool) l : (forall a, In a l -> f a = true) -> forallb f l = true.
Proof. intros H. apply forallb_forall. exact H. Qed.

Lemma nb1_copy : forall c, nb1 (copy_subtree_for_help c) = true.
Proof.
  induction c as [n al args subs bin h v s g IH] using cmd_ind'.
  cbn [copy_subtree_for_help]. unfold nb1. cbn [c_bin is_some negb andb]. rewrite nb_unfold. cbn [c_subs].
  rewrite forallb_map'. apply forallb_const_true. rewrite Forall_forall in IH. exact IH.
Qed.

Lemma nb1_help_subcommand p : nb1 (help_subcommand p) = true.
Proof.
  unfold help_subcommand, nb1. rewrite bin_with_sets, nb_with_sets, bin_with_version, nb_with_version.
  fold (nb1 (propagate_subcommand p
    (mkCmd (lit "help") [] [] (map copy_subtree_for_help (c_subs p) ++ [with_sets (cmd_new (lit "help")) (mkSets true true false false) sets0])
           None false false (mkSets false false true false) (mkSets false false true false)))).
  rewrite nb1_propagate. unfold nb1. cbn [c_bin is_some negb andb]. rewrite nb_unfold. cbn [c_subs].
  rewrite forallb_app, forallb_map'. rewrite (forallb_const_true _ _ (fun a _ => nb1_copy a)). reflexivity.
Qed.

Lemma nb_bs_settings c : nb (bs_settings c) = nb c.
Proof. unfold bs_settings. apply nb_with_sets. Qed.

Lemma nb_bs_propagate c : nb (bs_propagate c) = nb c.
Proof.
  unfold bs_propagate. rewrite nb_with_subs, forallb_map', nb_unfold.
  apply forallb_ext_in. intros a _. apply nb1_propagate.
Qed.

Lemma nb_bs_help_version c : nb (bs_help_version c) = nb c.
Proof.
  unfold bs_help_version.
  set (c1 := if negb (is_set s_dhf c) then with_args c (c_args c ++ [help_arg]) else c).
  assert (H1 : nb c1 = nb c) by (unfold c1; destruct (negb (is_set s_dhf c)); [apply nb_with_args|reflexivity]).
  set (c2 := if negb (is_disable_version_flag_set c1) then with_args c1 (c_args c1 ++ [version_arg]) else c1).
  assert (H2 : nb c2 = nb c)
    by (unfold c2; destruct (negb (is_disable_version_flag_set c1)); [rewrite nb_with_args|]; exact H1).
  destruct (negb (is_set s_dhs c2)); [|exact H2].
  rewrite nb_with_subs, forallb_app. cbn [forallb]. rewrite nb1_help_subcommand, <- nb_unfold, H2.
  destruct (nb c); reflexivity.
Qed.

Lemma nb1_fold_globals gl : forall sc,
  nb1 (fold_left (fun sc a => if is_some (find_arg sc (a_id a)) then sc else with_args sc (c_args sc ++ [a])) gl sc) = nb1 sc.
Proof.
  induction gl as [|a gl IH]; intros sc; [reflexivity|]. cbn [fold_left]. rewrite IH.
  destruct (is_some (find_arg sc (a_id a))); [reflexivity|]. unfold nb1. rewrite bin_with_args, nb_with_args. reflexivity.
Qed.

Lemma nb_bs_globals c : nb (bs_globals c) = nb c.
Proof.
  unfold bs_globals. rewrite nb_with_subs, forallb_map', nb_unfold.
  apply forallb_ext_in. intros sc _.
  destruct (beq (c_name sc) (lit "help") && negb (is_set s_dhs c)); [reflexivity|apply nb1_fold_globals].
Qed.

Lemma nb_build_self c : nb (build_self c) = nb c.
Proof. unfold build_self. rewrite nb_bs_globals, nb_bs_help_version, nb_bs_propagate, nb_bs_settings. reflexivity. Qed.

Lemma nb_build_recursive : forall fuel c b,
  build_recursive fuel c = Some b -> nb c = true -> nb b = true /\ c_bin b = c_bin c.
Proof.
  induction fuel as [|f IH]; intros c b H Hc; [discriminate|].
  cbn [build_recursive] in H.
  destruct (map_opt (build_recursive f) (c_subs (build_self c))) as [subs|] eqn:E; [|discriminate].
  inversion H; subst b; clear H. split; [|rewrite bin_with_subs; apply bin_build_self].
  rewrite nb_with_subs. assert (Hs : forallb nb1 (c_subs (build_self c)) = true) by (rewrite <- nb_unfold, nb_build_self; exact Hc).
  apply map_opt_Forall2 in E. revert subs E Hs. generalize (c_subs (build_self c)) as l.
  induction l as [|x l IHl]; intros subs E Hs.
  - inversion E; subst. reflexivity.
  - inversion E as [|x' y l' r Hxy Hrest]; subst. cbn [forallb] in Hs |- *.
    apply andb_true_iff in Hs. destruct Hs as [Hx Hl]. apply nb1_iff in Hx. destruct Hx as [Hxb Hxn].
    destruct (IH x y Hxy Hxn) as [Hyn Hyb]. rewrite (IHl r Hrest Hl), andb_true_r.
    apply nb1_iff. split; [rewrite Hyb; exact Hxb|exact Hyn].
Qed.

(** ---- [_build_bin_names_internal] on a tree without bin names below the root ---- *)
Lemma assign_bins_name inh c : c_name (assign_bins inh c) = c_name c.
Proof. destruct c; reflexivity. Qed.

Lemma assign_bins_linked : forall c inh pb,
  nb c = true -> match c_bin c with Some b => Some b | None => inh end = Some pb -> pb <> [] ->
  linked (assign_bins inh c).
Proof.
  induction c as [n al args subs bin h v s g IH] using cmd_ind'. intros inh pb Hnb Hpb Hne.
  set (c := mkCmd n al args subs bin h v s g) in *. rewrite Forall_forall in IH.
  assert (Hsubs : forall sc, In sc (c_subs (assign_bins inh c)) ->
            exists x, In x subs /\ sc = assign_bins (Some (pb ++ [32] ++ c_name x)) x).
  { intros sc Hsc. rewrite assign_bins_subs in Hsc. apply in_map_iff in Hsc. destruct Hsc as (x & <- & Hx).
    exists x. split; [exact Hx|]. rewrite Hpb. destruct pb; [congruence|reflexivity]. }
  assert (Hchild : forall x, In x subs ->
            c_bin (assign_bins (Some (pb ++ [32] ++ c_name x)) x) = Some (pb ++ [32] ++ c_name x) /\
            linked (assign_bins (Some (pb ++ [32] ++ c_name x)) x)).
  { intros x Hx. destruct (proj1 (nb_iff c) Hnb x Hx) as [Hxb Hxn]. split.
    - rewrite assign_bins_bin, Hxb. reflexivity.
    - apply (IH x Hx _ (pb ++ [32] ++ c_name x) Hxn); [rewrite Hxb; reflexivity|].
      destruct pb; [congruence|discriminate]. }
  intros p sc Hp Hsc. destruct Hp as [->|Hd].
  - destruct (Hsubs sc Hsc) as (x & Hx & ->). exists pb. split; [rewrite assign_bins_bin; exact Hpb|].
    rewrite assign_bins_name. apply (Hchild x Hx).
  - inversion Hd as [c0 sc0 Hin|c0 sc0 m Hin Hd']; subst.
    + destruct (Hsubs p Hin) as (x & Hx & ->). destruct (Hchild x Hx) as [_ Hl].
      apply (Hl _ sc (or_introl eq_refl) Hsc).
    + destruct (Hsubs sc0 Hin) as (x & Hx & ->). destruct (Hchild x Hx) as [_ Hl].
      apply (Hl p sc (or_intror Hd') Hsc).
Qed.

(** [generate] = [set_bin_name] + [build]: the built tree is [linked] *)
Theorem build_linked c bin b :
  nb c = true -> bin <> [] -> build (set_bin_name c bin) = Some b -> c_bin b = Some bin /\ linked b.
Proof.
  intros Hnb Hne Hb. split; [exact (build_root_bin c bin b Hb)|].
  unfold build in Hb. destruct (build_recursive (build_fuel (set_bin_name c bin)) (set_bin_name c bin)) as [c'|] eqn:E; [|discriminate].
  inversion Hb; subst b. unfold build_bin_names.
  assert (Hn : nb (set_bin_name c bin) = true) by (unfold set_bin_name; rewrite nb_with_bin; exact Hnb).
  destruct (nb_build_recursive _ _ _ E Hn) as [Hn' Hb'].
  apply (assign_bins_linked c' None bin Hn'); [|exact Hne].
  rewrite Hb'. destruct c; reflexivity.
Qed.

(** a user tree as a driver reads it: no bin names anywhere *)
Example build_linked_nonvacuous :
  nb AotProofs.example_tree = true /\ exists b, build (set_bin_name AotProofs.example_tree [112]) = Some b /\ linked b /\ c_subs b <> [].
Proof.
  split; [reflexivity|]. destruct build_example as (b & Hb & Hs). exists b. split; [exact Hb|]. split; [|exact Hs].
  apply (build_linked example_tree [112] b eq_refl); [discriminate|exact Hb].
Qed.
