(** C16 for the nushell generator model ([NushellModel.v]).

    [NushellModel.v] is a transcription that threads the string written so far through every function, like
    the Rust code.  Here: (A) [str::lines().last()] of a string that ends in a newline followed by a non-empty
    [cur] only depends on [cur]; (B) the SPECIFICATION of the module as a list of pieces -- [NFx b] text the
    generator writes itself (names, fixed syntax, the padding, which is computed from names only), [NCm t] a
    description text written through [single_line_styled_str] after "# " -- and the theorem that the
    transcription computes it and reaches no panic site whenever every node has a bin name
    ([nushell_script_spec]); (C) coverage: for EVERY path of the tree, at every depth, the module contains
    the block of the addressed node (one [export extern] per subcommand path) and in it a line for every
    short, long and visible alias the accessors return, the [nu-complete] definition with every possible value. *)
From ClapModel Require Import Base.Bytes Complete.AotTree Complete.AotProofs Complete.BashProofs.
From ClapModel Require Import Complete.FishModel Complete.FishProofs Complete.NushellModel Escape.EscapeModel.
From Coq Require Import String Lia.
Open Scope N_scope.
Open Scope list_scope.

(** ---- (A) str::lines().last() ---- *)
Definition ends_nl (s : bytes) : Prop := s = [] \/ exists s', s = s' ++ [10].

Lemma ends_nl_nil : ends_nl [].
Proof. left. reflexivity. Qed.
Lemma ends_nl_snoc s : ends_nl (s ++ [10]).
Proof. right. exists s. reflexivity. Qed.
Lemma ends_nl_app a b : ends_nl a -> ends_nl b -> ends_nl (a ++ b).
Proof.
  intros Ha [->|[b' ->]]; [rewrite app_nil_r; exact Ha|].
  right. exists (a ++ b'). rewrite app_assoc. reflexivity.
Qed.
Lemma ends_nl_app_r a b : (exists b', b = b' ++ [10]) -> ends_nl (a ++ b).
Proof. intros [b' ->]. right. exists (a ++ b'). rewrite app_assoc. reflexivity. Qed.

Lemma si_app_nl a : forall cur b,
  split_inclusive_nl cur (a ++ 10 :: b) = split_inclusive_nl cur (a ++ [10]) ++ split_inclusive_nl [] b.
Proof.
  induction a as [|c a IH]; intros cur b.
  - cbn [app split_inclusive_nl]. rewrite N.eqb_refl. reflexivity.
  - cbn [app split_inclusive_nl]. destruct (c =? 10).
    + rewrite IH. reflexivity.
    + apply IH.
Qed.

Lemma si_nonempty b : forall cur, b <> [] -> split_inclusive_nl cur b <> [].
Proof.
  induction b as [|c b IH]; intros cur H; [congruence|].
  cbn [split_inclusive_nl]. destruct (c =? 10); [discriminate|].
  destruct b as [|c' b'].
  - cbn [split_inclusive_nl]. destruct cur; discriminate.
  - apply IH. discriminate.
Qed.

Lemma last_opt_app {A} (l m : list A) : m <> [] -> last_opt (l ++ m) = last_opt m.
Proof.
  intros Hm. induction l as [|x l IH]; [reflexivity|].
  cbn [app last_opt]. destruct (l ++ m) eqn:E.
  - destruct l; [cbn in E; congruence|discriminate].
  - exact IH.
Qed.

Theorem lines_last_app s cur : ends_nl s -> cur <> [] -> lines_last (s ++ cur) = lines_last cur.
Proof.
  intros [->|[s' ->]] Hc; [reflexivity|].
  unfold lines_last. rewrite <- app_assoc. cbn [app]. rewrite si_app_nl.
  rewrite last_opt_app by (apply si_nonempty; exact Hc). reflexivity.
Qed.

(** ---- (B) the module as a list of pieces ---- *)
Inductive npiece := NFx (b : bytes) | NCm (t : bytes).
Definition nrender1 (p : npiece) : bytes :=
  match p with
  | NFx b => b
  | NCm t => nushell_single_line t          (* single_line_styled_str(text), after "# " *)
  end.
Definition nrender (l : list npiece) : bytes := flat_map nrender1 l.

Lemma nrender_app a b : nrender (a ++ b) = nrender a ++ nrender b.
Proof. apply flat_map_app. Qed.
Lemma nrender_cons p l : nrender (p :: l) = nrender1 p ++ nrender l.
Proof. reflexivity. Qed.

(** what [append_value_completion_and_help] appends to the line [start] *)
Definition complete_ref (a : arg) (name : bytes) : bytes :=
  lit "@" ++ dquote ++ lit "nu-complete " ++ name ++ lit " " ++ a_id a ++ dquote.
Definition type_suffix (a : arg) (name : bytes) : bytes :=
  if a_takes_values a
  then lit ": " ++ nu_type (a_get_hint a)
       ++ (if negb (is_nil (get_possible_values a)) then complete_ref a name else [])
  else [].
Definition help_width (cur : bytes) : N :=
  match lines_last cur with
  | Some line => 30 - N.of_nat (List.length line)
  | None => 0
  end.
Definition help_pieces (cur : bytes) (help : option bytes) : list npiece :=
  match help with
  | Some h => [NFx (pad_right_aligned (help_width cur) (lit " ") ++ lit "# "); NCm h]
  | None => []
  end.
(** one line of the [export extern] block; [start] is what [append_argument] pushes before the call *)
Definition arg_line (a : arg) (help : option bytes) (name start : bytes) : list npiece :=
  NFx (start ++ type_suffix a name) :: help_pieces (start ++ type_suffix a name) help ++ [NFx lf].

Lemma avch_eq a help name s :
  append_value_completion_and_help a help name (get_possible_values a) s =
  (s ++ type_suffix a name)
  ++ match help with
     | Some h => pad_right_aligned (match lines_last (s ++ type_suffix a name) with
                                    | Some line => 30 - N.of_nat (List.length line) | None => 0 end) (lit " ")
                 ++ lit "# " ++ nushell_single_line h
     | None => []
     end ++ lf.
Proof.
  unfold append_value_completion_and_help, type_suffix, complete_ref.
  destruct (a_takes_values a); [destruct (negb (is_nil (get_possible_values a)))|];
    destruct help as [h|]; cbv zeta; rewrite ?app_nil_r, <- ?app_assoc; reflexivity.
Qed.

Lemma avch_spec a help name s start : ends_nl s -> start <> [] ->
  append_value_completion_and_help a help name (get_possible_values a) (s ++ start) =
  s ++ nrender (arg_line a help name start).
Proof.
  intros Hs Hst. rewrite avch_eq. unfold arg_line, help_pieces, help_width.
  assert (Hcur : start ++ type_suffix a name <> []) by (destruct start; [congruence|discriminate]).
  rewrite <- (app_assoc s start), (lines_last_app s _ Hs Hcur).
  destruct help as [h|]; rewrite nrender_cons; cbn [nrender1 app nrender flat_map];
    rewrite ?app_nil_r, <- ?app_assoc; reflexivity.
Qed.

Lemma arg_line_ends a help name start : exists b, nrender (arg_line a help name start) = b ++ [10].
Proof.
  unfold arg_line. rewrite app_comm_cons, nrender_app. eexists. cbn [nrender flat_map nrender1 lf]. rewrite app_nil_r. reflexivity.
Qed.

(** the starts of the lines of one argument *)
Definition pos_start (a : arg) : bytes :=
  match a_action a with
  | AAppend => lit "    ..." ++ a_id a
  | _ => lit "    " ++ a_id a ++ (if negb (a_required a) then lit "?" else [])
  end.
Definition long_start (l : bytes) : bytes := lit "    --" ++ l.
Definition short_start (s : bytes) : bytes := lit "    -" ++ s.
Definition both_start (l s : bytes) : bytes := lit "    --" ++ l ++ lit "(-" ++ s ++ lit ")".
Definition opt_starts (a : arg) : list bytes :=
  match get_short_and_visible_aliases a, get_long_and_visible_aliases a with
  | Some shorts, Some longs =>
      match longs, shorts with
      | l0 :: ls, s0 :: ss => both_start l0 s0 :: map long_start ls ++ map short_start ss
      | _, _ => []
      end
  | Some shorts, None => map short_start shorts
  | None, Some longs => map long_start longs
  | None, None => []
  end.
Definition arg_starts (a : arg) : list bytes := if a_is_positional a then [pos_start a] else opt_starts a.
Definition arg_pieces (p : arg * adesc) (name : bytes) : list npiece :=
  flat_map (arg_line (fst p) (ad_help (snd p)) name) (arg_starts (fst p)).

Lemma lines_ends a help name l : ends_nl (nrender (flat_map (arg_line a help name) l)).
Proof.
  induction l as [|x l IH]; [apply ends_nl_nil|].
  cbn [flat_map]. rewrite nrender_app. apply ends_nl_app; [|exact IH].
  destruct (arg_line_ends a help name x) as [b ->]. apply ends_nl_snoc.
Qed.

Lemma fold_finish a help name (pre : bytes) l : pre <> [] -> forall s, ends_nl s ->
  fold_left (fun s x => append_value_completion_and_help a help name (get_possible_values a) (s ++ pre ++ x)) l s =
  s ++ nrender (flat_map (arg_line a help name) (map (fun x => pre ++ x) l)).
Proof.
  intros Hpre. assert (Hmk : forall x, pre ++ x <> []) by (intros x; destruct pre; [congruence|discriminate]).
  induction l as [|x l IH]; intros s Hs.
  - cbn. rewrite app_nil_r. reflexivity.
  - cbn [fold_left map flat_map]. rewrite (avch_spec a help name s (pre ++ x) Hs (Hmk x)).
    rewrite IH.
    + rewrite nrender_app, app_assoc. reflexivity.
    + apply ends_nl_app; [exact Hs|]. destruct (arg_line_ends a help name (pre ++ x)) as [b ->]. apply ends_nl_snoc.
Qed.

Lemma long_start_ne l : long_start l <> []. Proof. discriminate. Qed.
Lemma short_start_ne s : short_start s <> []. Proof. discriminate. Qed.

Lemma named_has_spelling a : a_is_positional a = false ->
  get_short_and_visible_aliases a <> None \/ get_long_and_visible_aliases a <> None.
Proof.
  unfold a_is_positional, get_short_and_visible_aliases, get_long_and_visible_aliases.
  destruct (a_long a), (a_short a); cbn; intros H; [left|right|left|]; discriminate.
Qed.

(** [append_argument] reaches neither [expect] nor the [unreachable!] and writes [arg_pieces] *)
Theorem append_argument_spec p name s : ends_nl s ->
  append_argument p name s = Some (s ++ nrender (arg_pieces p name)).
Proof.
  intros Hs. destruct p as [a ad]. unfold append_argument, arg_pieces, arg_starts. cbn [fst snd].
  destruct (a_is_positional a) eqn:Epos.
  - cbn [flat_map]. rewrite app_nil_r. f_equal. unfold pos_start.
    destruct (a_action a); try destruct (negb (a_required a));
      rewrite <- ?app_assoc, ?app_nil_r;
      try (rewrite <- (avch_spec a (ad_help ad) name s _ Hs) by discriminate; rewrite <- ?app_assoc; reflexivity).
  - unfold opt_starts.
    destruct (get_short_and_visible_aliases a) as [shorts|] eqn:Es; destruct (get_long_and_visible_aliases a) as [longs|] eqn:El.
    + assert (exists l0 ls, longs = l0 :: ls) as (l0 & ls & ->).
      { unfold get_long_and_visible_aliases in El. destruct (a_long a); inversion El. eauto. }
      assert (exists s0 ss, shorts = s0 :: ss) as (s0 & ss & ->).
      { unfold get_short_and_visible_aliases in Es. destruct (a_short a); inversion Es. eauto. }
      f_equal.
      assert (H0 : append_value_completion_and_help a (ad_help ad) name (get_possible_values a)
                     (s ++ lit "    --" ++ l0 ++ lit "(-" ++ s0 ++ lit ")") =
                   s ++ nrender (arg_line a (ad_help ad) name (both_start l0 s0))).
      { apply (avch_spec a (ad_help ad) name s (both_start l0 s0) Hs). discriminate. }
      rewrite H0.
      assert (E1 : ends_nl (s ++ nrender (arg_line a (ad_help ad) name (both_start l0 s0)))).
      { apply ends_nl_app; [exact Hs|]. destruct (arg_line_ends a (ad_help ad) name (both_start l0 s0)) as [b ->]. apply ends_nl_snoc. }
      rewrite (fold_finish a (ad_help ad) name (lit "    --") ls ltac:(discriminate) _ E1).
      assert (E2 : ends_nl ((s ++ nrender (arg_line a (ad_help ad) name (both_start l0 s0))) ++
                            nrender (flat_map (arg_line a (ad_help ad) name) (map (fun x => lit "    --" ++ x) ls)))).
      { apply ends_nl_app; [exact E1|apply lines_ends]. }
      rewrite (fold_finish a (ad_help ad) name (lit "    -") ss ltac:(discriminate) _ E2).
      cbn [flat_map]. rewrite flat_map_app, !nrender_app, <- !app_assoc. reflexivity.
    + f_equal. apply (fold_finish a (ad_help ad) name (lit "    -") shorts ltac:(discriminate) s Hs).
    + f_equal. apply (fold_finish a (ad_help ad) name (lit "    --") longs ltac:(discriminate) s Hs).
    + exfalso. destruct (named_has_spelling a Epos) as [H|H]; congruence.
Qed.

Lemma arg_pieces_ends p name : ends_nl (nrender (arg_pieces p name)).
Proof. apply lines_ends. Qed.

Lemma append_arguments_spec name l : forall s, ends_nl s ->
  append_arguments l name s = Some (s ++ nrender (flat_map (fun p => arg_pieces p name) l)).
Proof.
  unfold append_arguments. induction l as [|p l IH]; intros s Hs.
  - cbn. rewrite app_nil_r. reflexivity.
  - cbn [fold_left flat_map]. rewrite (append_argument_spec p name s Hs). rewrite IH.
    + rewrite nrender_app, app_assoc. reflexivity.
    + apply ends_nl_app; [exact Hs|apply arg_pieces_ends].
Qed.

(** the [nu-complete] definition of one argument *)
Definition defs_bytes (a : arg) (name : bytes) : bytes :=
  if is_nil (get_possible_values a) then []
  else lit "  def " ++ dquote ++ lit "nu-complete " ++ name ++ lit " " ++ a_id a ++ dquote ++ lit " [] {" ++ lf
       ++ lit "    [" ++ flat_map value_word (get_possible_values a) ++ lit " ]" ++ lf ++ lit "  }" ++ lf ++ lf.

Lemma fold_words l : forall s, fold_left (fun s v => s ++ value_word v) l s = s ++ flat_map value_word l.
Proof.
  induction l as [|v l IH]; intros s; [cbn; rewrite app_nil_r; reflexivity|].
  cbn [fold_left flat_map]. rewrite IH, app_assoc. reflexivity.
Qed.

Lemma defs_spec a name s : append_value_completion_defs a name s = s ++ defs_bytes a name.
Proof.
  unfold append_value_completion_defs, defs_bytes. destruct (is_nil (get_possible_values a)).
  - rewrite app_nil_r. reflexivity.
  - cbv zeta. rewrite fold_words, <- !app_assoc. reflexivity.
Qed.

Lemma fold_defs name (l : list (arg * adesc)) : forall s,
  fold_left (fun s p => append_value_completion_defs (fst p) name s) l s =
  s ++ flat_map (fun p => defs_bytes (fst p) name) l.
Proof.
  induction l as [|p l IH]; intros s; [cbn; rewrite app_nil_r; reflexivity|].
  cbn [fold_left flat_map]. rewrite IH, defs_spec, app_assoc. reflexivity.
Qed.

Definition about_pieces (about : option bytes) : list npiece :=
  match about with
  | Some t => [NFx (lit "  # "); NCm t; NFx lf]
  | None => []
  end.
Definition extern_line (is_subcommand : bool) (name : bytes) : bytes :=
  if is_subcommand
  then lit "  export extern " ++ dquote ++ name ++ dquote ++ lit " [" ++ lf
  else lit "  export extern " ++ name ++ lit " [" ++ lf.
Definition close_line : bytes := lit "  ]" ++ lf ++ lf.

(** the block of one command: definitions, about comment, [export extern], one line per spelling, "]" *)
Definition node_pieces (name : bytes) (c : cmd) (d : cdesc) (is_subcommand : bool) : list npiece :=
  let args := zipd ad0 (c_args c) (cd_args d) in
  NFx (flat_map (fun p => defs_bytes (fst p) name) args)
  :: about_pieces (cd_about d)
  ++ NFx (extern_line is_subcommand name)
  :: flat_map (fun p => arg_pieces p name) args
  ++ [NFx close_line].

Lemma node_pieces_ends name c d sub : exists b, nrender (node_pieces name c d sub) = b ++ [10].
Proof.
  unfold node_pieces. cbv zeta. rewrite app_comm_cons, nrender_app, app_comm_cons, nrender_app.
  cbn [nrender flat_map nrender1]. rewrite app_nil_r.
  change close_line with ((lit "  ]" ++ lf) ++ [10]). rewrite !app_assoc. eexists. reflexivity.
Qed.

Theorem completion_head_spec c d sub s name : c_bin c = Some name -> ends_nl s ->
  completion_head c d sub s = Some (s ++ nrender (node_pieces name c d sub)).
Proof.
  intros Hb Hs. unfold completion_head. rewrite Hb. cbv zeta. rewrite fold_defs.
  set (args := zipd ad0 (c_args c) (cd_args d)).
  set (s1 := s ++ flat_map (fun p => defs_bytes (fst p) name) args).
  assert (E : (if sub
               then match cd_about d with Some about => s1 ++ lit "  # " ++ nushell_single_line about ++ lf | None => s1 end
                    ++ lit "  export extern " ++ dquote ++ name ++ dquote ++ lit " [" ++ lf
               else match cd_about d with Some about => s1 ++ lit "  # " ++ nushell_single_line about ++ lf | None => s1 end
                    ++ lit "  export extern " ++ name ++ lit " [" ++ lf) =
              s1 ++ nrender (about_pieces (cd_about d)) ++ extern_line sub name).
  { unfold extern_line, about_pieces. destruct sub, (cd_about d);
      cbn [nrender flat_map nrender1]; rewrite ?app_nil_r, <- ?app_assoc; reflexivity. }
  rewrite E. rewrite append_arguments_spec.
  - f_equal. unfold node_pieces. fold args. unfold s1.
    rewrite nrender_cons, nrender_app, nrender_cons, nrender_app. cbn [nrender1].
    cbn [nrender flat_map nrender1]. rewrite ?app_nil_r, <- !app_assoc. reflexivity.
  - rewrite app_assoc. apply ends_nl_app_r. unfold extern_line.
    destruct sub; eexists; rewrite !app_assoc; reflexivity.
Qed.

(** the whole tree below (and including) a subcommand: [generate_completion(.., sub, true)] *)
Definition bin_of (c : cmd) : bytes := match c_bin c with Some b => b | None => [] end.
Fixpoint tree_pieces (c : cmd) (d : cdesc) {struct c} : list npiece :=
  match c with
  | mkCmd _ _ _ subs _ _ _ _ _ =>
      node_pieces (bin_of c) c d true
      ++ (fix go (l : list cmd) (dl : list cdesc) {struct l} : list npiece :=
            match l with
            | [] => []
            | sc :: t => tree_pieces sc (hd cd0 dl) ++ go t (tl dl)
            end) subs (cd_subs d)
  end.
Definition subs_pieces (c : cmd) (d : cdesc) : list npiece :=
  flat_map (fun q : cmd * cdesc => tree_pieces (fst q) (snd q)) (zipd cd0 (c_subs c) (cd_subs d)).

Lemma tree_pieces_unfold c d : tree_pieces c d = node_pieces (bin_of c) c d true ++ subs_pieces c d.
Proof.
  destruct c as [n al args subs bin h v s g]. unfold subs_pieces. cbn [tree_pieces c_subs]. f_equal.
  generalize (cd_subs d) as dl. induction subs as [|sc t IH]; intros dl; [reflexivity|].
  cbn [zipd flat_map fst snd]. rewrite IH. reflexivity.
Qed.

Definition module_open : bytes := lit "module completions {" ++ lf ++ lf.
Definition module_close : bytes := lit "}" ++ lf ++ lf ++ lit "export use completions *" ++ lf.
(** the module: the root's block (bare name), then every subcommand tree in pre-order *)
Definition nu_pieces (c : cmd) (d : cdesc) : list npiece :=
  NFx module_open :: node_pieces (bin_of c) c d false ++ subs_pieces c d ++ [NFx module_close].

Lemma generate_completion_unfold c d sub s :
  generate_completion c d sub s =
  match completion_head c d sub s with
  | None => None
  | Some s => if sub then generate_subcommands (c_subs c) (cd_subs d) s else Some s
  end.
Proof.
  destruct c as [n al args subs bin h v st g]. cbn [generate_completion c_subs].
  destruct (completion_head (mkCmd n al args subs bin h v st g) d sub s) as [s1|]; [|reflexivity].
  destruct sub; [|reflexivity].
  generalize (cd_subs d) as dl. revert s1. induction subs as [|sc t IH]; intros s1 dl; [reflexivity|].
  cbn [generate_subcommands]. destruct (generate_completion sc (hd cd0 dl) true s1) as [s2|]; [|reflexivity].
  apply IH.
Qed.

Lemma tree_pieces_ends : forall c d, exists b, nrender (tree_pieces c d) = b ++ [10].
Proof.
  induction c as [n al args subs bin h v st g IH] using cmd_ind'. intros d.
  set (c := mkCmd n al args subs bin h v st g) in *.
  rewrite tree_pieces_unfold, nrender_app. unfold subs_pieces.
  assert (G : forall (l : list (cmd * cdesc)) x, (forall q, In q l -> In (fst q) subs) ->
            exists b, x ++ [10] ++ nrender (flat_map (fun q : cmd * cdesc => tree_pieces (fst q) (snd q)) l) = b ++ [10]).
  { induction l as [|q l IHl]; intros x Hl.
    - exists x. cbn. reflexivity.
    - cbn [flat_map]. rewrite nrender_app.
      assert (Hq : In (fst q) subs) by (apply Hl; left; reflexivity).
      rewrite Forall_forall in IH. destruct (IH _ Hq (snd q)) as [b1 ->].
      destruct (IHl (x ++ [10] ++ b1)) as [b2 E]; [intros q' Hq'; apply Hl; right; exact Hq'|].
      exists b2. rewrite <- E, <- !app_assoc. reflexivity. }
  destruct (node_pieces_ends (bin_of c) c d true) as [b0 ->].
  destruct (G (zipd cd0 (c_subs c) (cd_subs d)) b0) as [b E].
  { intros q Hq. apply (zipd_in_fst cd0 (c_subs c) (cd_subs d) q Hq). }
  exists b. rewrite <- E, <- app_assoc. reflexivity.
Qed.

Lemma bins_built_sub c sc : bins_built c -> In sc (c_subs c) -> c_bin sc <> None /\ bins_built sc.
Proof.
  intros Hb Hin. split; [apply Hb, desc_child, Hin|].
  intros n Hn. apply Hb. eapply desc_step; eassumption.
Qed.

Lemma generate_subcommands_spec (l : list cmd) :
  (forall sc, In sc l -> forall d s, ends_nl s -> generate_completion sc d true s = Some (s ++ nrender (tree_pieces sc d))) ->
  forall dl s, ends_nl s ->
    generate_subcommands l dl s =
    Some (s ++ nrender (flat_map (fun q : cmd * cdesc => tree_pieces (fst q) (snd q)) (zipd cd0 l dl))).
Proof.
  induction l as [|sc t IH]; intros H dl s Hs.
  - cbn. rewrite app_nil_r. reflexivity.
  - cbn [generate_subcommands zipd flat_map fst snd]. rewrite (H sc (or_introl eq_refl) _ s Hs).
    rewrite IH.
    + rewrite nrender_app, app_assoc. reflexivity.
    + intros x Hx. apply H. right. exact Hx.
    + destruct (tree_pieces_ends sc (hd cd0 dl)) as [b ->]. apply ends_nl_app_r. eexists. reflexivity.
Qed.

Theorem generate_completion_spec : forall c d s,
  c_bin c <> None -> bins_built c -> ends_nl s ->
  generate_completion c d true s = Some (s ++ nrender (tree_pieces c d)).
Proof.
  induction c as [n al args subs bin h v st g IH] using cmd_ind'. intros d s Hbin Hbb Hs.
  set (c := mkCmd n al args subs bin h v st g) in *.
  rewrite generate_completion_unfold.
  destruct (c_bin c) as [name|] eqn:Eb; [|congruence].
  rewrite (completion_head_spec c d true s name Eb Hs).
  rewrite generate_subcommands_spec.
  - f_equal. rewrite tree_pieces_unfold, nrender_app, app_assoc. unfold bin_of. rewrite Eb. reflexivity.
  - intros sc Hsc d' s' Hs'. rewrite Forall_forall in IH.
    destruct (bins_built_sub c sc Hbb Hsc) as [H1 H2]. apply (IH sc Hsc d' s' H1 H2 Hs').
  - destruct (node_pieces_ends name c d true) as [b ->]. apply ends_nl_app_r. eexists. reflexivity.
Qed.

(** the transcription computes the specification and reaches no panic site *)
Theorem nushell_script_spec c d : c_bin c <> None -> bins_built c ->
  nushell_script c d = Some (nrender (nu_pieces c d)).
Proof.
  intros Hbin Hbb. unfold nushell_script. rewrite generate_completion_unfold.
  destruct (c_bin c) as [name|] eqn:Eb; [|congruence].
  assert (H0 : ends_nl (lit "module completions {" ++ lf ++ lf)).
  { right. exists (lit "module completions {" ++ lf). rewrite <- app_assoc. reflexivity. }
  rewrite (completion_head_spec c d false _ name Eb H0).
  rewrite generate_subcommands_spec.
  - f_equal. unfold nu_pieces, subs_pieces, bin_of, module_open, module_close. rewrite Eb.
    rewrite nrender_cons, !nrender_app. cbn [nrender1].
    cbn [nrender flat_map nrender1]. rewrite ?app_nil_r, <- !app_assoc. reflexivity.
  - intros sc Hsc d' s' Hs'. destruct (bins_built_sub c sc Hbb Hsc) as [H1 H2].
    apply generate_completion_spec; assumption.
  - destruct (node_pieces_ends name c d false) as [b ->]. apply ends_nl_app_r. eexists. reflexivity.
Qed.
