(** C16 for the nushell generator model ([NushellModel.v]).

    [NushellModel.v] is a transcription that threads the string written so far through every function, like
    the Rust code.  Here: (A) [str::lines().last()] of a string that ends in a newline followed by a non-empty
    [cur] only depends on [cur]; (B) the SPECIFICATION of the module as a list of pieces -- [NFx b] text the
    generator writes itself (names, fixed syntax, the padding, which is computed from names only), [NCm t] a
    description text written through [single_line_styled_str] after "# " -- and the theorem that the
    transcription computes it and reaches no panic site whenever every node has a bin name
    ([nushell_script_spec]); (C) coverage: for EVERY path of the tree, at every depth, the module contains
    the block of the addressed node (one [export extern] per subcommand path) and in it a line for every
    short, long and visible alias the accessors return, the [nu-complete] definition with every possible value. *)
From ClapModel Require Import Base.Bytes Complete.AotTree Complete.AotProofs Complete.BashProofs.
From ClapModel Require Import Complete.FishModel Complete.FishProofs Complete.NushellModel Escape.EscapeModel.
From ClapModel Require Complete.BuildTexts Complete.FishLexProofs Complete.BuildLinked.
From Coq Require Import String Lia.
Open Scope N_scope.
Open Scope list_scope.

(** ---- (A) str::lines().last() ---- *)
Definition ends_nl (s : bytes) : Prop := s = [] \/ exists s', s = s' ++ [10].

Lemma ends_nl_nil : ends_nl [].
Proof. left. reflexivity. Qed.
Lemma ends_nl_snoc s : ends_nl (s ++ [10]).
Proof. right. exists s. reflexivity. Qed.
Lemma ends_nl_app a b : ends_nl a -> ends_nl b -> ends_nl (a ++ b).
Proof.
  intros Ha [->|[b' ->]]; [rewrite app_nil_r; exact Ha|].
  right. exists (a ++ b'). rewrite app_assoc. reflexivity.
Qed.
Lemma ends_nl_app_r a b : (exists b', b = b' ++ [10]) -> ends_nl (a ++ b).
Proof. intros [b' ->]. right. exists (a ++ b'). rewrite app_assoc. reflexivity. Qed.

Lemma si_app_nl a : forall cur b,
  split_inclusive_nl cur (a ++ 10 :: b) = split_inclusive_nl cur (a ++ [10]) ++ split_inclusive_nl [] b.
Proof.
  induction a as [|c a IH]; intros cur b.
  - cbn [app split_inclusive_nl]. rewrite N.eqb_refl. reflexivity.
  - cbn [app split_inclusive_nl]. destruct (c =? 10).
    + rewrite IH. reflexivity.
    + apply IH.
Qed.

Lemma si_nonempty b : forall cur, b <> [] -> split_inclusive_nl cur b <> [].
Proof.
  induction b as [|c b IH]; intros cur H; [congruence|].
  cbn [split_inclusive_nl]. destruct (c =? 10); [discriminate|].
  destruct b as [|c' b'].
  - cbn [split_inclusive_nl]. destruct cur; discriminate.
  - apply IH. discriminate.
Qed.

Lemma last_opt_app {A} (l m : list A) : m <> [] -> last_opt (l ++ m) = last_opt m.
Proof.
  intros Hm. induction l as [|x l IH]; [reflexivity|].
  cbn [app last_opt]. destruct (l ++ m) eqn:E.
  - destruct l; [cbn in E; congruence|discriminate].
  - exact IH.
Qed.

Theorem lines_last_app s cur : ends_nl s -> cur <> [] -> lines_last (s ++ cur) = lines_last cur.
Proof.
  intros [->|[s' ->]] Hc; [reflexivity|].
  unfold lines_last. rewrite <- app_assoc. cbn [app]. rewrite si_app_nl.
  rewrite last_opt_app by (apply si_nonempty; exact Hc). reflexivity.
Qed.

(** ---- (B) the module as a list of pieces ---- *)
Inductive npiece := NFx (b : bytes) | NCm (t : bytes).
Definition nrender1 (p : npiece) : bytes :=
  match p with
  | NFx b => b
  | NCm t => nushell_single_line t          (* single_line_styled_str(text), after "# " *)
  end.
Definition nrender (l : list npiece) : bytes := flat_map nrender1 l.

Lemma nrender_app a b : nrender (a ++ b) = nrender a ++ nrender b.
Proof. apply flat_map_app. Qed.
Lemma nrender_cons p l : nrender (p :: l) = nrender1 p ++ nrender l.
Proof. reflexivity. Qed.

(** what [append_value_completion_and_help] appends to the line [start] *)
Definition complete_ref (a : arg) (name : bytes) : bytes :=
  lit "@" ++ dquote ++ lit "nu-complete " ++ name ++ lit " " ++ a_id a ++ dquote.
Definition type_suffix (a : arg) (name : bytes) : bytes :=
  if a_takes_values a
  then lit ": " ++ nu_type (a_get_hint a)
       ++ (if negb (is_nil (get_possible_values a)) then complete_ref a name else [])
  else [].
Definition help_width (cur : bytes) : N :=
  match lines_last cur with
  | Some line => 30 - N.of_nat (List.length line)
  | None => 0
  end.
Definition help_pieces (cur : bytes) (help : option bytes) : list npiece :=
  match help with
  | Some h => [NFx (pad_right_aligned (help_width cur) (lit " ") ++ lit "# "); NCm h]
  | None => []
  end.
(** one line of the [export extern] block; [start] is what [append_argument] pushes before the call *)
Definition arg_line (a : arg) (help : option bytes) (name start : bytes) : list npiece :=
  NFx (start ++ type_suffix a name) :: help_pieces (start ++ type_suffix a name) help ++ [NFx lf].

Lemma avch_eq a help name s :
  append_value_completion_and_help a help name (get_possible_values a) s =
  (s ++ type_suffix a name)
  ++ match help with
     | Some h => pad_right_aligned (match lines_last (s ++ type_suffix a name) with
                                    | Some line => 30 - N.of_nat (List.length line) | None => 0 end) (lit " ")
                 ++ lit "# " ++ nushell_single_line h
     | None => []
     end ++ lf.
Proof.
  unfold append_value_completion_and_help, type_suffix, complete_ref.
  destruct (a_takes_values a); [destruct (negb (is_nil (get_possible_values a)))|];
    destruct help as [h|]; cbv zeta; rewrite ?app_nil_r, <- ?app_assoc; reflexivity.
Qed.

Lemma avch_spec a help name s start : ends_nl s -> start <> [] ->
  append_value_completion_and_help a help name (get_possible_values a) (s ++ start) =
  s ++ nrender (arg_line a help name start).
Proof.
  intros Hs Hst. rewrite avch_eq. unfold arg_line, help_pieces, help_width.
  assert (Hcur : start ++ type_suffix a name <> []) by (destruct start; [congruence|discriminate]).
  rewrite <- (app_assoc s start), (lines_last_app s _ Hs Hcur).
  destruct help as [h|]; rewrite nrender_cons; cbn [nrender1 app nrender flat_map];
    rewrite ?app_nil_r, <- ?app_assoc; reflexivity.
Qed.

Lemma arg_line_ends a help name start : exists b, nrender (arg_line a help name start) = b ++ [10].
Proof.
  unfold arg_line. rewrite app_comm_cons, nrender_app. eexists. cbn [nrender flat_map nrender1 lf]. rewrite app_nil_r. reflexivity.
Qed.

(** the starts of the lines of one argument *)
Definition pos_start (a : arg) : bytes :=
  match a_action a with
  | AAppend => lit "    ..." ++ a_id a
  | _ => lit "    " ++ a_id a ++ (if negb (a_required a) then lit "?" else [])
  end.
Definition long_start (l : bytes) : bytes := lit "    --" ++ l.
Definition short_start (s : bytes) : bytes := lit "    -" ++ s.
Definition both_start (l s : bytes) : bytes := lit "    --" ++ l ++ lit "(-" ++ s ++ lit ")".
Definition opt_starts (a : arg) : list bytes :=
  match get_short_and_visible_aliases a, get_long_and_visible_aliases a with
  | Some shorts, Some longs =>
      match longs, shorts with
      | l0 :: ls, s0 :: ss => both_start l0 s0 :: map long_start ls ++ map short_start ss
      | _, _ => []
      end
  | Some shorts, None => map short_start shorts
  | None, Some longs => map long_start longs
  | None, None => []
  end.
Definition arg_starts (a : arg) : list bytes := if a_is_positional a then [pos_start a] else opt_starts a.
Definition arg_pieces (p : arg * adesc) (name : bytes) : list npiece :=
  flat_map (arg_line (fst p) (ad_help (snd p)) name) (arg_starts (fst p)).

Lemma lines_ends a help name l : ends_nl (nrender (flat_map (arg_line a help name) l)).
Proof.
  induction l as [|x l IH]; [apply ends_nl_nil|].
  cbn [flat_map]. rewrite nrender_app. apply ends_nl_app; [|exact IH].
  destruct (arg_line_ends a help name x) as [b ->]. apply ends_nl_snoc.
Qed.

Lemma fold_finish a help name (pre : bytes) l : pre <> [] -> forall s, ends_nl s ->
  fold_left (fun s x => append_value_completion_and_help a help name (get_possible_values a) (s ++ pre ++ x)) l s =
  s ++ nrender (flat_map (arg_line a help name) (map (fun x => pre ++ x) l)).
Proof.
  intros Hpre. assert (Hmk : forall x, pre ++ x <> []) by (intros x; destruct pre; [congruence|discriminate]).
  induction l as [|x l IH]; intros s Hs.
  - cbn. rewrite app_nil_r. reflexivity.
  - cbn [fold_left map flat_map]. rewrite (avch_spec a help name s (pre ++ x) Hs (Hmk x)).
    rewrite IH.
    + rewrite nrender_app, app_assoc. reflexivity.
    + apply ends_nl_app; [exact Hs|]. destruct (arg_line_ends a help name (pre ++ x)) as [b ->]. apply ends_nl_snoc.
Qed.

Lemma long_start_ne l : long_start l <> []. Proof. discriminate. Qed.
Lemma short_start_ne s : short_start s <> []. Proof. discriminate. Qed.

Lemma named_has_spelling a : a_is_positional a = false ->
  get_short_and_visible_aliases a <> None \/ get_long_and_visible_aliases a <> None.
Proof.
  unfold a_is_positional, get_short_and_visible_aliases, get_long_and_visible_aliases.
  destruct (a_long a), (a_short a); cbn; intros H; [left|right|left|]; discriminate.
Qed.

(** [append_argument] reaches neither [expect] nor the [unreachable!] and writes [arg_pieces] *)
Theorem append_argument_spec p name s : ends_nl s ->
  append_argument p name s = Some (s ++ nrender (arg_pieces p name)).
Proof.
  intros Hs. destruct p as [a ad]. unfold append_argument, arg_pieces, arg_starts. cbn [fst snd].
  destruct (a_is_positional a) eqn:Epos.
  - cbn [flat_map]. rewrite app_nil_r. f_equal. unfold pos_start.
    destruct (a_action a); try destruct (negb (a_required a));
      rewrite <- ?app_assoc, ?app_nil_r;
      try (rewrite <- (avch_spec a (ad_help ad) name s _ Hs) by discriminate; rewrite <- ?app_assoc; reflexivity).
  - unfold opt_starts.
    destruct (get_short_and_visible_aliases a) as [shorts|] eqn:Es; destruct (get_long_and_visible_aliases a) as [longs|] eqn:El.
    + assert (exists l0 ls, longs = l0 :: ls) as (l0 & ls & ->).
      { unfold get_long_and_visible_aliases in El. destruct (a_long a); inversion El. eauto. }
      assert (exists s0 ss, shorts = s0 :: ss) as (s0 & ss & ->).
      { unfold get_short_and_visible_aliases in Es. destruct (a_short a); inversion Es. eauto. }
      f_equal.
      assert (H0 : append_value_completion_and_help a (ad_help ad) name (get_possible_values a)
                     (s ++ lit "    --" ++ l0 ++ lit "(-" ++ s0 ++ lit ")") =
                   s ++ nrender (arg_line a (ad_help ad) name (both_start l0 s0))).
      { apply (avch_spec a (ad_help ad) name s (both_start l0 s0) Hs). discriminate. }
      rewrite H0.
      assert (E1 : ends_nl (s ++ nrender (arg_line a (ad_help ad) name (both_start l0 s0)))).
      { apply ends_nl_app; [exact Hs|]. destruct (arg_line_ends a (ad_help ad) name (both_start l0 s0)) as [b ->]. apply ends_nl_snoc. }
      rewrite (fold_finish a (ad_help ad) name (lit "    --") ls ltac:(discriminate) _ E1).
      assert (E2 : ends_nl ((s ++ nrender (arg_line a (ad_help ad) name (both_start l0 s0))) ++
                            nrender (flat_map (arg_line a (ad_help ad) name) (map (fun x => lit "    --" ++ x) ls)))).
      { apply ends_nl_app; [exact E1|apply lines_ends]. }
      rewrite (fold_finish a (ad_help ad) name (lit "    -") ss ltac:(discriminate) _ E2).
      cbn [flat_map]. rewrite flat_map_app, !nrender_app, <- !app_assoc. reflexivity.
    + f_equal. apply (fold_finish a (ad_help ad) name (lit "    -") shorts ltac:(discriminate) s Hs).
    + f_equal. apply (fold_finish a (ad_help ad) name (lit "    --") longs ltac:(discriminate) s Hs).
    + exfalso. destruct (named_has_spelling a Epos) as [H|H]; congruence.
Qed.

Lemma arg_pieces_ends p name : ends_nl (nrender (arg_pieces p name)).
Proof. apply lines_ends. Qed.

Lemma append_arguments_spec name l : forall s, ends_nl s ->
  append_arguments l name s = Some (s ++ nrender (flat_map (fun p => arg_pieces p name) l)).
Proof.
  unfold append_arguments. induction l as [|p l IH]; intros s Hs.
  - cbn. rewrite app_nil_r. reflexivity.
  - cbn [fold_left flat_map]. rewrite (append_argument_spec p name s Hs). rewrite IH.
    + rewrite nrender_app, app_assoc. reflexivity.
    + apply ends_nl_app; [exact Hs|apply arg_pieces_ends].
Qed.

(** the [nu-complete] definition of one argument *)
Definition defs_bytes (a : arg) (name : bytes) : bytes :=
  if is_nil (get_possible_values a) then []
  else lit "  def " ++ dquote ++ lit "nu-complete " ++ name ++ lit " " ++ a_id a ++ dquote ++ lit " [] {" ++ lf
       ++ lit "    [" ++ flat_map value_word (get_possible_values a) ++ lit " ]" ++ lf ++ lit "  }" ++ lf ++ lf.

Lemma fold_words l : forall s, fold_left (fun s v => s ++ value_word v) l s = s ++ flat_map value_word l.
Proof.
  induction l as [|v l IH]; intros s; [cbn; rewrite app_nil_r; reflexivity|].
  cbn [fold_left flat_map]. rewrite IH, app_assoc. reflexivity.
Qed.

Lemma defs_spec a name s : append_value_completion_defs a name s = s ++ defs_bytes a name.
Proof.
  unfold append_value_completion_defs, defs_bytes. destruct (is_nil (get_possible_values a)).
  - rewrite app_nil_r. reflexivity.
  - cbv zeta. rewrite fold_words, <- !app_assoc. reflexivity.
Qed.

Lemma fold_defs name (l : list (arg * adesc)) : forall s,
  fold_left (fun s p => append_value_completion_defs (fst p) name s) l s =
  s ++ flat_map (fun p => defs_bytes (fst p) name) l.
Proof.
  induction l as [|p l IH]; intros s; [cbn; rewrite app_nil_r; reflexivity|].
  cbn [fold_left flat_map]. rewrite IH, defs_spec, app_assoc. reflexivity.
Qed.

Definition about_pieces (about : option bytes) : list npiece :=
  match about with
  | Some t => [NFx (lit "  # "); NCm t; NFx lf]
  | None => []
  end.
Definition extern_line (is_subcommand : bool) (name : bytes) : bytes :=
  if is_subcommand
  then lit "  export extern " ++ dquote ++ name ++ dquote ++ lit " [" ++ lf
  else lit "  export extern " ++ name ++ lit " [" ++ lf.
Definition close_line : bytes := lit "  ]" ++ lf ++ lf.

(** the block of one command: definitions, about comment, [export extern], one line per spelling, "]" *)
Definition node_pieces (name : bytes) (c : cmd) (d : cdesc) (is_subcommand : bool) : list npiece :=
  let args := zipd ad0 (c_args c) (cd_args d) in
  NFx (flat_map (fun p => defs_bytes (fst p) name) args)
  :: about_pieces (cd_about d)
  ++ NFx (extern_line is_subcommand name)
  :: flat_map (fun p => arg_pieces p name) args
  ++ [NFx close_line].

Lemma node_pieces_ends name c d sub : exists b, nrender (node_pieces name c d sub) = b ++ [10].
Proof.
  unfold node_pieces. cbv zeta. rewrite app_comm_cons, nrender_app, app_comm_cons, nrender_app.
  cbn [nrender flat_map nrender1]. rewrite app_nil_r.
  change close_line with ((lit "  ]" ++ lf) ++ [10]). rewrite !app_assoc. eexists. reflexivity.
Qed.

Theorem completion_head_spec c d sub s name : c_bin c = Some name -> ends_nl s ->
  completion_head c d sub s = Some (s ++ nrender (node_pieces name c d sub)).
Proof.
  intros Hb Hs. unfold completion_head. rewrite Hb. cbv zeta. rewrite fold_defs.
  set (args := zipd ad0 (c_args c) (cd_args d)).
  set (s1 := s ++ flat_map (fun p => defs_bytes (fst p) name) args).
  assert (E : (if sub
               then match cd_about d with Some about => s1 ++ lit "  # " ++ nushell_single_line about ++ lf | None => s1 end
                    ++ lit "  export extern " ++ dquote ++ name ++ dquote ++ lit " [" ++ lf
               else match cd_about d with Some about => s1 ++ lit "  # " ++ nushell_single_line about ++ lf | None => s1 end
                    ++ lit "  export extern " ++ name ++ lit " [" ++ lf) =
              s1 ++ nrender (about_pieces (cd_about d)) ++ extern_line sub name).
  { unfold extern_line, about_pieces. destruct sub, (cd_about d);
      cbn [nrender flat_map nrender1]; rewrite ?app_nil_r, <- ?app_assoc; reflexivity. }
  rewrite E. rewrite append_arguments_spec.
  - f_equal. unfold node_pieces. fold args. unfold s1.
    rewrite nrender_cons, nrender_app, nrender_cons, nrender_app. cbn [nrender1].
    cbn [nrender flat_map nrender1]. rewrite ?app_nil_r, <- !app_assoc. reflexivity.
  - rewrite app_assoc. apply ends_nl_app_r. unfold extern_line.
    destruct sub; eexists; rewrite !app_assoc; reflexivity.
Qed.

(** the whole tree below (and including) a subcommand: [generate_completion(.., sub, true)] *)
Definition bin_of (c : cmd) : bytes := match c_bin c with Some b => b | None => [] end.
Fixpoint tree_pieces (c : cmd) (d : cdesc) {struct c} : list npiece :=
  match c with
  | mkCmd _ _ _ subs _ _ _ _ _ =>
      node_pieces (bin_of c) c d true
      ++ (fix go (l : list cmd) (dl : list cdesc) {struct l} : list npiece :=
            match l with
            | [] => []
            | sc :: t => tree_pieces sc (hd cd0 dl) ++ go t (tl dl)
            end) subs (cd_subs d)
  end.
Definition subs_pieces (c : cmd) (d : cdesc) : list npiece :=
  flat_map (fun q : cmd * cdesc => tree_pieces (fst q) (snd q)) (zipd cd0 (c_subs c) (cd_subs d)).

Lemma tree_pieces_unfold c d : tree_pieces c d = node_pieces (bin_of c) c d true ++ subs_pieces c d.
Proof.
  destruct c as [n al args subs bin h v s g]. unfold subs_pieces. cbn [tree_pieces c_subs]. f_equal.
  generalize (cd_subs d) as dl. induction subs as [|sc t IH]; intros dl; [reflexivity|].
  cbn [zipd flat_map fst snd]. rewrite IH. reflexivity.
Qed.

Definition module_open : bytes := lit "module completions {" ++ lf ++ lf.
Definition module_close : bytes := lit "}" ++ lf ++ lf ++ lit "export use completions *" ++ lf.
(** the module: the root's block (bare name), then every subcommand tree in pre-order *)
Definition nu_pieces (c : cmd) (d : cdesc) : list npiece :=
  NFx module_open :: node_pieces (bin_of c) c d false ++ subs_pieces c d ++ [NFx module_close].

Lemma generate_completion_unfold c d sub s :
  generate_completion c d sub s =
  match completion_head c d sub s with
  | None => None
  | Some s => if sub then generate_subcommands (c_subs c) (cd_subs d) s else Some s
  end.
Proof.
  destruct c as [n al args subs bin h v st g]. cbn [generate_completion c_subs].
  destruct (completion_head (mkCmd n al args subs bin h v st g) d sub s) as [s1|]; [|reflexivity].
  destruct sub; [|reflexivity].
  generalize (cd_subs d) as dl. revert s1. induction subs as [|sc t IH]; intros s1 dl; [reflexivity|].
  cbn [generate_subcommands]. destruct (generate_completion sc (hd cd0 dl) true s1) as [s2|]; [|reflexivity].
  apply IH.
Qed.

Lemma tree_pieces_ends : forall c d, exists b, nrender (tree_pieces c d) = b ++ [10].
Proof.
  induction c as [n al args subs bin h v st g IH] using cmd_ind'. intros d.
  set (c := mkCmd n al args subs bin h v st g) in *.
  rewrite tree_pieces_unfold, nrender_app. unfold subs_pieces.
  assert (G : forall (l : list (cmd * cdesc)) x, (forall q, In q l -> In (fst q) subs) ->
            exists b, x ++ [10] ++ nrender (flat_map (fun q : cmd * cdesc => tree_pieces (fst q) (snd q)) l) = b ++ [10]).
  { induction l as [|q l IHl]; intros x Hl.
    - exists x. cbn. reflexivity.
    - cbn [flat_map]. rewrite nrender_app.
      assert (Hq : In (fst q) subs) by (apply Hl; left; reflexivity).
      rewrite Forall_forall in IH. destruct (IH _ Hq (snd q)) as [b1 ->].
      destruct (IHl (x ++ [10] ++ b1)) as [b2 E]; [intros q' Hq'; apply Hl; right; exact Hq'|].
      exists b2. rewrite <- E, <- !app_assoc. reflexivity. }
  destruct (node_pieces_ends (bin_of c) c d true) as [b0 ->].
  destruct (G (zipd cd0 (c_subs c) (cd_subs d)) b0) as [b E].
  { intros q Hq. apply (zipd_in_fst cd0 (c_subs c) (cd_subs d) q Hq). }
  exists b. rewrite <- E, <- app_assoc. reflexivity.
Qed.

Lemma bins_built_sub c sc : bins_built c -> In sc (c_subs c) -> c_bin sc <> None /\ bins_built sc.
Proof.
  intros Hb Hin. split; [apply Hb, desc_child, Hin|].
  intros n Hn. apply Hb. eapply desc_step; eassumption.
Qed.

Lemma generate_subcommands_spec (l : list cmd) :
  (forall sc, In sc l -> forall d s, ends_nl s -> generate_completion sc d true s = Some (s ++ nrender (tree_pieces sc d))) ->
  forall dl s, ends_nl s ->
    generate_subcommands l dl s =
    Some (s ++ nrender (flat_map (fun q : cmd * cdesc => tree_pieces (fst q) (snd q)) (zipd cd0 l dl))).
Proof.
  induction l as [|sc t IH]; intros H dl s Hs.
  - cbn. rewrite app_nil_r. reflexivity.
  - cbn [generate_subcommands zipd flat_map fst snd]. rewrite (H sc (or_introl eq_refl) _ s Hs).
    rewrite IH.
    + rewrite nrender_app, app_assoc. reflexivity.
    + intros x Hx. apply H. right. exact Hx.
    + destruct (tree_pieces_ends sc (hd cd0 dl)) as [b ->]. apply ends_nl_app_r. eexists. reflexivity.
Qed.

Theorem generate_completion_spec : forall c d s,
  c_bin c <> None -> bins_built c -> ends_nl s ->
  generate_completion c d true s = Some (s ++ nrender (tree_pieces c d)).
Proof.
  induction c as [n al args subs bin h v st g IH] using cmd_ind'. intros d s Hbin Hbb Hs.
  set (c := mkCmd n al args subs bin h v st g) in *.
  rewrite generate_completion_unfold.
  destruct (c_bin c) as [name|] eqn:Eb; [|congruence].
  rewrite (completion_head_spec c d true s name Eb Hs).
  rewrite generate_subcommands_spec.
  - f_equal. rewrite tree_pieces_unfold, nrender_app, app_assoc. unfold bin_of. rewrite Eb. reflexivity.
  - intros sc Hsc d' s' Hs'. rewrite Forall_forall in IH.
    destruct (bins_built_sub c sc Hbb Hsc) as [H1 H2]. apply (IH sc Hsc d' s' H1 H2 Hs').
  - destruct (node_pieces_ends name c d true) as [b ->]. apply ends_nl_app_r. eexists. reflexivity.
Qed.

(** the transcription computes the specification and reaches no panic site *)
Theorem nushell_script_spec c d : c_bin c <> None -> bins_built c ->
  nushell_script c d = Some (nrender (nu_pieces c d)).
Proof.
  intros Hbin Hbb. unfold nushell_script. rewrite generate_completion_unfold.
  destruct (c_bin c) as [name|] eqn:Eb; [|congruence].
  assert (H0 : ends_nl (lit "module completions {" ++ lf ++ lf)).
  { right. exists (lit "module completions {" ++ lf). rewrite <- app_assoc. reflexivity. }
  rewrite (completion_head_spec c d false _ name Eb H0).
  rewrite generate_subcommands_spec.
  - f_equal. unfold nu_pieces, subs_pieces, bin_of, module_open, module_close. rewrite Eb.
    rewrite nrender_cons, !nrender_app. cbn [nrender1].
    cbn [nrender flat_map nrender1]. rewrite ?app_nil_r, <- !app_assoc. reflexivity.
  - intros sc Hsc d' s' Hs'. destruct (bins_built_sub c sc Hbb Hsc) as [H1 H2].
    apply generate_completion_spec; assumption.
  - destruct (node_pieces_ends name c d false) as [b ->]. apply ends_nl_app_r. eexists. reflexivity.
Qed.

Theorem nushell_total c d : c_bin c <> None -> bins_built c -> exists s, nushell_script c d = Some s.
Proof. intros H1 H2. eexists. apply nushell_script_spec; assumption. Qed.

(** the only way to fail is a missing bin name *)
Theorem nushell_none_no_bin c d : nushell_script c d = None -> c_bin c = None \/ ~ bins_built c.
Proof.
  intros H. destruct (c_bin c) as [b|] eqn:Eb; [|left; reflexivity]. right. intros Hbb.
  rewrite nushell_script_spec in H; [discriminate|rewrite Eb; discriminate|exact Hbb].
Qed.

Theorem nushell_deterministic c d s1 s2 : nushell_script c d = Some s1 -> nushell_script c d = Some s2 -> s1 = s2.
Proof. intros H1 H2. rewrite H1 in H2. inversion H2. reflexivity. Qed.

(** [generate(Nushell, cmd, bin, buf)] writes a module for EVERY command tree, texts and bin name *)
Theorem generate_nushell_total c d bin : exists b,
  build (set_bin_name c bin) = Some b /\ c_bin b = Some bin /\ bins_built b /\
  generate_nushell c d bin = Some (nrender (nu_pieces b (dbuild (set_bin_name c bin) d))).
Proof.
  unfold generate_nushell. destruct (build (set_bin_name c bin)) as [b|] eqn:Eb.
  - exists b. split; [reflexivity|].
    assert (Hbin := BuildTexts.build_root_bin c bin b Eb). assert (Hbb := build_bins_built _ _ Eb).
    split; [exact Hbin|]. split; [exact Hbb|].
    apply nushell_script_spec; [rewrite Hbin; discriminate|exact Hbb].
  - exfalso. exact (BuildTexts.build_total _ Eb).
Qed.

(** ---- (C) coverage ---- *)
Lemma in_flat_map_split {A B} (f : A -> list B) l x : In x l -> exists l1 l2, flat_map f l = l1 ++ f x ++ l2.
Proof.
  intros H. apply in_split in H. destruct H as (a & b & ->).
  exists (flat_map f a), (flat_map f b). rewrite flat_map_app. reflexivity.
Qed.

(** the block of every node reached from a subcommand is a contiguous part of that subcommand's pieces *)
Lemma tree_covers sc ws ns n : reach sc ws ns n ->
  forall d, exists dn pre post, tree_pieces sc d = pre ++ node_pieces (bin_of n) n dn true ++ post.
Proof.
  induction 1 as [c|c sc w ws ns n Hin Hw Hr IH]; intros d.
  - exists d, [], (subs_pieces c d). rewrite tree_pieces_unfold. reflexivity.
  - rewrite tree_pieces_unfold. destruct (zipd_in cd0 (c_subs c) sc Hin (cd_subs d)) as [dsc Hq].
    destruct (in_flat_map_split (fun q : cmd * cdesc => tree_pieces (fst q) (snd q)) _ _ Hq) as (l1 & l2 & E).
    destruct (IH dsc) as (dn & pre & post & E2).
    exists dn, (node_pieces (bin_of c) c d true ++ l1 ++ pre), (post ++ l2).
    unfold subs_pieces. rewrite E. cbn [fst snd]. rewrite E2, <- !app_assoc. reflexivity.
Qed.

(** ONE [export extern] block per subcommand path: for every path of names or visible aliases, at every depth *)
Theorem nu_pieces_covers c d ws ns n : reach c ws ns n ->
  exists dn pre post, nu_pieces c d = pre ++ node_pieces (bin_of n) n dn (negb (is_nil ns)) ++ post.
Proof.
  intros Hr. destruct Hr as [c|c sc w ws' ns' n Hin Hw Hr'].
  - exists d, [NFx module_open], (subs_pieces c d ++ [NFx module_close]). unfold nu_pieces. cbn [is_nil negb app].
    reflexivity.
  - destruct (zipd_in cd0 (c_subs c) sc Hin (cd_subs d)) as [dsc Hq].
    destruct (in_flat_map_split (fun q : cmd * cdesc => tree_pieces (fst q) (snd q)) _ _ Hq) as (l1 & l2 & E).
    destruct (tree_covers sc ws' ns' n Hr' dsc) as (dn & pre & post & E2).
    exists dn, (NFx module_open :: node_pieces (bin_of c) c d false ++ l1 ++ pre), (post ++ l2 ++ [NFx module_close]).
    unfold nu_pieces, subs_pieces. rewrite E. cbn [fst snd is_nil negb]. rewrite E2, <- !app_assoc.
    cbn [app]. rewrite <- !app_assoc. reflexivity.
Qed.

(** EXACTLY one block per command: the module is the header, the root's block, then one block for every
    proper descendant, in pre-order, then the trailer.  [nodes c] lists every tree position once. *)
Fixpoint nodes (c : cmd) : list cmd :=
  match c with
  | mkCmd _ _ _ subs _ _ _ _ _ =>
      c :: (fix go (l : list cmd) : list cmd := match l with [] => [] | sc :: t => nodes sc ++ go t end) subs
  end.
Lemma nodes_unfold c : nodes c = c :: flat_map nodes (c_subs c).
Proof.
  destruct c as [n al args subs bin h v s g]. cbn [nodes c_subs]. reflexivity.
Qed.

Lemma nodes_desc : forall c n, In n (nodes c) <-> n = c \/ desc c n.
Proof.
  induction c as [nm al args subs bin h v s g IH] using cmd_ind'. intros n.
  set (c := mkCmd nm al args subs bin h v s g) in *. rewrite nodes_unfold. cbn [In]. rewrite Forall_forall in IH. split.
  - intros [<-|H]; [left; reflexivity|right]. apply in_flat_map in H. destruct H as (sc & Hsc & Hn).
    apply (IH sc Hsc) in Hn. destruct Hn as [->|Hd]; [apply desc_child; exact Hsc|eapply desc_step; eassumption].
  - intros [->|Hd]; [left; reflexivity|right]. apply in_flat_map.
    inversion Hd as [c0 sc Hin|c0 sc m Hin Hd']; subst.
    + exists n. split; [exact Hin|]. apply (IH n Hin). left. reflexivity.
    + exists sc. split; [exact Hin|]. apply (IH sc Hin). right. exact Hd'.
Qed.

Fixpoint tree_blocks (c : cmd) (d : cdesc) {struct c} : list (cmd * cdesc) :=
  match c with
  | mkCmd _ _ _ subs _ _ _ _ _ =>
      (c, d) :: (fix go (l : list cmd) (dl : list cdesc) {struct l} : list (cmd * cdesc) :=
                   match l with
                   | [] => []
                   | sc :: t => tree_blocks sc (hd cd0 dl) ++ go t (tl dl)
                   end) subs (cd_subs d)
  end.
Definition subs_blocks (c : cmd) (d : cdesc) : list (cmd * cdesc) :=
  flat_map (fun q : cmd * cdesc => tree_blocks (fst q) (snd q)) (zipd cd0 (c_subs c) (cd_subs d)).
Lemma tree_blocks_unfold c d : tree_blocks c d = (c, d) :: subs_blocks c d.
Proof.
  destruct c as [n al args subs bin h v s g]. unfold subs_blocks. cbn [tree_blocks c_subs]. f_equal.
  generalize (cd_subs d) as dl. induction subs as [|sc t IH]; intros dl; [reflexivity|].
  cbn [zipd flat_map fst snd]. rewrite IH. reflexivity.
Qed.

Definition block_of (q : cmd * cdesc) : list npiece := node_pieces (bin_of (fst q)) (fst q) (snd q) true.

Lemma zipd_flat_map_fst {B} (f : cmd -> list cmd) (g : cmd * cdesc -> list B) (h : B -> cmd) (l : list cmd) :
  (forall sc, In sc l -> forall d, map h (g (sc, d)) = f sc) ->
  forall dl, map h (flat_map g (zipd cd0 l dl)) = flat_map f l.
Proof.
  induction l as [|sc t IH]; intros H dl; [reflexivity|].
  cbn [zipd flat_map]. rewrite map_app, (H sc (or_introl eq_refl)), IH; [reflexivity|].
  intros x Hx. apply H. right. exact Hx.
Qed.

Lemma tree_blocks_nodes : forall c d, map fst (tree_blocks c d) = nodes c.
Proof.
  induction c as [nm al args subs bin h v s g IH] using cmd_ind'. intros d.
  set (c := mkCmd nm al args subs bin h v s g) in *.
  rewrite tree_blocks_unfold, nodes_unfold. cbn [map fst]. f_equal. unfold subs_blocks.
  apply (zipd_flat_map_fst nodes (fun q : cmd * cdesc => tree_blocks (fst q) (snd q)) fst).
  intros sc Hsc d'. rewrite Forall_forall in IH. apply (IH sc Hsc).
Qed.

Lemma flat_map_flat_map {A B C} (f : A -> list B) (g : B -> list C) l :
  flat_map g (flat_map f l) = flat_map (fun a => flat_map g (f a)) l.
Proof. induction l as [|a l IH]; [reflexivity|]. cbn [flat_map]. rewrite flat_map_app, IH. reflexivity. Qed.

Lemma tree_pieces_blocks : forall c d, tree_pieces c d = flat_map block_of (tree_blocks c d).
Proof.
  induction c as [nm al args subs bin h v s g IH] using cmd_ind'. intros d.
  set (c := mkCmd nm al args subs bin h v s g) in *.
  rewrite tree_pieces_unfold, tree_blocks_unfold. cbn [flat_map]. unfold block_of at 1. cbn [fst snd]. f_equal.
  unfold subs_pieces, subs_blocks. rewrite flat_map_flat_map.
  apply FishLexProofs.flat_map_ext_in. intros [sc dsc] Hin. cbn [fst snd].
  rewrite Forall_forall in IH. apply IH. exact (zipd_in_fst cd0 (c_subs c) (cd_subs d) (sc, dsc) Hin).
Qed.

Theorem nu_pieces_blocks c d :
  nu_pieces c d = NFx module_open :: node_pieces (bin_of c) c d false
                  ++ flat_map block_of (subs_blocks c d) ++ [NFx module_close] /\
  map fst (subs_blocks c d) = flat_map nodes (c_subs c) /\
  (forall n, In n (flat_map nodes (c_subs c)) <-> desc c n).
Proof.
  split; [|split].
  - unfold nu_pieces. do 2 f_equal. f_equal. unfold subs_pieces, subs_blocks. rewrite flat_map_flat_map.
    apply flat_map_ext. intros q. apply tree_pieces_blocks.
  - unfold subs_blocks.
    apply (zipd_flat_map_fst nodes (fun q : cmd * cdesc => tree_blocks (fst q) (snd q)) fst).
    intros sc _ d'. apply tree_blocks_nodes.
  - intros n. assert (H := nodes_desc c n). rewrite nodes_unfold in H. cbn [In] in H. split.
    + intros Hn. apply in_flat_map in Hn. destruct Hn as (sc & Hsc & Hn). apply nodes_desc in Hn.
      destruct Hn as [->|Hd]; [apply desc_child; exact Hsc|eapply desc_step; eassumption].
    + intros Hd. inversion Hd as [c0 sc Hin|c0 sc m Hin Hd']; subst; apply in_flat_map.
      * exists n. split; [exact Hin|]. apply nodes_desc. left. reflexivity.
      * exists sc. split; [exact Hin|]. apply nodes_desc. right. exact Hd'.
Qed.

(** which line mentions a spelling *)
Definition mentions_short (s st : bytes) : Prop := st = short_start s \/ exists l, st = both_start l s.
Definition mentions_long (l st : bytes) : Prop := st = long_start l \/ exists s, st = both_start l s.

Lemma longs_cons a longs : get_long_and_visible_aliases a = Some longs -> exists l0 ls, longs = l0 :: ls.
Proof. unfold get_long_and_visible_aliases. destruct (a_long a); intros H; inversion H. eauto. Qed.
Lemma shorts_cons a shorts : get_short_and_visible_aliases a = Some shorts -> exists s0 ss, shorts = s0 :: ss.
Proof. unfold get_short_and_visible_aliases. destruct (a_short a); intros H; inversion H. eauto. Qed.

Lemma starts_short a shorts s : a_is_positional a = false ->
  get_short_and_visible_aliases a = Some shorts -> In s shorts ->
  exists st, In st (arg_starts a) /\ mentions_short s st.
Proof.
  intros Hpos Hs Hin. unfold arg_starts. rewrite Hpos. unfold opt_starts. rewrite Hs.
  destruct (get_long_and_visible_aliases a) as [longs|] eqn:El.
  - destruct (longs_cons a longs El) as (l0 & ls & ->). destruct (shorts_cons a shorts Hs) as (s0 & ss & ->).
    destruct Hin as [<-|Hin].
    + exists (both_start l0 s0). split; [left; reflexivity|right; exists l0; reflexivity].
    + exists (short_start s). split; [|left; reflexivity]. right. apply in_or_app. right. apply in_map. exact Hin.
  - exists (short_start s). split; [apply in_map; exact Hin|left; reflexivity].
Qed.

Lemma starts_long a longs l : a_is_positional a = false ->
  get_long_and_visible_aliases a = Some longs -> In l longs ->
  exists st, In st (arg_starts a) /\ mentions_long l st.
Proof.
  intros Hpos Hl Hin. unfold arg_starts. rewrite Hpos. unfold opt_starts. rewrite Hl.
  destruct (get_short_and_visible_aliases a) as [shorts|] eqn:Es.
  - destruct (longs_cons a longs Hl) as (l0 & ls & ->). destruct (shorts_cons a shorts Es) as (s0 & ss & ->).
    destruct Hin as [<-|Hin].
    + exists (both_start l0 s0). split; [left; reflexivity|right; exists s0; reflexivity].
    + exists (long_start l). split; [|left; reflexivity]. right. apply in_or_app. left. apply in_map. exact Hin.
  - exists (long_start l). split; [apply in_map; exact Hin|left; reflexivity].
Qed.

Lemma node_has_extern name c d sub : In (NFx (extern_line sub name)) (node_pieces name c d sub).
Proof. unfold node_pieces. cbv zeta. right. apply in_or_app. right. left. reflexivity. Qed.

Lemma node_has_arg_line name c d sub a st : In a (c_args c) -> In st (arg_starts a) ->
  In (NFx (st ++ type_suffix a name)) (node_pieces name c d sub).
Proof.
  intros Ha Hst. unfold node_pieces. cbv zeta. right. apply in_or_app. right. right. apply in_or_app. left.
  destruct (zipd_in ad0 (c_args c) a Ha (cd_args d)) as [ad Hq].
  apply in_flat_map. exists (a, ad). split; [exact Hq|].
  unfold arg_pieces. cbn [fst snd]. apply in_flat_map. exists st. split; [exact Hst|]. left. reflexivity.
Qed.

Definition def_header (a : arg) (name : bytes) : bytes :=
  lit "  def " ++ dquote ++ lit "nu-complete " ++ name ++ lit " " ++ a_id a ++ dquote ++ lit " [] {".

Lemma defs_has_value a name v : In v (get_possible_values a) ->
  exists x y, defs_bytes a name = def_header a name ++ x ++ value_word v ++ y.
Proof.
  intros Hv. unfold defs_bytes, def_header. destruct (get_possible_values a) as [|v0 l] eqn:E; [destruct Hv|].
  cbn [is_nil]. rewrite <- E in Hv |- *. destruct (in_flat_map_split value_word _ _ Hv) as (l1 & l2 & ->).
  exists (lf ++ lit "    [" ++ l1), (l2 ++ lit " ]" ++ lf ++ lit "  }" ++ lf ++ lf).
  rewrite <- !app_assoc. reflexivity.
Qed.

Lemma takes_values_of_pv a v : In v (get_possible_values a) -> a_takes_values a = true.
Proof. unfold get_possible_values. destruct (a_takes_values a); [reflexivity|intros []]. Qed.

Lemma type_suffix_of_pv a name v : In v (get_possible_values a) ->
  type_suffix a name = lit ": " ++ nu_type (a_get_hint a) ++ complete_ref a name.
Proof.
  intros Hv. unfold type_suffix. rewrite (takes_values_of_pv a v Hv).
  destruct (get_possible_values a); [destruct Hv|reflexivity].
Qed.

(** [Arg::get_possible_values] against [utils::possible_values] (the accessor the other generators use):
    the same list, hidden values included *)
Lemma get_possible_values_utils a :
  get_possible_values a = match possible_values a with Some l => l | None => [] end.
Proof. unfold get_possible_values, possible_values. destruct (negb (a_takes_values a)); reflexivity. Qed.

(** what the block [blk] of the command [n], declared under [name], mentions *)
Definition node_mentions (name : bytes) (n : cmd) (is_subcommand : bool) (blk : list npiece) : Prop :=
  In (NFx (extern_line is_subcommand name)) blk /\
  (forall a, In a (c_args n) -> a_is_positional a = false ->
     (forall shorts s, get_short_and_visible_aliases a = Some shorts -> In s shorts ->
        exists st, mentions_short s st /\ In (NFx (st ++ type_suffix a name)) blk) /\
     (forall longs l, get_long_and_visible_aliases a = Some longs -> In l longs ->
        exists st, mentions_long l st /\ In (NFx (st ++ type_suffix a name)) blk)) /\
  (forall a, In a (c_args n) -> a_is_positional a = true -> In (NFx (pos_start a ++ type_suffix a name)) blk) /\
  (forall a v, In a (c_args n) -> In v (get_possible_values a) ->
     type_suffix a name = lit ": " ++ nu_type (a_get_hint a) ++ complete_ref a name /\
     exists x y x' y' rest, blk = NFx (x ++ defs_bytes a name ++ y) :: rest /\
                            defs_bytes a name = def_header a name ++ x' ++ value_word v ++ y').

Lemma flat_map_defs_zipd name (l : list arg) : forall m,
  flat_map (fun p : arg * adesc => defs_bytes (fst p) name) (zipd ad0 l m) = flat_map (fun a => defs_bytes a name) l.
Proof. induction l as [|a l IH]; intros m; [reflexivity|]. cbn [zipd flat_map fst]. rewrite IH. reflexivity. Qed.

Theorem node_pieces_mentions name n dn sub : node_mentions name n sub (node_pieces name n dn sub).
Proof.
  split; [apply node_has_extern|]. split; [|split].
  - intros a Ha Hpos. split.
    + intros shorts s Hs Hin. destruct (starts_short a shorts s Hpos Hs Hin) as (st & Hst & Hm).
      exists st. split; [exact Hm|]. apply node_has_arg_line; assumption.
    + intros longs l Hl Hin. destruct (starts_long a longs l Hpos Hl Hin) as (st & Hst & Hm).
      exists st. split; [exact Hm|]. apply node_has_arg_line; assumption.
  - intros a Ha Hpos. apply node_has_arg_line; [exact Ha|]. unfold arg_starts. rewrite Hpos. left. reflexivity.
  - intros a v Ha Hv. split; [apply (type_suffix_of_pv a name v Hv)|].
    destruct (defs_has_value a name v Hv) as (x' & y' & E).
    destruct (in_flat_map_split (fun a => defs_bytes a name) _ _ Ha) as (x & y & E2).
    exists x, y, x', y'. eexists. split; [|exact E].
    unfold node_pieces. cbv zeta. rewrite flat_map_defs_zipd, E2. reflexivity.
Qed.

(** C16 for nushell, any tree whose nodes have bin names, EVERY depth *)
Theorem nushell_covers c d ws ns n : c_bin c <> None -> bins_built c -> reach c ws ns n ->
  exists blk pre post,
    nushell_script c d = Some (nrender (pre ++ blk ++ post)) /\
    node_mentions (bin_of n) n (negb (is_nil ns)) blk.
Proof.
  intros Hb Hbb Hr. destruct (nu_pieces_covers c d ws ns n Hr) as (dn & pre & post & E).
  exists (node_pieces (bin_of n) n dn (negb (is_nil ns))), pre, post. split.
  - rewrite <- E. apply nushell_script_spec; assumption.
  - apply node_pieces_mentions.
Qed.

(** the name a block is declared under: the bin path "bin n1 .. nk" of the NAMES on the path *)
Theorem nushell_covers_linked c d bin ws ns n : c_bin c = Some bin -> linked c -> reach c ws ns n ->
  exists blk pre post,
    nushell_script c d = Some (nrender (pre ++ blk ++ post)) /\
    node_mentions (bin ++ join_with [32] ns) n (negb (is_nil ns)) blk.
Proof.
  intros Hb Hl Hr.
  assert (Hn : bin_of n = bin ++ join_with [32] ns) by (unfold bin_of; rewrite (reach_bin c ws ns n Hr bin Hb Hl); reflexivity).
  rewrite <- Hn. apply (nushell_covers c d ws ns n); [rewrite Hb; discriminate|apply linked_bins_built; exact Hl|exact Hr].
Qed.

(** the same about the module [generate] writes for a user's tree *)
Theorem generate_nushell_covers c d bin : exists b s,
  build (set_bin_name c bin) = Some b /\ generate_nushell c d bin = Some s /\
  forall ws ns n, reach b ws ns n ->
    exists blk pre post, s = nrender (pre ++ blk ++ post) /\ node_mentions (bin_of n) n (negb (is_nil ns)) blk.
Proof.
  destruct (generate_nushell_total c d bin) as (b & Eb & Hbin & Hbb & Eg).
  exists b. eexists. split; [exact Eb|]. split; [exact Eg|]. intros ws ns n Hr.
  destruct (nu_pieces_covers b (dbuild (set_bin_name c bin) d) ws ns n Hr) as (dn & pre & post & E).
  exists (node_pieces (bin_of n) n dn (negb (is_nil ns))), pre, post. split; [rewrite <- E; reflexivity|].
  apply node_pieces_mentions.
Qed.

(** ... and, for a user tree none of whose subcommands carries a bin name of its own (a [Command] has none before it
    is built) and a non-empty bin name, the block is declared under "bin n1 .. nk" ([BuildLinked.build_linked]) *)
Theorem generate_nushell_covers_named c d bin : BuildLinked.nb c = true -> bin <> [] -> exists b s,
  build (set_bin_name c bin) = Some b /\ generate_nushell c d bin = Some s /\
  forall ws ns n, reach b ws ns n ->
    exists blk pre post, s = nrender (pre ++ blk ++ post) /\
                         node_mentions (bin ++ join_with [32] ns) n (negb (is_nil ns)) blk.
Proof.
  intros Hnb Hne. destruct (generate_nushell_covers c d bin) as (b & s & Eb & Eg & H).
  exists b, s. split; [exact Eb|]. split; [exact Eg|]. intros ws ns n Hr.
  destruct (BuildLinked.build_linked c bin b Hnb Hne Eb) as [Hbin Hl].
  assert (Hn : bin_of n = bin ++ join_with [32] ns) by (unfold bin_of; rewrite (reach_bin b ws ns n Hr bin Hbin Hl); reflexivity).
  rewrite <- Hn. exact (H ws ns n Hr).
Qed.

(** the property's wording in the class where an alias comes with its primary spelling: every short, long
    and visible alias of every named argument starts a line of the block *)
Theorem node_mentions_all_spellings name n sub blk : node_mentions name n sub blk -> aliases_have_primary n ->
  forall a, In a (c_args n) -> a_is_positional a = false ->
    (forall s, a_short a = Some s \/ In (s, true) (a_short_aliases a) ->
       exists st, mentions_short s st /\ In (NFx (st ++ type_suffix a name)) blk) /\
    (forall l, a_long a = Some l \/ In (l, true) (a_aliases a) ->
       exists st, mentions_long l st /\ In (NFx (st ++ type_suffix a name)) blk).
Proof.
  intros (_ & Hargs & _) Hp a Ha Hpos. destruct (Hargs a Ha Hpos) as [Hs Hl]. split.
  - intros s H. destruct (short_spelling_listed n a s Hp Ha H) as (shorts & E & Hin). eapply Hs; eassumption.
  - intros l H. destruct (long_spelling_listed n a l Hp Ha H) as (longs & E & Hin). eapply Hl; eassumption.
Qed.

(** what a piece means for the bytes of the module *)
Lemma nrender_in (l : list npiece) p : In p l -> exists pre post, nrender l = pre ++ nrender1 p ++ post.
Proof.
  intros H. apply in_split in H. destruct H as (l1 & l2 & ->).
  exists (nrender l1), (nrender l2). rewrite nrender_app, nrender_cons. reflexivity.
Qed.

Theorem mention_in_text pre blk post p : In p blk ->
  exists x y, nrender (pre ++ blk ++ post) = x ++ nrender1 p ++ y.
Proof.
  intros H. destruct (nrender_in blk p H) as (a & b & E).
  exists (nrender pre ++ a), (b ++ nrender post). rewrite !nrender_app, E, <- !app_assoc. reflexivity.
Qed.

(** ---- non-vacuity and the class boundaries ---- *)
(** the hypotheses of [nushell_covers_linked] hold for a linked three-level tree with a hyphenated name,
    reached through a visible alias *)
Example nushell_covers_linked_hyps :
  c_bin ex_root = Some [112] /\ linked ex_root /\ reach ex_root [[120]; [99]] [[97; 45; 98]; [99]] ex_leaf.
Proof. destruct mangle_safe_example as (H1 & H2 & _ & H4). auto. Qed.

(** [generate] on a user tree: root [p], subcommand [a-b] (visible alias [x], hidden alias [y]) with the
    subcommand [c] that has the option [-o/--opt] with the visible short alias [x], the visible alias
    [--al], the hidden alias [--hi] and the values [v1], [v2] (hidden).  The built tree is reached through the
    alias; the module declares the path by NAMES, has the four lines, the definition with both values,
    and nothing for the hidden alias *)
Lemma reach_cons' c sc w ws nm ns n :
  In sc (c_subs c) -> In w (sc_words sc) -> nm = c_name sc -> reach sc ws ns n -> reach c (w :: ws) (nm :: ns) n.
Proof. intros H1 H2 -> H3. eapply reach_cons; eassumption. Qed.

(** the texts of the two evaluated examples below *)
Definition ex_bin : bytes := lit "p a-b c".
Definition ex_extern : bytes := lit "  export extern ""p a-b c"" [".
Definition ex_line_both : bytes := lit "    --opt(-o): string@""nu-complete p a-b c o""".
Definition ex_line_alias : bytes := lit "    --al: string@""nu-complete p a-b c o""".
Definition ex_line_short_alias : bytes := lit "    -x: string@""nu-complete p a-b c o""".
Definition ex_def : bytes := lit "  def ""nu-complete p a-b c o"" [] {".
Definition ex_values : bytes := lit "    [ ""v1"" ""v2"" ]".
Definition ex_hidden_alias : bytes := lit "--hi".
Definition ex_extern_sub : bytes := lit "  export extern ""p sub"" [".

Example generate_nushell_example :
  exists b n s,
    build (set_bin_name ex_fish_root [112]) = Some b /\
    reach b [[120]; [99]] [[97; 45; 98]; [99]] n /\ In ex_opt (c_args n) /\ aliases_have_primary n /\
    bin_of n = ex_bin /\
    generate_nushell ex_fish_root cd0 [112] = Some s /\
    has_infix s ex_extern = true /\
    has_infix s ex_line_both = true /\
    has_infix s ex_line_alias = true /\
    has_infix s ex_line_short_alias = true /\
    has_infix s ex_def = true /\
    has_infix s ex_values = true /\
    has_infix s ex_hidden_alias = false.
Proof.
  eexists. eexists. eexists. split; [vm_compute; reflexivity|]. split.
  { eapply reach_cons'; [left; reflexivity|right; left; reflexivity|reflexivity|].
    eapply reach_cons'; [left; reflexivity|left; reflexivity|reflexivity|apply reach_nil]. }
  split; [left; reflexivity|]. split.
  { intros a Ha. vm_compute in Ha. destruct Ha as [<-|[<-|[]]]; split; intros _; discriminate. }
  split; [reflexivity|]. split; [vm_compute; reflexivity|].
  repeat split; vm_compute; reflexivity.
Qed.

(** finding [alias-without-primary]: a visible short alias of an option without a short starts no line --
    the spelling "-x" occurs nowhere in the module *)
Lemma nushell_alias_without_primary_refuted :
  exists c d bin s o x,
    generate_nushell c d bin = Some s /\ In o (c_args c) /\ a_is_positional o = false /\
    In (x, true) (a_short_aliases o) /\ has_infix s (lit "-" ++ x) = false.
Proof.
  exists (mkCmd [112] [] [alias_only_arg] [] None false false sets0 sets0), cd0, [112]. eexists. exists alias_only_arg, [120].
  split; [vm_compute; reflexivity|]. split; [left; reflexivity|]. split; [reflexivity|].
  split; [left; reflexivity|]. vm_compute. reflexivity.
Qed.

(** finding [nushell-subcommand-aliases]: a visible alias of a subcommand is declared nowhere -- the module
    has the block of the NAME path only, the alias occurs nowhere in it *)
Definition alias_sub_tree : cmd :=
  mkCmd [112] [] [] [mkCmd (lit "sub") [(lit "zz", true)] [] [] None false false sets0 sets0] None false false sets0 sets0.
Lemma nushell_subcommand_alias_refuted :
  exists c d bin s sc w,
    generate_nushell c d bin = Some s /\ In sc (c_subs c) /\ In (w, true) (c_aliases sc) /\
    has_infix s ex_extern_sub = true /\ has_infix s w = false.
Proof.
  exists alias_sub_tree, cd0, [112]. eexists. eexists. exists (lit "zz").
  split; [vm_compute; reflexivity|]. split; [left; reflexivity|]. split; [left; reflexivity|].
  split; vm_compute; reflexivity.
Qed.
