(** C16 proofs, part 2: the tables of the bash generator.
    For a tree in the class [mangle_safe], every path of names or visible aliases drives the
    generated [cmd,word)] table to the function name of the addressed node, and the [case] arm
    of that function carries exactly the node's words.  Trees of any depth. *)
From ClapModel Require Import Base.Bytes Complete.AotTree Complete.BashModel Complete.AotProofs.
Open Scope list_scope.
Open Scope N_scope.

(** ---- strings ---- *)
(** no "__" inside, no trailing '_', no space: the condition under which joining with "__" and
    [split("__")] are inverse *)
Fixpoint dd_safe (s : bytes) : bool :=
  match s with
  | [] => true
  | ch :: t =>
      negb (ch =? 32)
      && (if ch =? 95 then match t with [] => false | c2 :: _ => negb (c2 =? 95) end else true)
      && dd_safe t
  end.

Lemma split_dd_cons ch t :
  split_dd (ch :: t) =
  match t with
  | c2 :: t2 => if (ch =? 95) && (c2 =? 95) then [] :: split_dd t2 else cons_head ch (split_dd t)
  | [] => [[ch]]
  end.
Proof. reflexivity. Qed.

Lemma split_dd_join n : forall rest,
  dd_safe n = true -> split_dd (n ++ dd ++ rest) = n :: split_dd rest.
Proof.
  induction n as [|ch t IH]; intros rest Hs.
  - reflexivity.
  - simpl in Hs. apply andb_true_iff in Hs. destruct Hs as [Hs Ht].
    apply andb_true_iff in Hs. destruct Hs as [_ Hc].
    change ((ch :: t) ++ dd ++ rest) with (ch :: (t ++ dd ++ rest)). rewrite split_dd_cons.
    destruct t as [|c2 t'].
    + simpl. destruct (ch =? 95); [discriminate|]. reflexivity.
    + change ((c2 :: t') ++ dd ++ rest) with (c2 :: (t' ++ dd ++ rest)).
      assert (Hf : (ch =? 95) && (c2 =? 95) = false).
      { destruct (ch =? 95); [|reflexivity]. simpl. apply negb_true_iff in Hc. exact Hc. }
      cbv beta iota. rewrite Hf. change (c2 :: t' ++ dd ++ rest) with ((c2 :: t') ++ dd ++ rest).
      rewrite (IH rest Ht). reflexivity.
Qed.

Lemma split_dd_single n : dd_safe n = true -> split_dd n = [n].
Proof.
  induction n as [|ch t IH]; intros Hs.
  - reflexivity.
  - simpl in Hs. apply andb_true_iff in Hs. destruct Hs as [Hs Ht].
    apply andb_true_iff in Hs. destruct Hs as [_ Hc].
    rewrite split_dd_cons. destruct t as [|c2 t'].
    + reflexivity.
    + assert (Hf : (ch =? 95) && (c2 =? 95) = false).
      { destruct (ch =? 95); [|reflexivity]. simpl. apply negb_true_iff in Hc. exact Hc. }
      cbv beta iota. rewrite Hf, (IH Ht). reflexivity.
Qed.

Definition join_with (sep : bytes) (ns : list bytes) : bytes := List.concat (map (fun x => sep ++ x) ns).

Lemma join_with_nil sep : join_with sep [] = [].
Proof. reflexivity. Qed.
Lemma join_with_cons sep x ns : join_with sep (x :: ns) = sep ++ x ++ join_with sep ns.
Proof. unfold join_with. simpl. rewrite <- app_assoc. reflexivity. Qed.

Lemma split_dd_path : forall ns b,
  dd_safe b = true -> Forall (fun x => dd_safe x = true) ns ->
  split_dd (b ++ join_with dd ns) = b :: ns.
Proof.
  induction ns as [|x ns IH]; intros b Hb Hns.
  - rewrite join_with_nil, app_nil_r. apply split_dd_single; exact Hb.
  - inversion Hns; subst. rewrite join_with_cons.
    rewrite split_dd_join by exact Hb. f_equal. apply IH; assumption.
Qed.

Lemma replace_byte_app c r a b : replace_byte c r (a ++ b) = replace_byte c r a ++ replace_byte c r b.
Proof. unfold replace_byte. apply flat_map_app. Qed.

Lemma space_to_dd_id s : dd_safe s = true -> space_to_dd s = s.
Proof.
  induction s as [|ch t IH]; intros Hs; [reflexivity|].
  simpl in Hs. apply andb_true_iff in Hs. destruct Hs as [Hs Ht].
  apply andb_true_iff in Hs. destruct Hs as [Hsp _]. apply negb_true_iff in Hsp.
  unfold space_to_dd, replace_byte in *. simpl. rewrite Hsp. simpl. f_equal. apply IH; exact Ht.
Qed.

Lemma space_to_dd_app a b : space_to_dd (a ++ b) = space_to_dd a ++ space_to_dd b.
Proof. apply replace_byte_app. Qed.

Lemma space_to_dd_path : forall ns b,
  dd_safe b = true -> Forall (fun x => dd_safe x = true) ns ->
  space_to_dd (b ++ join_with [32] ns) = b ++ join_with dd ns.
Proof.
  intros ns b Hb Hns. rewrite space_to_dd_app, (space_to_dd_id b Hb). f_equal.
  induction Hns as [|x ns Hx Hns IH]; [reflexivity|].
  rewrite !join_with_cons, !space_to_dd_app, IH, (space_to_dd_id x Hx). reflexivity.
Qed.

Definition fn_of (root_fn : bytes) (ns : list bytes) : bytes :=
  root_fn ++ List.concat (map (fun n => dd ++ mangle n) ns).

Lemma mangle_app a b : mangle (a ++ b) = mangle a ++ mangle b.
Proof. apply replace_byte_app. Qed.

Lemma mangle_path ns b : mangle (b ++ join_with dd ns) = fn_of (mangle b) ns.
Proof.
  unfold fn_of. rewrite mangle_app. f_equal.
  induction ns as [|x ns IH]; [reflexivity|].
  rewrite join_with_cons. simpl map. simpl List.concat. rewrite !mangle_app, IH. reflexivity.
Qed.

Lemma fn_of_cons r x ns : fn_of r (x :: ns) = fn_of (r ++ dd ++ mangle x) ns.
Proof. unfold fn_of; simpl. rewrite <- !app_assoc. reflexivity. Qed.

Lemma fn_of_nil r : fn_of r [] = r.
Proof. unfold fn_of; simpl. apply app_nil_r. Qed.

(** ---- sort / dedup keep the elements ---- *)
Lemma insert_in {A} cmp (x y : A) l : In x (insert cmp y l) <-> x = y \/ In x l.
Proof.
  induction l as [|h t IH]; simpl.
  - split; [intros [H|[]]; auto|intros [H|[]]; auto].
  - destruct (cmp y h); simpl; try rewrite IH; split; intuition auto.
Qed.
Lemma sort_in {A} cmp (x : A) l : In x (sort cmp l) <-> In x l.
Proof.
  unfold sort. induction l as [|h t IH]; simpl; [reflexivity|].
  rewrite insert_in, IH. split; intuition auto.
Qed.
Lemma dedup_in x l : In x (dedup l) <-> In x l.
Proof.
  induction l as [|h t IH]; [reflexivity|].
  change (dedup (h :: t)) with
    (match t with y :: _ => if beq h y then dedup t else h :: dedup t | [] => [h] end).
  destruct t as [|y t'].
  - reflexivity.
  - destruct (beq h y) eqn:E.
    + apply beq_eq in E; subst y. rewrite IH. simpl. split; intuition auto.
    + simpl In at 1. rewrite IH. simpl. split; intuition auto.
Qed.

(** ---- lists without duplicates ---- *)
Lemma nodup_app_disjoint {A} (a b : list A) x : NoDup (a ++ b) -> In x a -> In x b -> False.
Proof.
  induction a as [|h t IH]; simpl; intros Hn Ha Hb; [destruct Ha|].
  inversion Hn as [|h' l' Hnot Hrest]; subst. destruct Ha as [->|Ha].
  - apply Hnot. apply in_app_iff. right; exact Hb.
  - exact (IH Hrest Ha Hb).
Qed.
Lemma nodup_app_r {A} (a b : list A) : NoDup (a ++ b) -> NoDup b.
Proof. induction a as [|h t IH]; simpl; intros Hn; [exact Hn|]. inversion Hn; subst. apply IH; assumption. Qed.

Lemma nodup_flat_map_inj {A B} (f : A -> list B) l a b x :
  NoDup (flat_map f l) -> In a l -> In b l -> In x (f a) -> In x (f b) -> a = b.
Proof.
  induction l as [|h t IH]; simpl; intros Hn Ha Hb Hxa Hxb; [destruct Ha|].
  destruct Ha as [->|Ha]; destruct Hb as [->|Hb].
  - reflexivity.
  - exfalso. eapply nodup_app_disjoint; [exact Hn|exact Hxa|]. apply in_flat_map. exists b; auto.
  - exfalso. eapply nodup_app_disjoint; [exact Hn|exact Hxb|]. apply in_flat_map. exists a; auto.
  - apply IH; auto. eapply nodup_app_r; exact Hn.
Qed.

(** ---- paths in the tree ---- *)
Definition sc_words (sc : cmd) : list bytes := get_name_and_visible_aliases sc.
Definition all_words (sc : cmd) : list bytes := c_name sc :: get_all_cmd_aliases sc.

Lemma sc_words_all sc w : In w (sc_words sc) -> In w (all_words sc).
Proof.
  unfold sc_words, all_words, get_name_and_visible_aliases, get_visible_cmd_aliases, get_all_cmd_aliases.
  simpl. intros [H|H]; [left; exact H|right]. apply visible_in in H.
  apply in_map_iff. exists (w, true); auto.
Qed.

(** [reach c ws ns n]: the words [ws] (each a name or a visible alias) lead from [c] to [n];
    [ns] are the names of the commands passed *)
Inductive reach : cmd -> list bytes -> list bytes -> cmd -> Prop :=
| reach_nil c : reach c [] [] c
| reach_cons c sc w ws ns n :
    In sc (c_subs c) -> In w (sc_words sc) -> reach sc ws ns n -> reach c (w :: ws) (c_name sc :: ns) n.

(** [node_at r c f n]: [n] is the node of [c] (the root or a descendant) whose bash function name
    is [f], when [c]'s own function name is [r] *)
Inductive node_at : bytes -> cmd -> bytes -> cmd -> Prop :=
| node_root r c : node_at r c r c
| node_sub r c sc f n :
    In sc (c_subs c) -> node_at (r ++ dd ++ mangle (c_name sc)) sc f n -> node_at r c f n.

Lemma node_at_extend r c f p sc :
  node_at r c f p -> In sc (c_subs p) -> node_at r c (f ++ dd ++ mangle (c_name sc)) sc.
Proof.
  induction 1 as [r c|r c sc0 f n Hin Hn IH]; intros Hsc.
  - eapply node_sub; [exact Hsc|apply node_root].
  - eapply node_sub; [exact Hin|apply IH; exact Hsc].
Qed.

Lemma node_at_desc r c f n : node_at r c f n -> n = c \/ desc c n.
Proof.
  induction 1 as [r c|r c sc f n Hin Hn IH]; [left; reflexivity|right].
  destruct IH as [->|Hd]; [apply desc_child; exact Hin|eapply desc_step; eauto].
Qed.

Lemma node_at_prefix r c f n : node_at r c f n -> exists s, f = r ++ s.
Proof.
  induction 1 as [r c|r c sc f n Hin Hn IH]; [exists []; rewrite app_nil_r; reflexivity|].
  destruct IH as [s ->]. eexists. rewrite <- app_assoc. reflexivity.
Qed.

Lemma reach_node_at c ws ns n : reach c ws ns n -> forall r, node_at r c (fn_of r ns) n.
Proof.
  induction 1 as [c|c sc w ws ns n Hin Hw Hr IH]; intros r.
  - rewrite fn_of_nil. apply node_root.
  - rewrite fn_of_cons. eapply node_sub; [exact Hin|apply IH].
Qed.

Lemma reach_desc c ws ns n : reach c ws ns n -> n = c \/ desc c n.
Proof.
  induction 1 as [c|c sc w ws ns n Hin Hw Hr IH]; [left; reflexivity|right].
  destruct IH as [->|Hd]; [apply desc_child; exact Hin|eapply desc_step; eauto].
Qed.

Lemma desc_reach c n : desc c n -> exists ns, reach c ns ns n.
Proof.
  induction 1 as [c sc Hin|c sc n Hin Hd IH].
  - exists [c_name sc]. eapply reach_cons; [exact Hin|left; reflexivity|apply reach_nil].
  - destruct IH as [ns Hr]. exists (c_name sc :: ns). eapply reach_cons; [exact Hin|left; reflexivity|exact Hr].
Qed.

(** the bin names are what [_build_bin_names_internal] makes them: parent's bin, a space, the name *)
Definition linked (c : cmd) : Prop :=
  forall p sc, (p = c \/ desc c p) -> In sc (c_subs p) ->
    exists pb, c_bin p = Some pb /\ c_bin sc = Some (pb ++ [32] ++ c_name sc).

Lemma linked_sub c sc : linked c -> In sc (c_subs c) -> linked sc.
Proof.
  intros Hl Hin p s Hp Hs. apply Hl; [|exact Hs]. right.
  destruct Hp as [->|Hd]; [apply desc_child; exact Hin|eapply desc_step; eauto].
Qed.

Lemma reach_bin c ws ns n : reach c ws ns n ->
  forall b, c_bin c = Some b -> linked c -> c_bin n = Some (b ++ join_with [32] ns).
Proof.
  induction 1 as [c|c sc w ws ns n Hin Hw Hr IH]; intros b Hb Hl.
  - rewrite join_with_nil, app_nil_r. exact Hb.
  - destruct (Hl c sc (or_introl eq_refl) Hin) as (pb & Hpb & Hsc). rewrite Hb in Hpb; inversion Hpb; subst pb.
    rewrite (IH _ Hsc (linked_sub _ _ Hl Hin)). rewrite join_with_cons, <- !app_assoc. reflexivity.
Qed.

Lemma reach_names_safe c ws ns n : reach c ws ns n ->
  (forall m, desc c m -> dd_safe (c_name m) = true) -> Forall (fun x => dd_safe x = true) ns.
Proof.
  induction 1 as [c|c sc w ws ns n Hin Hw Hr IH]; intros Hs; constructor.
  - apply Hs. apply desc_child; exact Hin.
  - apply IH. intros m Hm. apply Hs. eapply desc_step; eauto.
Qed.

(** ---- find_subcommand on valid siblings ---- *)
Lemma aliases_to_words s n : aliases_to s n = true -> In n (all_words s).
Proof.
  unfold aliases_to, all_words. intros H. apply orb_true_iff in H. destruct H as [H|H].
  - apply beq_eq in H. left; exact H.
  - apply existsb_exists in H. destruct H as (a & Ha & He). apply beq_eq in He; subst. right; exact Ha.
Qed.

Lemma find_subcommand_hit subs sc :
  NoDup (flat_map all_words subs) -> In sc subs ->
  find (fun s => aliases_to s (c_name sc)) subs = Some sc.
Proof.
  induction subs as [|h t IH]; cbn [flat_map find In]; intros Hn Hin; [destruct Hin|].
  destruct (aliases_to h (c_name sc)) eqn:Ea.
  - f_equal. eapply (nodup_flat_map_inj all_words (h :: t)); [exact Hn|left; reflexivity|exact Hin| |].
    + apply aliases_to_words; exact Ea.
    + left; reflexivity.
  - destruct Hin as [->|Hin].
    + unfold aliases_to in Ea. rewrite beq_refl in Ea. discriminate.
    + apply IH; [eapply nodup_app_r; exact Hn|exact Hin].
Qed.

Definition siblings_ok (c : cmd) : Prop :=
  forall p, (p = c \/ desc c p) -> NoDup (flat_map all_words (c_subs p)).

Lemma siblings_ok_sub c sc : siblings_ok c -> In sc (c_subs c) -> siblings_ok sc.
Proof.
  intros Hs Hin p Hp. apply Hs. right.
  destruct Hp as [->|Hd]; [apply desc_child; exact Hin|eapply desc_step; eauto].
Qed.

Lemma find_path_reach c ws ns n : reach c ws ns n -> siblings_ok c -> find_subcommand_with_path c ns = Some n.
Proof.
  induction 1 as [c|c sc w ws ns n Hin Hw Hr IH]; intros Hs; [reflexivity|].
  simpl. unfold find_subcommand. rewrite (find_subcommand_hit _ _ (Hs c (or_introl eq_refl)) Hin).
  apply IH. eapply siblings_ok_sub; eauto.
Qed.

(** ---- the class ---- *)
Record mangle_safe (c : cmd) (root_bin : bytes) : Prop := {
  ms_root : dd_safe root_bin = true;
  ms_root_ne : root_bin <> [];
  ms_names : forall n, desc c n -> dd_safe (c_name n) = true;
  ms_siblings : siblings_ok c;
  ms_inj : forall f n1 n2, node_at (mangle root_bin) c f n1 -> node_at (mangle root_bin) c f n2 -> n1 = n2
}.

(** the [path] argument the generator builds for a node resolves to that node *)
Lemma find_path_node c root_bin ws ns n :
  c_bin c = Some root_bin -> linked c -> mangle_safe c root_bin -> reach c ws ns n ->
  exists b, c_bin n = Some b /\ find_path c (space_to_dd b) = Some n /\
            mangle (space_to_dd b) = fn_of (mangle root_bin) ns.
Proof.
  intros Hb Hl Hm Hr. destruct Hm as [Hroot _ Hnames Hsib _].
  pose proof (reach_names_safe _ _ _ _ Hr Hnames) as Hns.
  exists (root_bin ++ join_with [32] ns). split; [apply (reach_bin _ _ _ _ Hr _ Hb Hl)|].
  rewrite (space_to_dd_path _ _ Hroot Hns). split.
  - unfold find_path. rewrite (split_dd_path _ _ Hroot Hns). simpl. eapply find_path_reach; eauto.
  - apply mangle_path.
Qed.

(** ---- the transition table ---- *)
Lemma add_command_unfold pfn c :
  add_command pfn c =
  ((pfn, c_name c, pfn ++ dd ++ mangle (c_name c))
     :: map (fun a => (pfn, a, pfn ++ dd ++ mangle (c_name c))) (visible (c_aliases c)))
  ++ flat_map (add_command (pfn ++ dd ++ mangle (c_name c))) (c_subs c).
Proof. destruct c; reflexivity. Qed.

(** what the table contains: for every node [p] with function name [pf] and every child, one
    entry per name / visible alias of the child *)
Definition entry_of (r : bytes) (c : cmd) (e : bytes * bytes * bytes) : Prop :=
  exists pf p child, node_at r c pf p /\ In child (c_subs p) /\ In (snd (fst e)) (sc_words child) /\
                     fst (fst e) = pf /\ snd e = pf ++ dd ++ mangle (c_name child).

Lemma own_entries_in pfn sc e :
  In e ((pfn, c_name sc, pfn ++ dd ++ mangle (c_name sc))
          :: map (fun a => (pfn, a, pfn ++ dd ++ mangle (c_name sc))) (visible (c_aliases sc))) <->
  fst (fst e) = pfn /\ In (snd (fst e)) (sc_words sc) /\ snd e = pfn ++ dd ++ mangle (c_name sc).
Proof.
  unfold sc_words, get_name_and_visible_aliases, get_visible_cmd_aliases. simpl. rewrite in_map_iff. split.
  - intros [<-|(a & <- & Ha)]; simpl; auto.
  - destruct e as [[p w] f]; simpl. intros (-> & [<-|Hw] & ->); [left; reflexivity|right; exists w; auto].
Qed.

Lemma transitions_entries : forall c r e,
  In e (flat_map (add_command r) (c_subs c)) <-> entry_of r c e.
Proof.
  induction c as [n al args subs bin h v s g IH] using cmd_ind'. intros r e.
  rewrite Forall_forall in IH. simpl c_subs. rewrite in_flat_map. split.
  - intros (sc & Hin & He). rewrite add_command_unfold in He. apply in_app_iff in He. destruct He as [He|He].
    + apply own_entries_in in He. destruct He as (H1 & H2 & H3).
      exists r, (mkCmd n al args subs bin h v s g), sc. repeat split; auto. apply node_root.
    + apply (IH sc Hin) in He. destruct He as (pf & p & child & Hn & Hc & Hw & H1 & H2).
      exists pf, p, child. repeat split; auto. eapply node_sub; [exact Hin|exact Hn].
  - intros (pf & p & child & Hn & Hc & Hw & H1 & H2).
    inversion Hn as [r0 c0|r0 c0 sc f0 n0 Hin Hn']; subst.
    + exists child. split; [exact Hc|]. rewrite add_command_unfold. apply in_app_iff. left.
      apply own_entries_in. auto.
    + exists sc. split; [exact Hin|]. rewrite add_command_unfold. apply in_app_iff. right.
      apply (IH sc Hin). exists (fst (fst e)), p, child. repeat split; auto.
Qed.

(** in the class, (parent function, word) determines the target *)
Lemma entries_functional c root_bin e1 e2 :
  mangle_safe c root_bin ->
  entry_of (mangle root_bin) c e1 -> entry_of (mangle root_bin) c e2 ->
  fst e1 = fst e2 -> snd e1 = snd e2.
Proof.
  destruct e1 as [[a1 w1] f1]; destruct e2 as [[a2 w2] f2].
  intros Hm (pf1 & p1 & c1 & Hn1 & Hc1 & Hw1 & Hp1 & Hf1) (pf2 & p2 & c2 & Hn2 & Hc2 & Hw2 & Hp2 & Hf2) Hk.
  simpl in *. inversion Hk; subst a2 w2. subst pf1 pf2.
  assert (Hp : p1 = p2) by (eapply (ms_inj _ _ Hm); eauto). subst p2.
  assert (Hc : c1 = c2).
  { eapply (nodup_flat_map_inj all_words (c_subs p1)).
    - apply (ms_siblings _ _ Hm). eapply node_at_desc; eauto.
    - exact Hc1.
    - exact Hc2.
    - apply sc_words_all; exact Hw1.
    - apply sc_words_all; exact Hw2. }
  subst c2. rewrite Hf1, Hf2. reflexivity.
Qed.

Lemma mangle_nonempty s : s <> [] -> mangle s <> [].
Proof.
  destruct s as [|ch t]; [intros H; contradiction|intros _].
  unfold mangle, replace_byte. simpl. destruct (ch =? 45); discriminate.
Qed.

Section Table.
  Variable c : cmd.
  Variable root_bin : bytes.
  Hypothesis Hsafe : mangle_safe c root_bin.
  Let root_fn := mangle root_bin.
  Let tr := transitions c root_fn.

  Lemma step_entry w0 pf p child w :
    node_at root_fn c pf p -> In child (c_subs p) -> In w (sc_words child) ->
    step root_fn w0 tr pf w = pf ++ dd ++ mangle (c_name child).
  Proof.
    intros Hn Hc Hw. unfold step.
    assert (Hne : is_nil pf = false).
    { destruct (node_at_prefix _ _ _ _ Hn) as [s0 ->].
      pose proof (mangle_nonempty _ (ms_root_ne _ _ Hsafe)) as Hr. fold root_fn in Hr.
      destruct root_fn; [contradiction|reflexivity]. }
    rewrite Hne. simpl.
    set (pr := fun e : bytes * bytes * bytes => beq (fst (fst e)) pf && beq (snd (fst e)) w).
    assert (Hmine : entry_of root_fn c (pf, w, pf ++ dd ++ mangle (c_name child))).
    { exists pf, p, child. repeat split; auto. }
    destruct (find pr tr) as [e|] eqn:Ef.
    - apply find_some in Ef. destruct Ef as [Hin Hpr]. unfold pr in Hpr.
      apply andb_true_iff in Hpr. destruct Hpr as [H1 H2]. apply beq_eq in H1. apply beq_eq in H2.
      unfold tr, transitions in Hin. apply sort_in in Hin. apply transitions_entries in Hin.
      apply (entries_functional c root_bin e _ Hsafe Hin Hmine).
      destruct e as [[a b] f]; simpl in *; subst; reflexivity.
    - exfalso.
      assert (Hin : In (pf, w, pf ++ dd ++ mangle (c_name child)) tr).
      { unfold tr, transitions. apply sort_in. apply transitions_entries. exact Hmine. }
      pose proof (find_none pr tr Ef _ Hin) as Hfalse.
      unfold pr in Hfalse; simpl in Hfalse. rewrite !beq_refl in Hfalse. discriminate.
  Qed.

  Lemma fold_reach w0 c' ws ns n :
    reach c' ws ns n -> forall pf, node_at root_fn c pf c' ->
    fold_left (step root_fn w0 tr) ws pf = fn_of pf ns.
  Proof.
    induction 1 as [c'|c' sc w ws ns n Hin Hw Hr IH]; intros pf Hn.
    - rewrite fn_of_nil. reflexivity.
    - simpl. rewrite (step_entry w0 pf c' sc w Hn Hin Hw). rewrite fn_of_cons.
      apply IH. eapply node_at_extend; eauto.
  Qed.
End Table.

(** C16_bash_reaches: the [for i in ${COMP_WORDS[@]}] loop, started on the command word and fed a
    path of names or visible aliases, ends in the function name of the addressed node *)
Theorem bash_reaches c root_bin w0 ws ns n :
  mangle_safe c root_bin -> reach c ws ns n ->
  fold_left (step (mangle root_bin) w0 (transitions c (mangle root_bin))) (w0 :: ws) [] =
  fn_of (mangle root_bin) ns.
Proof.
  intros Hm Hr. simpl. unfold step at 2. simpl. rewrite beq_refl. simpl.
  apply (fold_reach c root_bin Hm w0 c ws ns n Hr). apply node_root.
Qed.

(** ---- the [case "${cmd}"] arms ---- *)
Lemma subcommand_case_label c x k : subcommand_case c x = Some k -> k_label k = mangle x.
Proof.
  unfold subcommand_case. destruct (all_options_for_path c x), (option_details_for_path c x);
    intros H; inversion H; reflexivity.
Qed.

Lemma find_case c scs cases key P :
  Forall2 (fun x k => subcommand_case c x = Some k) scs cases ->
  (forall x, In x scs -> mangle x = key -> x = P) -> In P scs -> mangle P = key ->
  exists k, find (fun k => beq (k_label k) key) cases = Some k /\ subcommand_case c P = Some k.
Proof.
  induction 1 as [|x k scs cases Hxk Hrest IH]; intros Hu Hin Hkey; [destruct Hin|].
  cbn [find]. destruct (beq (k_label k) key) eqn:E.
  - exists k; split; [reflexivity|]. apply beq_eq in E. rewrite (subcommand_case_label _ _ _ Hxk) in E.
    rewrite <- (Hu x (or_introl eq_refl) E). exact Hxk.
  - destruct Hin as [->|Hin].
    + rewrite (subcommand_case_label _ _ _ Hxk), Hkey, beq_refl in E. discriminate.
    + apply IH; auto. intros y Hy; apply Hu; right; exact Hy.
Qed.

Lemma desc_parent c n : desc c n -> exists p, (p = c \/ desc c p) /\ In n (c_subs p).
Proof.
  induction 1 as [c sc Hin|c sc n Hin Hd IH].
  - exists c; auto.
  - destruct IH as (p & Hp & Hn). exists p. split; [right|exact Hn].
    destruct Hp as [->|Hp]; [apply desc_child; exact Hin|eapply desc_step; eauto].
Qed.

Lemma linked_bins_built c : linked c -> bins_built c.
Proof.
  intros Hl n Hd. destruct (desc_parent _ _ Hd) as (p & Hp & Hn).
  destruct (Hl p n Hp Hn) as (pb & _ & Hb). rewrite Hb. discriminate.
Qed.

Lemma subcommand_paths_in c scs :
  bins_built c -> subcommand_paths c = Some scs ->
  forall x, In x scs <-> exists n b, desc c n /\ c_bin n = Some b /\ x = space_to_dd b.
Proof.
  intros Hb. unfold subcommand_paths. destruct (all_subcommands_spec c Hb) as (l & Hl & Hspec). rewrite Hl.
  intros H; inversion H; subst; clear H. intros x. rewrite dedup_in, sort_in, in_map_iff. split.
  - intros ([w b] & <- & Hin). apply Hspec in Hin. destruct Hin as (n & Hd & Hbin & _). exists n, b; auto.
  - intros (n & b & Hd & Hbin & ->). exists (c_name n, b). split; [reflexivity|]. apply Hspec.
    exists n. repeat split; auto. left; reflexivity.
Qed.

Lemma reach_cons_desc c w ws x ns n : reach c (w :: ws) (x :: ns) n -> desc c n.
Proof.
  intros Hr. inversion Hr as [|c0 sc w0 ws0 ns0 n0 Hin Hw Hr']; subst.
  destruct (reach_desc _ _ _ _ Hr') as [->|Hd]; [apply desc_child; exact Hin|eapply desc_step; eauto].
Qed.

Lemma reach_lengths c ws ns n : reach c ws ns n -> List.length ws = List.length ns.
Proof. induction 1; simpl; auto. Qed.

Lemma opts_tokens_some n :
  (forall sc, In sc (c_subs n) -> c_bin sc <> None) -> exists o, opts_tokens n = Some o.
Proof.
  intros Hb. unfold opts_tokens. destruct (subcommands_spec n Hb) as (l & Hl & _). rewrite Hl. eexists; reflexivity.
Qed.

Lemma find_path_root c root_bin : dd_safe root_bin = true -> find_path c root_bin = Some c.
Proof. intros Hs. unfold find_path. rewrite (split_dd_single _ Hs). reflexivity. Qed.

(** the arm selected for the function name of the addressed node carries that node's words
    and option arms *)
Theorem bash_case c root_bin t ws ns n :
  c_bin c = Some root_bin -> linked c -> mangle_safe c root_bin -> bash_table c = Some t ->
  reach c ws ns n ->
  exists k, lookup_case t (fn_of (mangle root_bin) ns) = Some k /\
            opts_tokens n = Some (k_opts k) /\ k_details k = option_details n /\
            k_level k = N.of_nat (S (List.length ns)).
Proof.
  intros Hb Hl Hm Ht Hr. unfold bash_table in Ht. rewrite Hb in Ht.
  destruct (all_options_for_path c root_bin) as [o|] eqn:Eo; [|discriminate].
  destruct (option_details_for_path c root_bin) as [d|] eqn:Ed; [|discriminate].
  destruct (subcommand_details c) as [cases|] eqn:Es; [|discriminate].
  inversion Ht; subst t; clear Ht. unfold lookup_case. cbn [t_root t_cases find k_label].
  set (key := fn_of (mangle root_bin) ns).
  destruct (find_path_node c root_bin ws ns n Hb Hl Hm Hr) as (b & Hbn & Hfp & Hmg).
  pose proof (reach_node_at _ _ _ _ Hr (mangle root_bin)) as Hnode. fold key in Hnode.
  destruct (beq (mangle root_bin) key) eqn:Eroot.
  - apply beq_eq in Eroot.
    assert (Hnc : n = c).
    { eapply (ms_inj _ _ Hm); [exact Hnode|]. rewrite <- Eroot. apply node_root. }
    subst n. eexists; split; [reflexivity|]. cbn [k_opts k_details k_level].
    unfold all_options_for_path in Eo. unfold option_details_for_path in Ed.
    rewrite (find_path_root c root_bin (ms_root _ _ Hm)) in Eo, Ed. inversion Ed; subst d.
    split; [exact Eo|split; [reflexivity|]].
    (* the root is reached by the empty path only when the names are as the functions say *)
    destruct ns as [|x ns']; [reflexivity|].
    exfalso. inversion Hr as [|c0 sc w0 ws0 ns0 n0 Hin Hw Hr']; subst.
    (* c is its own proper descendant with the same function name: impossible by size, but we
       do not need it: the bin of c would be longer than itself *)
    pose proof (reach_bin _ _ _ _ Hr _ Hb Hl) as Hbin. rewrite Hb in Hbin. inversion Hbin as [Hlen].
    apply (f_equal (@List.length N)) in Hlen. rewrite app_length, join_with_cons in Hlen.
    rewrite !app_length in Hlen. simpl in Hlen. lia.
  - unfold subcommand_details in Es. destruct (subcommand_paths c) as [scs|] eqn:Ep; [|discriminate].
    apply map_opt_Forall2 in Es.
    pose proof (subcommand_paths_in c scs (linked_bins_built _ Hl) Ep) as Hscs.
    destruct (find_case c scs cases key (space_to_dd b) Es) as (k & Hfind & Hk).
    + intros x Hx Hkey. apply Hscs in Hx. destruct Hx as (n' & b' & Hd' & Hb' & ->).
      destruct (desc_reach _ _ Hd') as (ns' & Hr').
      destruct (find_path_node c root_bin ns' ns' n' Hb Hl Hm Hr') as (b'' & Hb'' & _ & Hmg').
      rewrite Hb' in Hb''; inversion Hb''; subst b''.
      pose proof (reach_node_at _ _ _ _ Hr' (mangle root_bin)) as Hnode'.
      rewrite <- Hmg', Hkey in Hnode'.
      assert (Heq : n' = n) by (eapply (ms_inj _ _ Hm); eauto). subst n'.
      rewrite Hbn in Hb'; inversion Hb'; reflexivity.
    + apply Hscs. exists n, b. split; [|auto].
      destruct ns as [|x ns'].
      * exfalso. unfold key in Eroot. rewrite fn_of_nil, beq_refl in Eroot. discriminate.
      * inversion Hr; subst. eapply reach_cons_desc; eauto.
    + exact Hmg.
    + exists k. split; [exact Hfind|]. unfold subcommand_case in Hk.
      unfold all_options_for_path, option_details_for_path in Hk. rewrite Hfp in Hk.
      destruct (opts_tokens n) as [o'|]; [|discriminate]. inversion Hk; subst k. cbn [k_opts k_details k_level].
      split; [reflexivity|split; [reflexivity|]].
      destruct Hm as [Hroot _ Hnames _ _].
      pose proof (reach_names_safe _ _ _ _ Hr Hnames) as Hns.
      pose proof (reach_bin _ _ _ _ Hr _ Hb Hl) as Hbin. rewrite Hbn in Hbin. inversion Hbin; subst b.
      rewrite (space_to_dd_path _ _ Hroot Hns), (split_dd_path _ _ Hroot Hns). reflexivity.
Qed.

(** in the class the generator does not panic: every path lookup succeeds *)
Theorem bash_no_panic c root_bin :
  c_bin c = Some root_bin -> linked c -> mangle_safe c root_bin -> exists t, bash_table c = Some t.
Proof.
  intros Hb Hl Hm. unfold bash_table. rewrite Hb.
  assert (Hkids : forall p, (p = c \/ desc c p) -> forall sc, In sc (c_subs p) -> c_bin sc <> None).
  { intros p Hp sc Hsc. destruct (Hl p sc Hp Hsc) as (pb & _ & Hs). rewrite Hs; discriminate. }
  unfold all_options_for_path, option_details_for_path.
  rewrite (find_path_root c root_bin (ms_root _ _ Hm)).
  destruct (opts_tokens_some c (Hkids c (or_introl eq_refl))) as (o & Ho). rewrite Ho.
  unfold subcommand_details.
  pose proof (linked_bins_built _ Hl) as Hbb.
  destruct (all_subcommands_spec c Hbb) as (l & Hall & _).
  destruct (subcommand_paths c) as [scs|] eqn:Ep; [|unfold subcommand_paths in Ep; rewrite Hall in Ep; discriminate].
  pose proof (subcommand_paths_in c scs Hbb Ep) as Hscs.
  destruct (map_opt_total (subcommand_case c) scs) as (cases & Hcases).
  { intros x Hx. apply Hscs in Hx. destruct Hx as (n' & b' & Hd' & Hb' & ->).
    destruct (desc_reach _ _ Hd') as (ns' & Hr').
    destruct (find_path_node c root_bin ns' ns' n' Hb Hl Hm Hr') as (b'' & Hb'' & Hfp & _).
    rewrite Hb' in Hb''; inversion Hb''; subst b''.
    unfold subcommand_case, all_options_for_path, option_details_for_path. rewrite Hfp.
    destruct (opts_tokens_some n' (Hkids n' (or_intror Hd'))) as (o' & Ho'). rewrite Ho'. discriminate. }
  rewrite Hcases. eexists; reflexivity.
Qed.

(** the words of [opts]: the shorts, longs, positional words and subcommand words of the node *)
Theorem opts_tokens_spec n l :
  opts_tokens n = Some l ->
  forall w, In w l <->
    (exists s, In s (shorts_and_visible_aliases n) /\ w = [45] ++ s) \/
    (exists s, In s (longs_and_visible_aliases n) /\ w = [45; 45] ++ s) \/
    (exists pos, In pos (get_positionals n) /\ In w (pos_tokens pos)) \/
    (exists sc, In sc (c_subs n) /\ In w (sc_words sc)).
Proof.
  unfold opts_tokens. destruct (subcommands n) as [scs|] eqn:Es; [|discriminate].
  intros H; inversion H; subst; clear H. intros w.
  rewrite !in_app_iff, !in_map_iff, in_flat_map.
  assert (Hsub : (exists x : bytes * bytes, fst x = w /\ In x scs) <->
                 (exists sc, In sc (c_subs n) /\ In w (sc_words sc))).
  { unfold subcommands in Es. destruct (map_opt sc_entries (c_subs n)) as [r|] eqn:Er; [|discriminate].
    inversion Es; subst scs. apply map_opt_Forall2 in Er. split.
    - intros ([w' b] & Hw & Hin). simpl in Hw; subst w'.
      apply (Forall2_concat_in _ _ _ Er) in Hin. destruct Hin as (sc & e & Hsc & He & Hin).
      destruct (sc_entries_spec _ _ He) as (b0 & _ & Hspec). apply Hspec in Hin. exists sc. split; [exact Hsc|tauto].
    - intros (sc & Hsc & Hw).
      assert (Hex : exists e, sc_entries sc = Some e).
      { clear - Er Hsc. induction Er as [|a b l r Hab Hrest IH]; [destruct Hsc|].
        destruct Hsc as [->|Hsc]; [eexists; exact Hab|auto]. }
      destruct Hex as (e & He). destruct (sc_entries_spec _ _ He) as (b0 & _ & Hspec).
      exists (w, b0). split; [reflexivity|]. apply (Forall2_concat_in _ _ _ Er). exists sc, e.
      split; [exact Hsc|split; [exact He|]]. apply Hspec. auto. }
  rewrite Hsub. split.
  - intros [(s & <- & Hs)|[(s & <- & Hs)|[(pos & Hp & Hw)|Hsc]]]; [left|right; left|right; right; left|right; right; right];
      eauto.
  - intros [(s & Hs & Hw)|[(s & Hs & Hw)|[(pos & Hp & Hw)|Hsc]]].
    + left. exists s. split; [symmetry; exact Hw|exact Hs].
    + right; left. exists s. split; [symmetry; exact Hw|exact Hs].
    + right; right; left. eauto.
    + right; right; right. exact Hsc.
Qed.

(** ---- non-vacuity: a built tree with a hyphenated subcommand, aliases and a grandchild is in the class ---- *)
Definition ex_leaf : cmd := mkCmd [99] [] [] [] (Some [112; 32; 97; 45; 98; 32; 99]) false false sets0 sets0.
Definition ex_sub : cmd :=
  mkCmd [97; 45; 98] [([120], true); ([121], false)] [] [ex_leaf] (Some [112; 32; 97; 45; 98]) false false sets0 sets0.
Definition ex_root : cmd := mkCmd [112] [] [] [ex_sub] (Some [112]) false false sets0 sets0.

Lemma ex_desc n : desc ex_root n -> n = ex_sub \/ n = ex_leaf.
Proof.
  intros Hd. inversion Hd as [c0 sc Hin|c0 sc m Hin Hd']; subst.
  - destruct Hin as [<-|[]]; auto.
  - destruct Hin as [<-|[]]. inversion Hd' as [c1 sc1 Hin1|c1 sc1 m1 Hin1 Hd1]; subst.
    + destruct Hin1 as [<-|[]]; auto.
    + destruct Hin1 as [<-|[]]. inversion Hd1 as [c2 sc2 Hin2|c2 sc2 m2 Hin2 Hd2]; subst; destruct Hin2.
Qed.

Lemma ex_node_at f n : node_at [112] ex_root f n ->
  (f = [112] /\ n = ex_root) \/ (f = [112; 95; 95; 97; 95; 95; 98] /\ n = ex_sub)
  \/ (f = [112; 95; 95; 97; 95; 95; 98; 95; 95; 99] /\ n = ex_leaf).
Proof.
  intros Hn. inversion Hn as [|r c sc f0 n0 Hin Hn1]; subst; [auto|].
  destruct Hin as [<-|[]]. right.
  inversion Hn1 as [|r c sc f0 n0 Hin Hn2]; subst; [left; auto|].
  destruct Hin as [<-|[]]. right.
  inversion Hn2 as [|r c sc f0 n0 Hin Hn3]; subst; [auto|]. destruct Hin.
Qed.

Example mangle_safe_example : c_bin ex_root = Some [112] /\ linked ex_root /\ mangle_safe ex_root [112]
                              /\ reach ex_root [[120]; [99]] [[97; 45; 98]; [99]] ex_leaf.
Proof.
  split; [reflexivity|]. split; [|split].
  - intros p sc [->|Hd] Hsc.
    + destruct Hsc as [<-|[]]. exists [112]. split; reflexivity.
    + destruct (ex_desc _ Hd) as [ -> | -> ].
      * destruct Hsc as [<-|[]]. eexists. split; reflexivity.
      * destruct Hsc.
  - constructor.
    + reflexivity.
    + discriminate.
    + intros n Hd. destruct (ex_desc _ Hd) as [ -> | -> ]; reflexivity.
    + intros p [->|Hd].
      * vm_compute. repeat constructor; simpl; intuition discriminate.
      * destruct (ex_desc _ Hd) as [ -> | -> ]; vm_compute; repeat constructor; simpl; intuition discriminate.
    + intros f n1 n2 H1 H2. change (mangle [112]) with [112] in *.
      destruct (ex_node_at _ _ H1) as [ [ -> -> ] | [ [ -> -> ] | [ -> -> ] ] ];
        destruct (ex_node_at _ _ H2) as [ [E -> ] | [ [E -> ] | [E -> ] ] ]; try reflexivity; discriminate E.
  - refine (reach_cons ex_root ex_sub [120] [[99]] [[99]] ex_leaf _ _ _);
      [left; reflexivity|right; left; reflexivity|].
    refine (reach_cons ex_sub ex_leaf [99] [] [] ex_leaf _ _ _); [left; reflexivity|left; reflexivity|apply reach_nil].
Qed.

(** outside the class the statement is false of the code: a subcommand named [a__b] makes the path
    lookup fail (the Rust [unwrap] panics) *)
Definition dunder_tree : cmd :=
  mkCmd [112] [] [] [mkCmd [97; 95; 95; 98] [] [] [] (Some [112; 32; 97; 95; 95; 98]) false false sets0 sets0]
        (Some [112]) false false sets0 sets0.
Lemma bash_dunder_refuted : exists c root_bin, c_bin c = Some root_bin /\ linked c /\ bash_table c = None.
Proof.
  exists dunder_tree, [112]. split; [reflexivity|]. split; [|vm_compute; reflexivity].
  intros p sc [->|Hd] Hsc.
  - destruct Hsc as [<-|[]]. exists [112]. split; reflexivity.
  - exfalso. inversion Hd as [c0 s0 Hin|c0 s0 m Hin Hd']; subst.
    + destruct Hin as [<-|[]]. destruct Hsc.
    + destruct Hin as [<-|[]]. inversion Hd' as [c1 s1 Hin1|c1 s1 m1 Hin1 Hd1]; subst; destruct Hin1.
Qed.

(** ---- C16_bash_table: the three facts together ---- *)
Lemma bash_table_shape c b t :
  c_bin c = Some b -> bash_table c = Some t ->
  k_label (t_root t) = mangle b /\ t_trans t = transitions c (mangle b).
Proof.
  intros Hb Ht. unfold bash_table in Ht. rewrite Hb in Ht.
  destruct (all_options_for_path c b); [|discriminate].
  destruct (option_details_for_path c b); [|discriminate].
  destruct (subcommand_details c); [|discriminate].
  inversion Ht; subst; split; reflexivity.
Qed.

Theorem bash_table_spec c root_bin :
  c_bin c = Some root_bin -> linked c -> mangle_safe c root_bin ->
  exists t, bash_table c = Some t /\
    forall w0 ws ns n, reach c ws ns n ->
      fold_left (step (k_label (t_root t)) w0 (t_trans t)) (w0 :: ws) [] = fn_of (mangle root_bin) ns /\
      exists k, lookup_case t (fn_of (mangle root_bin) ns) = Some k /\
                opts_tokens n = Some (k_opts k) /\ k_details k = option_details n /\
                k_level k = N.of_nat (S (List.length ws)).
Proof.
  intros Hb Hl Hm. destruct (bash_no_panic c root_bin Hb Hl Hm) as (t & Ht). exists t. split; [exact Ht|].
  intros w0 ws ns n Hr. destruct (bash_table_shape c root_bin t Hb Ht) as (Hlab & Htr). rewrite Hlab, Htr.
  split; [apply (bash_reaches c root_bin w0 ws ns n Hm Hr)|].
  destruct (bash_case c root_bin t ws ns n Hb Hl Hm Ht Hr) as (k & H1 & H2 & H3 & H4).
  exists k. rewrite (reach_lengths _ _ _ _ Hr). auto.
Qed.

(** determinism is inherent: the generator model is a function *)
Theorem generate_bash_deterministic c1 c2 b1 b2 :
  c1 = c2 -> b1 = b2 -> generate_bash c1 b1 = generate_bash c2 b2.
Proof. intros -> ->. reflexivity. Qed.

(** ---- the whole function: what is offered for a partial word ---- *)
Lemma filter_nonempty_all (l : list bytes) :
  Forall (fun w => w <> []) l -> filter (fun w => negb (is_nil w)) l = l.
Proof.
  induction 1 as [|w l Hw Hl IH]; [reflexivity|]. simpl. destruct w; [contradiction|]. simpl. rewrite IH. reflexivity.
Qed.

Lemma cword_level {A} (w0 : A) ws cur :
  N.of_nat (List.length ((w0 :: ws) ++ [cur])) - 1 = N.of_nat (S (List.length ws)).
Proof.
  rewrite app_length. cbn [List.length]. rewrite Nat.add_1_r, !Nat2N.inj_succ. lia.
Qed.

Lemma step_stays c root_bin w0 ns n ws cur :
  mangle_safe c root_bin -> reach c ws ns n ->
  (forall sc, In sc (c_subs n) -> ~ In cur (sc_words sc)) ->
  step (mangle root_bin) w0 (transitions c (mangle root_bin)) (fn_of (mangle root_bin) ns) cur =
  fn_of (mangle root_bin) ns.
Proof.
  intros Hm Hr Hcur. unfold step.
  pose proof (reach_node_at _ _ _ _ Hr (mangle root_bin)) as Hnode.
  assert (Hne : is_nil (fn_of (mangle root_bin) ns) = false).
  { destruct (node_at_prefix _ _ _ _ Hnode) as [s0 ->].
    pose proof (mangle_nonempty _ (ms_root_ne _ _ Hm)) as Hr0. destruct (mangle root_bin); [contradiction|reflexivity]. }
  rewrite Hne. simpl.
  destruct (find _ (transitions c (mangle root_bin))) as [e|] eqn:Ef; [|reflexivity].
  exfalso. apply find_some in Ef. destruct Ef as [Hin Hpr].
  apply andb_true_iff in Hpr. destruct Hpr as [H1 H2]. apply beq_eq in H1. apply beq_eq in H2.
  unfold transitions in Hin. apply sort_in in Hin. apply transitions_entries in Hin.
  destruct Hin as (pf & p & child & Hn & Hc & Hw & Hp & _).
  rewrite H1 in Hp. subst pf. assert (p = n) by (eapply (ms_inj _ _ Hm); eauto). subst p.
  rewrite H2 in Hw. exact (Hcur child Hc Hw).
Qed.

(** C16_bash_complete: called with the words of a subcommand path (names or visible aliases) followed
    by a partial word that is not itself a word of a child of the addressed command, the function
    replies exactly the words of the addressed level that start with the partial word *)
Theorem bash_complete_spec c root_bin t w0 ws ns n cur :
  c_bin c = Some root_bin -> linked c -> mangle_safe c root_bin -> bash_table c = Some t ->
  reach c ws ns n -> w0 <> [] -> Forall (fun w => w <> []) ws ->
  (forall sc, In sc (c_subs n) -> ~ In cur (sc_words sc)) ->
  exists l, opts_tokens n = Some l /\ bash_complete t (w0 :: ws ++ [cur]) = Some (compgen_W l cur).
Proof.
  intros Hb Hl Hm Ht Hr Hw0 Hws Hcur.
  destruct (bash_case c root_bin t ws ns n Hb Hl Hm Ht Hr) as (k & Hlook & Hopts & _ & Hlevel).
  destruct (bash_table_shape c root_bin t Hb Ht) as (Hlab & Htr).
  exists (k_opts k). split; [exact Hopts|]. unfold bash_complete.
  change (w0 :: ws ++ [cur]) with ((w0 :: ws) ++ [cur]).
  rewrite last_last.
  assert (Hstate : run_state t ((w0 :: ws) ++ [cur]) = fn_of (mangle root_bin) ns).
  { unfold run_state. rewrite Hlab, Htr. rewrite filter_app.
    rewrite (filter_nonempty_all (w0 :: ws)) by (constructor; assumption).
    rewrite fold_left_app. cbn [app hd].
    change (match (w0 :: ws) ++ [cur] with w :: _ => w | [] => [] end) with w0.
    match goal with |- fold_left _ _ ?st = _ => set (st0 := st) end.
    assert (Hst : st0 = fn_of (mangle root_bin) ns) by (apply (bash_reaches c root_bin w0 ws ns n Hm Hr)).
    rewrite Hst. clear st0 Hst.
    cbn [filter]. destruct (is_nil cur); cbn [negb fold_left]; [reflexivity|].
    apply (step_stays c root_bin w0 ns n ws cur Hm Hr Hcur). }
  rewrite Hstate, Hlook.
  assert (Hcw : (N.of_nat (List.length ((w0 :: ws) ++ [cur])) - 1 =? k_level k) = true).
  { rewrite Hlevel, <- (reach_lengths _ _ _ _ Hr). apply N.eqb_eq. apply cword_level. }
  match goal with |- context [N.eqb ?a ?b] => replace (N.eqb a b) with true by (symmetry; exact Hcw) end.
  rewrite orb_true_r. reflexivity.
Qed.

(** without the side condition on the partial word the statement is false of the script (finding
    bash-cur-is-subcommand): with children [s] and [sx], the partial word [s] is answered with nothing *)
Definition cur_tree : cmd :=
  mkCmd [112] [] []
    [mkCmd [115] [] [] [] (Some [112; 32; 115]) false false sets0 sets0;
     mkCmd [115; 120] [] [] [] (Some [112; 32; 115; 120]) false false sets0 sets0]
    (Some [112]) false false sets0 sets0.
Lemma bash_cur_is_subcommand_refuted :
  exists t l, bash_table cur_tree = Some t /\ opts_tokens cur_tree = Some l /\
              compgen_W l [115] = [[115]; [115; 120]] /\ bash_complete t [[112]; [115]] = Some [].
Proof. eexists; eexists. repeat split; vm_compute; reflexivity. Qed.
