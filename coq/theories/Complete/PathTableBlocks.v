(** C16: the table of the PowerShell / elvish generators as a LIST of (key, entries) blocks
    ([blocks]; [PathTable.gi] is its rendering, block by block, in order), and the lookup theorem:
    when sibling names and aliases are distinct (clap's own configuration check) and no name contains
    the separator [;], the block keyed by the [;]-joined path of names or visible aliases to a node [n]
    is in the table, and EVERY block with that key carries exactly [n]'s entries -- so what the shell
    finds under the key it computes from the command line is [n]'s block, at every depth. *)
From ClapModel Require Import Base.Bytes Complete.AotTree Complete.TextTree Complete.BashModel Complete.AotProofs
  Complete.BashProofs Escape.EscapeModel Escape.ShellLex Complete.PathTable Complete.PathTableLex.
Open Scope N_scope.
Open Scope list_scope.

(** ---- the table as a list of (key, entries) blocks; the block of a path is unique ---- *)
Lemma concat_map_app {A B} (g : A -> list B) (a b : list A) :
  List.concat (map g (a ++ b)) = List.concat (map g a) ++ List.concat (map g b).
Proof. now rewrite map_app, concat_app. Qed.

Lemma concat_map_concat {A B} (g : A -> list B) (ll : list (list A)) :
  List.concat (map g (List.concat ll)) = List.concat (map (fun l => List.concat (map g l)) ll).
Proof.
  induction ll as [|l ll IH]; [reflexivity|]. cbn [List.concat map]. now rewrite concat_map_app, IH.
Qed.

Definition no_semi (c : N) : bool := negb (c =? 59).
Definition sep (r : bytes) : Prop := r = [] \/ exists r0, r = 59 :: r0.

Lemma split59 : forall x x' r r', plainl no_semi x = true -> plainl no_semi x' = true -> sep r -> sep r' ->
  x ++ r = x' ++ r' -> x = x' /\ r = r'.
Proof.
  induction x as [|a x IH]; intros x' r r' Hx Hx' Hr Hr' E.
  - destruct x' as [|a' x']; [auto|]. cbn [app] in E. exfalso.
    destruct Hr as [->|[r0 ->]]; [discriminate|]. inversion E; subst a'.
    cbn in Hx'. discriminate.
  - destruct x' as [|a' x'].
    + cbn [app] in E. exfalso. destruct Hr' as [->|[r0 ->]]; [discriminate|]. inversion E; subst a.
      cbn in Hx. discriminate.
    + cbn [app] in E. inversion E; subst a'. cbn [plainl forallb] in Hx, Hx'.
      apply andb_true_iff in Hx. apply andb_true_iff in Hx'.
      destruct (IH x' r r' (proj2 Hx) (proj2 Hx') Hr Hr' H1) as [-> ->]. auto.
Qed.

Lemma join_sep ws : sep (join_with [59] ws).
Proof. destruct ws as [|w ws]; [now left|right]. rewrite join_with_cons. cbn [app]. eauto. Qed.

Lemma join_inj : forall ws ws',
  (forall w, In w ws -> plainl no_semi w = true) -> (forall w, In w ws' -> plainl no_semi w = true) ->
  join_with [59] ws = join_with [59] ws' -> ws = ws'.
Proof.
  induction ws as [|w ws IH]; intros ws' H H' E.
  - destruct ws' as [|w' ws']; [reflexivity|]. rewrite join_with_nil, join_with_cons in E. discriminate.
  - destruct ws' as [|w' ws']; [rewrite join_with_nil, join_with_cons in E; discriminate|].
    rewrite !join_with_cons in E. cbn [app] in E. inversion E as [E'].
    destruct (split59 w w' _ _ (H w (or_introl eq_refl)) (H' w' (or_introl eq_refl)) (join_sep ws) (join_sep ws') E')
      as [-> E2].
    f_equal. apply IH; auto. intros x Hx. apply H. now right. intros x Hx. apply H'. now right.
Qed.

Lemma nodup_fst_functional {A B} (l : list (A * B)) a b1 b2 :
  NoDup (map fst l) -> In (a, b1) l -> In (a, b2) l -> b1 = b2.
Proof.
  induction l as [|[x y] l IH]; intros Hn H1 H2; [destruct H1|].
  cbn [map fst] in Hn. inversion Hn as [|? ? Hnot Hrest]; subst.
  destruct H1 as [E1|H1]; destruct H2 as [E2|H2].
  - congruence.
  - inversion E1; subst. exfalso. apply Hnot. apply in_map_iff. exists (a, b2). auto.
  - inversion E2; subst. exfalso. apply Hnot. apply in_map_iff. exists (a, b1). auto.
  - exact (IH Hrest H1 H2).
Qed.

Lemma nodup_flat_map_nodup {A B} (f : A -> list B) (l : list A) :
  (forall a, In a l -> f a <> []) -> NoDup (flat_map f l) -> NoDup l.
Proof.
  induction l as [|a l IH]; intros Hne Hn; [constructor|].
  cbn [flat_map] in Hn. constructor.
  - intros Hin. destruct (f a) as [|x fa] eqn:E; [exact (Hne a (or_introl eq_refl) E)|].
    eapply (nodup_app_disjoint (x :: fa) (flat_map f l) x Hn); [now left|].
    apply in_flat_map. exists a. split; [exact Hin|]. rewrite E. now left.
  - apply IH; [intros b Hb; apply Hne; now right|exact (nodup_app_r _ _ Hn)].
Qed.

Section Blocks.
  Variable F : fmt.

  Fixpoint blocks (p : cmd) (t : ttree) (prev : bytes) {struct p} : list (bytes * bytes) :=
    match p with
    | mkCmd _ _ _ subs _ _ _ _ _ =>
        map (fun cn => (cn, entries F p t)) (cnames p prev) ++
        (fix go (l : list cmd) (ts : list ttree) : list (bytes * bytes) :=
           match l with
           | [] => []
           | sc :: l' => List.concat (map (fun cn => blocks sc (hd tt_none ts) cn) (cnames p prev)) ++ go l' (tl ts)
           end) subs (tt_subs t)
    end.

  Lemma blocks_unfold p t prev :
    blocks p t prev =
    map (fun cn => (cn, entries F p t)) (cnames p prev) ++
    List.concat (map (fun x : cmd * ttree => List.concat (map (fun cn => blocks (fst x) (snd x) cn) (cnames p prev)))
                     (zsubs p t)).
  Proof.
    destruct p as [n al args subs bin h v s g]. cbn [blocks]. f_equal.
    unfold zsubs. cbn [c_subs]. generalize (tt_subs t) as ts.
    induction subs as [|sc subs IH]; intros ts; [reflexivity|].
    cbn [zip_pad map List.concat fst snd]. now rewrite IH.
  Qed.

  Definition render_block (kb : bytes * bytes) : bytes := f_block F (fst kb) (snd kb).

  (** the table text is the blocks, rendered in order *)
  Theorem gi_blocks : forall p t prev, gi F p t prev = List.concat (map render_block (blocks p t prev)).
  Proof.
    induction p as [n al args subs bin h v s g IH] using cmd_ind'. intros t prev.
    set (p := mkCmd n al args subs bin h v s g) in *.
    rewrite (gi_unfold F p t prev), (blocks_unfold p t prev), map_app, concat_app. f_equal.
    - rewrite map_map. reflexivity.
    - rewrite (concat_map_concat render_block), map_map. f_equal. apply map_ext_in. intros x Hx.
      rewrite (concat_map_concat render_block), map_map. f_equal. apply map_ext. intros cn.
      rewrite Forall_forall in IH. apply IH. exact (zip_pad_in_fst _ _ _ _ Hx).
  Qed.

  (** [walk p t ws e]: following the words [ws] (names or visible aliases) from [p], with the texts, ends
      at a node whose entries are [e] *)
  Inductive walk : cmd -> ttree -> list bytes -> bytes -> Prop :=
  | walk_nil p t : walk p t [] (entries F p t)
  | walk_cons p t x w ws e : In x (zsubs p t) -> In w (sc_words (fst x)) -> walk (fst x) (snd x) ws e ->
                             walk p t (w :: ws) e.

  Lemma reach_walk c ws ns n : reach c ws ns n -> forall t, exists tn, walk c t ws (entries F n tn).
  Proof.
    induction 1 as [c|c sc w ws ns n Hin Hw Hr IH]; intros t.
    - exists t. constructor.
    - destruct (zip_pad_in _ _ Hin (tt_subs t) tt_none) as [st Hst]. destruct (IH st) as [tn Htn].
      exists tn. exact (walk_cons c t (sc, st) w ws _ Hst Hw Htn).
  Qed.

  Lemma cnames_child_in sc key w : key <> [] -> In w (sc_words sc) -> In (key ++ [59] ++ w) (cnames sc key).
  Proof.
    intros Hne Hw. unfold cnames. destruct key as [|k0 key']; [congruence|]. cbn [is_nil].
    apply in_map_iff. exists w. split; [reflexivity|exact Hw].
  Qed.

  Lemma cnames_child_inv sc key cn : key <> [] -> In cn (cnames sc key) -> exists w, In w (sc_words sc) /\ cn = key ++ [59] ++ w.
  Proof.
    intros Hne Hcn. unfold cnames in Hcn. destruct key as [|k0 key']; [congruence|]. cbn [is_nil] in Hcn.
    apply in_map_iff in Hcn. destruct Hcn as (w & <- & Hw). eauto.
  Qed.

  (** membership in the block list, exactly *)
  Lemma blocks_in_walk : forall p t prev k e, (forall cn, In cn (cnames p prev) -> cn <> []) ->
    In (k, e) (blocks p t prev) ->
    exists cn ws, In cn (cnames p prev) /\ k = cn ++ join_with [59] ws /\ walk p t ws e.
  Proof.
    induction p as [n al args subs bin h v s g IH] using cmd_ind'. intros t prev k e Hne Hin.
    set (p := mkCmd n al args subs bin h v s g) in *.
    rewrite (blocks_unfold p t prev) in Hin. apply in_app_iff in Hin. destruct Hin as [Hin|Hin].
    - apply in_map_iff in Hin. destruct Hin as (cn & E & Hcn). inversion E; subst k e.
      exists cn, []. rewrite join_with_nil, app_nil_r. repeat split; auto. constructor.
    - apply in_concat_iff in Hin. destruct Hin as (l & Hl & Hk). apply in_map_iff in Hl.
      destruct Hl as (x & <- & Hx). apply in_concat_iff in Hk. destruct Hk as (l2 & Hl2 & Hk).
      apply in_map_iff in Hl2. destruct Hl2 as (cn & <- & Hcn).
      rewrite Forall_forall in IH. pose proof (zip_pad_in_fst _ _ _ _ Hx) as Hsub.
      pose proof (Hne cn Hcn) as Hcne.
      destruct (IH (fst x) Hsub (snd x) cn k e) as (cn' & ws & Hcn' & -> & Hw); [|exact Hk|].
      + intros c0 Hc0. destruct (cnames_child_inv _ _ _ Hcne Hc0) as (w & _ & ->). destruct cn; [congruence|discriminate].
      + destruct (cnames_child_inv _ _ _ Hcne Hcn') as (w & Hw' & ->).
        exists cn, (w :: ws). split; [exact Hcn|]. split.
        * rewrite join_with_cons, <- !app_assoc. reflexivity.
        * exact (walk_cons p t x w ws e Hx Hw' Hw).
  Qed.

  Lemma walk_blocks : forall p t ws e, walk p t ws e ->
    forall prev key, In key (cnames p prev) -> key <> [] -> In (key ++ join_with [59] ws, e) (blocks p t prev).
  Proof.
    induction 1 as [p t|p t x w ws e Hx Hw Hwalk IH]; intros prev key Hkey Hne.
    - rewrite join_with_nil, app_nil_r, (blocks_unfold p t prev). apply in_app_iff. left.
      apply in_map_iff. exists key. auto.
    - rewrite (blocks_unfold p t prev). apply in_app_iff. right.
      apply in_concat_iff. eexists. split; [apply in_map_iff; exists x; split; [reflexivity|exact Hx]|].
      apply in_concat_iff. eexists. split; [apply in_map_iff; exists key; split; [reflexivity|exact Hkey]|].
      pose proof (IH key (key ++ [59] ++ w) (cnames_child_in _ key w Hne Hw)) as H.
      rewrite join_with_cons. rewrite <- !app_assoc in H. apply H.
      destruct key; [congruence|discriminate].
  Qed.

  (** following a word path is deterministic when sibling words are distinct *)
  Lemma walk_functional : forall p t ws e1, walk p t ws e1 -> siblings_ok p ->
    forall e2, walk p t ws e2 -> e1 = e2.
  Proof.
    induction 1 as [p t|p t x w ws e Hx Hw Hwalk IH]; intros Hs e2 H2.
    - inversion H2; subst. reflexivity.
    - inversion H2 as [|p' t' x' w' ws' e' Hx' Hw' Hwalk']; subst.
      pose proof (Hs p (or_introl eq_refl)) as Hn.
      assert (Ef : fst x = fst x').
      { apply (nodup_flat_map_inj all_words (c_subs p) (fst x) (fst x') w Hn);
          [exact (zip_pad_in_fst _ _ _ _ Hx)|exact (zip_pad_in_fst _ _ _ _ Hx')|apply sc_words_all, Hw|apply sc_words_all, Hw']. }
      assert (Ex : x = x').
      { destruct x as [sc st], x' as [sc' st']. cbn [fst] in Ef. subst sc'. f_equal.
        apply (nodup_fst_functional (zsubs p t) sc st st'); [|exact Hx|exact Hx'].
        unfold zsubs. rewrite zip_pad_fst.
        apply (nodup_flat_map_nodup all_words); [intros a _; discriminate|exact Hn]. }
      subst x'. apply IH; [|exact Hwalk'].
      exact (siblings_ok_sub p (fst x) Hs (zip_pad_in_fst _ _ _ _ Hx)).
  Qed.

  Lemma walk_words_plain plain : forall p t ws e, walk p t ws e -> cmd_plain plain p = true ->
    forall w, In w ws -> plainl plain w = true.
  Proof.
    induction 1 as [p t|p t x w ws e Hx Hw Hwalk IH]; intros Hp w0 Hw0; [destruct Hw0|].
    assert (Hsub : cmd_plain plain (fst x) = true).
    { rewrite cmd_plain_unfold, !andb_true_iff in Hp. destruct Hp as [_ Hsubs].
      rewrite forallb_forall in Hsubs. exact (Hsubs _ (zip_pad_in_fst _ _ _ _ Hx)). }
    destruct Hw0 as [<-|Hw0]; [exact (sub_names_plain plain (fst x) Hsub w Hw)|exact (IH Hsub w0 Hw0)].
  Qed.

  (** the block of a path: it is there, and every block with that key has the same entries *)
  Theorem table_lookup c t bin ws ns n :
    c_bin c = Some bin -> bin <> [] -> siblings_ok c -> cmd_plain no_semi c = true -> reach c ws ns n ->
    exists tn, In (path_key bin ws, entries F n tn) (blocks c t []) /\
               forall e, In (path_key bin ws, e) (blocks c t []) -> e = entries F n tn.
  Proof.
    intros Hbin Hne Hs Hp Hr. destruct (reach_walk c ws ns n Hr t) as [tn Hw]. exists tn.
    assert (Hk : In bin (cnames c [])) by (unfold cnames; cbn [is_nil]; rewrite Hbin; now left).
    split; [exact (walk_blocks c t ws _ Hw [] bin Hk Hne)|].
    intros e He.
    destruct (blocks_in_walk c t [] (path_key bin ws) e) as (cn & ws' & Hcn & E & Hw'); [|exact He|].
    - intros cn Hcn. unfold cnames in Hcn. cbn [is_nil] in Hcn. rewrite Hbin in Hcn. destruct Hcn as [<-|[]]. exact Hne.
    - unfold cnames in Hcn. cbn [is_nil] in Hcn. rewrite Hbin in Hcn. destruct Hcn as [<-|[]].
      unfold path_key in E. apply app_inv_head in E.
      assert (ws = ws').
      { apply join_inj; [exact (walk_words_plain no_semi c t ws _ Hw Hp)|exact (walk_words_plain no_semi c t ws' _ Hw' Hp)|exact E]. }
      subst ws'. symmetry. exact (walk_functional c t ws _ Hw Hs e Hw').
  Qed.
End Blocks.

(** what a first-match lookup by key ([switch ($command) { 'key' { ...; break } }]) finds; a map literal
    ([$completions[$command]]) finds a block with that key too, and all of them carry the same entries *)
Definition lookup_block (bl : list (bytes * bytes)) (k : bytes) : option (bytes * bytes) :=
  find (fun kb => beq (fst kb) k) bl.

Lemma lookup_first bl k e0 :
  In (k, e0) bl -> (forall e, In (k, e) bl -> e = e0) -> lookup_block bl k = Some (k, e0).
Proof.
  intros Hin Hu. unfold lookup_block. destruct (find _ bl) as [[k' e]|] eqn:E.
  - apply find_some in E. destruct E as [Hx Hb]. cbn [fst] in Hb. apply beq_eq in Hb. subst k'.
    now rewrite (Hu e Hx).
  - exfalso. pose proof (find_none _ _ E (k, e0) Hin) as Hn. cbn [fst] in Hn. now rewrite beq_refl in Hn.
Qed.

(** the hypotheses of the two lookup theorems are satisfiable (the three-level example tree of BashProofs.v) *)
Example lookup_hyps_example :
  c_bin ex_root = Some [112] /\ [112] <> @nil N /\ bins_built ex_root /\ siblings_ok ex_root /\
  cmd_plain no_semi ex_root = true /\ reach ex_root [[120]; [99]] [[97; 45; 98]; [99]] ex_leaf.
Proof.
  destruct mangle_safe_example as (Hbin & Hl & Hm & Hr).
  split; [exact Hbin|]. split; [discriminate|]. split; [exact (linked_bins_built _ Hl)|].
  split; [exact (ms_siblings _ _ Hm)|]. split; [vm_compute; reflexivity|exact Hr].
Qed.
