(** C16: what [Command::build] does to the NAMES of a command tree, exactly.
    [erase c] keeps the names, the aliases (with their visibility) and the shape of a tree and forgets everything else.
    [bskel g c] is a STRUCTURAL function of the tree the user wrote: the same names, plus -- below every command that has
    subcommands and for which DisableHelpSubcommand is not in force (set on the command, globally on it, or globally on
    an ancestor: [g]) -- the generated [help] subcommand, whose subtree repeats the names (not the aliases) of the
    siblings, followed by [help].  [build_skeleton]: [build c = Some b -> erase b = bskel false c] (the fuelled recursion
    of [_build_recursive] disappears).  Every class of trees that speaks about names only (sibling distinctness, "no name
    contains a blank / a double underscore", ...) is then carried from the user's tree to the built tree by a structural
    induction over [bskel]: [build_siblings_ok], [build_names]. *)
From ClapModel Require Import Base.Bytes Complete.AotTree Complete.BashModel Complete.AotProofs Complete.BashProofs
  Complete.BuildTexts.
From Coq Require Import String.
Open Scope N_scope.
Open Scope list_scope.

Definition help_name : bytes := lit "help".

Fixpoint erase (c : cmd) : cmd :=
  match c with
  | mkCmd n al _ subs _ _ _ _ _ => mkCmd n al [] (map erase subs) None false false sets0 sets0
  end.

(** the skeleton of [_copy_subtree_for_help]: names only *)
Fixpoint hcopy (c : cmd) : cmd :=
  match c with
  | mkCmd n _ _ subs _ _ _ _ _ => mkCmd n [] [] (map hcopy subs) None false false sets0 sets0
  end.
Definition help_leaf : cmd := mkCmd help_name [] [] [] None false false sets0 sets0.
Definition help_sk (subs : list cmd) : cmd :=
  mkCmd help_name [] [] (map hcopy subs ++ [help_leaf]) None false false sets0 sets0.

(** is the [help] subcommand generated below [c]?  [g]: an ancestor carries DisableHelpSubcommand globally *)
Definition no_help (g : bool) (c : cmd) : bool :=
  g || s_dhs (c_set c) || s_dhs (c_gset c) || is_nil (c_subs c).

Fixpoint bskel (g : bool) (c : cmd) : cmd :=
  match c with
  | mkCmd n al _ subs _ _ _ s gs =>
      mkCmd n al []
        (map (bskel (g || s_dhs gs)) subs
         ++ (if g || s_dhs s || s_dhs gs || is_nil subs then [] else [help_sk subs]))
        None false false sets0 sets0
  end.

Lemma erase_unfold c :
  erase c = mkCmd (c_name c) (c_aliases c) [] (map erase (c_subs c)) None false false sets0 sets0.
Proof. destruct c; reflexivity. Qed.
Lemma hcopy_unfold c : hcopy c = mkCmd (c_name c) [] [] (map hcopy (c_subs c)) None false false sets0 sets0.
Proof. destruct c; reflexivity. Qed.
Lemma bskel_unfold g c :
  bskel g c = mkCmd (c_name c) (c_aliases c) []
                (map (bskel (g || s_dhs (c_gset c))) (c_subs c)
                 ++ (if no_help g c then [] else [help_sk (c_subs c)]))
                None false false sets0 sets0.
Proof. destruct c; reflexivity. Qed.

(** ---- [erase] / [hcopy] / [bskel] and the record updates ---- *)
Lemma erase_with_sets c s g : erase (with_sets c s g) = erase c. Proof. destruct c; reflexivity. Qed.
Lemma erase_with_args c l : erase (with_args c l) = erase c. Proof. destruct c; reflexivity. Qed.
Lemma erase_with_version c v : erase (with_version c v) = erase c. Proof. destruct c; reflexivity. Qed.
Lemma erase_with_bin c b : erase (with_bin c b) = erase c. Proof. destruct c; reflexivity. Qed.
Lemma hcopy_with_sets c s g : hcopy (with_sets c s g) = hcopy c. Proof. destruct c; reflexivity. Qed.
Lemma hcopy_with_version c v : hcopy (with_version c v) = hcopy c. Proof. destruct c; reflexivity. Qed.
Lemma bskel_with_args g c l : bskel g (with_args c l) = bskel g c. Proof. destruct c; reflexivity. Qed.
Lemma bskel_with_version g c v : bskel g (with_version c v) = bskel g c. Proof. destruct c; reflexivity. Qed.
Lemma bskel_with_bin g c b : bskel g (with_bin c b) = bskel g c. Proof. destruct c; reflexivity. Qed.

Lemma hcopy_propagate p sc : hcopy (propagate_subcommand p sc) = hcopy sc.
Proof.
  unfold propagate_subcommand. rewrite hcopy_with_sets.
  destruct (s_pver (c_set p) && c_version p); [apply hcopy_with_version|reflexivity].
Qed.

Lemma bskel_add_globals g gl sc : bskel g (add_globals gl sc) = bskel g sc.
Proof.
  apply (add_globals_inv (fun x => bskel g x = bskel g sc)); [|reflexivity].
  intros x l H. rewrite bskel_with_args. exact H.
Qed.

Lemma map_ext_in' {A B} (f g : A -> B) l : (forall a, In a l -> f a = g a) -> map f l = map g l.
Proof.
  induction l as [|a l IH]; intros H; [reflexivity|]. cbn [map].
  rewrite (H a (or_introl eq_refl)), IH; [reflexivity|]. intros x Hx. apply H. right. exact Hx.
Qed.

(** an inherited flag is the same as the flag OR-ed into the command's own settings by [_propagate_subcommand] *)
Lemma bskel_propagate p sc : bskel false (propagate_subcommand p sc) = bskel (s_dhs (c_gset p)) sc.
Proof.
  unfold propagate_subcommand.
  set (sc' := if s_pver (c_set p) && c_version p then with_version sc true else sc).
  assert (E : bskel (s_dhs (c_gset p)) sc' = bskel (s_dhs (c_gset p)) sc)
    by (unfold sc'; destruct (s_pver (c_set p) && c_version p); [apply bskel_with_version|reflexivity]).
  rewrite <- E. destruct sc' as [n al args subs bin h v s gs].
  cbn [with_sets c_set c_gset bskel sets_or s_dhs orb].
  destruct (s_dhs (c_gset p)), (s_dhs s), (s_dhs gs); cbn [orb]; reflexivity.
Qed.

(** below an inherited DisableHelpSubcommand the skeleton is the erasure; the copied help tree has no aliases *)
Lemma bskel_true_copy : forall c, bskel true (copy_subtree_for_help c) = hcopy c.
Proof.
  induction c as [n al args subs bin h v s g IH] using cmd_ind'.
  cbn [copy_subtree_for_help bskel hcopy orb]. rewrite app_nil_r, map_map. f_equal.
  apply map_ext_in'. intros a Ha. rewrite Forall_forall in IH. exact (IH a Ha).
Qed.

Lemma bskel_help_subcommand p : bskel false (help_subcommand p) = help_sk (c_subs p).
Proof.
  unfold help_subcommand.
  set (h0 := mkCmd (lit "help") [] [] _ None false false _ _).
  assert (E : forall x, bskel false (with_sets (with_version (propagate_subcommand p h0) false)
                   (mkSets true true (s_dhs (c_set (with_version (propagate_subcommand p h0) false))) false) x) =
              bskel false (with_sets (propagate_subcommand p h0) (mkSets true true true false) x)).
  { intros x. unfold propagate_subcommand.
    destruct (s_pver (c_set p) && c_version p); cbn [h0 with_version with_sets c_set sets_or s_dhs orb]; reflexivity. }
  rewrite E. unfold propagate_subcommand.
  assert (E2 : forall hh, c_gset hh = mkSets false false true false -> c_subs hh = c_subs h0 -> c_name hh = c_name h0 ->
             c_aliases hh = c_aliases h0 ->
             bskel false (with_sets (with_sets hh (sets_or (c_set hh) (c_gset p)) (sets_or (c_gset hh) (c_gset p)))
                (mkSets true true true false)
                (mkSets (s_dhf (c_gset (with_version (with_sets hh (sets_or (c_set hh) (c_gset p)) (sets_or (c_gset hh) (c_gset p))) false)))
                        (s_dvf (c_gset (with_version (with_sets hh (sets_or (c_set hh) (c_gset p)) (sets_or (c_gset hh) (c_gset p))) false)))
                        (s_dhs (c_gset (with_version (with_sets hh (sets_or (c_set hh) (c_gset p)) (sets_or (c_gset hh) (c_gset p))) false))) false))
             = help_sk (c_subs p)).
  { intros hh Hg Hs Hn Ha. destruct hh as [n al args subs bin h v s gs]. cbn [c_gset c_subs c_name c_aliases] in Hg, Hs, Hn, Ha.
    subst gs subs n al.
    cbn [with_sets with_version c_set c_gset sets_or s_dhs s_dhf s_dvf bskel orb h0 c_subs c_name c_aliases].
    rewrite app_nil_r. unfold help_sk. f_equal. rewrite map_app, map_map. f_equal.
    apply map_ext_in'. intros a _. apply bskel_true_copy. }
  destruct (s_pver (c_set p) && c_version p).
  - apply (E2 (with_version h0 true)); reflexivity.
  - apply (E2 h0); reflexivity.
Qed.

(** ---- one [_build_self] ---- *)
Lemma name_with_sets c s g : c_name (with_sets c s g) = c_name c. Proof. destruct c; reflexivity. Qed.
Lemma name_with_args c l : c_name (with_args c l) = c_name c. Proof. destruct c; reflexivity. Qed.
Lemma name_with_subs c l : c_name (with_subs c l) = c_name c. Proof. destruct c; reflexivity. Qed.
Lemma aliases_with_sets c s g : c_aliases (with_sets c s g) = c_aliases c. Proof. destruct c; reflexivity. Qed.
Lemma aliases_with_args c l : c_aliases (with_args c l) = c_aliases c. Proof. destruct c; reflexivity. Qed.
Lemma aliases_with_subs c l : c_aliases (with_subs c l) = c_aliases c. Proof. destruct c; reflexivity. Qed.

Lemma name_build_self c : c_name (build_self c) = c_name c.
Proof.
  unfold build_self, bs_globals, bs_help_version, bs_propagate, bs_settings.
  repeat (rewrite ?name_with_subs, ?name_with_args, ?name_with_sets;
          match goal with |- context [if ?b then _ else _] => destruct b | _ => idtac end).
  all: rewrite ?name_with_subs, ?name_with_args, ?name_with_sets; reflexivity.
Qed.
Lemma aliases_build_self c : c_aliases (build_self c) = c_aliases c.
Proof.
  unfold build_self, bs_globals, bs_help_version, bs_propagate, bs_settings.
  repeat (rewrite ?aliases_with_subs, ?aliases_with_args, ?aliases_with_sets;
          match goal with |- context [if ?b then _ else _] => destruct b | _ => idtac end).
  all: rewrite ?aliases_with_subs, ?aliases_with_args, ?aliases_with_sets; reflexivity.
Qed.

(** the condition under which [_check_help_and_version] adds the subcommand *)
Lemma is_set_dhs_settled c : is_set s_dhs (bs_propagate (bs_settings c)) = no_help false c.
Proof.
  unfold bs_propagate, bs_settings, is_set, no_help, has_subcommands.
  rewrite set_with_subs, gset_with_subs, set_with_sets, gset_with_sets.
  destruct (c_subs c) as [|x l]; cbn [is_nil negb]; cbn [s_dhs sets_or orb].
  - rewrite !orb_true_r. reflexivity.
  - rewrite orb_false_r. destruct (s_dhs (c_set c)), (s_dhs (c_gset c)); reflexivity.
Qed.

(** the skeletons of the subcommands of [build_self c], before they are built themselves *)
Lemma build_self_subs_skel c :
  map (bskel false) (c_subs (build_self c)) =
  map (bskel (s_dhs (c_gset c))) (c_subs c) ++ (if no_help false c then [] else [help_sk (c_subs c)]).
Proof.
  unfold build_self, bs_globals. set (x := bs_help_version _). rewrite subs_with_subs, map_map.
  rewrite (map_ext_in' _ (bskel false)).
  2:{ intros a _. destruct (beq (c_name a) (lit "help") && negb (is_set s_dhs x)); [reflexivity|].
      apply (bskel_add_globals false (filter a_global (c_args x)) a). }
  unfold x. rewrite help_version_subs, is_set_dhs_settled, propagate_subs.
  assert (Ep : map (bskel false) (map (propagate_subcommand (bs_settings c)) (c_subs c)) =
               map (bskel (s_dhs (c_gset c))) (c_subs c)).
  { rewrite map_map. apply map_ext_in'. intros a _. rewrite bskel_propagate.
    unfold bs_settings. rewrite gset_with_sets. reflexivity. }
  destruct (no_help false c); cbn [negb]; [rewrite app_nil_r; exact Ep|].
  rewrite map_app, Ep. cbn [map]. rewrite bskel_help_subcommand. f_equal. f_equal.
  match goal with |- help_sk (c_subs ?p) = _ => assert (Sp : c_subs p = c_subs (bs_propagate (bs_settings c))) end.
  { destruct (negb (is_disable_version_flag_set _)); destruct (negb (is_set s_dhf _));
      rewrite ?subs_with_args; reflexivity. }
  rewrite Sp, propagate_subs. unfold help_sk. rewrite map_map. f_equal. f_equal.
  apply map_ext_in'. intros a _. apply hcopy_propagate.
Qed.

(** ---- the recursion ---- *)
Lemma Forall2_map_eq {A B C} (f : A -> option B) (g : B -> C) (h : A -> C) l r :
  Forall2 (fun a b => f a = Some b) l r -> (forall a b, In a l -> f a = Some b -> g b = h a) -> map g r = map h l.
Proof.
  induction 1 as [|a b l r Hab Hrest IH]; intros H; [reflexivity|]. cbn [map].
  rewrite (H a b (or_introl eq_refl) Hab), IH; [reflexivity|]. intros x y Hx. apply H. right. exact Hx.
Qed.

Lemma build_recursive_skeleton : forall fuel c b, build_recursive fuel c = Some b -> erase b = bskel false c.
Proof.
  induction fuel as [|f IH]; intros c b H; [discriminate|].
  cbn [build_recursive] in H.
  destruct (map_opt (build_recursive f) (c_subs (build_self c))) as [subs|] eqn:E; [|discriminate].
  inversion H; subst b; clear H. apply map_opt_Forall2 in E.
  rewrite erase_unfold, name_with_subs, aliases_with_subs, subs_with_subs, name_build_self, aliases_build_self.
  rewrite (Forall2_map_eq _ erase (bskel false) _ _ E (fun a b _ Hab => IH a b Hab)).
  rewrite build_self_subs_skel, bskel_unfold. cbn [orb]. reflexivity.
Qed.

Lemma erase_assign_bins : forall c inh, erase (assign_bins inh c) = erase c.
Proof.
  induction c as [n al args subs bin h v s g IH] using cmd_ind'. intros inh.
  cbn [assign_bins erase]. rewrite map_map. f_equal. apply map_ext_in'. intros a Ha.
  rewrite Forall_forall in IH. apply IH. exact Ha.
Qed.

(** the names of the built tree are a structural function of the tree the user wrote *)
Theorem build_skeleton c b : build c = Some b -> erase b = bskel false c.
Proof.
  unfold build. destruct (build_recursive (build_fuel c) c) as [c'|] eqn:E; [|discriminate].
  intros H. inversion H; subst b. unfold build_bin_names. rewrite erase_assign_bins.
  exact (build_recursive_skeleton _ c c' E).
Qed.

Theorem generate_skeleton c bin b : build (set_bin_name c bin) = Some b -> erase b = bskel false c.
Proof. intros H. rewrite (build_skeleton _ b H). unfold set_bin_name. apply bskel_with_bin. Qed.

(** ---- classes of names: they see the erasure only ---- *)
Lemma subs_erase c : c_subs (erase c) = map erase (c_subs c). Proof. destruct c; reflexivity. Qed.
Lemma name_erase c : c_name (erase c) = c_name c. Proof. destruct c; reflexivity. Qed.
Lemma aliases_erase c : c_aliases (erase c) = c_aliases c. Proof. destruct c; reflexivity. Qed.
Lemma all_words_erase c : all_words (erase c) = all_words c.
Proof. unfold all_words, get_all_cmd_aliases. rewrite name_erase, aliases_erase. reflexivity. Qed.
Lemma sc_words_erase c : sc_words (erase c) = sc_words c.
Proof.
  unfold sc_words, get_name_and_visible_aliases, get_visible_cmd_aliases. rewrite name_erase, aliases_erase. reflexivity.
Qed.

Lemma desc_erase c m : desc (erase c) m <-> exists n, desc c n /\ m = erase n.
Proof.
  split.
  - intros H. remember (erase c) as e eqn:He. revert c He.
    induction H as [e sc Hin|e sc n Hin Hd IH]; intros c ->.
    + rewrite subs_erase in Hin. apply in_map_iff in Hin. destruct Hin as (x & <- & Hx).
      exists x. split; [apply desc_child; exact Hx|reflexivity].
    + rewrite subs_erase in Hin. apply in_map_iff in Hin. destruct Hin as (x & <- & Hx).
      destruct (IH x eq_refl) as (n' & Hn' & ->). exists n'. split; [eapply desc_step; eauto|reflexivity].
  - intros (n & Hd & ->). induction Hd as [c sc Hin|c sc n Hin Hd IH].
    + apply desc_child. rewrite subs_erase. apply in_map. exact Hin.
    + eapply desc_step; [|exact IH]. rewrite subs_erase. apply in_map. exact Hin.
Qed.

Lemma flat_map_map {A B C} (f : A -> B) (g : B -> list C) l : flat_map g (map f l) = flat_map (fun a => g (f a)) l.
Proof. induction l as [|a l IH]; [reflexivity|]. cbn [map flat_map]. rewrite IH. reflexivity. Qed.
Lemma flat_map_ext' {A B} (f g : A -> list B) l : (forall a, f a = g a) -> flat_map f l = flat_map g l.
Proof. intros H. induction l as [|a l IH]; [reflexivity|]. cbn [flat_map]. rewrite H, IH. reflexivity. Qed.

Lemma sub_words_erase c : flat_map all_words (c_subs (erase c)) = flat_map all_words (c_subs c).
Proof. rewrite subs_erase, flat_map_map. apply flat_map_ext'. intros a. apply all_words_erase. Qed.

Lemma siblings_ok_erase c : siblings_ok (erase c) <-> siblings_ok c.
Proof.
  split; intros H p Hp.
  - rewrite <- sub_words_erase. apply H. destruct Hp as [->|Hd]; [left; reflexivity|right].
    apply desc_erase. exists p. split; [exact Hd|reflexivity].
  - destruct Hp as [->|Hd]; [rewrite sub_words_erase; apply H; left; reflexivity|].
    apply desc_erase in Hd. destruct Hd as (n & Hn & ->). rewrite sub_words_erase. apply H. right. exact Hn.
Qed.

Lemma siblings_ok_iff c :
  siblings_ok c <-> NoDup (flat_map all_words (c_subs c)) /\ forall sc, In sc (c_subs c) -> siblings_ok sc.
Proof.
  split.
  - intros H. split; [apply H; left; reflexivity|]. intros sc Hsc. eapply siblings_ok_sub; eauto.
  - intros [H1 H2] p [->|Hd]; [exact H1|].
    inversion Hd as [c0 sc0 Hin|c0 sc0 m Hin Hd']; subst.
    + apply (H2 p Hin). left; reflexivity.
    + apply (H2 sc0 Hin). right. exact Hd'.
Qed.

(** every name below the root satisfies [Q] *)
Definition names_ok (Q : bytes -> bool) (c : cmd) : Prop := forall n, desc c n -> Q (c_name n) = true.

Lemma names_ok_erase Q c : names_ok Q (erase c) <-> names_ok Q c.
Proof.
  split; intros H n Hn.
  - rewrite <- name_erase. apply H. apply desc_erase. exists n. split; [exact Hn|reflexivity].
  - apply desc_erase in Hn. destruct Hn as (m & Hm & ->). rewrite name_erase. apply H. exact Hm.
Qed.

Lemma names_ok_iff Q c :
  names_ok Q c <-> forall sc, In sc (c_subs c) -> Q (c_name sc) = true /\ names_ok Q sc.
Proof.
  split.
  - intros H sc Hsc. split; [apply H, desc_child, Hsc|]. intros n Hn. apply H. eapply desc_step; eauto.
  - intros H n Hd. inversion Hd as [c0 sc0 Hin|c0 sc0 m Hin Hd']; subst.
    + exact (proj1 (H n Hin)).
    + exact (proj2 (H sc0 Hin) n Hd').
Qed.

(** ---- the class of user trees: no subcommand is named or aliased [help] where clap generates one ---- *)
Definition calls_help (sc : cmd) : bool := existsb (beq help_name) (all_words sc).
Fixpoint help_free (g : bool) (c : cmd) : bool :=
  match c with
  | mkCmd _ _ _ subs _ _ _ s gs =>
      (g || s_dhs s || s_dhs gs || is_nil subs || negb (existsb calls_help subs))
      && forallb (help_free (g || s_dhs gs)) subs
  end.
Lemma help_free_unfold g c :
  help_free g c = (no_help g c || negb (existsb calls_help (c_subs c)))
                  && forallb (help_free (g || s_dhs (c_gset c))) (c_subs c).
Proof. destruct c; reflexivity. Qed.

Lemma calls_help_false subs : existsb calls_help subs = false -> ~ In help_name (flat_map all_words subs).
Proof.
  intros H Hin. apply in_flat_map in Hin. destruct Hin as (sc & Hsc & Hw).
  assert (E : existsb calls_help subs = true); [|congruence].
  apply existsb_exists. exists sc. split; [exact Hsc|]. unfold calls_help. apply existsb_exists.
  exists help_name. split; [exact Hw|apply beq_refl].
Qed.

Lemma nodup_snoc {A} (l : list A) x : NoDup l -> ~ In x l -> NoDup (l ++ [x]).
Proof.
  induction l as [|a l IH]; intros Hn Hx; [constructor; [intros []|constructor]|].
  inversion Hn as [|a' l' Ha Hl]; subst. cbn [app]. constructor.
  - rewrite in_app_iff. intros [H|[H|[]]]; [exact (Ha H)|]. apply Hx. left. symmetry. exact H.
  - apply IH; [exact Hl|]. intros H. apply Hx. right. exact H.
Qed.

Lemma nodup_names subs : NoDup (flat_map all_words subs) -> NoDup (map c_name subs).
Proof.
  induction subs as [|x l IH]; intros H; [constructor|]. cbn [flat_map map] in *. unfold all_words at 1 in H.
  cbn [app] in H. inversion H as [|a l' Ha Hl]; subst. constructor.
  - intros Hin. apply Ha. rewrite in_app_iff. right. apply in_map_iff in Hin. destruct Hin as (y & Ey & Hy).
    apply in_flat_map. exists y. split; [exact Hy|]. left. exact Ey.
  - apply IH. eapply nodup_app_r. exact Hl.
Qed.

Lemma names_in_words subs x : In x (map c_name subs) -> In x (flat_map all_words subs).
Proof.
  intros H. apply in_map_iff in H. destruct H as (y & <- & Hy). apply in_flat_map. exists y. split; [exact Hy|left; reflexivity].
Qed.

Lemma hcopy_words c : all_words (hcopy c) = [c_name c].
Proof. destruct c; reflexivity. Qed.
Lemma hcopy_sub_words subs : flat_map all_words (map hcopy subs) = map c_name subs.
Proof. induction subs as [|x l IH]; [reflexivity|]. cbn [map flat_map]. rewrite hcopy_words, IH. reflexivity. Qed.

Lemma siblings_ok_hcopy : forall c, siblings_ok c -> siblings_ok (hcopy c).
Proof.
  induction c as [n al args subs bin h v s g IH] using cmd_ind'. intros H.
  apply siblings_ok_iff in H. cbn [c_subs] in H. destruct H as [H1 H2].
  apply siblings_ok_iff. cbn [hcopy c_subs]. split.
  - rewrite hcopy_sub_words. apply nodup_names. exact H1.
  - intros sc Hsc. apply in_map_iff in Hsc. destruct Hsc as (x & <- & Hx).
    rewrite Forall_forall in IH. apply IH; [exact Hx|exact (H2 x Hx)].
Qed.

Lemma siblings_ok_leaf c : c_subs c = [] -> siblings_ok c.
Proof. intros E. apply siblings_ok_iff. rewrite E. split; [constructor|intros sc []]. Qed.

Lemma siblings_ok_help_sk subs :
  NoDup (flat_map all_words subs) -> ~ In help_name (flat_map all_words subs) ->
  (forall sc, In sc subs -> siblings_ok sc) -> siblings_ok (help_sk subs).
Proof.
  intros Hn Hh Hs. apply siblings_ok_iff. unfold help_sk. cbn [c_subs]. split.
  - rewrite flat_map_app, hcopy_sub_words. cbn [flat_map help_leaf all_words c_name get_all_cmd_aliases c_aliases map app].
    apply nodup_snoc; [apply nodup_names; exact Hn|]. intros H. apply Hh. apply names_in_words. exact H.
  - intros sc Hsc. apply in_app_iff in Hsc. destruct Hsc as [Hsc|[<-|[]]].
    + apply in_map_iff in Hsc. destruct Hsc as (x & <- & Hx). apply siblings_ok_hcopy, Hs, Hx.
    + apply siblings_ok_leaf. reflexivity.
Qed.

Lemma bskel_words g c : all_words (bskel g c) = all_words c.
Proof. destruct c; reflexivity. Qed.
Lemma bskel_sub_words g subs : flat_map all_words (map (bskel g) subs) = flat_map all_words subs.
Proof. rewrite flat_map_map. apply flat_map_ext'. intros a. apply bskel_words. Qed.

Lemma siblings_ok_bskel : forall c g, siblings_ok c -> help_free g c = true -> siblings_ok (bskel g c).
Proof.
  induction c as [n al args subs bin h v s gs IH] using cmd_ind'. intros g H Hf.
  set (c := mkCmd n al args subs bin h v s gs) in *.
  apply siblings_ok_iff in H. destruct H as [H1 H2]. change (c_subs c) with subs in H1, H2.
  rewrite help_free_unfold in Hf. apply andb_true_iff in Hf. destruct Hf as [Hf1 Hf2].
  change (c_subs c) with subs in Hf1, Hf2. change (c_gset c) with gs in Hf2.
  rewrite forallb_forall in Hf2. rewrite Forall_forall in IH.
  apply siblings_ok_iff. rewrite bskel_unfold. cbn [c_subs]. change (c_subs c) with subs. change (c_gset c) with gs.
  destruct (no_help g c) eqn:En.
  - rewrite app_nil_r. split.
    + rewrite bskel_sub_words. exact H1.
    + intros sc Hsc. apply in_map_iff in Hsc. destruct Hsc as (x & <- & Hx). apply IH; [exact Hx|exact (H2 x Hx)|exact (Hf2 x Hx)].
  - cbn [orb] in Hf1. apply negb_true_iff in Hf1. pose proof (calls_help_false _ Hf1) as Hh. split.
    + rewrite flat_map_app, bskel_sub_words. cbn [flat_map]. unfold help_sk at 1.
      cbn [all_words c_name get_all_cmd_aliases c_aliases map app]. apply nodup_snoc; assumption.
    + intros sc Hsc. apply in_app_iff in Hsc. destruct Hsc as [Hsc|[<-|[]]].
      * apply in_map_iff in Hsc. destruct Hsc as (x & <- & Hx). apply IH; [exact Hx|exact (H2 x Hx)|exact (Hf2 x Hx)].
      * apply siblings_ok_help_sk; assumption.
Qed.

(** [Command::build] keeps sibling names and aliases pairwise distinct *)
Theorem build_siblings_ok c bin b :
  build (set_bin_name c bin) = Some b -> siblings_ok c -> help_free false c = true -> siblings_ok b.
Proof.
  intros Hb Hs Hf. apply siblings_ok_erase. rewrite (generate_skeleton c bin b Hb).
  apply siblings_ok_bskel; assumption.
Qed.

(** ... and any class of names that contains [help] *)
Lemma names_ok_hcopy Q : forall c, names_ok Q c -> names_ok Q (hcopy c).
Proof.
  induction c as [n al args subs bin h v s g IH] using cmd_ind'. intros H.
  pose proof (proj1 (names_ok_iff Q _) H) as H'. cbn [c_subs] in H'.
  apply names_ok_iff. cbn [hcopy c_subs]. intros sc Hsc. apply in_map_iff in Hsc. destruct Hsc as (x & <- & Hx).
  destruct (H' x Hx) as [Hq Hn]. split; [rewrite hcopy_unfold; exact Hq|].
  rewrite Forall_forall in IH. apply IH; assumption.
Qed.

Lemma names_ok_bskel Q : Q help_name = true -> forall c g, names_ok Q c -> names_ok Q (bskel g c).
Proof.
  intros Hq. induction c as [n al args subs bin h v s gs IH] using cmd_ind'. intros g H.
  set (c := mkCmd n al args subs bin h v s gs) in *.
  pose proof (proj1 (names_ok_iff Q _) H) as H'. change (c_subs c) with subs in H'.
  rewrite Forall_forall in IH.
  apply names_ok_iff. rewrite bskel_unfold. cbn [c_subs]. change (c_subs c) with subs.
  intros sc Hsc. apply in_app_iff in Hsc. destruct Hsc as [Hsc|Hsc].
  - apply in_map_iff in Hsc. destruct Hsc as (x & <- & Hx). destruct (H' x Hx) as [Hqx Hn].
    split; [rewrite bskel_unfold; exact Hqx|apply IH; assumption].
  - destruct (no_help g c); [destruct Hsc|]. destruct Hsc as [<-|[]]. split; [exact Hq|].
    apply names_ok_iff. unfold help_sk. cbn [c_subs]. intros sc Hsc. apply in_app_iff in Hsc.
    destruct Hsc as [Hsc|[<-|[]]].
    + apply in_map_iff in Hsc. destruct Hsc as (x & <- & Hx). destruct (H' x Hx) as [Hqx Hn].
      split; [rewrite hcopy_unfold; exact Hqx|apply names_ok_hcopy; exact Hn].
    + split; [exact Hq|]. intros m Hm. inversion Hm as [c0 sc0 Hin|c0 sc0 m0 Hin _]; destruct Hin.
Qed.

Theorem build_names Q c bin b :
  Q help_name = true -> build (set_bin_name c bin) = Some b -> names_ok Q c -> names_ok Q b.
Proof.
  intros Hq Hb Hn. apply names_ok_erase. rewrite (generate_skeleton c bin b Hb). apply names_ok_bskel; assumption.
Qed.

(** ---- boolean deciders (for examples and for drivers) ---- *)
Fixpoint nodupb (l : list bytes) : bool :=
  match l with [] => true | x :: t => negb (existsb (beq x) t) && nodupb t end.
Lemma nodupb_sound l : nodupb l = true -> NoDup l.
Proof.
  induction l as [|x t IH]; intros H; [constructor|]. cbn [nodupb] in H. apply andb_true_iff in H. destruct H as [H1 H2].
  constructor; [|exact (IH H2)]. intros Hin. apply negb_true_iff in H1.
  assert (E : existsb (beq x) t = true); [|congruence]. apply existsb_exists. exists x. split; [exact Hin|apply beq_refl].
Qed.

Fixpoint siblings_okb (c : cmd) : bool :=
  match c with
  | mkCmd _ _ _ subs _ _ _ _ _ => nodupb (flat_map all_words subs) && forallb siblings_okb subs
  end.
Lemma siblings_okb_sound : forall c, siblings_okb c = true -> siblings_ok c.
Proof.
  induction c as [n al args subs bin h v s g IH] using cmd_ind'. intros H. cbn [siblings_okb] in H.
  apply andb_true_iff in H. destruct H as [H1 H2]. apply siblings_ok_iff. cbn [c_subs]. split; [exact (nodupb_sound _ H1)|].
  intros sc Hsc. rewrite Forall_forall in IH. rewrite forallb_forall in H2. exact (IH sc Hsc (H2 sc Hsc)).
Qed.

Fixpoint names_okb (Q : bytes -> bool) (c : cmd) : bool :=
  match c with
  | mkCmd _ _ _ subs _ _ _ _ _ => forallb (fun sc => Q (c_name sc) && names_okb Q sc) subs
  end.
Lemma names_okb_sound Q : forall c, names_okb Q c = true -> names_ok Q c.
Proof.
  induction c as [n al args subs bin h v s g IH] using cmd_ind'. intros H. cbn [names_okb] in H.
  apply names_ok_iff. cbn [c_subs]. intros sc Hsc. rewrite forallb_forall in H. specialize (H sc Hsc).
  apply andb_true_iff in H. destruct H as [H1 H2]. split; [exact H1|]. rewrite Forall_forall in IH. exact (IH sc Hsc H2).
Qed.

(** a built tree without its bin names: the tree a user could have written *)
Fixpoint strip_bins (c : cmd) : cmd :=
  match c with
  | mkCmd n al args subs _ h v s g => mkCmd n al args (map strip_bins subs) None h v s g
  end.

(** ---- [build] only ADDS: every command the user wrote is in the built tree under the same name and aliases, with all
    its arguments (the very same records) and all its subcommands ---- *)
Inductive extends : cmd -> cmd -> Prop :=
| ext_intro c b :
    c_name b = c_name c -> c_aliases b = c_aliases c -> incl (c_args c) (c_args b) ->
    Forall (fun sc => exists sb, In sb (c_subs b) /\ extends sc sb) (c_subs c) -> extends c b.

Lemma extends_shallow sc sc' sb :
  c_name sc' = c_name sc -> c_aliases sc' = c_aliases sc -> incl (c_args sc) (c_args sc') -> c_subs sc' = c_subs sc ->
  extends sc' sb -> extends sc sb.
Proof.
  intros Hn Ha Hi Hs H. inversion H as [c0 b0 En Ea Ei Es]; subst. constructor.
  - rewrite En. exact Hn.
  - rewrite Ea. exact Ha.
  - intros a Hin. apply Ei, Hi, Hin.
  - rewrite <- Hs. exact Es.
Qed.

Lemma args_with_sets c s g : c_args (with_sets c s g) = c_args c. Proof. destruct c; reflexivity. Qed.
Lemma args_with_subs c l : c_args (with_subs c l) = c_args c. Proof. destruct c; reflexivity. Qed.
Lemma args_with_args c l : c_args (with_args c l) = l. Proof. destruct c; reflexivity. Qed.
Lemma args_with_version c v : c_args (with_version c v) = c_args c. Proof. destruct c; reflexivity. Qed.
Lemma name_with_version c v : c_name (with_version c v) = c_name c. Proof. destruct c; reflexivity. Qed.
Lemma aliases_with_version c v : c_aliases (with_version c v) = c_aliases c. Proof. destruct c; reflexivity. Qed.

Lemma args_build_self c : incl (c_args c) (c_args (build_self c)).
Proof.
  unfold build_self, bs_globals. rewrite args_with_subs. unfold bs_help_version.
  set (x := bs_propagate (bs_settings c)).
  assert (Ex : c_args x = c_args c) by (unfold x, bs_propagate, bs_settings; rewrite args_with_subs, args_with_sets; reflexivity).
  set (c1 := if negb (is_set s_dhf x) then with_args x (c_args x ++ [help_arg]) else x).
  assert (H1 : incl (c_args c) (c_args c1)).
  { unfold c1. destruct (negb (is_set s_dhf x)); [rewrite args_with_args, Ex; apply incl_appl, incl_refl|rewrite Ex; apply incl_refl]. }
  set (c2 := if negb (is_disable_version_flag_set c1) then with_args c1 (c_args c1 ++ [version_arg]) else c1).
  assert (H2 : incl (c_args c) (c_args c2)).
  { unfold c2. destruct (negb (is_disable_version_flag_set c1)); [rewrite args_with_args; apply incl_appl, H1|exact H1]. }
  destruct (negb (is_set s_dhs c2)); [rewrite args_with_subs|]; exact H2.
Qed.

Definition shallow (sc sc' : cmd) : Prop :=
  c_name sc' = c_name sc /\ c_aliases sc' = c_aliases sc /\ incl (c_args sc) (c_args sc') /\ c_subs sc' = c_subs sc.

Lemma shallow_propagate p sc : shallow sc (propagate_subcommand p sc).
Proof.
  unfold propagate_subcommand, shallow. rewrite name_with_sets, aliases_with_sets, args_with_sets, subs_with_sets.
  destruct (s_pver (c_set p) && c_version p);
    rewrite ?name_with_version, ?aliases_with_version, ?args_with_version, ?subs_with_version;
    repeat split; apply incl_refl.
Qed.

Lemma shallow_refl sc : shallow sc sc.
Proof. repeat split; apply incl_refl. Qed.
Lemma shallow_trans a b c : shallow a b -> shallow b c -> shallow a c.
Proof.
  intros (A1 & A2 & A3 & A4) (B1 & B2 & B3 & B4). repeat split; try congruence.
  intros x Hx. apply B3, A3, Hx.
Qed.

Lemma shallow_add_globals gl : forall sc, shallow sc (add_globals gl sc).
Proof.
  unfold add_globals. induction gl as [|a gl IH]; intros sc; [apply shallow_refl|]. cbn [fold_left].
  eapply shallow_trans; [|apply IH].
  destruct (is_some (find_arg sc (a_id a))); [apply shallow_refl|].
  unfold shallow. rewrite name_with_args, aliases_with_args, subs_with_args, args_with_args.
  repeat split. apply incl_appl, incl_refl.
Qed.

(** every subcommand of [c] has its [shallow] image among the subcommands of [build_self c] *)
Lemma build_self_subs_shallow c sc : In sc (c_subs c) -> exists sc', In sc' (c_subs (build_self c)) /\ shallow sc sc'.
Proof.
  intros Hin. unfold build_self, bs_globals. set (x := bs_help_version _). rewrite subs_with_subs.
  assert (Hx : In (propagate_subcommand (bs_settings c) sc) (c_subs x)).
  { unfold x. rewrite help_version_subs, propagate_subs.
    destruct (negb (is_set s_dhs _)); [apply in_or_app; left|]; apply in_map; exact Hin. }
  eexists. split; [apply in_map; exact Hx|]. cbv beta.
  eapply shallow_trans; [apply shallow_propagate|].
  destruct (beq _ _ && _); [apply shallow_refl|apply (shallow_add_globals (filter a_global (c_args x)))].
Qed.

Lemma Forall2_in_l {A B} (R : A -> B -> Prop) l r a : Forall2 R l r -> In a l -> exists b, In b r /\ R a b.
Proof.
  induction 1 as [|x y l r Hxy Hrest IH]; intros Hin; [destruct Hin|].
  destruct Hin as [<-|Hin]; [exists y; split; [left; reflexivity|exact Hxy]|].
  destruct (IH Hin) as (b & Hb & Hr). exists b. split; [right; exact Hb|exact Hr].
Qed.

Lemma build_recursive_extends : forall fuel c b, build_recursive fuel c = Some b -> extends c b.
Proof.
  induction fuel as [|f IH]; intros c b H; [discriminate|].
  cbn [build_recursive] in H.
  destruct (map_opt (build_recursive f) (c_subs (build_self c))) as [subs|] eqn:E; [|discriminate].
  inversion H; subst b; clear H. apply map_opt_Forall2 in E. constructor.
  - rewrite name_with_subs. apply name_build_self.
  - rewrite aliases_with_subs. apply aliases_build_self.
  - rewrite args_with_subs. apply args_build_self.
  - rewrite subs_with_subs. apply Forall_forall. intros sc Hsc.
    destruct (build_self_subs_shallow c sc Hsc) as (sc' & Hin' & (A & B & C & D)).
    destruct (Forall2_in_l _ _ _ sc' E Hin') as (sb & Hsb & Hb). exists sb. split; [exact Hsb|].
    exact (extends_shallow sc sc' sb A B C D (IH sc' sb Hb)).
Qed.

Lemma name_assign_bins inh c : c_name (assign_bins inh c) = c_name c. Proof. destruct c; reflexivity. Qed.
Lemma aliases_assign_bins inh c : c_aliases (assign_bins inh c) = c_aliases c. Proof. destruct c; reflexivity. Qed.
Lemma args_assign_bins inh c : c_args (assign_bins inh c) = c_args c. Proof. destruct c; reflexivity. Qed.

Lemma extends_assign_bins : forall c b inh, extends c b -> extends c (assign_bins inh b).
Proof.
  induction c as [n al args subs bin h v s g IH] using cmd_ind'. intros b inh H.
  inversion H as [c0 b0 En Ea Ei Es]; subst. constructor.
  - rewrite name_assign_bins. exact En.
  - rewrite aliases_assign_bins. exact Ea.
  - rewrite args_assign_bins. exact Ei.
  - cbn [c_subs] in Es |- *. rewrite Forall_forall in Es, IH. apply Forall_forall. intros sc Hsc.
    destruct (Es sc Hsc) as (sb & Hsb & Hext). rewrite assign_bins_subs.
    eexists. split; [apply in_map; exact Hsb|]. cbv beta. apply IH; assumption.
Qed.

Theorem build_extends c b : build c = Some b -> extends c b.
Proof.
  unfold build. destruct (build_recursive (build_fuel c) c) as [c'|] eqn:E; [|discriminate].
  intros H. inversion H; subst b. apply extends_assign_bins. exact (build_recursive_extends _ c c' E).
Qed.

Theorem generate_extends c bin b : build (set_bin_name c bin) = Some b -> extends c b.
Proof.
  intros H. apply build_extends in H. inversion H as [c0 b0 En Ea Ei Es]; subst.
  destruct c; constructor; assumption.
Qed.

(** so every path of the user's tree is a path of the built tree, to the built image of the same command *)
Lemma extends_words sc sb : extends sc sb -> sc_words sb = sc_words sc.
Proof.
  intros H. inversion H as [c0 b0 En Ea _ _]; subst.
  unfold sc_words, get_name_and_visible_aliases, get_visible_cmd_aliases. rewrite En, Ea. reflexivity.
Qed.

Theorem reach_extends c ws ns n : reach c ws ns n -> forall b, extends c b -> exists n', reach b ws ns n' /\ extends n n'.
Proof.
  induction 1 as [c|c sc w ws ns n Hin Hw Hr IH]; intros b Hext.
  - exists b. split; [apply reach_nil|exact Hext].
  - inversion Hext as [c0 b0 En Ea Ei Es]; subst. rewrite Forall_forall in Es.
    destruct (Es sc Hin) as (sb & Hsb & Hsext). destruct (IH sb Hsext) as (n' & Hr' & Hn').
    exists n'. split; [|exact Hn'].
    assert (En' : c_name sc = c_name sb) by (inversion Hsext; subst; symmetry; assumption).
    rewrite En'. eapply reach_cons; [exact Hsb| |exact Hr']. rewrite (extends_words sc sb Hsext). exact Hw.
Qed.

(** what [extends] gives at a node, in the terms the coverage theorems use *)
Lemma extends_node n n' : extends n n' ->
  (forall a, In a (c_args n) -> In a (c_args n')) /\
  (forall sc w, In sc (c_subs n) -> In w (get_name_and_visible_aliases sc) ->
     exists sb, In sb (c_subs n') /\ In w (get_name_and_visible_aliases sb) /\ extends sc sb).
Proof.
  intros H. inversion H as [c0 b0 En Ea Ei Es]; subst. split; [exact Ei|].
  intros sc w Hsc Hw. rewrite Forall_forall in Es. destruct (Es sc Hsc) as (sb & Hsb & Hext).
  exists sb. split; [exact Hsb|]. split; [|exact Hext].
  pose proof (extends_words sc sb Hext) as E. unfold sc_words in E. rewrite E. exact Hw.
Qed.
