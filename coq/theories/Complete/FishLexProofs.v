(** C17 for the fish generator model ([FishModel.v]): whole-script structure invariance.

    The per-slot theorems of [EscapeProofs.v] ([fish_sq_transparent]: [escape_help] inside '...',
    [fish_dq_transparent]: [escape_double_quoted . escape_help] inside "...") are composed through
    the generator: [run] threads the fish lexer of [ShellLex.v] through the pieces of the file and
    checks that every [Dsq] slot is met in state [FSQ] and every [Ddq] slot in state [FDQ]; when it
    succeeds, the events of the rendered file are the events of the fixed text with, for every
    slot, literal payload only ([run_events]).  For command trees whose names are [tame] (no quote,
    backslash or hash character) [run] succeeds on the file of every decoration ([fish_file_runs]);
    the fixed text does not depend on the description texts ([fish_pieces_erase]).  Together: the
    token skeleton of the whole file is the same for any two decorations with the same presence
    shape ([fish_text_invariance]). *)
From ClapModel Require Import Base.Bytes Complete.AotTree Complete.AotProofs Complete.FishModel.
From ClapModel Require Import Gen.EscapeTables Escape.EscapeModel Escape.ShellLex Escape.EscapeProofs.
From Coq Require Import String Lia.
Open Scope N_scope.
Open Scope list_scope.

(** ---- the lexer threaded through the pieces ---- *)
Fixpoint run (st : fstate) (l : list piece) : option fstate :=
  match l with
  | [] => Some st
  | Fx b :: r => run (final fish_step st b) r
  | Dsq _ :: r => match st with FSQ => run FSQ r | _ => None end
  | Ddq _ :: r => match st with FDQ => run FDQ r | _ => None end
  end.

(** the events of the file, slot by slot: a [Dsq t] slot contributes the flattened text as literal
    payload, a [Ddq t] slot the '...'-escaped text as literal payload (which fish tokenises again
    when the completion is offered: [fish_possible_value_two_levels]) -- nothing else *)
Fixpoint pevents (st : fstate) (l : list piece) : list ev :=
  match l with
  | [] => []
  | Fx b :: r => events fish_step st b ++ pevents (final fish_step st b) r
  | Dsq t :: r => map Lit (flatten t) ++ pevents st r
  | Ddq t :: r => map Lit (fish_escape_help t) ++ pevents st r
  end.

(** the token skeleton of the fixed text alone *)
Fixpoint pskel (st : fstate) (l : list piece) : list ev :=
  match l with
  | [] => []
  | Fx b :: r => skeleton (events fish_step st b) ++ pskel (final fish_step st b) r
  | _ :: r => pskel st r
  end.

Lemma run_app a : forall st b, run st (a ++ b) = match run st a with Some st' => run st' b | None => None end.
Proof.
  induction a as [|p a IH]; intros st b; [reflexivity|].
  destruct p as [x|t|t]; cbn [run app].
  - apply IH.
  - destruct st; try reflexivity. apply IH.
  - destruct st; try reflexivity. apply IH.
Qed.

Lemma run_events l : forall st st', run st l = Some st' ->
  events fish_step st (render_pieces l) = pevents st l /\ final fish_step st (render_pieces l) = st'.
Proof.
  induction l as [|p l IH]; intros st st' H.
  - cbn in H. inversion H; subst. split; reflexivity.
  - unfold render_pieces in *. cbn [flat_map]. destruct p as [b|t|t]; cbn [run render1 pevents] in *.
    + destruct (IH _ _ H) as [E F]. rewrite events_app, final_app, E, F. split; reflexivity.
    + destruct st; try discriminate. destruct (IH _ _ H) as [E F].
      destruct (fish_sq_transparent t) as [Ft Et].
      rewrite events_app, final_app, Ft, Et, E, F. split; reflexivity.
    + destruct st; try discriminate. destruct (IH _ _ H) as [E F].
      destruct (fish_dq_transparent t) as [Ft Et].
      rewrite events_app, final_app, Ft, Et, E, F. split; reflexivity.
Qed.

Lemma skeleton_map_Lit l : skeleton (map Lit l) = [].
Proof. apply skeleton_data. apply data_map_Lit. Qed.

Lemma pevents_skeleton l : forall st, skeleton (pevents st l) = pskel st l.
Proof.
  induction l as [|p l IH]; intros st; [reflexivity|].
  destruct p as [b|t|t]; cbn [pevents pskel]; rewrite skeleton_app.
  - now rewrite IH.
  - now rewrite skeleton_map_Lit, IH.
  - now rewrite skeleton_map_Lit, IH.
Qed.

(** erasing the texts changes neither [run] nor the skeleton of the fixed text *)
Definition perase (p : piece) : piece :=
  match p with Fx b => Fx b | Dsq _ => Dsq [] | Ddq _ => Ddq [] end.

Lemma run_perase l : forall st, run st (map perase l) = run st l.
Proof.
  induction l as [|p l IH]; intros st; [reflexivity|].
  destruct p as [b|t|t]; cbn [map perase run]; [apply IH| |]; destruct st; try reflexivity; apply IH.
Qed.

Lemma pskel_perase l : forall st, pskel st (map perase l) = pskel st l.
Proof.
  induction l as [|p l IH]; intros st; [reflexivity|].
  destruct p as [b|t|t]; cbn [map perase pskel]; now rewrite IH.
Qed.

(** ---- the presence shape of a decoration ---- *)
Definition erase_opt (o : option bytes) : option bytes := match o with Some _ => Some [] | None => None end.
Definition erase_adesc (a : adesc) : adesc := mkAd (erase_opt (ad_help a)) (ad_long a) (map erase_opt (ad_pvh a)).
Fixpoint erase_desc (d : cdesc) : cdesc :=
  match d with
  | mkCd about lg args subs => mkCd (erase_opt about) lg (map erase_adesc args) (map erase_desc subs)
  end.

Lemma erase_desc_about d : cd_about (erase_desc d) = erase_opt (cd_about d).
Proof. destruct d; reflexivity. Qed.
Lemma erase_desc_args d : cd_args (erase_desc d) = map erase_adesc (cd_args d).
Proof. destruct d; reflexivity. Qed.
Lemma erase_desc_subs d : cd_subs (erase_desc d) = map erase_desc (cd_subs d).
Proof. destruct d; reflexivity. Qed.

Lemma zipd_map {A B} (f : B -> B) (dflt : B) (l : list A) : f dflt = dflt -> forall m,
  zipd dflt l (map f m) = map (fun p => (fst p, f (snd p))) (zipd dflt l m).
Proof.
  intros Hd. induction l as [|a l IH]; intros m; [reflexivity|].
  cbn [zipd map fst snd]. f_equal.
  - destruct m; cbn [map hd]; [now rewrite Hd|reflexivity].
  - rewrite <- IH. destruct m; reflexivity.
Qed.

Lemma filter_map_fst {A B} (f : A -> bool) (g : B -> B) (l : list (A * B)) :
  filter (fun p => f (fst p)) (map (fun p => (fst p, g (snd p))) l) =
  map (fun p => (fst p, g (snd p))) (filter (fun p => f (fst p)) l).
Proof.
  induction l as [|p l IH]; [reflexivity|]. cbn [map filter fst]. destruct (f (fst p)); cbn [map]; now rewrite IH.
Qed.

Lemma flat_map_ext_in {A B} (f g : A -> list B) l : (forall a, In a l -> f a = g a) -> flat_map f l = flat_map g l.
Proof.
  induction l as [|a l IH]; intros H; [reflexivity|]. cbn [flat_map].
  rewrite (H a (or_introl eq_refl)), IH; [reflexivity|]. intros x Hx. apply H. right. exact Hx.
Qed.

Lemma flat_map_map {A B C} (f : A -> B) (g : B -> list C) l : flat_map g (map f l) = flat_map (fun a => g (f a)) l.
Proof. induction l as [|a l IH]; [reflexivity|]. cbn [map flat_map]. now rewrite IH. Qed.

Lemma map_flat_map {A B C} (f : A -> list B) (g : B -> C) l : map g (flat_map f l) = flat_map (fun a => map g (f a)) l.
Proof. induction l as [|a l IH]; [reflexivity|]. cbn [flat_map]. now rewrite map_app, IH. Qed.

(** every function of the generator commutes with erasing the texts *)
Lemma description_erase h : map perase (description h) = description (erase_opt h).
Proof. destruct h; reflexivity. Qed.

Lemma spellings_erase a : map perase (spellings a) = spellings a.
Proof.
  unfold spellings. rewrite map_app.
  destruct (get_short_and_visible_aliases a) as [ss|], (get_long_and_visible_aliases a) as [ls|];
    rewrite ?map_map; cbn [map perase short_word long_word]; reflexivity.
Qed.

Lemma join_pieces_erase sep l :
  map perase (join_pieces sep l) = join_pieces (map perase sep) (map (map perase) l).
Proof.
  induction l as [|x t IH]; [reflexivity|]. cbn [join_pieces map]. destruct t as [|y t']; [reflexivity|].
  cbn [map] in *. rewrite !map_app, IH. reflexivity.
Qed.

Lemma value_completion_erase a ad :
  map perase (value_completion (a, ad)) = value_completion (a, erase_adesc ad).
Proof.
  unfold value_completion. cbn [fst snd]. destruct (negb (a_takes_values a)); [reflexivity|].
  destruct (possible_values a) as [data|]; [|reflexivity].
  rewrite !map_app, join_pieces_erase. cbn [map perase]. do 2 f_equal.
  unfold erase_adesc. cbn [ad_pvh]. rewrite (zipd_map erase_opt None data eq_refl).
  rewrite (filter_map_fst (fun v => negb (pv_hide v)) erase_opt). rewrite !map_map.
  f_equal. apply map_ext. intros [v [h|]]; reflexivity.
Qed.

Lemma opt_line_erase basic a ad : map perase (opt_line basic (a, ad)) = opt_line basic (a, erase_adesc ad).
Proof.
  unfold opt_line. cbn [fst snd map perase]. rewrite !map_app, spellings_erase, description_erase, value_completion_erase.
  reflexivity.
Qed.
Lemma flag_line_erase basic a ad : map perase (flag_line basic (a, ad)) = flag_line basic (a, erase_adesc ad).
Proof.
  unfold flag_line. cbn [fst snd map perase]. rewrite !map_app, spellings_erase, description_erase. reflexivity.
Qed.
Lemma sub_line_erase basic w about : map perase (sub_line basic w about) = sub_line basic w (erase_opt about).
Proof. unfold sub_line. cbn [map perase sub_word]. rewrite map_app, description_erase. reflexivity. Qed.

Lemma erase_adesc_ad0 : erase_adesc ad0 = ad0.
Proof. reflexivity. Qed.
Lemma erase_desc_cd0 : erase_desc cd0 = cd0.
Proof. reflexivity. Qed.

Lemma node_lines_erase basic c d :
  map (map perase) (node_lines basic c d) = node_lines basic c (erase_desc d).
Proof.
  unfold node_lines. rewrite erase_desc_args, erase_desc_subs.
  rewrite (zipd_map erase_adesc ad0 (c_args c) erase_adesc_ad0), (zipd_map erase_desc cd0 (c_subs c) erase_desc_cd0).
  rewrite !map_app. f_equal; [|f_equal].
  - unfold is_opt. rewrite (filter_map_fst (fun a => a_takes_values a && negb (a_is_positional a)) erase_adesc).
    rewrite !map_map. apply map_ext. intros [a ad]. apply opt_line_erase.
  - unfold is_flag. rewrite (filter_map_fst (fun a => negb (a_takes_values a) && negb (a_is_positional a)) erase_adesc).
    rewrite !map_map. apply map_ext. intros [a ad]. apply flag_line_erase.
  - rewrite map_flat_map, flat_map_map. apply flat_map_ext. intros [sc dsc]. cbn [fst snd].
    rewrite map_map. apply map_ext. intros w. rewrite sub_line_erase, erase_desc_about. reflexivity.
Qed.

Lemma gen_fish_inner_unfold' root nds usg parents c d :
  gen_fish_inner root nds usg parents c d =
  match basic_template root nds usg parents c with
  | None => []
  | Some basic =>
      node_lines basic c d ++
      flat_map (fun q : cmd * cdesc =>
                  flat_map (fun nm => gen_fish_inner root nds usg (parents ++ [nm]) (fst q) (snd q))
                           (get_name_and_visible_aliases (fst q)))
               (zipd cd0 (c_subs c) (cd_subs d))
  end.
Proof.
  destruct c as [n al args subs bin h v s g]. cbn [gen_fish_inner c_subs].
  destruct (basic_template root nds usg parents (mkCmd n al args subs bin h v s g)) as [basic|]; [|reflexivity].
  f_equal. generalize (cd_subs d) as dl. clear.
  induction subs as [|sc t IH]; intros dl; [reflexivity|].
  cbn [zipd flat_map fst snd]. rewrite IH. reflexivity.
Qed.

Lemma zipd_in_fst' {A B} (dflt : B) (l : list A) : forall m p, In p (zipd dflt l m) -> In (fst p) l.
Proof.
  induction l as [|a l IH]; intros m p H; [destruct H|]. cbn [zipd] in H. destruct H as [<-|H].
  - left. reflexivity.
  - right. eapply IH. exact H.
Qed.

Lemma gen_fish_inner_erase root nds usg : forall c parents d,
  map (map perase) (gen_fish_inner root nds usg parents c d) = gen_fish_inner root nds usg parents c (erase_desc d).
Proof.
  induction c as [n al args subs bin h v s g IH] using cmd_ind'. intros parents d.
  set (c := mkCmd n al args subs bin h v s g) in *.
  rewrite !gen_fish_inner_unfold'. destruct (basic_template root nds usg parents c) as [basic|]; [|reflexivity].
  rewrite map_app, node_lines_erase. f_equal.
  rewrite erase_desc_subs, (zipd_map erase_desc cd0 (c_subs c) erase_desc_cd0).
  rewrite map_flat_map, flat_map_map. apply flat_map_ext_in. intros [sc dsc] Hin. cbn [fst snd].
  rewrite map_flat_map. apply flat_map_ext. intros w.
  rewrite Forall_forall in IH. apply IH.
  apply (zipd_in_fst' cd0 (c_subs c) (cd_subs d) (sc, dsc)) in Hin. exact Hin.
Qed.

Theorem fish_pieces_erase c d :
  fish_pieces c (erase_desc d) = match fish_pieces c d with Some ps => Some (map perase ps) | None => None end.
Proof.
  unfold fish_pieces, fish_lines. destruct (c_bin c) as [bin|]; [|reflexivity].
  destruct (has_subcommands c).
  - cbn [List.concat]. rewrite <- gen_fish_inner_erase. cbn [map perase app]. rewrite concat_map. reflexivity.
  - rewrite <- gen_fish_inner_erase, concat_map. reflexivity.
Qed.

(** ---- tame names ---- *)
Definition is_bare (st : fstate) : bool := match st with FB | FW => true | _ => false end.
Definition tame_byte (c : N) : bool := negb ((c =? 34) || (c =? 39) || (c =? 92) || (c =? 35)).
Definition tame (s : bytes) : bool := forallb tame_byte s.
Definition tame_opt (o : option bytes) : bool := match o with Some s => tame s | None => true end.
Definition tame_fst (l : list (bytes * bool)) : bool := forallb (fun p => tame (fst p)) l.
Definition tame_arg (a : arg) : bool :=
  tame_opt (a_short a) && tame_opt (a_long a) && tame_fst (a_short_aliases a) && tame_fst (a_aliases a)
  && match a_pvs a with Some l => forallb (fun v => tame (pv_name v)) l | None => true end.
Fixpoint tame_cmd (c : cmd) : bool :=
  match c with
  | mkCmd n al args subs _ _ _ _ _ => tame n && tame_fst al && forallb tame_arg args && forallb tame_cmd subs
  end.

(** [b] read between words / inside a bare word leaves the lexer between words / inside a bare word *)
Definition bare_pres (b : bytes) : Prop := forall st, is_bare st = true -> is_bare (final fish_step st b) = true.
(** [b] read inside "..." leaves the lexer inside "..." *)
Definition dq_pres (b : bytes) : Prop := final fish_step FDQ b = FDQ.

Lemma bare_pres_nil : bare_pres [].
Proof. intros st H. exact H. Qed.
Lemma bare_pres_app a b : bare_pres a -> bare_pres b -> bare_pres (a ++ b).
Proof. intros Ha Hb st H. rewrite final_app. apply Hb, Ha, H. Qed.
Definition bare_check (b : bytes) : bool := is_bare (final fish_step FB b) && is_bare (final fish_step FW b).
Lemma bare_pres_check b : bare_check b = true -> bare_pres b.
Proof.
  unfold bare_check. intros H. apply andb_true_iff in H. destruct H as [H1 H2].
  intros [] Hst; try discriminate; assumption.
Qed.
Lemma dq_pres_nil : dq_pres [].
Proof. reflexivity. Qed.
Lemma dq_pres_app a b : dq_pres a -> dq_pres b -> dq_pres (a ++ b).
Proof. unfold dq_pres. intros Ha Hb. rewrite final_app, Ha. exact Hb. Qed.

Lemma tame_app a b : tame (a ++ b) = tame a && tame b.
Proof. apply forallb_app. Qed.

Lemma tame_byte_step c : tame_byte c = true ->
  (forall st, is_bare st = true -> is_bare (fst (fish_step st c)) = true) /\ fst (fish_step FDQ c) = FDQ.
Proof.
  unfold tame_byte. intros H. apply negb_true_iff in H.
  apply orb_false_iff in H. destruct H as [H H35]. apply orb_false_iff in H. destruct H as [H H92].
  apply orb_false_iff in H. destruct H as [H34 H39]. split.
  - intros [] Hst; try discriminate; cbn [fish_step]; rewrite H39, H34, H92, H35; cbn [andb];
      destruct (is_ws c || (c =? 10) || (c =? 59)); reflexivity.
  - cbn [fish_step]. rewrite H34, H92. destruct (c =? 36); reflexivity.
Qed.

Lemma bare_pres_tame s : tame s = true -> bare_pres s.
Proof.
  induction s as [|c s IH]; intros H; [apply bare_pres_nil|].
  cbn [tame forallb] in H. apply andb_true_iff in H. destruct H as [Hc Hs].
  intros st Hst. cbn [final]. apply (IH Hs). apply (proj1 (tame_byte_step c Hc)). exact Hst.
Qed.

Lemma dq_pres_tame s : tame s = true -> dq_pres s.
Proof.
  unfold dq_pres. induction s as [|c s IH]; intros H; [reflexivity|].
  cbn [tame forallb] in H. apply andb_true_iff in H. destruct H as [Hc Hs].
  cbn [final]. rewrite (proj2 (tame_byte_step c Hc)). apply IH. exact Hs.
Qed.

(** the escapes on tame names *)
Lemma tame_not_key c : tame_byte c = true -> ~ In c (keys fish_escape_string_base).
Proof.
  intros H Hin. cbn in Hin. destruct Hin as [<-|[<-|[]]]; discriminate.
Qed.

Lemma escape_string_tame s : tame s = true -> fish_escape_string s false = s.
Proof.
  intros H. unfold fish_escape_string. rewrite apply_chain_charwise by reflexivity.
  rewrite <- (flat_map_ret s) at 2. apply flat_map_ext_in. intros c Hc.
  apply apply_chain_other; [reflexivity|]. apply tame_not_key.
  unfold tame in H. rewrite forallb_forall in H. apply H. exact Hc.
Qed.

Lemma escape_string_comma_tame s : tame s = true ->
  fish_escape_string s true = apply_chain fish_escape_string_comma s.
Proof.
  intros H. unfold fish_escape_string. f_equal. change (apply_chain fish_escape_string_base s) with (fish_escape_string s false).
  apply escape_string_tame. exact H.
Qed.

Lemma dq_pres_comma_char c : tame_byte c = true -> dq_pres (apply_chain fish_escape_string_comma [c]).
Proof.
  intros Hc. destruct (in_dec N.eq_dec c (keys fish_escape_string_comma)) as [Hin|Hout].
  - cbn in Hin. repeat (destruct Hin as [<-|Hin]; [reflexivity|]). destruct Hin.
  - rewrite apply_chain_other by (reflexivity || assumption). apply dq_pres_tame.
    cbn [tame forallb]. rewrite Hc. reflexivity.
Qed.

Lemma dq_pres_value_name s : tame s = true -> dq_pres (fish_escape_string s true).
Proof.
  intros H. rewrite escape_string_comma_tame by exact H.
  rewrite apply_chain_charwise by reflexivity.
  induction s as [|c s IH]; [reflexivity|].
  cbn [tame forallb] in H. apply andb_true_iff in H. destruct H as [Hc Hs].
  cbn [flat_map]. apply dq_pres_app; [apply dq_pres_comma_char; exact Hc|apply IH; exact Hs].
Qed.

Lemma tame_escape_name s : tame s = true -> tame (escape_name s) = true.
Proof.
  intros H. unfold escape_name. rewrite replace_single.
  induction s as [|c s IH]; [reflexivity|].
  cbn [tame forallb] in H. apply andb_true_iff in H. destruct H as [Hc Hs].
  cbn [flat_map]. rewrite tame_app, (IH Hs), andb_true_r. unfold subst1.
  destruct (c =? 45); [reflexivity|]. cbn [tame forallb]. rewrite Hc. reflexivity.
Qed.

(** ---- pieces that keep the lexer between / inside bare words ---- *)
Definition run_bare (l : list piece) : Prop :=
  forall st, is_bare st = true -> exists st', run st l = Some st' /\ is_bare st' = true.
Definition run_dq (l : list piece) : Prop := run FDQ l = Some FDQ.

Lemma run_bare_nil : run_bare [].
Proof. intros st H. exists st. split; [reflexivity|exact H]. Qed.
Lemma run_bare_app a b : run_bare a -> run_bare b -> run_bare (a ++ b).
Proof.
  intros Ha Hb st H. destruct (Ha st H) as (s1 & R1 & B1). destruct (Hb s1 B1) as (s2 & R2 & B2).
  exists s2. rewrite run_app, R1. split; assumption.
Qed.
Lemma run_bare_fx b : bare_pres b -> run_bare [Fx b].
Proof. intros Hb st H. eexists. split; [reflexivity|]. apply Hb, H. Qed.
Lemma run_bare_cons_fx b l : bare_pres b -> run_bare l -> run_bare (Fx b :: l).
Proof. intros Hb Hl. apply (run_bare_app [Fx b] l); [apply run_bare_fx; exact Hb|exact Hl]. Qed.
Lemma run_bare_map_fx {A} (f : A -> bytes) l : (forall a, In a l -> bare_pres (f a)) -> run_bare (map (fun a => Fx (f a)) l).
Proof.
  induction l as [|a l IH]; intros H; [apply run_bare_nil|].
  cbn [map]. apply run_bare_cons_fx; [apply H; left; reflexivity|]. apply IH. intros x Hx. apply H. right. exact Hx.
Qed.

Lemma run_dq_app a b : run_dq a -> run_dq b -> run_dq (a ++ b).
Proof. unfold run_dq. intros Ha Hb. rewrite run_app, Ha. exact Hb. Qed.

(** [ -d '...'] *)
Lemma run_bare_description h : run_bare (description h).
Proof.
  destruct h as [t|]; [|apply run_bare_nil].
  intros [] Hst; try discriminate; (exists FW; split; reflexivity).
Qed.

Lemma tame_lit_sp_s : bare_check (lit " -s ") = true. Proof. reflexivity. Qed.
Lemma tame_lit_sp_l : bare_check (lit " -l ") = true. Proof. reflexivity. Qed.

Lemma forallb_in {A} (f : A -> bool) l a : forallb f l = true -> In a l -> f a = true.
Proof. intros H. rewrite forallb_forall in H. apply H. Qed.

Lemma tame_visible l s : tame_fst l = true -> In s (visible l) -> tame s = true.
Proof.
  intros H Hs. apply visible_in in Hs. apply (forallb_in _ _ _ H) in Hs. exact Hs.
Qed.

Lemma tame_arg_parts a : tame_arg a = true ->
  tame_opt (a_short a) = true /\ tame_opt (a_long a) = true /\ tame_fst (a_short_aliases a) = true /\
  tame_fst (a_aliases a) = true /\
  match a_pvs a with Some l => forallb (fun v => tame (pv_name v)) l | None => true end = true.
Proof.
  unfold tame_arg. intros H.
  apply andb_true_iff in H. destruct H as [H Hpv].
  apply andb_true_iff in H. destruct H as [H Hal].
  apply andb_true_iff in H. destruct H as [H Hsa].
  apply andb_true_iff in H. destruct H as [Hsh Hlg]. auto.
Qed.

Lemma tame_shorts a l s : tame_arg a = true -> get_short_and_visible_aliases a = Some l -> In s l -> tame s = true.
Proof.
  intros H Hl Hs. destruct (tame_arg_parts a H) as (Hsh & _ & Hsa & _).
  unfold get_short_and_visible_aliases in Hl. destruct (a_short a) as [sh|]; [|discriminate].
  inversion Hl; subst l; clear Hl. destruct Hs as [<-|Hs]; [exact Hsh|].
  unfold get_visible_short_aliases in Hs. destruct (is_nil (a_short_aliases a)); [destruct Hs|].
  exact (tame_visible _ _ Hsa Hs).
Qed.

Lemma tame_longs a l s : tame_arg a = true -> get_long_and_visible_aliases a = Some l -> In s l -> tame s = true.
Proof.
  intros H Hl Hs. destruct (tame_arg_parts a H) as (_ & Hlg & _ & Hal & _).
  unfold get_long_and_visible_aliases in Hl. destruct (a_long a) as [lg|]; [|discriminate].
  inversion Hl; subst l; clear Hl. destruct Hs as [<-|Hs]; [exact Hlg|].
  unfold get_visible_aliases in Hs. destruct (is_nil (a_aliases a)); [destruct Hs|].
  exact (tame_visible _ _ Hal Hs).
Qed.

Lemma run_bare_spellings a : tame_arg a = true -> run_bare (spellings a).
Proof.
  intros Ha. unfold spellings. apply run_bare_app.
  - destruct (get_short_and_visible_aliases a) as [ss|] eqn:E; [|apply run_bare_nil].
    unfold short_word. apply run_bare_map_fx. intros s Hs.
    apply bare_pres_app; [apply bare_pres_check; reflexivity|]. apply bare_pres_tame. eapply tame_shorts; eassumption.
  - destruct (get_long_and_visible_aliases a) as [ls|] eqn:E; [|apply run_bare_nil].
    unfold long_word. apply run_bare_map_fx. intros s Hs.
    apply bare_pres_app; [apply bare_pres_check; reflexivity|].
    rewrite escape_string_tame by (eapply tame_longs; eassumption).
    apply bare_pres_tame. eapply tame_longs; eassumption.
Qed.

(** the possible-value list *)
Lemma run_dq_pv_entry (q : pval * option bytes) : tame (pv_name (fst q)) = true -> run_dq (pv_entry q).
Proof.
  intros H. unfold run_dq, pv_entry, value_word. cbn [run].
  assert (E : final fish_step FDQ (fish_escape_string (pv_name (fst q)) true ++ lit "\t'") = FDQ).
  { apply dq_pres_app; [apply dq_pres_value_name; exact H|reflexivity]. }
  rewrite E. reflexivity.
Qed.

Lemma run_dq_join l : (forall x, In x l -> run_dq x) -> run_dq (join_pieces [Fx lf] l).
Proof.
  induction l as [|x t IH]; intros H; [reflexivity|].
  cbn [join_pieces]. destruct t as [|y t'].
  - apply H. left. reflexivity.
  - apply run_dq_app; [apply H; left; reflexivity|]. apply run_dq_app; [reflexivity|].
    apply IH. intros z Hz. apply H. right. exact Hz.
Qed.

Lemma bare_pres_hint h : bare_pres (hint_completion h).
Proof. destruct h; apply bare_pres_check; reflexivity. Qed.

Lemma run_bare_value_completion (p : arg * adesc) : tame_arg (fst p) = true -> run_bare (value_completion p).
Proof.
  intros Ha. unfold value_completion. destruct (negb (a_takes_values (fst p))); [apply run_bare_nil|].
  destruct (possible_values (fst p)) as [data|] eqn:Epv; [|apply run_bare_fx, bare_pres_hint].
  assert (Hd : forall v, In v data -> tame (pv_name v) = true).
  { unfold possible_values in Epv. destruct (negb (a_takes_values (fst p))); [discriminate|].
    destruct (tame_arg_parts _ Ha) as (_ & _ & _ & _ & Hpv). rewrite Epv in Hpv.
    intros v Hv. apply (forallb_in _ _ _ Hpv Hv). }
  assert (Hj : run_dq (join_pieces [Fx lf]
            (map pv_entry (filter (fun q : pval * option bytes => negb (pv_hide (fst q)))
                                  (zipd None data (ad_pvh (snd p))))))).
  { apply run_dq_join. intros x Hx. apply in_map_iff in Hx. destruct Hx as (q & <- & Hq).
    apply filter_In in Hq. destruct Hq as [Hq _]. apply run_dq_pv_entry. apply Hd.
    eapply zipd_in_fst'. exact Hq. }
  intros st Hst. exists FW. split; [|reflexivity].
  assert (E : final fish_step st (lit " -r -f -a """) = FDQ) by (destruct st; try discriminate; reflexivity).
  cbn [app run]. rewrite E, run_app. unfold run_dq in Hj. rewrite Hj. reflexivity.
Qed.

(** a line: from between/inside bare words back to between words *)
Definition line_ok (l : list piece) : Prop := forall st, is_bare st = true -> run st l = Some FB.

Lemma line_ok_intro b body : bare_pres b -> run_bare body -> line_ok (Fx b :: body ++ [Fx lf]).
Proof.
  intros Hb Hbody st Hst. cbn [run].
  destruct (Hbody (final fish_step st b) (Hb st Hst)) as (s1 & R1 & B1).
  rewrite run_app, R1. cbn [run]. destruct s1; try discriminate; reflexivity.
Qed.

Lemma lines_ok_concat ls : Forall line_ok ls -> forall st, is_bare st = true ->
  exists st', run st (List.concat ls) = Some st' /\ is_bare st' = true.
Proof.
  induction 1 as [|l ls Hl Hls IH]; intros st Hst.
  - exists st. split; [reflexivity|exact Hst].
  - cbn [List.concat]. rewrite run_app, (Hl st Hst). apply IH. reflexivity.
Qed.

Lemma opt_line_ok basic p : bare_pres basic -> tame_arg (fst p) = true -> line_ok (opt_line basic p).
Proof.
  intros Hb Ha. unfold opt_line. rewrite !app_assoc. apply line_ok_intro; [exact Hb|].
  apply run_bare_app; [apply run_bare_app|]; [apply run_bare_spellings; exact Ha|apply run_bare_description|
    apply run_bare_value_completion; exact Ha].
Qed.
Lemma flag_line_ok basic p : bare_pres basic -> tame_arg (fst p) = true -> line_ok (flag_line basic p).
Proof.
  intros Hb Ha. unfold flag_line. rewrite !app_assoc. apply line_ok_intro; [exact Hb|].
  apply run_bare_app; [apply run_bare_spellings; exact Ha|apply run_bare_description].
Qed.

(** a double-quoted argument after a bare prefix: [pre] ends with the opening quote, [b] with the closing one *)
Definition dq_close (b : bytes) : Prop := final fish_step FDQ b = FW.
Lemma dq_close_app a b : dq_pres a -> dq_close b -> dq_close (a ++ b).
Proof. unfold dq_pres, dq_close. intros Ha Hb. rewrite final_app, Ha. exact Hb. Qed.
Lemma dq_close_quote : dq_close (lit """").
Proof. reflexivity. Qed.
Lemma bare_open pre b :
  (forall st, is_bare st = true -> final fish_step st pre = FDQ) -> dq_close b -> bare_pres (pre ++ b).
Proof. intros Hp Hb st Hst. rewrite final_app, (Hp st Hst). unfold dq_close in Hb. rewrite Hb. reflexivity. Qed.
Lemma opens_n : forall st, is_bare st = true -> final fish_step st (lit " -n """) = FDQ.
Proof. intros [] H; try discriminate; reflexivity. Qed.
Lemma opens_a : forall st, is_bare st = true -> final fish_step st (lit " -a """) = FDQ.
Proof. intros [] H; try discriminate; reflexivity. Qed.

Lemma sub_line_ok basic w about : bare_pres basic -> tame w = true -> line_ok (sub_line basic w about).
Proof.
  intros Hb Hw. unfold sub_line.
  change (Fx basic :: sub_word w :: description about ++ [Fx lf])
    with (Fx basic :: ([sub_word w] ++ description about) ++ [Fx lf]).
  apply line_ok_intro; [exact Hb|]. apply run_bare_app; [|apply run_bare_description].
  unfold sub_word. apply run_bare_fx. apply bare_open; [exact opens_a|].
  apply dq_close_app; [apply dq_pres_tame; exact Hw|exact dq_close_quote].
Qed.

(** ---- the tree ---- *)
Lemma tame_cmd_unfold c :
  tame_cmd c = tame (c_name c) && tame_fst (c_aliases c) && forallb tame_arg (c_args c) && forallb tame_cmd (c_subs c).
Proof. destruct c; reflexivity. Qed.

Lemma tame_cmd_parts c : tame_cmd c = true ->
  tame (c_name c) = true /\ tame_fst (c_aliases c) = true /\ forallb tame_arg (c_args c) = true /\
  forallb tame_cmd (c_subs c) = true.
Proof.
  rewrite tame_cmd_unfold. intros H. repeat (apply andb_true_iff in H; destruct H as [H ?]). auto.
Qed.

Lemma tame_names sc w : tame_cmd sc = true -> In w (get_name_and_visible_aliases sc) -> tame w = true.
Proof.
  intros H Hw. destruct (tame_cmd_parts sc H) as (Hn & Ha & _). destruct Hw as [<-|Hw]; [exact Hn|].
  eapply tame_visible; eassumption.
Qed.

Lemma dq_pres_names (l : list bytes) : (forall w, In w l -> tame w = true) -> dq_pres (flat_map (fun n => lit " " ++ n) l).
Proof.
  induction l as [|w l IH]; intros H; [reflexivity|]. cbn [flat_map].
  apply dq_pres_app; [apply dq_pres_app; [reflexivity|apply dq_pres_tame, H; left; reflexivity]|].
  apply IH. intros x Hx. apply H. right. exact Hx.
Qed.

Lemma bare_pres_basic_template root nds usg parents c basic :
  tame root = true -> tame nds = true -> tame usg = true -> Forall (fun w => tame w = true) parents ->
  tame_cmd c = true -> basic_template root nds usg parents c = Some basic -> bare_pres basic.
Proof.
  intros Hr Hn Hu Hp Hc Hb.
  assert (Hbase : bare_pres (lit "complete -c " ++ root)).
  { apply bare_pres_app; [apply bare_pres_check; reflexivity|apply bare_pres_tame; exact Hr]. }
  enough (G : match basic_template root nds usg parents c with Some b => bare_pres b | None => True end)
    by (rewrite Hb in G; exact G).
  clear Hb basic. unfold basic_template. cbv zeta.
  destruct parents as [|p1 [|p2 [|p3 r]]]; [| | |exact I].
  - destruct (has_subcommands c); [|exact Hbase].
    apply bare_pres_app; [exact Hbase|]. apply bare_open; [exact opens_n|].
    apply dq_close_app; [apply dq_pres_tame; exact Hn|exact dq_close_quote].
  - inversion Hp as [|x l H1 _]; subst.
    apply bare_pres_app; [exact Hbase|]. apply bare_open; [exact opens_n|].
    apply dq_close_app; [apply dq_pres_tame; exact Hu|]. apply dq_close_app; [reflexivity|].
    apply dq_close_app; [apply dq_pres_tame; exact H1|].
    apply dq_close_app; [destruct (has_subcommands c); reflexivity|].
    apply dq_close_app; [|exact dq_close_quote].
    apply dq_pres_names. intros w Hw. apply in_flat_map in Hw. destruct Hw as (sc & Hsc & Hw).
    destruct (tame_cmd_parts c Hc) as (_ & _ & _ & Hs). eapply tame_names; [|exact Hw].
    apply (forallb_in _ _ _ Hs Hsc).
  - inversion Hp as [|x l H1 Hp']; subst. inversion Hp' as [|x l H2 _]; subst.
    apply bare_pres_app; [exact Hbase|]. apply bare_open; [exact opens_n|].
    apply dq_close_app; [apply dq_pres_tame; exact Hu|]. apply dq_close_app; [reflexivity|].
    apply dq_close_app; [apply dq_pres_tame; exact H1|]. apply dq_close_app; [reflexivity|].
    apply dq_close_app; [apply dq_pres_tame; exact H2|exact dq_close_quote].
Qed.

Lemma node_lines_ok basic c d : bare_pres basic -> tame_cmd c = true -> Forall line_ok (node_lines basic c d).
Proof.
  intros Hb Hc. destruct (tame_cmd_parts c Hc) as (_ & _ & Hargs & Hsubs).
  unfold node_lines. apply Forall_app. split; [|apply Forall_app; split].
  - apply Forall_forall. intros l Hl. apply in_map_iff in Hl. destruct Hl as (p & <- & Hp).
    apply filter_In in Hp. destruct Hp as [Hp _]. apply opt_line_ok; [exact Hb|].
    apply (forallb_in _ _ _ Hargs). eapply zipd_in_fst'. exact Hp.
  - apply Forall_forall. intros l Hl. apply in_map_iff in Hl. destruct Hl as (p & <- & Hp).
    apply filter_In in Hp. destruct Hp as [Hp _]. apply flag_line_ok; [exact Hb|].
    apply (forallb_in _ _ _ Hargs). eapply zipd_in_fst'. exact Hp.
  - apply Forall_forall. intros l Hl. apply in_flat_map in Hl. destruct Hl as (q & Hq & Hl).
    apply in_map_iff in Hl. destruct Hl as (w & <- & Hw). apply sub_line_ok.
    + destruct (is_nil (get_positionals c)); [|exact Hb].
      apply bare_pres_app; [exact Hb|apply bare_pres_check; reflexivity].
    + eapply tame_names; [|exact Hw]. apply (forallb_in _ _ _ Hsubs). eapply zipd_in_fst'. exact Hq.
Qed.

Lemma gen_fish_inner_ok root nds usg : tame root = true -> tame nds = true -> tame usg = true ->
  forall c parents d, tame_cmd c = true -> Forall (fun w => tame w = true) parents ->
    Forall line_ok (gen_fish_inner root nds usg parents c d).
Proof.
  intros Hr Hn Hu. induction c as [n al args subs bin h v s g IH] using cmd_ind'. intros parents d Hc Hp.
  set (c := mkCmd n al args subs bin h v s g) in *.
  rewrite gen_fish_inner_unfold'. destruct (basic_template root nds usg parents c) as [basic|] eqn:Eb; [|constructor].
  assert (Hb : bare_pres basic) by exact (bare_pres_basic_template root nds usg parents c basic Hr Hn Hu Hp Hc Eb).
  apply Forall_app. split; [apply node_lines_ok; assumption|].
  apply Forall_forall. intros l Hl. apply in_flat_map in Hl. destruct Hl as ([sc dsc] & Hq & Hl). cbn [fst snd] in Hl.
  apply in_flat_map in Hl. destruct Hl as (w & Hw & Hl).
  assert (Hsc : In sc (c_subs c)) by (apply (zipd_in_fst' cd0 (c_subs c) (cd_subs d) (sc, dsc)); exact Hq).
  destruct (tame_cmd_parts c Hc) as (_ & _ & _ & Hsubs).
  assert (Htsc : tame_cmd sc = true) by (apply (forallb_in _ _ _ Hsubs Hsc)).
  assert (IHsc := proj1 (Forall_forall _ _) IH sc Hsc). cbv beta in IHsc.
  assert (Hp' : Forall (fun x => tame x = true) (parents ++ [w])).
  { apply Forall_app. split; [exact Hp|]. constructor; [|constructor]. exact (tame_names sc w Htsc Hw). }
  assert (Hall := IHsc (parents ++ [w]) dsc Htsc Hp').
  exact (proj1 (Forall_forall _ _) Hall l Hl).
Qed.

(** ---- the helper block ---- *)
Lemma bare_pres_optspec a : tame_arg a = true -> bare_pres (optspec a).
Proof.
  intros Ha. destruct (tame_arg_parts a Ha) as (Hsh & Hlg & _). unfold tame_opt in Hsh, Hlg.
  unfold optspec. apply bare_pres_app; [apply bare_pres_check; reflexivity|].
  apply bare_pres_app; [destruct (a_short a); [apply bare_pres_tame; exact Hsh|apply bare_pres_nil]|].
  apply bare_pres_app.
  - destruct (a_long a) as [l|]; [|apply bare_pres_nil].
    apply bare_pres_app; [destruct (is_some (a_short a)); [apply bare_pres_check; reflexivity|apply bare_pres_nil]|].
    rewrite escape_string_tame by exact Hlg. apply bare_pres_tame. exact Hlg.
  - destruct (a_takes_values a); [apply bare_pres_check; reflexivity|apply bare_pres_nil].
Qed.

Lemma bare_pres_optspecs c : tame_cmd c = true -> bare_pres (optspecs c).
Proof.
  intros Hc. destruct (tame_cmd_parts c Hc) as (_ & _ & Hargs & _). unfold optspecs.
  assert (H : forall a, In a (filter (fun a => negb (a_is_positional a)) (c_args c)) -> tame_arg a = true).
  { intros a Ha. apply filter_In in Ha. destruct Ha as [Ha _]. apply (forallb_in _ _ _ Hargs Ha). }
  induction (filter (fun a => negb (a_is_positional a)) (c_args c)) as [|a l IH]; [apply bare_pres_nil|].
  cbn [flat_map]. apply bare_pres_app; [apply bare_pres_optspec, H; left; reflexivity|].
  apply IH. intros x Hx. apply H. right. exact Hx.
Qed.

(** the fixed text of the helper block, cut at the inserted names *)
Definition hc1 : bytes := Eval vm_compute in
  (lit "# Print an optspec for argparse to handle cmd's options that are independent of any subcommand." ++ lf ++
   lit "function ").
Definition hc2 : bytes := Eval vm_compute in (lf ++ tab ++ lit "string join \n").
Definition hc3 : bytes := Eval vm_compute in (lf ++ lit "end" ++ lf ++ lf ++ lit "function ").
Definition hc4 : bytes := Eval vm_compute in
  (lf ++ tab ++ lit "# Figure out if the current invocation already has a command." ++ lf ++
   tab ++ lit "set -l cmd (commandline -opc)" ++ lf ++
   tab ++ lit "set -e cmd[1]" ++ lf ++
   tab ++ lit "argparse -s (").
Definition hc5 : bytes := Eval vm_compute in
  (lit ") -- $cmd 2>/dev/null" ++ lf ++
   tab ++ lit "or return" ++ lf ++
   tab ++ lit "if set -q argv[1]" ++ lf ++
   tab ++ tab ++ lit "# Also print the command, so this can be used to figure out what it is." ++ lf ++
   tab ++ tab ++ lit "echo $argv[1]" ++ lf ++
   tab ++ tab ++ lit "return 1" ++ lf ++
   tab ++ lit "end" ++ lf ++
   tab ++ lit "return 0" ++ lf ++
   lit "end" ++ lf ++ lf ++
   lit "function ").
Definition hc6 : bytes := Eval vm_compute in (lf ++ tab ++ lit "set -l cmd (").
Definition hc7 : bytes := Eval vm_compute in
  (lit ")" ++ lf ++
   tab ++ lit "test -z ""$cmd""" ++ lf ++
   tab ++ lit "and return 1" ++ lf ++
   tab ++ lit "contains -- $cmd[1] $argv" ++ lf ++
   lit "end" ++ lf ++ lf).

Lemma helpers_chunks name c nds usg :
  subcommand_helpers name c nds usg =
  hc1 ++ (lit "__fish_" ++ name ++ lit "_global_optspecs") ++ hc2 ++ optspecs c ++ hc3 ++ nds ++ hc4
  ++ (lit "__fish_" ++ name ++ lit "_global_optspecs") ++ hc5 ++ usg ++ hc6 ++ nds ++ hc7.
Proof.
  unfold subcommand_helpers, hc1, hc2, hc3, hc4, hc5, hc6, hc7, lf, tab. cbv zeta.
  repeat rewrite <- app_assoc. cbn [app]. reflexivity.
Qed.

(** the block starts the file (state [FB]: its first line is a comment) *)
Lemma helpers_run name c nds usg :
  tame name = true -> tame nds = true -> tame usg = true -> tame_cmd c = true ->
  is_bare (final fish_step FB (subcommand_helpers name c nds usg)) = true.
Proof.
  intros Hname Hn Hu Hc. assert (Ho := bare_pres_optspecs c Hc).
  assert (Hofn : bare_pres (lit "__fish_" ++ name ++ lit "_global_optspecs")).
  { apply bare_pres_tame. rewrite !tame_app, Hname. reflexivity. }
  rewrite helpers_chunks, final_app.
  change (final fish_step FB hc1) with FB.
  revert Hofn Ho. generalize (lit "__fish_" ++ name ++ lit "_global_optspecs") as ofn.
  generalize (optspecs c) as os. intros os ofn Hofn Ho.
  assert (G : bare_pres (ofn ++ hc2 ++ os ++ hc3 ++ nds ++ hc4 ++ ofn ++ hc5 ++ usg ++ hc6 ++ nds ++ hc7)).
  { apply bare_pres_app; [exact Hofn|].
    apply bare_pres_app; [apply bare_pres_check; reflexivity|].
    apply bare_pres_app; [exact Ho|].
    apply bare_pres_app; [apply bare_pres_check; reflexivity|].
    apply bare_pres_app; [apply bare_pres_tame; exact Hn|].
    apply bare_pres_app; [apply bare_pres_check; reflexivity|].
    apply bare_pres_app; [exact Hofn|].
    apply bare_pres_app; [apply bare_pres_check; reflexivity|].
    apply bare_pres_app; [apply bare_pres_tame; exact Hu|].
    apply bare_pres_app; [apply bare_pres_check; reflexivity|].
    apply bare_pres_app; [apply bare_pres_tame; exact Hn|].
    apply bare_pres_check; reflexivity. }
  apply G. reflexivity.
Qed.

(** ---- the file ---- *)
Lemma tame_fn_names bin :
  tame bin = true ->
  tame (lit "__fish_" ++ escape_name bin ++ lit "_needs_command") = true /\
  tame (lit "__fish_" ++ escape_name bin ++ lit "_using_subcommand") = true.
Proof.
  intros H. rewrite !tame_app, (tame_escape_name bin H). split; reflexivity.
Qed.

Theorem fish_file_runs c d bin :
  c_bin c = Some bin -> tame bin = true -> tame_cmd c = true ->
  exists ps st', fish_pieces c d = Some ps /\ run FB ps = Some st' /\ is_bare st' = true.
Proof.
  intros Hb Ht Hc. unfold fish_pieces, fish_lines. rewrite Hb.
  destruct (tame_fn_names bin Ht) as [Hn Hu].
  destruct (has_subcommands c).
  - eexists. cbn [List.concat app].
    assert (Hh := helpers_run (escape_name bin) c _ _ (tame_escape_name bin Ht) Hn Hu Hc).
    assert (Hl := gen_fish_inner_ok bin _ _ Ht Hn Hu c [] d Hc (Forall_nil _)).
    destruct (lines_ok_concat _ Hl _ Hh) as (st' & R & B).
    exists st'. split; [reflexivity|]. split; [exact R|exact B].
  - eexists.
    assert (Hl := gen_fish_inner_ok bin (lit "__fish_use_subcommand") (lit "__fish_seen_subcommand_from")
                    Ht eq_refl eq_refl c [] d Hc (Forall_nil _)).
    destruct (lines_ok_concat _ Hl FB eq_refl) as (st' & R & B).
    exists st'. split; [reflexivity|]. split; [exact R|exact B].
Qed.

(** every description text of the file is read as literal payload only: the events of the whole file
    are those of the fixed text with, for every slot, [Lit] events carrying the flattened text *)
Theorem fish_texts_literal c d bin :
  c_bin c = Some bin -> tame bin = true -> tame_cmd c = true ->
  exists ps s, fish_pieces c d = Some ps /\ fish_script c d = Some s /\
    events fish_step FB s = pevents FB ps /\ skeleton (events fish_step FB s) = pskel FB ps /\
    is_bare (final fish_step FB s) = true.
Proof.
  intros Hb Ht Hc. destruct (fish_file_runs c d bin Hb Ht Hc) as (ps & st' & Hp & R & B).
  exists ps, (render_pieces ps). split; [exact Hp|]. unfold fish_script. rewrite Hp. split; [reflexivity|].
  destruct (run_events ps FB st' R) as [E F]. rewrite E, F, pevents_skeleton. auto.
Qed.

(** whole-script structure invariance *)
Theorem fish_text_invariance c d1 d2 bin :
  c_bin c = Some bin -> tame bin = true -> tame_cmd c = true -> erase_desc d1 = erase_desc d2 ->
  exists s1 s2, fish_script c d1 = Some s1 /\ fish_script c d2 = Some s2 /\
    skeleton (events fish_step FB s1) = skeleton (events fish_step FB s2) /\
    final fish_step FB s1 = final fish_step FB s2.
Proof.
  intros Hb Ht Hc He.
  destruct (fish_file_runs c d1 bin Hb Ht Hc) as (p1 & t1 & Hp1 & R1 & _).
  destruct (fish_file_runs c d2 bin Hb Ht Hc) as (p2 & t2 & Hp2 & R2 & _).
  assert (Hm : map perase p1 = map perase p2).
  { assert (E1 := fish_pieces_erase c d1). assert (E2 := fish_pieces_erase c d2).
    rewrite Hp1 in E1. rewrite Hp2 in E2. rewrite He in E1. rewrite E1 in E2. inversion E2. reflexivity. }
  exists (render_pieces p1), (render_pieces p2). unfold fish_script. rewrite Hp1, Hp2.
  split; [reflexivity|]. split; [reflexivity|].
  destruct (run_events p1 FB t1 R1) as [E1 F1]. destruct (run_events p2 FB t2 R2) as [E2 F2].
  rewrite E1, E2, F1, F2, !pevents_skeleton. split.
  - rewrite <- (pskel_perase p1), <- (pskel_perase p2), Hm. reflexivity.
  - rewrite <- (run_perase p1), Hm, run_perase, R2 in R1. inversion R1. reflexivity.
Qed.

(** the pair of files the harness compares ([script] mode: the texts as given / innocuous text of the
    same emptiness) is an instance *)
Lemma erase_innocuous_opt o : erase_opt (innocuous_opt o) = erase_opt o.
Proof. destruct o; reflexivity. Qed.

Lemma erase_innocuous_adesc a : erase_adesc (innocuous_adesc a) = erase_adesc a.
Proof.
  destruct a as [h l p]. unfold erase_adesc, innocuous_adesc. cbn [ad_help ad_long ad_pvh].
  rewrite erase_innocuous_opt, map_map. f_equal. apply map_ext. intros o. apply erase_innocuous_opt.
Qed.

Lemma erase_innocuous : forall d, erase_desc (innocuous_desc d) = erase_desc d.
Proof.
  fix IH 1. intros [about lg args subs]. cbn [innocuous_desc erase_desc].
  rewrite erase_innocuous_opt, !map_map. f_equal.
  - apply map_ext. intros a. apply erase_innocuous_adesc.
  - induction subs as [|x t IHt]; [reflexivity|]. cbn [map]. rewrite IH, IHt. reflexivity.
Qed.

Theorem fish_adversarial_innocuous c d bin :
  c_bin c = Some bin -> tame bin = true -> tame_cmd c = true ->
  exists s1 s2, fish_script c d = Some s1 /\ fish_script c (innocuous_desc d) = Some s2 /\
    skeleton (events fish_step FB s1) = skeleton (events fish_step FB s2) /\
    final fish_step FB s1 = final fish_step FB s2.
Proof.
  intros Hb Ht Hc. apply (fish_text_invariance c d (innocuous_desc d) bin Hb Ht Hc).
  symmetry. apply erase_innocuous.
Qed.

(** ---- non-vacuity, and the class boundary ---- *)
(** a tame two-level tree; one decoration with quotes, backslashes, dollar signs, command substitutions
    and newlines in every slot, one with innocuous text: same presence shape, different files *)
Definition lx_opt : arg :=
  mkArg (lit "o") (Some (lit "o")) (Some (lit "opt-x")) [] [(lit "al", true)] ASet None
        (Some [mkPv (lit "v,1") false; mkPv (lit "v2") true; mkPv (lit "v3") false]) None false false false.
Definition lx_flag : arg := mkArg (lit "f") (Some (lit "f")) None [] [] ASetTrue None None None false false false.
Definition lx_sub : cmd := mkCmd (lit "sub-a") [(lit "sa", true)] [lx_flag] [] None false false sets0 sets0.
Definition lx_root : cmd := mkCmd (lit "my-app") [] [lx_opt] [lx_sub] (Some (lit "my-app")) false false sets0 sets0.
Definition lx_adv : cdesc :=
  mkCd (Some (lit "root")) false
       [mkAd (Some (lit "it's $(rm -rf) \ ""x""")) false [Some (lit "a'$(x)""\"); None; Some [10; 39]]]
       [mkCd (Some [39; 10; 36; 40; 41]) false [mkAd (Some (lit "\'")) false []] []].
Definition lx_inn : cdesc := innocuous_desc lx_adv.

Example fish_text_invariance_hyps :
  c_bin lx_root = Some (lit "my-app") /\ tame (lit "my-app") = true /\ tame_cmd lx_root = true /\
  erase_desc lx_adv = erase_desc lx_inn /\ lx_adv <> lx_inn /\ fish_script lx_root lx_adv <> fish_script lx_root lx_inn.
Proof. repeat split; try reflexivity; intros H; vm_compute in H; discriminate. Qed.

(** outside the class: an option NAME with a double quote is written unescaped, the description that
    follows is then read inside "..." and a dollar sign in it is live -- the skeleton depends on the text *)
Definition untame_arg : arg := mkArg (lit "o") None (Some (lit "a""b")) [] [] ASetTrue None None None false false false.
Definition untame_cmd : cmd := mkCmd (lit "p") [] [untame_arg] [] (Some (lit "p")) false false sets0 sets0.
Lemma fish_untamed_name_refuted :
  exists c d1 d2 bin s1 s2,
    c_bin c = Some bin /\ tame bin = true /\ tame_cmd c = false /\ erase_desc d1 = erase_desc d2 /\
    fish_script c d1 = Some s1 /\ fish_script c d2 = Some s2 /\
    skeleton (events fish_step FB s1) <> skeleton (events fish_step FB s2).
Proof.
  exists untame_cmd, (mkCd None false [mkAd (Some (lit "$x")) false []] []),
         (mkCd None false [mkAd (Some (lit "xx")) false []] []), (lit "p").
  eexists. eexists. repeat split; try (vm_compute; reflexivity).
  intros H. vm_compute in H. discriminate.
Qed.
