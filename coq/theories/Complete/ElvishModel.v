(** C16/C17: clap_complete/src/aot/shells/elvish.rs, byte for byte.
    One Gallina function per Rust function ([escape_string], [escape_help], [generate_inner],
    [Elvish::generate]); the loops of [generate_inner] are kept in the order of the source.
    Strings are lists of Unicode scalar values: the names of the command tree ([AotTree.cmd], whose
    strings are then read as scalar values, not bytes), the texts ([TextTree.ttree]) and the
    script.  The driver decodes the UTF-8 of the case file and encodes the script.
    Panic sites are visible: [None] = [expect] on a missing bin name / the index [shorts[0]]. *)
From ClapModel Require Import Base.Bytes Complete.AotTree Complete.TextTree Escape.EscapeModel.
From Coq Require Import String.
Open Scope N_scope.
Open Scope list_scope.

Definition nl : bytes := [10].

(** [escape_string]: the chain is regenerated from the source ([Gen/EscapeTables.v]) *)
Definition escape_string (s : str) : str := elvish_escape_string s.

(** [escape_help(help, data)]: [Some(help) => escape_string(&help.to_string().replace('\n', " "))], [_ => data] *)
Definition escape_help (help : option str) (data : bytes) : bytes :=
  match help with
  | Some h => elvish_escape_help h
  | None => data
  end.

(** [let preamble = String::from("\n            cand ")] *)
Definition preamble : bytes := nl ++ lit "            cand ".

(** [v[0]] *)
Definition idx0 (l : list bytes) : option bytes := match l with x :: _ => Some x | [] => None end.

(** the body of [if let Some(shorts) = option.get_short_and_visible_aliases() { ... }] (and of the
    three other blocks of the same shape): the tooltip is computed once from the first spelling,
    then one line per spelling: [format!("-{short} '{tooltip}'")] *)
Definition spell_lines (dash : bytes) (o : option (list bytes)) (help : option str) : option bytes :=
  match o with
  | None => Some []
  | Some names =>
      match idx0 names with
      | None => None
      | Some n0 =>
          let tooltip := escape_help help n0 in
          Some (List.concat (map (fun n => preamble ++ dash ++ n ++ lit " '" ++ tooltip ++ lit "'") names))
      end
  end.

(** one iteration of [for option in p.get_opts()] / [for flag in utils::flags(p)] *)
Definition arg_lines (p : arg * atext) : option bytes :=
  match spell_lines (lit "-") (get_short_and_visible_aliases (fst p)) (at_help (snd p)),
        spell_lines (lit "--") (get_long_and_visible_aliases (fst p)) (at_help (snd p)) with
  | Some a, Some b => Some (a ++ b)
  | _, _ => None
  end.

(** one iteration of [for subcommand in p.get_subcommands()]: a line per name / visible alias, the
    tooltip computed per name: [escape_help(subcommand.get_about(), name)] *)
Definition sub_lines (p : cmd * ttree) : bytes :=
  List.concat (map (fun name => preamble ++ name ++ lit " '" ++ escape_help (tt_about (snd p)) name ++ lit "'")
                   (get_name_and_visible_aliases (fst p))).

(** [format!(r"\n        &'{}'= {{{}\n        }}", &command_name, completions)] *)
Definition case_block (command_name completions : bytes) : bytes :=
  nl ++ lit "        &'" ++ command_name ++ lit "'= {" ++ completions ++ nl ++ lit "        }".

(** [command_names] *)
Definition command_names (p : cmd) (previous_command_name : bytes) : option (list bytes) :=
  if is_nil previous_command_name then
    match c_bin p with Some b => Some [b] | None => None end      (* expect(INTERNAL_ERROR_MSG) *)
  else Some (map (fun name => previous_command_name ++ lit ";" ++ name) (get_name_and_visible_aliases p)).

Fixpoint generate_inner (p : cmd) (t : ttree) (previous_command_name : bytes) : option bytes :=
  match p with
  | mkCmd _ _ _ subs _ _ _ _ _ =>
      match command_names p previous_command_name with
      | None => None
      | Some names =>
          match map_opt arg_lines (get_opts_t p t), map_opt arg_lines (flags_t p t) with
          | Some lo, Some lf =>
              let completions := List.concat lo ++ List.concat lf ++ List.concat (map sub_lines (zsubs p t)) in
              let subcommands_cases := List.concat (map (fun cn => case_block cn completions) names) in
              match (fix go (l : list cmd) (ts : list ttree) : option bytes :=
                       match l with
                       | [] => Some []
                       | sc :: l' =>
                           match map_opt (fun cn => generate_inner sc (hd tt_none ts) cn) names, go l' (tl ts) with
                           | Some a, Some b => Some (List.concat a ++ b)
                           | _, _ => None
                           end
                       end) subs (tt_subs t) with
              | Some rest => Some (subcommands_cases ++ rest)
              | None => None
              end
          | _, _ => None
          end
      end
  end.

(** the text around the table: the [write!] of [Elvish::generate] *)
Definition head1 : bytes :=
  nl ++ lit "use builtin;" ++ nl ++ lit "use str;" ++ nl ++ nl ++ lit "set edit:completion:arg-completer[".
Definition head2 : bytes :=
  lit "] = {|@words|" ++ nl ++
  lit "    fn spaces {|n|" ++ nl ++
  lit "        builtin:repeat $n ' ' | str:join ''" ++ nl ++
  lit "    }" ++ nl ++
  lit "    fn cand {|text desc|" ++ nl ++
  lit "        edit:complex-candidate $text &display=$text' '(spaces (- 14 (wcswidth $text)))$desc" ++ nl ++
  lit "    }" ++ nl ++
  lit "    var command = ".
Definition head3 : bytes :=
  nl ++
  lit "    for word $words[1..-1] {" ++ nl ++
  lit "        if (str:has-prefix $word '-') {" ++ nl ++
  lit "            break" ++ nl ++
  lit "        }" ++ nl ++
  lit "        set command = $command';'$word" ++ nl ++
  lit "    }" ++ nl ++
  lit "    var completions = [".
Definition tail1 : bytes :=
  nl ++ lit "    ]" ++ nl ++ lit "    $completions[$command]" ++ nl ++ lit "}" ++ nl.

Definition render (bin_name subcommands_cases : bytes) : bytes :=
  head1 ++ bin_name ++ head2 ++ lit "'" ++ bin_name ++ lit "'" ++ head3 ++ subcommands_cases ++ tail1.

(** [Elvish::generate] on the built command *)
Definition generate (c : cmd) (t : ttree) : option bytes :=
  match c_bin c with
  | None => None                         (* expect("crate::generate should have set the bin_name") *)
  | Some bin_name =>
      match generate_inner c t [] with
      | Some cases => Some (render bin_name cases)
      | None => None
      end
  end.

(** [clap_complete::aot::generate(Elvish, cmd, bin_name, buf)]: [set_bin_name], [build], the generator *)
Definition generate_elvish (c : cmd) (t : ttree) (bin : bytes) : option bytes :=
  match build (set_bin_name c bin), tbuild (set_bin_name c bin) t with
  | Some b, Some tb => generate b tb
  | _, _ => None
  end.
