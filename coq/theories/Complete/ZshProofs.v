(** C16 for the zsh generator model ([ZshModel.v]).

    1. the lookup by bin name [parser_of]: sound (what it returns is a node of the tree with that bin
       name), complete (a node with that bin name is found), and -- for [linked] trees whose names
       contain no space and whose sibling names are distinct -- EXACT: looked up by the bin name of a
       node it returns that node ([parser_of_exact]);
    2. totality: for every [linked] tree with a bin name the generator reaches no panic site and its
       recursion never runs out of fuel ([zsh_total]); determinism;
    3. coverage: the script contains, for EVERY path of names or visible aliases (any depth), the
       [_arguments] block of the node the path leads to, and that block has a spec line for every
       short / long spelling, the value list of every option that takes a value, a line for every
       positional, and an arm + a [_describe] entry for every name and visible alias of every subcommand. *)
From ClapModel Require Import Base.Bytes Complete.AotTree Complete.AotProofs Complete.BashModel Complete.BashProofs.
From ClapModel Require Import Complete.FishModel Complete.BuildTexts Complete.ZshModel Escape.EscapeModel.
From Coq Require Import String Lia.
Open Scope N_scope.
Open Scope list_scope.

(** ---- list helpers ---- *)
Fixpoint first_some {A B} (f : A -> option B) (l : list A) : option B :=
  match l with
  | [] => None
  | x :: t => match f x with Some r => Some r | None => first_some f t end
  end.

Lemma first_some_Some {A B} (f : A -> option B) l r :
  first_some f l = Some r -> exists x, In x l /\ f x = Some r.
Proof.
  induction l as [|x t IH]; cbn [first_some]; intros H; [discriminate|].
  destruct (f x) as [y|] eqn:E.
  - inversion H; subst. exists x. split; [left; reflexivity|exact E].
  - destruct (IH H) as (z & Hz & Hf). exists z. split; [right; exact Hz|exact Hf].
Qed.

Lemma first_some_hit {A B} (f : A -> option B) l x :
  In x l -> f x <> None -> first_some f l <> None.
Proof.
  induction l as [|y t IH]; cbn [first_some In]; intros Hin Hf; [destruct Hin|].
  destruct (f y) as [r|] eqn:E; [discriminate|].
  destruct Hin as [->|Hin]; [contradiction|]. apply IH; assumption.
Qed.

(** ---- parser_of ---- *)
Definition bin_or_default (c : cmd) : bytes := match c_bin c with Some b => b | None => [] end.

Lemma parser_of_unfold c b :
  parser_of c b = if beq b (bin_or_default c) then Some c else first_some (fun s => parser_of s b) (c_subs c).
Proof.
  destruct c as [n al args subs bin h v s g]. cbn [parser_of c_subs]. unfold bin_or_default. cbn [c_bin].
  destruct (beq b match bin with Some b0 => b0 | None => [] end); [reflexivity|].
  induction subs as [|x t IH]; [reflexivity|].
  cbn [first_some]. destruct (parser_of x b); [reflexivity|exact IH].
Qed.

(** the search on the decorated tree follows the search on the tree *)
Lemma parser_of_d_fst : forall c d b, option_map fst (parser_of_d c d b) = parser_of c b.
Proof.
  induction c as [n al args subs bin h v s g IH] using cmd_ind'. intros d b.
  cbn [parser_of_d parser_of].
  destruct (beq b match bin with Some b0 => b0 | None => [] end); [reflexivity|].
  generalize (cd_subs d). induction subs as [|x t IHt]; intros dl; [reflexivity|].
  inversion IH as [|x' t' Hx Ht]; subst.
  rewrite <- (Hx (hd cd0 dl) b).
  destruct (parser_of_d x (hd cd0 dl) b) as [[m md]|]; cbn [option_map fst]; [reflexivity|].
  apply IHt. exact Ht.
Qed.

Lemma parser_of_d_some c d b m : parser_of c b = Some m -> exists md, parser_of_d c d b = Some (m, md).
Proof.
  intros H. pose proof (parser_of_d_fst c d b) as E. rewrite H in E.
  destruct (parser_of_d c d b) as [[m' md]|]; cbn [option_map fst] in E; [|discriminate].
  inversion E; subst. exists md. reflexivity.
Qed.

Lemma parser_of_d_inv c d b m md : parser_of_d c d b = Some (m, md) -> parser_of c b = Some m.
Proof. intros H. rewrite <- (parser_of_d_fst c d b), H. reflexivity. Qed.

(** soundness: what the lookup returns is the command itself or one of its descendants, and its bin name
    ([unwrap_or_default]) is the one looked for *)
Lemma parser_of_sound : forall c b m, parser_of c b = Some m -> (m = c \/ desc c m) /\ bin_or_default m = b.
Proof.
  induction c as [n al args subs bin h v s g IH] using cmd_ind'. intros b m.
  set (c := mkCmd n al args subs bin h v s g) in *.
  rewrite parser_of_unfold. destruct (beq b (bin_or_default c)) eqn:E.
  - intros H; inversion H; subst. apply beq_eq in E. split; [left; reflexivity|symmetry; exact E].
  - intros H. apply first_some_Some in H. destruct H as (x & Hin & Hx). change (c_subs c) with subs in Hin.
    rewrite Forall_forall in IH. destruct (IH x Hin b m Hx) as [Hd Hb]. split; [right|exact Hb].
    destruct Hd as [->|Hd]; [apply desc_child; exact Hin|eapply desc_step; [exact Hin|exact Hd]].
Qed.

(** completeness: a node with that bin name exists => the lookup does not fail (the [expect]s on
    [parser_of] are dead whenever the bin name looked for is the bin name of a node) *)
Lemma parser_of_complete : forall c n, (n = c \/ desc c n) -> parser_of c (bin_or_default n) <> None.
Proof.
  induction c as [nm al args subs bin h v s g IH] using cmd_ind'. intros n Hn.
  set (c := mkCmd nm al args subs bin h v s g) in *.
  rewrite parser_of_unfold. destruct (beq (bin_or_default n) (bin_or_default c)) eqn:E; [discriminate|].
  destruct Hn as [->|Hd]; [rewrite beq_refl in E; discriminate|].
  rewrite Forall_forall in IH.
  inversion Hd as [c0 sc Hin|c0 sc n0 Hin Hd']; subst.
  - eapply first_some_hit; [exact Hin|]. apply (IH n Hin). left; reflexivity.
  - eapply first_some_hit; [exact Hin|]. apply (IH sc Hin). right; exact Hd'.
Qed.

(** ---- linked trees ---- *)
Lemma linked_desc c n : linked c -> desc c n -> linked n.
Proof.
  intros Hl Hd. induction Hd as [c sc Hin|c sc n Hin Hd IH].
  - eapply linked_sub; eauto.
  - apply IH. eapply linked_sub; eauto.
Qed.

Lemma desc_depth c n : desc c n -> (depth n < depth c)%nat.
Proof.
  induction 1 as [c sc Hin|c sc n Hin Hd IH].
  - rewrite (depth_unfold c). pose proof (maxd_in _ _ Hin). lia.
  - rewrite (depth_unfold c). pose proof (maxd_in _ _ Hin). lia.
Qed.

Lemma linked_child_bin p pb sc :
  linked p -> c_bin p = Some pb -> In sc (c_subs p) -> c_bin sc = Some (pb ++ [32] ++ c_name sc).
Proof.
  intros Hl Hb Hin. destruct (Hl p sc (or_introl eq_refl) Hin) as (pb' & Hpb & Hsc).
  rewrite Hb in Hpb; inversion Hpb; subst. exact Hsc.
Qed.

Lemma linked_desc_bin c n : linked c -> desc c n -> exists b, c_bin n = Some b.
Proof.
  intros Hl Hd. pose proof (linked_bins_built _ Hl n Hd) as H. destruct (c_bin n) as [b|]; [eauto|contradiction].
Qed.

Lemma app_not_self (a b : bytes) : b <> [] -> a <> a ++ b.
Proof.
  intros Hb H. rewrite <- (app_nil_r a) in H at 1. apply app_inv_head in H. symmetry in H. contradiction.
Qed.

(** the lookup by the bin name of a child never returns the parent: strictly below *)
Lemma parser_of_child_below p pb sc m :
  linked p -> c_bin p = Some pb -> In sc (c_subs p) ->
  parser_of p (pb ++ [32] ++ c_name sc) = Some m ->
  desc p m /\ c_bin m = Some (pb ++ [32] ++ c_name sc).
Proof.
  intros Hl Hb Hin Hp. destruct (parser_of_sound _ _ _ Hp) as [Hd Hbin].
  destruct Hd as [->|Hd].
  - exfalso. unfold bin_or_default in Hbin. rewrite Hb in Hbin. revert Hbin. apply app_not_self. discriminate.
  - split; [exact Hd|]. destruct (linked_desc_bin _ _ Hl Hd) as [b Eb]. unfold bin_or_default in Hbin.
    rewrite Eb in Hbin. rewrite Eb, Hbin. reflexivity.
Qed.

(** ---- totality ---- *)
Lemma args_body_total c d g : c_bin c <> None -> args_body c d g <> None.
Proof.
  intros Hb. unfold args_body. destruct (has_subcommands c); [|discriminate].
  destruct (c_bin c); [discriminate|contradiction].
Qed.
(** [get_args_of] fails only through the bin name or through an unresolvable conflict *)
Lemma get_args_of_guard c d g : conflicts_resolve c g = true -> get_args_of c d g = args_body c d g.
Proof. intros H. unfold get_args_of. rewrite H. reflexivity. Qed.
Lemma get_args_of_total c d g : c_bin c <> None -> conflicts_resolve c g = true -> get_args_of c d g <> None.
Proof. intros Hb Hc. rewrite get_args_of_guard by exact Hc. apply args_body_total. exact Hb. Qed.
Lemma get_args_of_body c d g blk : get_args_of c d g = Some blk -> args_body c d g = Some blk.
Proof. unfold get_args_of. destruct (negb (conflicts_resolve c g)); [discriminate|auto]. Qed.
Lemma get_args_of_unresolved c d g : conflicts_resolve c g = false -> get_args_of c d g = None.
Proof. intros H. unfold get_args_of. rewrite H. reflexivity. Qed.

(** the conflicts of the tree resolve where the generator asks: at the root without a parent, and for the command
    the lookup returns for each subcommand, with its parent *)
Definition cres_below (c : cmd) : Prop :=
  forall p sc m, (p = c \/ desc c p) -> In sc (c_subs p) -> parser_of p (bin_or_default sc) = Some m ->
                 conflicts_resolve m (Some p) = true.
(** both together: no [arg_conflicts] call of the generator panics on the tree *)
Definition cres (c : cmd) : Prop := conflicts_resolve c None = true /\ cres_below c.
Lemma cres_below_desc c n : cres_below c -> desc c n -> cres_below n.
Proof.
  intros H Hd p sc m Hp Hsc Hm. apply (H p sc m); [|exact Hsc|exact Hm].
  right. destruct Hp as [->|Hp]; [exact Hd|eapply desc_trans; eassumption].
Qed.

Lemma subcommands_of_linked p pb :
  linked p -> c_bin p = Some pb ->
  exists l, subcommands p = Some l /\
    forall w b, In (w, b) l -> exists sc, In sc (c_subs p) /\ b = pb ++ [32] ++ c_name sc /\
                                          In w (get_name_and_visible_aliases sc).
Proof.
  intros Hl Hb. destruct (subcommands_spec p) as (l & El & Hspec).
  { intros sc Hin. rewrite (linked_child_bin _ _ _ Hl Hb Hin). discriminate. }
  exists l. split; [exact El|]. intros w b Hin. apply Hspec in Hin. destruct Hin as (sc & Hsc & Hbin & Hw).
  exists sc. split; [exact Hsc|]. split; [|exact Hw].
  rewrite (linked_child_bin _ _ _ Hl Hb Hsc) in Hbin. inversion Hbin; reflexivity.
Qed.

Lemma get_subcommands_of_total : forall f p d pb,
  c_bin p = Some pb -> linked p -> cres_below p -> (depth p <= f)%nat -> get_subcommands_of f p d <> None.
Proof.
  induction f as [|f IH]; intros p d pb Hb Hl Hcr Hdepth.
  - pose proof (depth_pos p). lia.
  - cbn [ZshModel.get_subcommands_of]. destruct (negb (has_subcommands p)); [discriminate|].
    destruct (subcommands_of_linked _ _ Hl Hb) as (l & El & Hl'). rewrite El.
    match goal with |- match map_opt ?F l with _ => _ end <> None => destruct (map_opt_total F l) as [r Er] end.
    { intros [w b] Hin. cbn [fst snd]. destruct (Hl' w b Hin) as (sc & Hsc & -> & Hw).
      pose proof (linked_child_bin _ _ _ Hl Hb Hsc) as Ebin.
      assert (Hfound : parser_of p (pb ++ [32] ++ c_name sc) <> None).
      { replace (pb ++ [32] ++ c_name sc) with (bin_or_default sc) by (unfold bin_or_default; rewrite Ebin; reflexivity).
        apply parser_of_complete. right. apply desc_child. exact Hsc. }
      destruct (parser_of p (pb ++ [32] ++ c_name sc)) as [m|] eqn:Em; [|contradiction].
      destruct (parser_of_d_some p d _ _ Em) as [md Emd]. rewrite Emd.
      destruct (parser_of_child_below _ _ _ _ Hl Hb Hsc Em) as [Hd Hmb].
      destruct (get_args_of m md (Some p)) as [sa|] eqn:Ea.
      2:{ exfalso. revert Ea. apply get_args_of_total; [rewrite Hmb; discriminate|].
          apply (Hcr p sc m (or_introl eq_refl) Hsc). unfold bin_or_default. rewrite Ebin. exact Em. }
      destruct (get_subcommands_of f m md) as [ch|] eqn:Ec; [discriminate|].
      exfalso. revert Ec. apply (IH m md _ Hmb (linked_desc _ _ Hl Hd) (cres_below_desc _ _ Hcr Hd)).
      pose proof (desc_depth _ _ Hd). lia. }
    rewrite Er, Hb. discriminate.
Qed.

Lemma subcommand_details_total c d b : c_bin c = Some b -> linked c -> zsubcommand_details c d <> None.
Proof.
  intros Hb Hl. unfold zsubcommand_details. rewrite Hb.
  destruct (all_subcommands_spec c (linked_bins_built _ Hl)) as (l & El & Hspec). rewrite El.
  match goal with |- match map_opt ?F ?L with _ => _ end <> None => destruct (map_opt_total F L) as [r Er] end.
  { intros x Hin. apply dedup_in, sort_in, in_map_iff in Hin. destruct Hin as ([w b'] & <- & Hin). cbn [snd].
    apply Hspec in Hin. destruct Hin as (n & Hd & Hbin & _).
    assert (Hfound : parser_of c b' <> None).
    { replace b' with (bin_or_default n) by (unfold bin_or_default; rewrite Hbin; reflexivity).
      apply parser_of_complete. right; exact Hd. }
    destruct (parser_of c b') as [m|] eqn:Em; [|contradiction].
    destruct (parser_of_d_some c d _ _ Em) as [md Emd]. rewrite Emd. discriminate. }
  rewrite Er. discriminate.
Qed.

(** C16 (zsh): for every [linked] tree with a bin name -- what [Command::build] produces -- the
    generator writes a script: no [expect] fires, the recursion through [parser_of] ends *)
Theorem zsh_total c d b :
  c_bin c = Some b -> linked c -> conflicts_resolve c None = true -> cres_below c -> exists s, zsh_script c d = Some s.
Proof.
  intros Hb Hl Hc0 Hcr. unfold ZshModel.zsh_script, ZshModel.zsh_pieces. rewrite Hb.
  destruct (get_args_of c d None) as [ia|] eqn:Ea.
  2:{ exfalso. revert Ea. apply get_args_of_total; [rewrite Hb; discriminate|exact Hc0]. }
  destruct (get_subcommands_of (depth c) c d) as [sc|] eqn:Es.
  2:{ exfalso. revert Es. apply (get_subcommands_of_total _ _ _ _ Hb Hl Hcr). lia. }
  destruct (zsubcommand_details c d) as [de|] eqn:Ed.
  2:{ exfalso. revert Ed. apply (subcommand_details_total _ _ _ Hb Hl). }
  eexists; reflexivity.
Qed.

(** without a bin name on the root the first [expect] fires *)
Lemma zsh_no_bin c d : c_bin c = None -> zsh_script c d = None.
Proof. intros Hb. unfold ZshModel.zsh_script, ZshModel.zsh_pieces. rewrite Hb. reflexivity. Qed.

Theorem zsh_deterministic c d s1 s2 : zsh_script c d = Some s1 -> zsh_script c d = Some s2 -> s1 = s2.
Proof. intros H1 H2. rewrite H1 in H2. inversion H2; reflexivity. Qed.

(** ---- the class in which the lookup by bin name is exact ---- *)
(** no command name below the root contains a space; sibling names are pairwise distinct (clap's own
    configuration check demands more: names and aliases of siblings pairwise distinct) *)
Definition nospace (c : cmd) : Prop := forall n, desc c n -> ~ In 32 (c_name n).
Definition sibling_names (c : cmd) : Prop := forall p, (p = c \/ desc c p) -> NoDup (map c_name (c_subs p)).

Lemma nospace_sub c sc : nospace c -> In sc (c_subs c) -> nospace sc.
Proof. intros H Hin n Hd. apply H. eapply desc_step; eauto. Qed.
Lemma sibling_names_sub c sc : sibling_names c -> In sc (c_subs c) -> sibling_names sc.
Proof.
  intros H Hin p Hp. apply H. right. destruct Hp as [->|Hd]; [apply desc_child; exact Hin|eapply desc_step; eauto].
Qed.
Lemma nospace_desc c n : nospace c -> desc c n -> nospace n.
Proof. intros H Hd m Hm. apply H. eapply desc_trans; eauto. Qed.
Lemma sibling_names_desc c n : sibling_names c -> desc c n -> sibling_names n.
Proof.
  intros H Hd p Hp. apply H. right. destruct Hp as [->|Hp]; [exact Hd|eapply desc_trans; eauto].
Qed.

Definition tailish (r : bytes) : Prop := r = [] \/ exists r', r = 32 :: r'.

(** two names without a space, each followed by nothing or by a space: equal wholes have equal names *)
Lemma nospace_split : forall a a' r r',
  ~ In 32 a -> ~ In 32 a' -> tailish r -> tailish r' -> a ++ r = a' ++ r' -> a = a'.
Proof.
  induction a as [|x a IH]; intros a' r r' Ha Ha' Hr Hr' E.
  - destruct a' as [|y a']; [reflexivity|]. exfalso. cbn [app] in E.
    destruct Hr as [->|[r0 ->]]; [discriminate|]. inversion E; subst. apply Ha'. left; reflexivity.
  - destruct a' as [|y a'].
    + exfalso. cbn [app] in E. destruct Hr' as [->|[r0 ->]]; [discriminate|]. inversion E; subst. apply Ha. left; reflexivity.
    + cbn [app] in E. inversion E; subst. f_equal.
      apply (IH a' r r'); auto; intros Hx; [apply Ha|apply Ha']; right; exact Hx.
Qed.

Lemma join_with_tailish ns : tailish (join_with [32] ns).
Proof. destruct ns as [|x ns]; [left; reflexivity|right]. rewrite join_with_cons. eexists; reflexivity. Qed.

(** every node of the subtree of a linked command [s] has the bin name of [s] followed by nothing or a space *)
Lemma subtree_bin s sb n :
  linked s -> c_bin s = Some sb -> (n = s \/ desc s n) -> exists r, c_bin n = Some (sb ++ r) /\ tailish r.
Proof.
  intros Hl Hb [->|Hd].
  - exists []. rewrite app_nil_r. split; [exact Hb|left; reflexivity].
  - destruct (desc_reach _ _ Hd) as [ns Hr]. exists (join_with [32] ns).
    split; [apply (reach_bin _ _ _ _ Hr _ Hb Hl)|apply join_with_tailish].
Qed.

Lemma NoDup_map_inj {A B} (f : A -> B) l x y : NoDup (map f l) -> In x l -> In y l -> f x = f y -> x = y.
Proof.
  induction l as [|h t IH]; cbn [map In]; intros Hn Hx Hy E; [destruct Hx|].
  inversion Hn as [|h' t' Hnot Hn']; subst.
  destruct Hx as [->|Hx], Hy as [->|Hy].
  - reflexivity.
  - exfalso. apply Hnot. rewrite E. apply in_map. exact Hy.
  - exfalso. apply Hnot. rewrite <- E. apply in_map. exact Hx.
  - apply IH; assumption.
Qed.

Lemma beq_neq_false (a b : bytes) : a <> b -> beq a b = false.
Proof. intros H. destruct (beq a b) eqn:E; [|reflexivity]. apply beq_eq in E. contradiction. Qed.

(** a node found in the subtree of the child [x] under the bin name of a node in the subtree of the child [sc]: [x = sc] *)
Lemma same_child p pb x sc m n :
  linked p -> c_bin p = Some pb -> nospace p -> sibling_names p ->
  In x (c_subs p) -> In sc (c_subs p) -> (m = x \/ desc x m) -> (n = sc \/ desc sc n) ->
  bin_or_default m = bin_or_default n -> x = sc.
Proof.
  intros Hl Hb Hns Hsn Hx Hsc Hm Hn E.
  pose proof (linked_child_bin _ _ _ Hl Hb Hx) as Ex. pose proof (linked_child_bin _ _ _ Hl Hb Hsc) as Esc.
  destruct (subtree_bin _ _ _ (linked_sub _ _ Hl Hx) Ex Hm) as (r & Em & Hr).
  destruct (subtree_bin _ _ _ (linked_sub _ _ Hl Hsc) Esc Hn) as (r' & En & Hr').
  unfold bin_or_default in E. rewrite Em, En in E. rewrite <- !app_assoc in E. apply app_inv_head in E.
  cbn [app] in E. inversion E as [E'].
  apply (NoDup_map_inj c_name (c_subs p)); [apply Hsn; left; reflexivity|exact Hx|exact Hsc|].
  apply (nospace_split _ _ r r'); [apply Hns, desc_child, Hx|apply Hns, desc_child, Hsc|exact Hr|exact Hr'|exact E'].
Qed.

Lemma first_some_only {A B} (f : A -> option B) l x r :
  In x l -> f x = Some r -> (forall y, In y l -> f y = None \/ f y = Some r) -> first_some f l = Some r.
Proof.
  induction l as [|h t IH]; cbn [first_some In]; intros Hin Hf Hall; [destruct Hin|].
  destruct (Hall h (or_introl eq_refl)) as [E|E]; rewrite E; [|reflexivity].
  destruct Hin as [->|Hin]; [rewrite Hf in E; discriminate|].
  apply IH; [exact Hin|exact Hf|intros y Hy; apply Hall; right; exact Hy].
Qed.

(** EXACT lookup: in a [linked] tree whose names contain no space and whose sibling names are distinct, the
    lookup by the bin name of a node returns that node *)
Theorem parser_of_exact : forall c b n,
  c_bin c = Some b -> linked c -> nospace c -> sibling_names c -> (n = c \/ desc c n) ->
  parser_of c (bin_or_default n) = Some n.
Proof.
  induction c as [nm al args subs bin h v s g IH] using cmd_ind'. intros b n Hb Hl Hns Hsn Hn.
  set (c := mkCmd nm al args subs bin h v s g) in *.
  rewrite parser_of_unfold. destruct Hn as [->|Hd]; [rewrite beq_refl; reflexivity|].
  rewrite beq_neq_false.
  2:{ destruct (subtree_bin _ _ _ Hl Hb (or_intror Hd)) as (r & En & Hr). unfold bin_or_default. rewrite En, Hb.
      destruct (desc_reach _ _ Hd) as [ns Hreach]. pose proof (reach_bin _ _ _ _ Hreach _ Hb Hl) as En'.
      rewrite En in En'. inversion En' as [E']. apply app_inv_head in E'. subst r.
      intros E. symmetry in E. revert E. apply app_not_self.
      inversion Hreach; subst; [exfalso; revert Hd; clear; intros Hd; pose proof (desc_depth _ _ Hd); lia|].
      rewrite join_with_cons. discriminate. }
  rewrite Forall_forall in IH. change (c_subs c) with subs.
  assert (Hsub : exists sc, In sc subs /\ (n = sc \/ desc sc n)).
  { inversion Hd as [c0 sc Hin|c0 sc n0 Hin Hd']; subst; [exists n; auto|exists sc; auto]. }
  destruct Hsub as (sc & Hsc & Hnsc).
  pose proof (linked_child_bin c b sc Hl Hb Hsc) as Esc.
  apply (first_some_only _ subs sc); [exact Hsc| |].
  - apply (IH sc Hsc _ n Esc (linked_sub _ _ Hl Hsc) (nospace_sub _ _ Hns Hsc) (sibling_names_sub _ _ Hsn Hsc) Hnsc).
  - intros x Hx. destruct (parser_of x (bin_or_default n)) as [m|] eqn:Em; [right|left; reflexivity].
    destruct (parser_of_sound _ _ _ Em) as [Hm Hbm].
    assert (x = sc) by (apply (same_child c b x sc m n Hl Hb Hns Hsn Hx Hsc Hm Hnsc Hbm)). subst x.
    rewrite <- Em.
    apply (IH sc Hsc _ n Esc (linked_sub _ _ Hl Hsc) (nospace_sub _ _ Hns Hsc) (sibling_names_sub _ _ Hsn Hsc) Hnsc).
Qed.

(** ---- the subcommand section, structurally ---- *)
Lemma zipd_in_l {A B} (dflt : B) (l : list A) : forall m a b, In (a, b) (zipd dflt l m) -> In a l.
Proof.
  induction l as [|h t IH]; intros m a b; cbn [zipd In]; [tauto|].
  intros [E|Hin]; [inversion E; left; reflexivity|right; eapply IH; exact Hin].
Qed.

Lemma zipd_functional {A B C} (f : A -> C) (dflt : B) (l : list A) : forall m a b b',
  NoDup (map f l) -> In (a, b) (zipd dflt l m) -> In (a, b') (zipd dflt l m) -> b = b'.
Proof.
  induction l as [|h t IH]; intros m a b b' Hn; cbn [zipd In]; [tauto|].
  cbn [map] in Hn. inversion Hn as [|x y Hnot Hn']; subst.
  intros [E|Hin] [E'|Hin'].
  - inversion E; inversion E'; subst. reflexivity.
  - inversion E; subst. exfalso. apply Hnot. apply in_map. eapply zipd_in_l; exact Hin'.
  - inversion E'; subst. exfalso. apply Hnot. apply in_map. eapply zipd_in_l; exact Hin.
  - eapply IH; eauto.
Qed.

Lemma flat_map_zipd_fst {A B C} (g : A -> list C) (dflt : B) (l : list A) : forall m,
  flat_map g l = flat_map (fun q : A * B => g (fst q)) (zipd dflt l m).
Proof. induction l as [|h t IH]; intros m; [reflexivity|]. cbn [zipd flat_map fst]. now rewrite <- IH. Qed.

Lemma parser_of_d_unfold c d b :
  parser_of_d c d b =
  if beq b (bin_or_default c) then Some (c, d)
  else first_some (fun q : cmd * cdesc => parser_of_d (fst q) (snd q) b) (zipd cd0 (c_subs c) (cd_subs d)).
Proof.
  destruct c as [n al args subs bin h v s g]. cbn [parser_of_d c_subs]. unfold bin_or_default. cbn [c_bin].
  destruct (beq b match bin with Some b0 => b0 | None => [] end); [reflexivity|].
  generalize (cd_subs d). induction subs as [|x t IH]; intros dl; [reflexivity|].
  cbn [zipd first_some fst snd]. destruct (parser_of_d x (hd cd0 dl) b); [reflexivity|apply IH].
Qed.

(** the lookup by the bin name of a child returns that child, with its own decoration *)
Lemma parser_of_d_child p d pb sc sd :
  linked p -> c_bin p = Some pb -> nospace p -> sibling_names p ->
  In (sc, sd) (zipd cd0 (c_subs p) (cd_subs d)) ->
  parser_of_d p d (pb ++ [32] ++ c_name sc) = Some (sc, sd).
Proof.
  intros Hl Hb Hns Hsn Hin. pose proof (zipd_in_l _ _ _ _ _ Hin) as Hsc.
  pose proof (linked_child_bin _ _ _ Hl Hb Hsc) as Esc.
  assert (Hself : forall sd', parser_of_d sc sd' (pb ++ [32] ++ c_name sc) = Some (sc, sd')).
  { intros sd'. rewrite parser_of_d_unfold. unfold bin_or_default. rewrite Esc, beq_refl. reflexivity. }
  rewrite parser_of_d_unfold. rewrite beq_neq_false.
  2:{ unfold bin_or_default. rewrite Hb. intros E. symmetry in E. revert E. apply app_not_self. discriminate. }
  apply (first_some_only _ _ (sc, sd)); [exact Hin|apply Hself|].
  intros [x xd] Hx. cbn [fst snd].
  destruct (parser_of_d x xd (pb ++ [32] ++ c_name sc)) as [[m md]|] eqn:Em; [right|left; reflexivity].
  pose proof (zipd_in_l _ _ _ _ _ Hx) as Hx'.
  destruct (parser_of_sound _ _ _ (parser_of_d_inv _ _ _ _ _ Em)) as [Hm Hbm].
  assert (x = sc).
  { apply (same_child p pb x sc m sc Hl Hb Hns Hsn Hx' Hsc Hm (or_introl eq_refl)).
    rewrite Hbm. unfold bin_or_default. rewrite Esc. reflexivity. }
  subst x.
  assert (xd = sd) by (apply (zipd_functional c_name cd0 (c_subs p) (cd_subs d) sc xd sd); [apply Hsn; left; reflexivity|exact Hx|exact Hin]).
  subst xd. rewrite Hself in Em. exact (eq_sym Em).
Qed.

Definition args_block (c : cmd) (d : cdesc) (g : option cmd) : list zpiece :=
  match args_body c d g with Some x => x | None => [] end.
Lemma args_body_block c d g : c_bin c <> None -> args_body c d g = Some (args_block c d g).
Proof.
  intros Hb. unfold args_block. destruct (args_body c d g) eqn:E; [reflexivity|].
  exfalso. revert E. apply args_body_total. exact Hb.
Qed.
Lemma get_args_of_block c d g :
  c_bin c <> None -> conflicts_resolve c g = true -> get_args_of c d g = Some (args_block c d g).
Proof. intros Hb Hc. rewrite get_args_of_guard by exact Hc. apply args_body_block. exact Hb. Qed.

(** one arm of [case $line[pos] in]: the label, the [_arguments] block of the subcommand, its own subcommand section *)
Definition arm (blk ch : list zpiece) (w : bytes) : list zpiece :=
  zjoin znl ([[Zx (lit "(" ++ w ++ lit ")")]]
            ++ (if negb (is_nil blk) then [blk] else [])
            ++ (if negb (is_nil ch) then [ch] else [])
            ++ [[Zx (lit ";;")]]).

(** what [get_subcommands_of] writes when every lookup returns the child it was made for: structural in the tree *)
Fixpoint zspec_subs (p : cmd) (d : cdesc) {struct p} : list zpiece :=
  match p with
  | mkCmd name _ _ subs bin _ _ _ _ =>
      if is_nil subs then [] else
      zcase_block name (space_to_hyphen (match bin with Some b => b | None => [] end))
                 (dec (N.of_nat (List.length (get_positionals p)) + 1))
                 (zjoin znl ((fix go (l : list cmd) (dl : list cdesc) {struct l} : list (list zpiece) :=
                               match l with
                               | [] => []
                               | sc :: t =>
                                   map (arm (args_block sc (hd cd0 dl) (Some p)) (zspec_subs sc (hd cd0 dl)))
                                       (get_name_and_visible_aliases sc)
                                   ++ go t (tl dl)
                               end) subs (cd_subs d)))
  end.

Definition arms_of (p : cmd) (q : cmd * cdesc) : list (list zpiece) :=
  map (arm (args_block (fst q) (snd q) (Some p)) (zspec_subs (fst q) (snd q))) (get_name_and_visible_aliases (fst q)).

Lemma zspec_subs_unfold p d :
  zspec_subs p d =
  if is_nil (c_subs p) then [] else
  zcase_block (c_name p) (space_to_hyphen (bin_or_default p)) (dec (N.of_nat (List.length (get_positionals p)) + 1))
             (zjoin znl (flat_map (arms_of p) (zipd cd0 (c_subs p) (cd_subs d)))).
Proof.
  destruct p as [n al args subs bin h v s g]. cbn [zspec_subs c_subs c_name]. unfold bin_or_default. cbn [c_bin].
  destruct (is_nil subs); [reflexivity|]. f_equal. f_equal.
  set (p := mkCmd n al args subs bin h v s g). clearbody p.
  generalize (cd_subs d). induction subs as [|x t IH]; intros dl; [reflexivity|].
  cbn [zipd flat_map]. unfold arms_of at 1. cbn [fst snd]. f_equal. apply IH.
Qed.

Lemma map_opt_app {A B} (f : A -> option B) a b x y :
  map_opt f a = Some x -> map_opt f b = Some y -> map_opt f (a ++ b) = Some (x ++ y).
Proof.
  revert x. induction a as [|h t IH]; intros x Ha Hb.
  - rewrite map_opt_nil in Ha. inversion Ha; subst. exact Hb.
  - cbn [app]. rewrite map_opt_cons in *. destruct (f h) as [r|]; [|discriminate].
    destruct (map_opt f t) as [rt|] eqn:Et; [|discriminate]. inversion Ha; subst.
    rewrite (IH rt eq_refl Hb). reflexivity.
Qed.

Lemma map_opt_map_some {A B} (f : A -> option B) (g : A -> B) l :
  (forall x, In x l -> f x = Some (g x)) -> map_opt f l = Some (map g l).
Proof.
  induction l as [|h t IH]; intros H; [reflexivity|].
  rewrite map_opt_cons, (H h (or_introl eq_refl)), IH; [reflexivity|]. intros x Hx. apply H. right; exact Hx.
Qed.

Lemma map_opt_map_map {A B C} (f : A -> option B) (k : C -> A) (g : C -> B) l :
  (forall x, In x l -> f (k x) = Some (g x)) -> map_opt f (map k l) = Some (map g l).
Proof.
  induction l as [|h t IH]; intros H; [reflexivity|].
  cbn [map]. rewrite map_opt_cons, (H h (or_introl eq_refl)), IH; [reflexivity|]. intros x Hx. apply H. right; exact Hx.
Qed.

Lemma map_opt_flat_map {A B C} (f : A -> option B) (g : C -> list A) (h : C -> list B) l :
  (forall q, In q l -> map_opt f (g q) = Some (h q)) -> map_opt f (flat_map g l) = Some (flat_map h l).
Proof.
  induction l as [|q t IH]; intros H; [reflexivity|].
  cbn [flat_map]. apply map_opt_app; [apply H; left; reflexivity|apply IH; intros x Hx; apply H; right; exact Hx].
Qed.

Lemma subcommands_exact p :
  (forall sc, In sc (c_subs p) -> c_bin sc <> None) ->
  subcommands p = Some (flat_map (fun sc => map (fun w => (w, bin_or_default sc)) (get_name_and_visible_aliases sc)) (c_subs p)).
Proof.
  intros Hb. unfold subcommands.
  assert (E : map_opt sc_entries (c_subs p) =
              Some (map (fun sc => map (fun w => (w, bin_or_default sc)) (get_name_and_visible_aliases sc)) (c_subs p))).
  { apply map_opt_map_some. intros sc Hin. unfold sc_entries, bin_or_default. specialize (Hb sc Hin).
    destruct (c_bin sc) as [b|]; [reflexivity|contradiction]. }
  rewrite E. f_equal. symmetry. apply flat_map_concat_map.
Qed.

(** in the class, [get_subcommands_of] computes the structural specification (with any sufficient fuel) *)
Theorem get_subcommands_of_spec : forall f p d pb,
  c_bin p = Some pb -> linked p -> nospace p -> sibling_names p -> cres_below p -> (depth p <= f)%nat ->
  get_subcommands_of f p d = Some (zspec_subs p d).
Proof.
  induction f as [|f IH]; intros p d pb Hb Hl Hns Hsn Hcr Hdepth.
  - pose proof (depth_pos p). lia.
  - cbn [ZshModel.get_subcommands_of]. rewrite zspec_subs_unfold. unfold has_subcommands. rewrite Bool.negb_involutive.
    destruct (is_nil (c_subs p)) eqn:Enil; [reflexivity|].
    rewrite subcommands_exact.
    2:{ intros sc Hin. rewrite (linked_child_bin _ _ _ Hl Hb Hin). discriminate. }
    rewrite (flat_map_zipd_fst _ cd0 (c_subs p) (cd_subs d)).
    erewrite map_opt_flat_map with (h := arms_of p).
    + rewrite Hb. unfold bin_or_default. rewrite Hb. reflexivity.
    + intros [sc sd] Hin. cbn [fst]. unfold arms_of. cbn [fst snd].
      pose proof (zipd_in_l _ _ _ _ _ Hin) as Hsc.
      pose proof (linked_child_bin _ _ _ Hl Hb Hsc) as Esc.
      apply map_opt_map_map. intros w Hw. cbn [fst snd]. unfold bin_or_default. rewrite Esc.
      rewrite (parser_of_d_child p d pb sc sd Hl Hb Hns Hsn Hin).
      rewrite (get_args_of_block sc sd (Some p)).
      2:{ rewrite Esc; discriminate. }
      2:{ apply (Hcr p sc sc (or_introl eq_refl) Hsc). unfold bin_or_default. rewrite Esc.
          rewrite <- (parser_of_d_fst p d), (parser_of_d_child p d pb sc sd Hl Hb Hns Hsn Hin). reflexivity. }
      rewrite (IH sc sd _ Esc (linked_sub _ _ Hl Hsc) (nospace_sub _ _ Hns Hsc) (sibling_names_sub _ _ Hsn Hsc)
                  (cres_below_desc _ _ Hcr (desc_child _ _ Hsc))).
      * reflexivity.
      * pose proof (desc_depth _ _ (desc_child _ _ Hsc)). lia.
Qed.

(** ---- contiguous parts ---- *)
Definition sublist {A} (a l : list A) : Prop := exists pre post, l = pre ++ a ++ post.

Lemma sublist_refl {A} (a : list A) : sublist a a.
Proof. exists [], []. rewrite app_nil_r. reflexivity. Qed.
Lemma sublist_trans {A} (a b c : list A) : sublist a b -> sublist b c -> sublist a c.
Proof.
  intros (p1 & q1 & ->) (p2 & q2 & ->). exists (p2 ++ p1), (q1 ++ q2). rewrite <- !app_assoc. reflexivity.
Qed.
Lemma sublist_app_l {A} (a b x : list A) : sublist a b -> sublist a (x ++ b).
Proof. intros (p & q & ->). exists (x ++ p), q. rewrite <- app_assoc. reflexivity. Qed.
Lemma sublist_app_r {A} (a b x : list A) : sublist a b -> sublist a (b ++ x).
Proof. intros (p & q & ->). exists p, (q ++ x). rewrite <- !app_assoc. reflexivity. Qed.
Lemma sublist_here {A} (a x y : list A) : sublist a (x ++ a ++ y).
Proof. exists x, y. reflexivity. Qed.
Lemma sublist_nonnil {A} (a l : list A) : sublist a l -> a <> [] -> l <> [].
Proof. intros (p & q & ->) Ha E. apply app_eq_nil in E. destruct E as [_ E]. apply app_eq_nil in E. tauto. Qed.
Lemma sublist_flat_map {A B} (f : A -> list B) a l : sublist a l -> sublist (flat_map f a) (flat_map f l).
Proof. intros (p & q & ->). exists (flat_map f p), (flat_map f q). rewrite !flat_map_app. reflexivity. Qed.
Lemma sublist_in {A} (a l : list A) x : sublist a l -> In x a -> In x l.
Proof. intros (p & q & ->) H. apply in_or_app. right. apply in_or_app. left. exact H. Qed.

Lemma zjoin_cons sep (x : list zpiece) t :
  zjoin sep (x :: t) = match t with [] => x | _ :: _ => x ++ sep ++ zjoin sep t end.
Proof. reflexivity. Qed.

Lemma sublist_zjoin sep (x : list zpiece) l : In x l -> sublist x (zjoin sep l).
Proof.
  induction l as [|h t IH]; intros Hin; [destruct Hin|].
  rewrite zjoin_cons. destruct Hin as [->|Hin].
  - destruct t; [apply sublist_refl|]. exists [], (sep ++ zjoin sep (l :: t)). reflexivity.
  - destruct t as [|y t']; [destruct Hin|]. apply sublist_app_l, sublist_app_l. apply IH. exact Hin.
Qed.

(** a part of the pieces is a part of the bytes *)
Lemma sublist_render a l : sublist a l -> sublist (zrender a) (zrender l).
Proof. apply sublist_flat_map. Qed.

Lemma intercalate_sublist sep (x : bytes) l : In x l -> sublist x (intercalate sep l).
Proof.
  induction l as [|h t IH]; intros Hin; [destruct Hin|].
  cbn [intercalate]. destruct t as [|y t'].
  - destruct Hin as [->|[]]. apply sublist_refl.
  - destruct Hin as [->|Hin].
    + exists [], (sep ++ intercalate sep (y :: t')). reflexivity.
    + apply sublist_app_l, sublist_app_l. apply IH. exact Hin.
Qed.

Lemma zipd_has {A B} (dflt : B) (l : list A) a : In a l -> forall m, exists b, In (a, b) (zipd dflt l m).
Proof.
  induction l as [|h t IH]; intros Hin m; [destruct Hin|]. cbn [zipd].
  destruct Hin as [->|Hin]; [eexists; left; reflexivity|].
  destruct (IH Hin (tl m)) as [b Hb]. exists b. right; exact Hb.
Qed.

(** ---- one level: the [_arguments] block mentions every spelling ---- *)
Lemma args_block_shape c d g :
  c_bin c <> None ->
  exists segs, args_block c d g = zjoin znl (args_header :: segs) /\
    (write_opts_of c d g <> [] -> In (write_opts_of c d g) segs) /\
    (write_flags_of c d g <> [] -> In (write_flags_of c d g) segs) /\
    (write_positionals_of c d <> [] -> In (write_positionals_of c d) segs) /\
    (has_subcommands c = true ->
       In [Zx (lit """:: :_" ++ space_to_dd (bin_or_default c) ++ lit "_commands"" \")] segs /\
       In [Zx (lit """*::: :->" ++ c_name c ++ lit """ \")] segs).
Proof.
  intros Hb. unfold args_block, ZshModel.args_body, bin_or_default.
  assert (Hnil : forall x : list zpiece, x <> [] -> In x (if negb (is_nil x) then [x] else [])).
  { intros [|? ?] H; [contradiction|left; reflexivity]. }
  set (A := if negb (is_nil (write_opts_of c d g)) then [write_opts_of c d g] else []).
  set (B := if negb (is_nil (write_flags_of c d g)) then [write_flags_of c d g] else []).
  set (C := if negb (is_nil (write_positionals_of c d)) then [write_positionals_of c d] else []).
  assert (HA : write_opts_of c d g <> [] -> forall T, In (write_opts_of c d g) ((A ++ B ++ C) ++ T)).
  { intros H T. apply in_or_app. left. apply in_or_app. left. apply Hnil. exact H. }
  assert (HB : write_flags_of c d g <> [] -> forall T, In (write_flags_of c d g) ((A ++ B ++ C) ++ T)).
  { intros H T. apply in_or_app. left. apply in_or_app. right. apply in_or_app. left. apply Hnil. exact H. }
  assert (HC : write_positionals_of c d <> [] -> forall T, In (write_positionals_of c d) ((A ++ B ++ C) ++ T)).
  { intros H T. apply in_or_app. left. apply in_or_app. right. apply in_or_app. right. apply Hnil. exact H. }
  destruct (has_subcommands c); destruct (c_bin c) as [b|]; try contradiction.
  - eexists ((A ++ B ++ C) ++ _). split; [reflexivity|].
    split; [intros H; apply HA; exact H|]. split; [intros H; apply HB; exact H|]. split; [intros H; apply HC; exact H|].
    intros _. split; apply in_or_app; right; [left; reflexivity|right; left; reflexivity].
  - eexists ((A ++ B ++ C) ++ _). split; [reflexivity|].
    split; [intros H; apply HA; exact H|]. split; [intros H; apply HB; exact H|]. split; [intros H; apply HC; exact H|].
    discriminate.
Qed.

Lemma in_block c d g x lines :
  c_bin c <> None -> In x lines -> x <> [] ->
  (zjoin znl lines = write_opts_of c d g \/ zjoin znl lines = write_flags_of c d g \/
   zjoin znl lines = write_positionals_of c d) ->
  sublist x (args_block c d g).
Proof.
  intros Hb Hin Hx Hw. pose proof (sublist_zjoin znl x lines Hin) as Hs.
  pose proof (sublist_nonnil _ _ Hs Hx) as Hn.
  destruct (args_block_shape c d g Hb) as (segs & -> & Ho & Hf & Hp & _).
  eapply sublist_trans; [exact Hs|]. apply sublist_zjoin. right.
  destruct Hw as [E|[E|E]]; rewrite E in *; auto.
Qed.

(** options: one spec line per short and per long spelling the accessors return *)
Lemma opt_lines_nonnil c g p line : In line (opt_lines c g p) -> line <> [].
Proof.
  unfold ZshModel.opt_lines. intros H. apply in_app_or in H. destruct H as [H|H].
  - destruct (get_short_and_visible_aliases (fst p)); [|destruct H]. apply in_map_iff in H. destruct H as (s & <- & _). discriminate.
  - destruct (get_long_and_visible_aliases (fst p)); [|destruct H]. apply in_map_iff in H. destruct H as (s & <- & _). discriminate.
Qed.

Theorem block_opt_lines c d g a ad line :
  c_bin c <> None -> In (a, ad) (zipd ad0 (c_args c) (cd_args d)) -> is_opt (a, ad) = true ->
  In line (opt_lines c g (a, ad)) -> sublist line (args_block c d g).
Proof.
  intros Hb Hin Ho Hl. eapply (in_block c d g line); [exact Hb| |eapply opt_lines_nonnil; exact Hl|left; reflexivity].
  apply in_flat_map. exists (a, ad). split; [apply filter_In; split; assumption|exact Hl].
Qed.

Lemma opt_lines_short c g p shorts s :
  get_short_and_visible_aliases (fst p) = Some shorts -> In s shorts -> In (opt_short_line c g p s) (opt_lines c g p).
Proof. intros E Hin. unfold ZshModel.opt_lines. rewrite E. apply in_or_app. left. apply in_map. exact Hin. Qed.
Lemma opt_lines_long c g p longs l :
  get_long_and_visible_aliases (fst p) = Some longs -> In l longs -> In (opt_long_line c g p l) (opt_lines c g p).
Proof. intros E Hin. unfold ZshModel.opt_lines. rewrite E. apply in_or_app. right. apply in_map. exact Hin. Qed.

(** flags: the short, the visible short aliases (when there is a short), the long, the visible aliases (when there is a long) *)
Definition flag_spellings (a : arg) : list (bytes * bytes) :=
  (match a_short a with
   | Some s => (lit "-", s) :: map (fun x => (lit "-", x)) (match get_visible_short_aliases a with Some al => al | None => [] end)
   | None => [] end)
  ++ (match a_long a with
      | Some l => (lit "--", l) :: map (fun x => (lit "--", x)) (match get_visible_aliases a with Some al => al | None => [] end)
      | None => [] end).

Lemma flag_lines_spellings c g p :
  flag_lines c g p = map (fun x : bytes * bytes => zflag_line c g p (fst x) (snd x)) (flag_spellings (fst p)).
Proof.
  unfold ZshModel.flag_lines, flag_spellings. rewrite map_app. f_equal.
  - destruct (a_short (fst p)); [|reflexivity]. cbn [map fst snd]. f_equal.
    destruct (get_visible_short_aliases (fst p)); [|reflexivity]. rewrite map_map. reflexivity.
  - destruct (a_long (fst p)); [|reflexivity]. cbn [map fst snd]. f_equal.
    destruct (get_visible_aliases (fst p)); [|reflexivity]. rewrite map_map. reflexivity.
Qed.

Theorem block_flag_lines c d g a ad dashes name :
  c_bin c <> None -> In (a, ad) (zipd ad0 (c_args c) (cd_args d)) -> is_flag (a, ad) = true ->
  In (dashes, name) (flag_spellings a) -> sublist (zflag_line c g (a, ad) dashes name) (args_block c d g).
Proof.
  intros Hb Hin Hf Hs. eapply (in_block c d g _); [exact Hb| |discriminate|right; left; reflexivity].
  apply in_flat_map. exists (a, ad). split; [apply filter_In; split; assumption|].
  rewrite flag_lines_spellings. cbn [fst]. apply in_map_iff. exists (dashes, name). split; [reflexivity|exact Hs].
Qed.

(** positionals: every positional that takes at most one value and is not [last] has its line (a multi-valued or
    [last] one is skipped once a catch-all was written: documented in write_positionals_of) *)
Lemma positional_lines_single hs : forall l ce p,
  In p l -> (1 <? a_max_values (fst p)) = false -> a_last (fst p) = false ->
  exists card, In (positional_line card p) (positional_lines hs ce l).
Proof.
  induction l as [|q t IH]; intros ce p Hin Hm Hlast; [destruct Hin|].
  cbn [positional_lines]. destruct Hin as [->|Hin].
  - rewrite Hm. unfold arg_is_last. rewrite Hlast. cbn [orb]. rewrite Bool.andb_false_r. cbn [andb].
    destruct (negb (a_required (fst p))); eexists; left; reflexivity.
  - destruct (ce && (arg_is_last (fst q) || (1 <? a_max_values (fst q)))); [apply IH; assumption|].
    destruct ((1 <? a_max_values (fst q)) && negb hs).
    + destruct (arg_terminator (fst q)).
      * destruct (IH ce p Hin Hm Hlast) as [card Hc]. exists card. right. exact Hc.
      * destruct (IH true p Hin Hm Hlast) as [card Hc]. exists card. right. exact Hc.
    + destruct (negb (a_required (fst q))); destruct (IH ce p Hin Hm Hlast) as [card Hc]; exists card; right; exact Hc.
Qed.

Theorem block_positional_line c d g a ad :
  c_bin c <> None -> In (a, ad) (zipd ad0 (c_args c) (cd_args d)) -> a_is_positional a = true ->
  (1 <? a_max_values a) = false -> a_last a = false ->
  exists card, sublist (positional_line card (a, ad)) (args_block c d g).
Proof.
  intros Hb Hin Hp Hm Hlast.
  destruct (positional_lines_single (has_subcommands c) (filter is_pos (zipd ad0 (c_args c) (cd_args d))) false (a, ad))
    as [card Hc]; [apply filter_In; split; [exact Hin|exact Hp]|exact Hm|exact Hlast|].
  exists card. eapply (in_block c d g _); [exact Hb|exact Hc|discriminate|right; right; reflexivity].
Qed.

(** possible values: every non-hidden value is written -- raw in the [(v1 v2)] form, through [escape_value]
    in the [((v1\:"tip" ...))] form *)
Lemma in_zjoin sep (x : list zpiece) l q : In x l -> In q x -> In q (zjoin sep l).
Proof. intros Hx Hq. eapply sublist_in; [apply sublist_zjoin; exact Hx|exact Hq]. Qed.

Theorem value_completion_mentions a ad vs pv :
  possible_values a = Some vs -> In pv vs -> pv_hide pv = false ->
  exists val x, zvalue_completion (a, ad) = Some val /\ In (Zx x) val /\
    (sublist (pv_name pv) x \/ sublist (zsh_escape_value (pv_name pv)) x).
Proof.
  intros Hv Hin Hh. unfold zvalue_completion. cbn [fst snd]. rewrite Hv.
  destruct (existsb _ _).
  - destruct (zipd_has None vs pv Hin (ad_pvh ad)) as [h Hq].
    eexists. exists (zsh_escape_value (pv_name pv) ++ lit "\:"""). split; [reflexivity|]. split.
    + apply in_or_app. right. apply in_or_app. left.
      apply (in_zjoin znl (tip_entry (pv, h))).
      * apply in_map. apply filter_In. split; [exact Hq|]. unfold pv_shown. cbn [fst]. rewrite Hh. reflexivity.
      * left. reflexivity.
    + right. exists [], (lit "\:"""). reflexivity.
  - eexists. eexists. split; [reflexivity|]. split; [left; reflexivity|]. left.
    apply sublist_app_l, sublist_app_r. apply intercalate_sublist. apply in_map. apply filter_In. split; [exact Hin|].
    rewrite Hh. reflexivity.
Qed.

(** an option that REQUIRES a value carries its value list on every one of its lines *)
Lemma opt_vc_values p val :
  a_min_values (fst p) <> 0 -> zvalue_completion p = Some val ->
  sublist (Zx (lit ":" ++ value_name (fst p) ++ lit ":") :: val) (opt_vc p).
Proof.
  intros Hm Hv. unfold opt_vc. rewrite Hv.
  destruct (N.to_nat (a_min_values (fst p))) as [|k] eqn:E; [lia|].
  cbn [repeat List.concat]. exists [], (List.concat (repeat (Zx (lit ":" ++ value_name (fst p) ++ lit ":") :: val) k)). reflexivity.
Qed.

Theorem opt_line_values c g a ad vs pv line :
  a_min_values a <> 0 -> possible_values a = Some vs -> In pv vs -> pv_hide pv = false ->
  In line (opt_lines c g (a, ad)) ->
  exists x, In (Zx x) line /\ (sublist (pv_name pv) x \/ sublist (zsh_escape_value (pv_name pv)) x).
Proof.
  intros Hm Hv Hin Hh Hl.
  destruct (value_completion_mentions a ad vs pv Hv Hin Hh) as (val & x & Ev & Hx & Hs).
  exists x. split; [|exact Hs].
  pose proof (opt_vc_values (a, ad) val Hm Ev) as Hvc.
  assert (Hx' : In (Zx x) (opt_vc (a, ad))) by (eapply sublist_in; [exact Hvc|right; exact Hx]).
  unfold ZshModel.opt_lines in Hl. apply in_app_or in Hl. destruct Hl as [Hl|Hl].
  - destruct (get_short_and_visible_aliases (fst (a, ad))); [|destruct Hl]. apply in_map_iff in Hl.
    destruct Hl as (s & <- & _). unfold ZshModel.opt_short_line. apply in_or_app. right. apply in_or_app. left. exact Hx'.
  - destruct (get_long_and_visible_aliases (fst (a, ad))); [|destruct Hl]. apply in_map_iff in Hl.
    destruct Hl as (s & <- & _). unfold ZshModel.opt_long_line. apply in_or_app. right. apply in_or_app. left. exact Hx'.
Qed.

Theorem positional_line_values card a ad vs pv :
  possible_values a = Some vs -> In pv vs -> pv_hide pv = false ->
  exists x, In (Zx x) (positional_line card (a, ad)) /\
            (sublist (pv_name pv) x \/ sublist (zsh_escape_value (pv_name pv)) x).
Proof.
  intros Hv Hin Hh. destruct (value_completion_mentions a ad vs pv Hv Hin Hh) as (val & x & Ev & Hx & Hs).
  exists x. split; [|exact Hs]. unfold positional_line. rewrite Ev.
  apply in_or_app. right. apply in_or_app. right. apply in_or_app. right. apply in_or_app. left. exact Hx.
Qed.

(** ---- whole script ---- *)
Record zsh_ok (c : cmd) (b : bytes) : Prop := {
  zo_bin : c_bin c = Some b;
  zo_linked : linked c;
  zo_nospace : nospace c;
  zo_siblings : sibling_names c;
  zo_conflicts_root : conflicts_resolve c None = true;     (* no [arg_conflicts] call panics: at the root ... *)
  zo_conflicts : cres_below c                              (* ... and for every subcommand with its parent *)
}.

Definition script_head (name : bytes) : bytes :=
  lit "#compdef " ++ name ++ lf ++ lf ++
  lit "autoload -U is-at-least" ++ lf ++ lf ++
  lit "_" ++ name ++ lit "() {" ++ lf ++
  lit "    typeset -A opt_args" ++ lf ++
  lit "    typeset -a _arguments_options" ++ lf ++
  lit "    local ret=1" ++ lf ++ lf ++
  lit "    if is-at-least 5.2; then" ++ lf ++
  lit "        _arguments_options=(-s -S -C)" ++ lf ++
  lit "    else" ++ lf ++
  lit "        _arguments_options=(-s -C)" ++ lf ++
  lit "    fi" ++ lf ++ lf ++
  lit "    local context curcontext=""$curcontext"" state line" ++ lf ++
  lit "    ".
Definition script_tail (name : bytes) : bytes :=
  lf ++ lf ++
  lit "if [ ""$funcstack[1]"" = ""_" ++ name ++ lit """ ]; then" ++ lf ++
  lit "    _" ++ name ++ lit " ""$@""" ++ lf ++
  lit "else" ++ lf ++
  lit "    compdef _" ++ name ++ lit " " ++ name ++ lf ++
  lit "fi" ++ lf.

(** in the class the file is: the fixed head, the [_arguments] block of the root, the structural subcommand
    section, the [_..._commands] functions, the fixed tail *)
Theorem zsh_pieces_shape c d b :
  zsh_ok c b ->
  exists details, zsubcommand_details c d = Some details /\
    zsh_pieces c d = Some ([Zx (script_head b)] ++ args_block c d None ++ zspec_subs c d
                           ++ [Zx (lf ++ lit "}" ++ lf ++ lf)] ++ details ++ [Zx (script_tail b)]).
Proof.
  intros [Hb Hl Hns Hsn Hc0 Hcr]. unfold ZshModel.zsh_pieces. rewrite Hb.
  rewrite (get_args_of_block c d None) by (try exact Hc0; rewrite Hb; discriminate).
  rewrite (get_subcommands_of_spec (depth c) c d b Hb Hl Hns Hsn Hcr (le_n _)).
  destruct (zsubcommand_details c d) as [de|] eqn:Ed.
  2:{ exfalso. revert Ed. apply (subcommand_details_total _ _ _ Hb Hl). }
  exists de. split; reflexivity.
Qed.

(** paths through the decorated tree: [dreach p d ws n nd par]: the words [ws] (names or visible aliases) lead from
    [p] to [n], whose decoration is [nd] and whose parent is [par] *)
Inductive dreach : cmd -> cdesc -> list bytes -> cmd -> cdesc -> cmd -> Prop :=
| dreach_one p d sc sd w :
    In (sc, sd) (zipd cd0 (c_subs p) (cd_subs d)) -> In w (sc_words sc) -> dreach p d [w] sc sd p
| dreach_cons p d sc sd w ws n nd par :
    In (sc, sd) (zipd cd0 (c_subs p) (cd_subs d)) -> In w (sc_words sc) -> dreach sc sd ws n nd par ->
    dreach p d (w :: ws) n nd par.

Lemma dreach_desc p d ws n nd par : dreach p d ws n nd par -> desc p n /\ (par = p \/ desc p par) /\ In n (c_subs par).
Proof.
  induction 1 as [p d sc sd w Hin Hw|p d sc sd w ws n nd par Hin Hw Hr IH].
  - pose proof (zipd_in_l _ _ _ _ _ Hin) as Hsc. split; [apply desc_child; exact Hsc|]. split; [left; reflexivity|exact Hsc].
  - pose proof (zipd_in_l _ _ _ _ _ Hin) as Hsc. destruct IH as (Hd & Hp & Hn).
    split; [eapply desc_step; eauto|]. split; [|exact Hn]. right.
    destruct Hp as [->|Hp]; [apply desc_child; exact Hsc|eapply desc_step; eauto].
Qed.

Lemma dreach_has_subs p d ws n nd par : dreach p d ws n nd par -> c_subs p <> [].
Proof.
  intros H E. inversion H as [p0 d0 sc sd w Hin|p0 d0 sc sd w ws0 n0 nd0 par0 Hin]; subst;
    apply zipd_in_l in Hin; rewrite E in Hin; destruct Hin.
Qed.

(** every [reach] path has its decorated version *)
Lemma reach_dreach : forall c ws ns n, reach c ws ns n -> ws <> [] -> forall d, exists nd par, dreach c d ws n nd par.
Proof.
  induction 1 as [c|c sc w ws ns n Hin Hw Hr IH]; intros Hne d; [contradiction|].
  destruct (zipd_has cd0 (c_subs c) sc Hin (cd_subs d)) as [sd Hsd].
  inversion Hr; subst.
  - exists sd, c. apply dreach_one; assumption.
  - destruct (IH ltac:(discriminate) sd) as (nd & par & Hd). exists nd, par. eapply dreach_cons; eauto.
Qed.

Lemma args_block_nonnil c d g : c_bin c <> None -> args_block c d g <> [].
Proof.
  intros Hb. destruct (args_block_shape c d g Hb) as (segs & -> & _). rewrite zjoin_cons.
  destruct segs; discriminate.
Qed.

Lemma case_block_sub name hy pos body : sublist body (zcase_block name hy pos body).
Proof. unfold zcase_block. apply sublist_here. Qed.

Lemma arm_shape blk ch w : blk <> [] ->
  exists rest, arm blk ch w = [Zx (lit "(" ++ w ++ lit ")")] ++ znl ++ blk ++ rest /\
               (ch <> [] -> sublist ch rest).
Proof.
  intros Hb. unfold arm. destruct blk as [|b0 blk]; [contradiction|]. cbn [is_nil negb app].
  destruct ch as [|c0 ch]; cbn [is_nil negb app].
  - rewrite !zjoin_cons. eexists. split; [reflexivity|]. intros H; contradiction.
  - rewrite !zjoin_cons. eexists. split; [reflexivity|]. intros _.
    apply sublist_app_l. apply sublist_app_r. apply sublist_refl.
Qed.

Lemma zspec_subs_nonnil p d : c_subs p <> [] -> zspec_subs p d <> [].
Proof.
  intros H. rewrite zspec_subs_unfold. destruct (c_subs p); [contradiction|]. cbn [is_nil]. discriminate.
Qed.

(** the arm of a child, inside the section of its parent *)
Lemma arm_in_section p d sc sd w :
  In (sc, sd) (zipd cd0 (c_subs p) (cd_subs d)) -> In w (sc_words sc) ->
  sublist (arm (args_block sc sd (Some p)) (zspec_subs sc sd) w) (zspec_subs p d).
Proof.
  intros Hin Hw. rewrite (zspec_subs_unfold p d).
  pose proof (zipd_in_l _ _ _ _ _ Hin) as Hsc.
  assert (Hnn : is_nil (c_subs p) = false) by (destruct (c_subs p); [destruct Hsc|reflexivity]).
  rewrite Hnn.
  eapply sublist_trans; [|apply case_block_sub]. apply sublist_zjoin.
  apply in_flat_map. exists (sc, sd). split; [exact Hin|].
  unfold arms_of. cbn [fst snd]. apply in_map. exact Hw.
Qed.

(** EVERY path: the label of the last word, a newline and the [_arguments] block of the node the path leads to
    are a contiguous part of the subcommand section -- nested, level by level, in the arms of the words before *)
Theorem zspec_path : forall p d ws n nd par,
  dreach p d ws n nd par -> bins_built p ->
  sublist ([Zx (lit "(" ++ last ws [] ++ lit ")")] ++ znl ++ args_block n nd (Some par)) (zspec_subs p d).
Proof.
  induction 1 as [p d sc sd w Hin Hw|p d sc sd w ws n nd par Hin Hw Hr IH]; intros Hb.
  - pose proof (zipd_in_l _ _ _ _ _ Hin) as Hsc.
    eapply sublist_trans; [|apply (arm_in_section p d sc sd w Hin Hw)].
    destruct (arm_shape (args_block sc sd (Some p)) (zspec_subs sc sd) w) as (rest & -> & _).
    { apply args_block_nonnil. apply Hb. apply desc_child. exact Hsc. }
    cbn [last]. exists [], rest. rewrite <- !app_assoc. reflexivity.
  - pose proof (zipd_in_l _ _ _ _ _ Hin) as Hsc.
    assert (Hws : last (w :: ws) [] = last ws []) by (inversion Hr; reflexivity).
    rewrite Hws.
    eapply sublist_trans; [apply IH|].
    { intros m Hm. apply Hb. eapply desc_step; eauto. }
    eapply sublist_trans; [|apply (arm_in_section p d sc sd w Hin Hw)].
    destruct (arm_shape (args_block sc sd (Some p)) (zspec_subs sc sd) w) as (rest & -> & Hch).
    { apply args_block_nonnil. apply Hb. apply desc_child. exact Hsc. }
    apply sublist_app_l, sublist_app_l, sublist_app_l. apply Hch. apply zspec_subs_nonnil.
    eapply dreach_has_subs; exact Hr.
Qed.

(** C16 (zsh), dispatch: the generated file contains, for EVERY path of names or visible aliases, at every depth,
    the arm label of the last word followed by the [_arguments] block of the node the path leads to *)
Theorem zsh_script_path c d b ws n nd par :
  zsh_ok c b -> dreach c d ws n nd par ->
  exists s, zsh_script c d = Some s /\
    sublist (zrender ([Zx (lit "(" ++ last ws [] ++ lit ")")] ++ znl ++ args_block n nd (Some par))) s.
Proof.
  intros Hok Hr. destruct (zsh_pieces_shape c d b Hok) as (de & _ & Ep).
  unfold ZshModel.zsh_script. rewrite Ep. eexists; split; [reflexivity|]. apply sublist_render.
  apply sublist_app_l, sublist_app_l, sublist_app_r.
  apply zspec_path; [exact Hr|]. apply linked_bins_built. apply (zo_linked _ _ Hok).
Qed.

Theorem zsh_script_root c d b :
  zsh_ok c b -> exists s, zsh_script c d = Some s /\ sublist (zrender (args_block c d None)) s.
Proof.
  intros Hok. destruct (zsh_pieces_shape c d b Hok) as (de & _ & Ep).
  unfold ZshModel.zsh_script. rewrite Ep. eexists; split; [reflexivity|]. apply sublist_render.
  apply sublist_app_l, sublist_app_r, sublist_refl.
Qed.

(** ---- the [_..._commands] functions ---- *)
Lemma subcommands_of_entry p d sc sd w :
  In (sc, sd) (zipd cd0 (c_subs p) (cd_subs d)) -> In w (sc_words sc) ->
  sublist (describe_entry (cd_about sd) w) (subcommands_of p d).
Proof.
  intros Hin Hw. unfold subcommands_of.
  set (segs := flat_map _ _).
  assert (Hs : In (describe_entry (cd_about sd) w) segs).
  { apply in_flat_map. exists (sc, sd). split; [exact Hin|]. cbn [fst snd]. apply in_map. exact Hw. }
  clearbody segs. destruct segs as [|s0 segs']; [destruct Hs|]. cbn [is_nil negb].
  apply sublist_zjoin. apply in_or_app. right. apply in_or_app. left. exact Hs.
Qed.

Lemma Forall2_in_l {A B} (R : A -> B -> Prop) l r a : Forall2 R l r -> In a l -> exists b, In b r /\ R a b.
Proof.
  induction 1 as [|x y l r Hxy Hrest IH]; intros Hin; [destruct Hin|].
  destruct Hin as [->|Hin]; [exists y; split; [left; reflexivity|exact Hxy]|].
  destruct (IH Hin) as (b & Hb & Hr). exists b. split; [right; exact Hb|exact Hr].
Qed.

(** for EVERY node of the tree the file has the function [_<bin name with __>_commands] whose list is that node's
    subcommand list (the lookup by bin name from the root returns the node itself) *)
Theorem details_cover c d b det n :
  zsh_ok c b -> zsubcommand_details c d = Some det -> (n = c \/ desc c n) ->
  exists nd, sublist (commands_function (bin_or_default n) (subcommands_of n nd)) det.
Proof.
  intros [Hb Hl Hns Hsn] Hd Hn. unfold zsubcommand_details in Hd. rewrite Hb in Hd.
  destruct (all_subcommands_spec c (linked_bins_built _ Hl)) as (l & El & Hspec). rewrite El in Hd.
  match type of Hd with match map_opt ?F ?L with _ => _ end = _ => destruct (map_opt F L) as [rest|] eqn:Er; [|discriminate] end.
  assert (Edet : det = zjoin znl (commands_function b (subcommands_of c d) :: rest)) by (injection Hd; intros <-; reflexivity).
  clear Hd. subst det.
  destruct Hn as [->|Hdn].
  - exists d. unfold bin_or_default. rewrite Hb. apply sublist_zjoin. left. reflexivity.
  - destruct (linked_desc_bin _ _ Hl Hdn) as [nb Enb].
    assert (Hin : In nb (dedup (sort bytes_cmp (map snd l)))).
    { apply dedup_in, sort_in, in_map_iff. exists (c_name n, nb). split; [reflexivity|]. apply Hspec.
      exists n. split; [exact Hdn|]. split; [exact Enb|]. left. reflexivity. }
    apply map_opt_Forall2 in Er. destruct (Forall2_in_l _ _ _ _ Er Hin) as (y & Hy & Ey).
    destruct (parser_of_d c d nb) as [[m md]|] eqn:Em; [|discriminate].
    pose proof (parser_of_d_inv _ _ _ _ _ Em) as Em'.
    pose proof (parser_of_exact c b n Hb Hl Hns Hsn (or_intror Hdn)) as Ex.
    unfold bin_or_default in Ex. rewrite Enb in Ex. rewrite Ex in Em'. inversion Em'; subst m.
    inversion Ey; subst y. exists md. unfold bin_or_default. rewrite Enb.
    apply sublist_zjoin. right. exact Hy.
Qed.

Theorem zsh_script_commands c d b n :
  zsh_ok c b -> (n = c \/ desc c n) ->
  exists s nd, zsh_script c d = Some s /\
    sublist (zrender (commands_function (bin_or_default n) (subcommands_of n nd))) s.
Proof.
  intros Hok Hn. destruct (zsh_pieces_shape c d b Hok) as (de & Ed & Ep).
  destruct (details_cover c d b de n Hok Ed Hn) as (nd & Hs).
  unfold ZshModel.zsh_script. rewrite Ep. exists (zrender ([Zx (script_head b)] ++ args_block c d None ++ zspec_subs c d
                           ++ [Zx (lf ++ lit "}" ++ lf ++ lf)] ++ de ++ [Zx (script_tail b)])), nd.
  split; [reflexivity|]. apply sublist_render.
  apply sublist_app_l, sublist_app_l, sublist_app_l, sublist_app_l, sublist_app_r. exact Hs.
Qed.

(** what the accessors return: the primary spelling and every visible alias -- of an argument that HAS the primary *)
Lemma shorts_list_complete a s :
  a_short a = Some s -> exists l, get_short_and_visible_aliases a = Some l /\ In s l /\
                                  forall x, In (x, true) (a_short_aliases a) -> In x l.
Proof.
  intros E. unfold get_short_and_visible_aliases, get_visible_short_aliases. rewrite E.
  eexists; split; [reflexivity|]. split; [left; reflexivity|]. intros x Hx. right.
  destruct (a_short_aliases a) as [|y t] eqn:Ea; [destruct Hx|]. cbn [is_nil]. apply visible_in. exact Hx.
Qed.
Lemma longs_list_complete a s :
  a_long a = Some s -> exists l, get_long_and_visible_aliases a = Some l /\ In s l /\
                                 forall x, In (x, true) (a_aliases a) -> In x l.
Proof.
  intros E. unfold get_long_and_visible_aliases, get_visible_aliases. rewrite E.
  eexists; split; [reflexivity|]. split; [left; reflexivity|]. intros x Hx. right.
  destruct (a_aliases a) as [|y t] eqn:Ea; [destruct Hx|]. cbn [is_nil]. apply visible_in. exact Hx.
Qed.
Lemma flag_spellings_complete a :
  (forall s, a_short a = Some s -> In (lit "-", s) (flag_spellings a) /\
                                   forall x, In (x, true) (a_short_aliases a) -> In (lit "-", x) (flag_spellings a)) /\
  (forall l, a_long a = Some l -> In (lit "--", l) (flag_spellings a) /\
                                  forall x, In (x, true) (a_aliases a) -> In (lit "--", x) (flag_spellings a)).
Proof.
  unfold flag_spellings. split.
  - intros s E. rewrite E. split; [apply in_or_app; left; left; reflexivity|].
    intros x Hx. apply in_or_app. left. right. apply in_map.
    unfold get_visible_short_aliases. destruct (a_short_aliases a) as [|y t] eqn:Ea; [destruct Hx|]. cbn [is_nil].
    apply visible_in. exact Hx.
  - intros l E. rewrite E. split; [apply in_or_app; right; left; reflexivity|].
    intros x Hx. apply in_or_app. right. right. apply in_map.
    unfold get_visible_aliases. destruct (a_aliases a) as [|y t] eqn:Ea; [destruct Hx|]. cbn [is_nil].
    apply visible_in. exact Hx.
Qed.

(** the arm of every name and visible alias of every subcommand, and the two lines that lead to them *)
Theorem block_subcommand_lines c d g :
  c_bin c <> None -> has_subcommands c = true ->
  sublist [Zx (lit """:: :_" ++ space_to_dd (bin_or_default c) ++ lit "_commands"" \")] (args_block c d g) /\
  sublist [Zx (lit """*::: :->" ++ c_name c ++ lit """ \")] (args_block c d g).
Proof.
  intros Hb Hs. destruct (args_block_shape c d g Hb) as (segs & -> & _ & _ & _ & H). destruct (H Hs) as [H1 H2].
  split; apply sublist_zjoin; right; assumption.
Qed.

Theorem block_options c d g a ad :
  c_bin c <> None -> In (a, ad) (zipd ad0 (c_args c) (cd_args d)) -> is_opt (a, ad) = true ->
  (forall shorts s, get_short_and_visible_aliases a = Some shorts -> In s shorts ->
     sublist (opt_short_line c g (a, ad) s) (args_block c d g)) /\
  (forall longs l, get_long_and_visible_aliases a = Some longs -> In l longs ->
     sublist (opt_long_line c g (a, ad) l) (args_block c d g)).
Proof.
  intros Hb Hin Ho. split; intros l x E Hx.
  - exact (block_opt_lines c d g a ad _ Hb Hin Ho (opt_lines_short c g (a, ad) l x E Hx)).
  - exact (block_opt_lines c d g a ad _ Hb Hin Ho (opt_lines_long c g (a, ad) l x E Hx)).
Qed.

Theorem option_spellings_complete a :
  (forall s, a_short a = Some s -> exists l, get_short_and_visible_aliases a = Some l /\ In s l /\
                                             forall x, In (x, true) (a_short_aliases a) -> In x l) /\
  (forall s, a_long a = Some s -> exists l, get_long_and_visible_aliases a = Some l /\ In s l /\
                                            forall x, In (x, true) (a_aliases a) -> In x l).
Proof. split; [exact (shorts_list_complete a)|exact (longs_list_complete a)]. Qed.

(** ---- conflicts: resolution, groups, the panic sites ---- *)
(** the exclusion list [arg_conflicts] writes, from the resolved conflicts *)
Definition conflicts_text (conflicts : list arg) : bytes :=
  if is_nil conflicts then [] else lit "(" ++ intercalate (lit " ") (push_conflicts conflicts) ++ lit ")".

(** a non-global argument: the spellings (short, then long) of what every blacklist entry resolves to, in the order of
    the blacklist; nothing when the blacklist resolves to nothing; whatever the parent *)
Theorem conflicts_list c a g ls :
  a_global a = false -> map_opt (conflict_targets c) (a_blacklist a) = Some ls ->
  arg_conflicts_opt c a g = Some (conflicts_text (List.concat ls)) /\
  arg_conflicts c a g = conflicts_text (List.concat ls).
Proof.
  intros H E. unfold arg_conflicts, arg_conflicts_opt, get_arg_conflicts_with. rewrite H.
  destruct g; rewrite E; split; reflexivity.
Qed.

(** an entry that names an argument of the command resolves to that argument (arguments come before groups) *)
Lemma conflict_targets_arg c id y : find_arg c id = Some y -> conflict_targets c id = Some [y].
Proof. intros H. unfold conflict_targets. rewrite H. reflexivity. Qed.

(** [unroll_args_in_group]: the invariant of the loop -- everything collected is an argument of the command *)
Lemma unroll_fold x : forall ms acc,
  Forall (fun n => is_some (find_arg x n) = true) ms -> Forall (fun n => is_some (find_arg x n) = true) acc ->
  exists l, fold_left (fun acc n =>
               match acc with
               | None => None
               | Some l => if existsb (beq n) l then Some l
                           else if is_some (find_arg x n) then Some (l ++ [n])
                           else None
               end) ms (Some acc) = Some l /\ Forall (fun n => is_some (find_arg x n) = true) l.
Proof.
  induction ms as [|n ms IH]; intros acc Hms Hacc; [exists acc; split; [reflexivity|exact Hacc]|].
  cbn [fold_left]. inversion Hms as [|? ? Hn Hms']; subst.
  destruct (existsb (beq n) acc); [apply IH; assumption|].
  rewrite Hn. apply IH; [assumption|]. apply Forall_app. split; [exact Hacc|constructor; [exact Hn|constructor]].
Qed.
Lemma find_arg_self x a : In a (c_args x) -> is_some (find_arg x (a_id a)) = true.
Proof.
  intros Hin. unfold find_arg. destruct (find (fun y => beq (a_id y) (a_id a)) (c_args x)) eqn:E; [reflexivity|].
  exfalso. pose proof (find_none _ _ E a Hin) as H. cbn beta in H. rewrite beq_refl in H. discriminate.
Qed.
Lemma group_members_args x g : Forall (fun n => is_some (find_arg x n) = true) (group_members x g).
Proof.
  apply Forall_forall. intros n Hn. unfold group_members in Hn. apply in_flat_map in Hn.
  destruct Hn as (a & Ha & Hn). apply in_map_iff in Hn. destruct Hn as (? & <- & _). apply find_arg_self. exact Ha.
Qed.
(** the nested-group branch of [unroll_args_in_group] and the [expect] on its members are dead *)
Theorem unroll_total x g :
  exists ids, unroll_args_in_group x g = Some ids /\ exists l, map_opt (find_arg x) ids = Some l.
Proof.
  destruct (unroll_fold x (group_members x g) [] (group_members_args x g) (Forall_nil _)) as (ids & E & Hids).
  exists ids. split; [exact E|]. clear E. induction ids as [|n t IH]; [exists []; reflexivity|].
  inversion Hids as [|? ? Hn Ht]; subst. destruct (IH Ht) as (l & El). rewrite map_opt_cons, El.
  destruct (find_arg x n) as [y|]; [eexists; reflexivity|discriminate].
Qed.
(** so one entry of a non-global argument fails exactly when it names neither an argument nor a group: the [panic!] *)
Theorem conflict_targets_resolves x id :
  conflict_targets x id <> None <-> (is_some (find_arg x id) || find_group x id) = true.
Proof.
  unfold conflict_targets. destruct (find_arg x id) as [y|]; cbn [is_some orb]; [split; [reflexivity|discriminate]|].
  destruct (find_group x id); [|split; [intros H; contradiction|discriminate]].
  destruct (unroll_total x id) as (ids & -> & l & ->). split; [reflexivity|discriminate].
Qed.

(** the LOCAL class in which no [arg_conflicts] call panics: every blacklist entry of a non-positional argument names
    an argument or a group of its command -- clap's configuration check ([id_exists]), nothing more.  (Round 4 had to ask
    the entries of a GLOBAL argument to name arguments: [get_global_arg_conflicts_with] did not consult groups -- finding
    zsh-global-conflicts-group, repaired; see [zsh_global_conflicts_group_fixed].) *)
Definition entry_ok (m : cmd) (a : arg) (id : bytes) : bool :=
  is_some (find_arg m id) || find_group m id.
Definition conflicts_local (m : cmd) : bool :=
  forallb (fun a => forallb (entry_ok m a) (a_blacklist a)) (filter (fun a => negb (a_is_positional a)) (c_args m)).

Lemma map_opt_total_in {A B} (f : A -> option B) l : (forall x, In x l -> f x <> None) -> exists r, map_opt f l = Some r.
Proof.
  induction l as [|h t IH]; intros H; [exists []; reflexivity|].
  destruct (IH (fun x Hx => H x (or_intror Hx))) as (r & Er). rewrite map_opt_cons, Er.
  destruct (f h) eqn:E; [eexists; reflexivity|]. exfalso. apply (H h (or_introl eq_refl)). exact E.
Qed.

Lemma subcommands_containing_child p m id :
  In m (c_subs p) -> existsb (fun a => beq (a_id a) id) (c_args m) = true -> In m (subcommands_containing p id).
Proof.
  destruct p as [n al args subs bin h v s g]. cbn [c_subs subcommands_containing]. intros Hin Hex.
  apply in_flat_map. exists m. split; [exact Hin|]. rewrite Hex. left. reflexivity.
Qed.

(** one entry of a GLOBAL argument (after the repair of finding zsh-global-conflicts-group): it resolves iff it names an
    argument of the pool -- the command the lookup runs on and its subcommands that contain the argument -- or a group of
    that command *)
Definition global_pool (x : cmd) (a : arg) : list arg := c_args x ++ flat_map c_args (subcommands_containing x (a_id a)).
Lemma existsb_find {A} (f : A -> bool) l : existsb f l = is_some (find f l).
Proof. induction l as [|x t IH]; [reflexivity|]. cbn [existsb find]. destruct (f x); [reflexivity|exact IH]. Qed.
Lemma group_targets_total c id : group_targets c id <> None.
Proof. unfold group_targets. destruct (unroll_total c id) as (ids & -> & l & ->). discriminate. Qed.
Theorem global_conflict_targets_resolves x a id :
  global_conflict_targets x a id <> None <->
  (is_some (find (fun y => beq (a_id y) id) (global_pool x a))
   || existsb (fun c => find_group c id) (x :: subcommands_containing x (a_id a))) = true.
Proof.
  unfold global_conflict_targets, global_pool.
  destruct (find (fun y => beq (a_id y) id) (c_args x ++ flat_map c_args (subcommands_containing x (a_id a)))) as [y|];
    cbn [is_some orb]; [split; [reflexivity|discriminate]|].
  rewrite existsb_find.
  destruct (find (fun c => find_group c id) (x :: subcommands_containing x (a_id a))) as [c|]; cbn [is_some].
  - split; [reflexivity|]. intros _. apply group_targets_total.
  - split; [intros H; contradiction|discriminate].
Qed.
Lemma find_in_some (l : list arg) id y :
  In y l -> beq (a_id y) id = true -> is_some (find (fun z => beq (a_id z) id) l) = true.
Proof.
  intros Hin Hb. destruct (find (fun z => beq (a_id z) id) l) eqn:E; [reflexivity|].
  pose proof (find_none _ _ E y Hin) as H. cbn beta in H. congruence.
Qed.
Lemma find_arg_in m id : is_some (find_arg m id) = true -> exists y, In y (c_args m) /\ beq (a_id y) id = true.
Proof.
  unfold find_arg. destruct (find (fun y => beq (a_id y) id) (c_args m)) as [y|] eqn:E; [|discriminate].
  intros _. apply find_some in E. exists y. exact E.
Qed.

(** the PARENT-AWARE boolean class: [x] is the command the lookup of a global argument runs on (the parent of [m]; [m]
    itself at the root).  An entry of a non-global option / flag names an argument or a group of [m]; an entry of a global
    one names an argument or a group of [m] or of [x].  Wider than the local class: a global argument copied into [m] may
    keep naming things of the command it came from. *)
Definition entry_ok_at (x m : cmd) (a : arg) (id : bytes) : bool :=
  if a_global a then is_some (find_arg m id) || find_group m id || is_some (find_arg x id) || find_group x id
  else is_some (find_arg m id) || find_group m id.
Definition conflicts_ok_at (x m : cmd) : bool :=
  forallb (fun a => forallb (entry_ok_at x m a) (a_blacklist a)) (filter (fun a => negb (a_is_positional a)) (c_args m)).
Definition lookup_cmd (g : option cmd) (m : cmd) : cmd := match g with Some p => p | None => m end.

Theorem conflicts_ok_at_resolve m g :
  conflicts_ok_at (lookup_cmd g m) m = true -> (forall p, g = Some p -> In m (c_subs p)) -> conflicts_resolve m g = true.
Proof.
  intros Hloc Hg. unfold conflicts_resolve. apply forallb_forall. intros a Ha.
  unfold conflicts_ok_at in Hloc. rewrite forallb_forall in Hloc. specialize (Hloc a Ha). rewrite forallb_forall in Hloc.
  apply filter_In in Ha. destruct Ha as [Ha _].
  assert (Hx : lookup_cmd g m = m \/ In m (c_subs (lookup_cmd g m))).
  { destruct g as [p|]; [right; exact (Hg p eq_refl)|left; reflexivity]. }
  assert (Hres : get_arg_conflicts_with (if a_global a then lookup_cmd g m else m) a <> None).
  { unfold get_arg_conflicts_with. destruct (a_global a) eqn:Hgl.
    - unfold get_global_arg_conflicts_with.
      match goal with |- match map_opt ?F ?L with _ => _ end <> None => destruct (map_opt_total_in F L) as (r & ->); [|discriminate] end.
      intros id Hid. apply global_conflict_targets_resolves. specialize (Hloc id Hid). unfold entry_ok_at in Hloc.
      rewrite Hgl in Hloc.
      assert (Hmin : In m (lookup_cmd g m :: subcommands_containing (lookup_cmd g m) (a_id a))).
      { destruct Hx as [->|Hx]; [left; reflexivity|right].
        apply subcommands_containing_child; [exact Hx|]. apply existsb_exists. exists a. split; [exact Ha|apply beq_refl]. }
      assert (Hpool_m : forall y, In y (c_args m) -> In y (global_pool (lookup_cmd g m) a)).
      { intros y Hy. unfold global_pool. destruct Hmin as [E|Hmin]; [rewrite E; apply in_or_app; left; exact Hy|].
        apply in_or_app. right. apply in_flat_map. exists m. split; [exact Hmin|exact Hy]. }
      apply orb_true_iff in Hloc. destruct Hloc as [Hloc|Hgx].
      2:{ apply orb_true_iff. right. cbn [existsb]. rewrite Hgx. reflexivity. }
      apply orb_true_iff in Hloc. destruct Hloc as [Hloc|Hxa].
      2:{ apply orb_true_iff. left. destruct (find_arg_in _ id Hxa) as (y & Hy & Eb). apply (find_in_some _ id y); [|exact Eb].
          unfold global_pool. apply in_or_app. left. exact Hy. }
      apply orb_true_iff in Hloc. destruct Hloc as [Hm|Hgm].
      + apply orb_true_iff. left. destruct (find_arg_in m id Hm) as (y & Hy & Eb).
        apply (find_in_some _ id y); [apply Hpool_m; exact Hy|exact Eb].
      + apply orb_true_iff. right. apply existsb_exists. exists m. split; [exact Hmin|exact Hgm].
    - match goal with |- match map_opt ?F ?L with _ => _ end <> None => destruct (map_opt_total_in F L) as (r & ->); [|discriminate] end.
      intros id Hid. apply conflict_targets_resolves. specialize (Hloc id Hid). unfold entry_ok_at in Hloc. rewrite Hgl in Hloc.
      exact Hloc. }
  unfold arg_conflicts_opt. destruct (a_global a); destruct g as [p|]; cbn [lookup_cmd] in Hres;
    (match goal with |- is_some (match ?X with _ => _ end) = true => destruct X; [reflexivity|contradiction] end).
Qed.

(** the local class of round 4 (entries of a global option / flag name arguments of its own command) is inside it *)
Lemma conflicts_local_ok_at x m : conflicts_local m = true -> conflicts_ok_at x m = true.
Proof.
  unfold conflicts_local, conflicts_ok_at. intros H. rewrite forallb_forall in H. apply forallb_forall. intros a Ha.
  specialize (H a Ha). rewrite forallb_forall in H. apply forallb_forall. intros id Hid. specialize (H id Hid).
  unfold entry_ok in H. unfold entry_ok_at. destruct (a_global a); [|exact H]. rewrite H. reflexivity.
Qed.
(** resolution for the command [m] written below its parent [p] (or the root: no parent) *)
Theorem conflicts_local_resolve m g :
  conflicts_local m = true -> (forall p, g = Some p -> In m (c_subs p)) -> conflicts_resolve m g = true.
Proof. intros Hloc Hg. apply conflicts_ok_at_resolve; [apply conflicts_local_ok_at; exact Hloc|exact Hg]. Qed.
(** at the root clap's configuration check is all it takes *)
Theorem conflicts_root_id_exists m :
  (forall a, In a (c_args m) -> a_is_positional a = false -> forall id, In id (a_blacklist a) ->
     (is_some (find_arg m id) || find_group m id) = true) ->
  conflicts_resolve m None = true.
Proof.
  intros H. apply conflicts_ok_at_resolve; [|intros p Hp; discriminate]. cbn [lookup_cmd]. unfold conflicts_ok_at.
  apply forallb_forall. intros a Ha. apply filter_In in Ha. destruct Ha as [Ha Hp]. apply negb_true_iff in Hp.
  apply forallb_forall. intros id Hid. specialize (H a Ha Hp id Hid). unfold entry_ok_at.
  destruct (a_global a); [|exact H]. rewrite H. reflexivity.
Qed.

(** trees without any conflict declaration *)
Definition nobl (c : cmd) : Prop := forall n, (n = c \/ desc c n) -> forall a, In a (c_args n) -> a_blacklist a = [].
Lemma nobl_local c n : nobl c -> (n = c \/ desc c n) -> conflicts_local n = true.
Proof.
  intros H Hn. unfold conflicts_local. apply forallb_forall. intros a Ha. apply filter_In in Ha.
  rewrite (H n Hn a (proj1 Ha)). reflexivity.
Qed.
Lemma nobl_resolve c n g : nobl c -> (n = c \/ desc c n) -> conflicts_resolve n g = true.
Proof.
  intros H Hn. unfold conflicts_resolve. apply forallb_forall. intros a Ha. apply filter_In in Ha.
  unfold arg_conflicts_opt, get_arg_conflicts_with, get_global_arg_conflicts_with. rewrite (H n Hn a (proj1 Ha)).
  destruct g; destruct (a_global a); reflexivity.
Qed.
Lemma nobl_cres c : nobl c -> conflicts_resolve c None = true /\ cres_below c.
Proof.
  intros H. split; [apply (nobl_resolve c c); [exact H|left; reflexivity]|].
  intros p sc m Hp Hsc Hm. apply (nobl_resolve c m); [exact H|].
  destruct (parser_of_sound _ _ _ Hm) as [[->|Hd] _]; [exact Hp|].
  right. destruct Hp as [->|Hp]; [exact Hd|eapply desc_trans; eassumption].
Qed.

(** the local class at every node of a tree in the exact-lookup class: the whole class [zsh_ok] -- no panic site of the
    generator is reachable ([zsh_total]) *)
Theorem zsh_ok_local c b :
  c_bin c = Some b -> linked c -> nospace c -> sibling_names c ->
  (forall n, (n = c \/ desc c n) -> conflicts_local n = true) -> zsh_ok c b.
Proof.
  intros Hb Hl Hns Hsn Hloc. constructor; try assumption.
  - apply conflicts_local_resolve; [apply Hloc; left; reflexivity|intros p Hp; discriminate].
  - intros p sc m Hp Hsc Hm.
    assert (Hpb : exists pb, c_bin p = Some pb /\ linked p /\ nospace p /\ sibling_names p).
    { destruct Hp as [->|Hd]; [exists b; auto|].
      destruct (linked_desc_bin _ _ Hl Hd) as [pb Epb]. exists pb. split; [exact Epb|].
      split; [eapply linked_desc; eassumption|]. split; [eapply nospace_desc; eassumption|eapply sibling_names_desc; eassumption]. }
    destruct Hpb as (pb & Epb & Hlp & Hnp & Hsp).
    rewrite (parser_of_exact p pb sc Epb Hlp Hnp Hsp (or_intror (desc_child _ _ Hsc))) in Hm. inversion Hm; subst m.
    apply conflicts_local_resolve.
    + apply Hloc. right. destruct Hp as [->|Hd]; [apply desc_child; exact Hsc|eapply desc_trans; [exact Hd|apply desc_child; exact Hsc]].
    + intros p' Hp'. inversion Hp'; subst p'. exact Hsc.
Qed.
Theorem zsh_total_local c d b :
  c_bin c = Some b -> linked c -> nospace c -> sibling_names c ->
  (forall n, (n = c \/ desc c n) -> conflicts_local n = true) -> exists s, zsh_script c d = Some s.
Proof.
  intros Hb Hl Hns Hsn Hloc. destruct (zsh_ok_local c b Hb Hl Hns Hsn Hloc) as [H1 H2 _ _ H5 H6].
  exact (zsh_total c d b H1 H2 H5 H6).
Qed.

(** the parent-aware class at every node: the root with itself, every subcommand with its parent *)
Theorem zsh_ok_at c b :
  c_bin c = Some b -> linked c -> nospace c -> sibling_names c ->
  conflicts_ok_at c c = true ->
  (forall p sc, (p = c \/ desc c p) -> In sc (c_subs p) -> conflicts_ok_at p sc = true) -> zsh_ok c b.
Proof.
  intros Hb Hl Hns Hsn Hroot Hloc. constructor; try assumption.
  - apply (conflicts_ok_at_resolve c None); [exact Hroot|intros p Hp; discriminate].
  - intros p sc m Hp Hsc Hm.
    assert (Hpb : exists pb, c_bin p = Some pb /\ linked p /\ nospace p /\ sibling_names p).
    { destruct Hp as [->|Hd]; [exists b; auto|].
      destruct (linked_desc_bin _ _ Hl Hd) as [pb Epb]. exists pb. split; [exact Epb|].
      split; [eapply linked_desc; eassumption|]. split; [eapply nospace_desc; eassumption|eapply sibling_names_desc; eassumption]. }
    destruct Hpb as (pb & Epb & Hlp & Hnp & Hsp).
    rewrite (parser_of_exact p pb sc Epb Hlp Hnp Hsp (or_intror (desc_child _ _ Hsc))) in Hm. inversion Hm; subst m.
    apply (conflicts_ok_at_resolve sc (Some p)); [exact (Hloc p sc Hp Hsc)|].
    intros p' Hp'. inversion Hp'; subst p'. exact Hsc.
Qed.
Theorem zsh_total_at c d b :
  c_bin c = Some b -> linked c -> nospace c -> sibling_names c ->
  conflicts_ok_at c c = true ->
  (forall p sc, (p = c \/ desc c p) -> In sc (c_subs p) -> conflicts_ok_at p sc = true) ->
  exists s, zsh_script c d = Some s.
Proof.
  intros Hb Hl Hns Hsn Hroot Hloc. destruct (zsh_ok_at c b Hb Hl Hns Hsn Hroot Hloc) as [H1 H2 _ _ H5 H6].
  exact (zsh_total c d b H1 H2 H5 H6).
Qed.

(** a blacklist entry that names a GROUP (and no argument) expands to the members of the group, in argument order:
    when the argument ids of the command are pairwise distinct (clap's configuration check) *)
Lemma unroll_fold_spec x : forall (l : list arg) acc,
  NoDup (map a_id l) -> (forall a, In a l -> ~ In (a_id a) acc) ->
  (forall a, In a l -> is_some (find_arg x (a_id a)) = true) ->
  forall g,
  fold_left (fun acc n =>
               match acc with
               | None => None
               | Some l => if existsb (beq n) l then Some l
                           else if is_some (find_arg x n) then Some (l ++ [n])
                           else None
               end)
            (flat_map (fun a => map (fun _ : bytes => a_id a) (filter (beq g) (a_groups a))) l) (Some acc)
  = Some (acc ++ map a_id (filter (in_group g) l)).
Proof.
  induction l as [|a l IH]; intros acc Hnd Hfresh Hargs g; [cbn; rewrite app_nil_r; reflexivity|].
  cbn [flat_map filter map]. rewrite fold_left_app. inversion Hnd as [|? ? Hna Hnd']; subst.
  unfold in_group at 1.
  (* the mentions of [g] in [a_groups a]: the first pushes the id, the others find it *)
  assert (Hm : forall k acc', (forall y, In y acc' -> y <> a_id a) \/ In (a_id a) acc' ->
            fold_left (fun acc n =>
               match acc with
               | None => None
               | Some l => if existsb (beq n) l then Some l
                           else if is_some (find_arg x n) then Some (l ++ [n])
                           else None
               end) (repeat (a_id a) k) (Some acc')
            = Some (if (0 <? N.of_nat k) && negb (existsb (beq (a_id a)) acc') then acc' ++ [a_id a] else acc')).
  { induction k as [|k IHk]; intros acc' Hacc'; [reflexivity|]. cbn [repeat fold_left].
    destruct (existsb (beq (a_id a)) acc') eqn:Eex.
    - rewrite IHk by exact Hacc'. rewrite Eex, !Bool.andb_false_r. reflexivity.
    - rewrite (Hargs a (or_introl eq_refl)). rewrite IHk.
      2:{ right. apply in_or_app. right. left. reflexivity. }
      assert (E2 : existsb (beq (a_id a)) (acc' ++ [a_id a]) = true).
      { apply existsb_exists. exists (a_id a). split; [apply in_or_app; right; left; reflexivity|apply beq_refl]. }
      rewrite E2, Bool.andb_false_r. cbn [negb]. rewrite Bool.andb_true_r.
      replace (0 <? N.of_nat (S k)) with true by (symmetry; apply N.ltb_lt; lia). reflexivity. }
  assert (Hrep : map (fun _ : bytes => a_id a) (filter (beq g) (a_groups a)) = repeat (a_id a) (List.length (filter (beq g) (a_groups a)))).
  { induction (filter (beq g) (a_groups a)) as [|y t IHt]; [reflexivity|]. cbn [map List.length repeat]. rewrite IHt. reflexivity. }
  rewrite Hrep, Hm.
  2:{ left. intros y Hy E. subst y. exact (Hfresh a (or_introl eq_refl) Hy). }
  assert (Hne : existsb (beq (a_id a)) acc = false).
  { destruct (existsb (beq (a_id a)) acc) eqn:E; [|reflexivity]. exfalso. apply existsb_exists in E.
    destruct E as (y & Hy & Ey). apply beq_eq in Ey. subst y. exact (Hfresh a (or_introl eq_refl) Hy). }
  rewrite Hne. cbn [negb]. rewrite Bool.andb_true_r.
  assert (Hex : forall gs : list bytes, existsb (beq g) gs = (0 <? N.of_nat (List.length (filter (beq g) gs)))).
  { induction gs as [|y t IHt]; [reflexivity|]. cbn [existsb filter]. destruct (beq g y); cbn [orb List.length].
    - symmetry. apply N.ltb_lt. lia.
    - exact IHt. }
  rewrite <- Hex. destruct (existsb (beq g) (a_groups a)).
  - rewrite IH.
    + cbn [map]. rewrite <- app_assoc. reflexivity.
    + exact Hnd'.
    + intros a' Ha' Hin. apply in_app_or in Hin. destruct Hin as [Hin|[Hin|[]]].
      * exact (Hfresh a' (or_intror Ha') Hin).
      * apply Hna. rewrite Hin. apply in_map. exact Ha'.
    + intros a' Ha'. apply Hargs. right. exact Ha'.
  - apply IH; [exact Hnd'| |].
    + intros a' Ha'. apply Hfresh. right. exact Ha'.
    + intros a' Ha'. apply Hargs. right. exact Ha'.
Qed.
Lemma find_arg_nodup x a : NoDup (map a_id (c_args x)) -> In a (c_args x) -> find_arg x (a_id a) = Some a.
Proof.
  unfold find_arg. induction (c_args x) as [|y l IH]; intros Hnd Hin; [destruct Hin|].
  inversion Hnd as [|? ? Hny Hnd']; subst. cbn [find]. destruct Hin as [->|Hin]; [rewrite beq_refl; reflexivity|].
  destruct (beq (a_id y) (a_id a)) eqn:E; [|apply IH; assumption].
  exfalso. apply beq_eq in E. apply Hny. rewrite E. apply in_map. exact Hin.
Qed.
Theorem conflict_targets_group x id :
  NoDup (map a_id (c_args x)) -> find_arg x id = None -> find_group x id = true ->
  conflict_targets x id = Some (filter (in_group id) (c_args x)).
Proof.
  intros Hnd Hna Hg. unfold conflict_targets. rewrite Hna, Hg. unfold unroll_args_in_group, group_members.
  rewrite (unroll_fold_spec x (c_args x) [] Hnd (fun _ _ H => H) (fun a Ha => find_arg_self x a Ha) id). cbn [app].
  rewrite <- (map_id (filter (in_group id) (c_args x))) at 2.
  apply map_opt_map_map. intros a Ha. apply filter_In in Ha. apply find_arg_nodup; [exact Hnd|exact (proj1 Ha)].
Qed.

(** ---- non-vacuity and class boundaries ---- *)
Definition zx_opt : arg :=
  mkArg (lit "color") (Some (lit "c")) (Some (lit "color")) [(lit "k", true); (lit "x", false)] [(lit "colour", true)]
        ASet None (Some [mkPv (lit "always") false; mkPv (lit "never") false; mkPv (lit "secret") true]) None false false false.
Definition zx_flag : arg :=
  mkArg (lit "verbose") (Some (lit "v")) (Some (lit "verbose")) [] [] ACount None None None false false false.
Definition zx_pos : arg :=
  mkArg (lit "file") None None [] [] ASet None None (Some HFilePath) false false true.
Definition zx_leaf (nm : bytes) (bin : bytes) : cmd :=
  mkCmd nm [] [zx_opt; zx_pos] [] (Some bin) false false sets0 sets0.
Definition zx_add : cmd :=
  mkCmd (lit "add") [(lit "a", true); (lit "hidden", false)] [zx_flag]
        [zx_leaf (lit "x") (lit "p add x")] (Some (lit "p add")) false false sets0 sets0.
Definition zx_add_all : cmd := zx_leaf (lit "add-all") (lit "p add-all").
Definition zx_root : cmd := mkCmd (lit "p") [] [zx_flag] [zx_add; zx_add_all] (Some (lit "p")) false false sets0 sets0.

Lemma zx_desc n : desc zx_root n -> n = zx_add \/ n = zx_add_all \/ n = zx_leaf (lit "x") (lit "p add x").
Proof.
  intros H. inversion H as [c sc Hin|c sc m Hin H']; subst; cbn in Hin.
  - destruct Hin as [<-|[<-|[]]]; auto.
  - destruct Hin as [<-|[<-|[]]].
    + inversion H' as [c sc Hin|c sc m Hin H'']; subst; cbn in Hin.
      * destruct Hin as [<-|[]]; auto.
      * destruct Hin as [<-|[]]. inversion H'' as [c sc Hin|c sc m Hin H3]; subst; cbn in Hin; destruct Hin.
    + inversion H' as [c sc Hin|c sc m Hin H'']; subst; cbn in Hin; destruct Hin.
Qed.

Lemma zx_nobl : nobl zx_root.
Proof.
  intros n [->|Hn] a Ha; [|destruct (zx_desc _ Hn) as [-> | [-> | -> ]]]; cbn in Ha;
    repeat (destruct Ha as [<-|Ha]; [reflexivity|]); destruct Ha.
Qed.

(** a tree with the siblings [add] / [add-all] (one name a string prefix of the other), a visible and a hidden alias,
    two levels, options with aliases and possible values: in the class *)
Example zsh_ok_example : zsh_ok zx_root (lit "p").
Proof.
  split.
  - reflexivity.
  - intros p sc Hp Hin. destruct Hp as [->|Hp].
    + cbn in Hin. destruct Hin as [<-|[<-|[]]]; eexists; split; reflexivity.
    + destruct (zx_desc _ Hp) as [-> | [-> | -> ]]; cbn in Hin.
      * destruct Hin as [<-|[]]. eexists; split; reflexivity.
      * destruct Hin.
      * destruct Hin.
  - intros n Hn. destruct (zx_desc _ Hn) as [-> | [-> | -> ]]; cbn; intros H;
      repeat (destruct H as [H|H]; [discriminate|]); exact H.
  - intros p Hp. destruct Hp as [->|Hp]; [|destruct (zx_desc _ Hp) as [-> | [-> | -> ]]]; cbn;
      repeat constructor; cbn; intuition discriminate.
  - apply nobl_cres. exact zx_nobl.
  - apply nobl_cres. exact zx_nobl.
Qed.

(** a decidable test for "is a contiguous part of" (used for the refutation witnesses) *)
Fixpoint binfix (a l : bytes) : bool :=
  starts_with l a || match l with [] => false | _ :: t => binfix a t end.
Lemma binfix_sound a : forall l, binfix a l = true -> sublist a l.
Proof.
  induction l as [|x t IH]; cbn [binfix]; intros H.
  - rewrite Bool.orb_false_r in H. apply starts_with_spec in H. destruct H as [post ->]. exists [], post. reflexivity.
  - apply Bool.orb_true_iff in H. destruct H as [H|H].
    + apply starts_with_spec in H. destruct H as [post ->]. exists [], post. reflexivity.
    + destruct (IH H) as (pre & post & ->). exists (x :: pre), post. reflexivity.
Qed.
Lemma binfix_complete a l : sublist a l -> binfix a l = true.
Proof.
  intros (pre & post & ->). induction pre as [|x pre IH].
  - cbn [app]. destruct (a ++ post) eqn:E; cbn [binfix]; rewrite <- E, starts_with_app; reflexivity.
  - cbn [app binfix]. rewrite IH. apply Bool.orb_true_r.
Qed.

(** class boundary = finding [zsh-optional-value]: an option with [num_args(0..=1)] gets its value spec
    [min_values()] = 0 times; its possible value [zz] is nowhere in the file *)
Definition zr_optional : arg :=
  mkArg (lit "o") None (Some (lit "opt")) [] [] ASet (Some (0, 1)) (Some [mkPv (lit "zz") false]) None false false false.
Lemma zsh_optional_value_refuted :
  exists c d b s a vs pv, zsh_ok c b /\ zsh_script c d = Some s /\ In a (c_args c) /\ a_is_positional a = false /\
    possible_values a = Some vs /\ In pv vs /\ pv_hide pv = false /\ a_min_values a = 0 /\
    ~ sublist (pv_name pv) s.
Proof.
  set (c := mkCmd (lit "p") [] [zr_optional] [] (Some (lit "p")) false false sets0 sets0).
  exists c, cd0, (lit "p"). destruct (zsh_script c cd0) as [s|] eqn:E; [|vm_compute in E; discriminate].
  exists s, zr_optional, [mkPv (lit "zz") false], (mkPv (lit "zz") false).
  split.
  { assert (Hnb : nobl c).
    { intros n [->|Hn] a Ha; [cbn in Ha; destruct Ha as [<-|[]]; reflexivity|]. inversion Hn as [? ? H|? ? ? H]; destruct H. }
    split; [reflexivity| | | |apply nobl_cres; exact Hnb|apply nobl_cres; exact Hnb].
    - intros p sc [->|Hp] Hin; [destruct Hin|]. inversion Hp as [? ? H|? ? ? H]; destruct H.
    - intros n Hn. inversion Hn as [? ? H|? ? ? H]; destruct H.
    - intros p [->|Hp]; [constructor|]. inversion Hp as [? ? H|? ? ? H]; destruct H. }
  split; [reflexivity|]. split; [left; reflexivity|]. split; [reflexivity|]. split; [reflexivity|].
  split; [left; reflexivity|]. split; [reflexivity|]. split; [reflexivity|].
  intros Hs. apply binfix_complete in Hs. vm_compute in E. inversion E; subst s. vm_compute in Hs. discriminate.
Qed.

(** class boundary = finding [alias-without-primary]: a visible short alias of an option that has no short is
    nowhere in the file *)
Definition zr_alias_only : arg :=
  mkArg (lit "o") None (Some (lit "opt")) [(lit "x", true)] [] ASet None None None false false false.
Lemma zsh_alias_without_primary_refuted :
  exists c d b s a, zsh_ok c b /\ zsh_script c d = Some s /\ In a (c_args c) /\ In (lit "x", true) (a_short_aliases a) /\
    ~ sublist (lit "-x") s.
Proof.
  set (c := mkCmd (lit "p") [] [zr_alias_only] [] (Some (lit "p")) false false sets0 sets0).
  exists c, cd0, (lit "p"). destruct (zsh_script c cd0) as [s|] eqn:E; [|vm_compute in E; discriminate].
  exists s, zr_alias_only.
  split.
  { assert (Hnb : nobl c).
    { intros n [->|Hn] a Ha; [cbn in Ha; destruct Ha as [<-|[]]; reflexivity|]. inversion Hn as [? ? H|? ? ? H]; destruct H. }
    split; [reflexivity| | | |apply nobl_cres; exact Hnb|apply nobl_cres; exact Hnb].
    - intros p sc [->|Hp] Hin; [destruct Hin|]. inversion Hp as [? ? H|? ? ? H]; destruct H.
    - intros n Hn. inversion Hn as [? ? H|? ? ? H]; destruct H.
    - intros p [->|Hp]; [constructor|]. inversion Hp as [? ? H|? ? ? H]; destruct H. }
  split; [reflexivity|]. split; [left; reflexivity|]. split; [left; reflexivity|].
  intros Hs. apply binfix_complete in Hs. vm_compute in E. inversion E; subst s. vm_compute in Hs. discriminate.
Qed.

(** class boundary of [parser_of_exact]: a subcommand NAME with a space.  [a b] next to [a] -> [b]: both have the bin
    name [p a b]; the lookup returns the first in pre-order, so the arm [(a b)] carries the block of [b] and the
    flag [-x] of [a b] is nowhere in the file (same file from the real generator) *)
Definition zs_flag (id s : bytes) : arg := mkArg id (Some s) None [] [] ASetTrue None None None false false false.
Definition zs_b : cmd := mkCmd (lit "b") [] [zs_flag (lit "f2") (lit "y")] [] (Some (lit "p a b")) false false sets0 sets0.
Definition zs_a : cmd := mkCmd (lit "a") [] [] [zs_b] (Some (lit "p a")) false false sets0 sets0.
Definition zs_ab : cmd := mkCmd (lit "a b") [] [zs_flag (lit "f1") (lit "x")] [] (Some (lit "p a b")) false false sets0 sets0.
Definition zs_root : cmd := mkCmd (lit "p") [] [] [zs_a; zs_ab] (Some (lit "p")) false false sets0 sets0.
Lemma zsh_space_in_name_refuted :
  linked zs_root /\ sibling_names zs_root /\ ~ nospace zs_root /\ desc zs_root zs_ab /\
  parser_of zs_root (bin_or_default zs_ab) = Some zs_b /\
  exists s, zsh_script zs_root cd0 = Some s /\ ~ sublist (lit "-x[") s.
Proof.
  assert (Hdesc : forall n, desc zs_root n -> n = zs_a \/ n = zs_ab \/ n = zs_b).
  { intros n H. inversion H as [c sc Hin|c sc m Hin H']; subst; cbn in Hin.
    - destruct Hin as [<-|[<-|[]]]; auto.
    - destruct Hin as [<-|[<-|[]]].
      + inversion H' as [c sc Hin|c sc m Hin H'']; subst; cbn in Hin.
        * destruct Hin as [<-|[]]; auto.
        * destruct Hin as [<-|[]]. inversion H'' as [c sc Hin|c sc m Hin H3]; subst; cbn in Hin; destruct Hin.
      + inversion H' as [c sc Hin|c sc m Hin H'']; subst; cbn in Hin; destruct Hin. }
  split; [|split; [|split; [|split; [|split]]]].
  - intros p sc [->|Hp] Hin.
    + cbn in Hin. destruct Hin as [<-|[<-|[]]]; eexists; split; reflexivity.
    + destruct (Hdesc _ Hp) as [-> | [-> | -> ]]; cbn in Hin; try (destruct Hin; fail).
      destruct Hin as [<-|[]]. eexists; split; reflexivity.
  - intros p [->|Hp]; [|destruct (Hdesc _ Hp) as [-> | [-> | -> ]]]; cbn; repeat constructor; cbn; intuition discriminate.
  - intros H. apply (H zs_ab); [apply desc_child; right; left; reflexivity|]. cbn. auto.
  - apply desc_child. right; left; reflexivity.
  - reflexivity.
  - destruct (zsh_script zs_root cd0) as [s|] eqn:E; [|vm_compute in E; discriminate].
    exists s. split; [reflexivity|]. intros Hs. apply binfix_complete in Hs.
    vm_compute in E. inversion E; subst s. vm_compute in Hs. discriminate.
Qed.

(** the example tree: both files exist, the [add-all] arm carries the block of [add-all] (not that of [add]) *)
Example zsh_example_paths :
  exists s, zsh_script zx_root cd0 = Some s /\
    sublist (zrender ([Zx (lit "(add-all)")] ++ znl ++ args_block zx_add_all cd0 (Some zx_root))) s /\
    sublist (zrender ([Zx (lit "(x)")] ++ znl ++ args_block (zx_leaf (lit "x") (lit "p add x")) cd0 (Some zx_add))) s.
Proof.
  destruct (zsh_script_path zx_root cd0 (lit "p") [lit "add-all"] zx_add_all cd0 zx_root zsh_ok_example) as (s & Es & H1).
  { apply dreach_one; [right; left; reflexivity|left; reflexivity]. }
  destruct (zsh_script_path zx_root cd0 (lit "p") [lit "a"; lit "x"] (zx_leaf (lit "x") (lit "p add x")) cd0 zx_add zsh_ok_example)
    as (s' & Es' & H2).
  { eapply dreach_cons; [left; reflexivity|right; left; reflexivity|].
    apply dreach_one; [left; reflexivity|left; reflexivity]. }
  rewrite Es in Es'. inversion Es'; subst s'. exists s. split; [exact Es|]. split; [exact H1|exact H2].
Qed.


(** ---- round 4: conflicts with groups, evaluated; the class boundary of totality ---- *)
Definition zc_flag (id l : bytes) (grp cx : list bytes) (glob : bool) : arg :=
  mkArgX id None (Some l) [] [] ASetTrue None None None glob false false [] None false cx grp.
Definition zc_a : arg := zc_flag (lit "a") (lit "a") [lit "g1"] [] false.
Definition zc_b : arg := zc_flag (lit "b") (lit "bb") [lit "g1"; lit "g1"] [] false.
Definition zc_c : arg := zc_flag (lit "c") (lit "c") [] [lit "g1"; lit "a"] false.
Definition zc_root : cmd := mkCmd (lit "p") [] [zc_a; zc_b; zc_c] [] (Some (lit "p")) false false sets0 sets0.
Lemma zc_desc n : desc zc_root n -> False.
Proof. intros H. inversion H as [? ? Hin|? ? ? Hin]; destruct Hin. Qed.
(** [--c] conflicts with the group [g1] = {a, b} ([b] names it twice: once in the list) and with [a]: in the class of
    [zsh_ok_local]; the exclusion list is the members of the group in argument order, then [a] *)
Example zsh_conflicts_group_example :
  zsh_ok zc_root (lit "p") /\ NoDup (map a_id (c_args zc_root)) /\
  conflict_targets zc_root (lit "g1") = Some [zc_a; zc_b] /\
  arg_conflicts zc_root zc_c None = lit "(--a --bb --a)" /\
  exists s, zsh_script zc_root cd0 = Some s /\ sublist (lit "'(--a --bb --a)--c[]' \") s.
Proof.
  split.
  { apply zsh_ok_local; [reflexivity| | | |].
    - intros p sc [->|Hp] Hin; [destruct Hin|destruct (zc_desc _ Hp)].
    - intros n Hn. destruct (zc_desc _ Hn).
    - intros p [->|Hp]; [constructor|destruct (zc_desc _ Hp)].
    - intros n [->|Hn]; [reflexivity|destruct (zc_desc _ Hn)]. }
  split. { cbn. repeat constructor; cbn; intuition discriminate. }
  split; [reflexivity|]. split; [reflexivity|].
  destruct (zsh_script zc_root cd0) as [s|] eqn:E; [|vm_compute in E; discriminate].
  exists s. split; [reflexivity|]. apply binfix_sound. vm_compute in E. inversion E; subst s. vm_compute. reflexivity.
Qed.

(** the former class boundary of totality = finding [zsh-global-conflicts-group], REPAIRED: a GLOBAL argument that conflicts
    with a GROUP.  clap's configuration check ([id_exists]: every blacklist entry names an argument or a group of the
    command) accepts the command; [Command::get_global_arg_conflicts_with] used to look the entry up among ARGUMENTS only and
    [expect]; it now falls back to the group of that id in the command and in the subcommands that contain the argument.
    The witness tree of the finding is in the local class (which is clap's check now), in [zsh_ok], and gets a script with
    the exclusion list of the group's members -- in a root, below a parent that has the group too, and in a subcommand that
    declares the global argument and the group itself (same files from the repaired generator) *)
Definition zg_g : arg := zc_flag (lit "g") (lit "g") [] [lit "grp"] true.
Definition zg_a : arg := zc_flag (lit "a") (lit "a") [lit "grp"] [] false.
Definition zg_root : cmd := mkCmd (lit "p") [] [zg_g; zg_a] [] (Some (lit "p")) false false sets0 sets0.
(** the same with a subcommand that receives both global arguments: below the parent the group of the PARENT is consulted *)
Definition zg_a_glob : arg := zc_flag (lit "a") (lit "a") [lit "grp"] [] true.
Definition zg_user : cmd :=
  mkCmd (lit "p") [] [zg_g; zg_a_glob] [mkCmd (lit "s") [] [] [] None false false sets0 sets0] None false false sets0 sets0.
Definition zg_sub_user : cmd :=
  mkCmd (lit "p") [] [] [mkCmd (lit "s") [] [zg_g; zg_a] [] None false false sets0 sets0] None false false sets0 sets0.
Lemma zsh_global_conflicts_group_fixed :
  conflicts_local zg_root = true /\ conflicts_ok_at zg_root zg_root = true /\ zsh_ok zg_root (lit "p") /\
  get_arg_conflicts_with zg_root zg_g = Some [zg_a] /\
  (forall d, exists s, zsh_script zg_root d = Some s) /\
  (exists s, zsh_script zg_root cd0 = Some s /\ sublist (lit "'(--a)--g[]' \") s) /\
  (exists s, generate_zsh zg_user cd0 (lit "p") = Some s /\ sublist (lit "(s)" ++ lf ++ lit "_arguments ""${_arguments_options[@]}"" : \" ++ lf ++ lit "'(--a)--g[]' \") s) /\
  (exists s, generate_zsh zg_sub_user cd0 (lit "p") = Some s /\ sublist (lit "(s)" ++ lf ++ lit "_arguments ""${_arguments_options[@]}"" : \" ++ lf ++ lit "'(--a)--g[]' \") s).
Proof.
  assert (Hdesc : forall n, desc zg_root n -> False).
  { intros n H. inversion H as [? ? Hin|? ? ? Hin]; destruct Hin. }
  assert (Hok : zsh_ok zg_root (lit "p")).
  { apply zsh_ok_at; [reflexivity| | | |reflexivity|].
    - intros p sc [->|Hp] Hin; [destruct Hin|destruct (Hdesc _ Hp)].
    - intros n Hn. destruct (Hdesc _ Hn).
    - intros p [->|Hp]; [constructor|destruct (Hdesc _ Hp)].
    - intros p sc [->|Hp] Hin; [destruct Hin|destruct (Hdesc _ Hp)]. }
  split; [reflexivity|]. split; [reflexivity|]. split; [exact Hok|]. split; [reflexivity|].
  split. { intros d. destruct (zsh_script_root zg_root d (lit "p") Hok) as (s & Es & _). exists s. exact Es. }
  split.
  { destruct (zsh_script zg_root cd0) as [s|] eqn:E; [|vm_compute in E; discriminate].
    exists s. split; [reflexivity|]. apply binfix_sound. vm_compute in E. inversion E; subst s. vm_compute. reflexivity. }
  split.
  - destruct (generate_zsh zg_user cd0 (lit "p")) as [s|] eqn:E; [|vm_compute in E; discriminate].
    exists s. split; [reflexivity|]. apply binfix_sound. vm_compute in E. inversion E; subst s. vm_compute. reflexivity.
  - destruct (generate_zsh zg_sub_user cd0 (lit "p")) as [s|] eqn:E; [|vm_compute in E; discriminate].
    exists s. split; [reflexivity|]. apply binfix_sound. vm_compute in E. inversion E; subst s. vm_compute. reflexivity.
Qed.

(** round 4: the value name of an option spec: every line of an option that requires a value carries [:vn:] followed by the
    value completion, [vn] = the FIRST value name, a blank when there is none *)
Theorem opt_line_value_name c g a ad line :
  a_min_values a <> 0 -> In line (opt_lines c g (a, ad)) ->
  exists val, zvalue_completion (a, ad) = Some val /\
    In (Zx (lit ":" ++ value_name a ++ lit ":")) line /\
    value_name a = match a_value_names a with [] => lit " " | v :: _ => v end.
Proof.
  intros Hm Hl.
  assert (Hv : exists val, zvalue_completion (a, ad) = Some val).
  { unfold zvalue_completion. cbn [fst snd]. destruct (possible_values a); [destruct (existsb _ _); eexists; reflexivity|].
    destruct (a_get_hint a); eexists; reflexivity. }
  destruct Hv as [val Ev]. exists val. split; [exact Ev|]. split; [|reflexivity].
  pose proof (opt_vc_values (a, ad) val Hm Ev) as Hvc. cbn [fst] in Hvc.
  assert (Hx' : In (Zx (lit ":" ++ value_name a ++ lit ":")) (opt_vc (a, ad))) by (eapply sublist_in; [exact Hvc|left; reflexivity]).
  unfold ZshModel.opt_lines in Hl. apply in_app_or in Hl. destruct Hl as [Hl|Hl].
  - destruct (get_short_and_visible_aliases (fst (a, ad))); [|destruct Hl]. apply in_map_iff in Hl.
    destruct Hl as (s & <- & _). unfold ZshModel.opt_short_line. apply in_or_app. right. apply in_or_app. left. exact Hx'.
  - destruct (get_long_and_visible_aliases (fst (a, ad))); [|destruct Hl]. apply in_map_iff in Hl.
    destruct Hl as (s & <- & _). unfold ZshModel.opt_long_line. apply in_or_app. right. apply in_or_app. left. exact Hx'.
Qed.

(** the local class, spelled out: it IS clap's configuration check ([id_exists]) on the entries of the options / flags of the
    command -- since the repair of finding zsh-global-conflicts-group no second condition on global arguments is needed *)
Theorem conflicts_local_meaning m :
  conflicts_local m = true <->
  forall a, In a (c_args m) -> a_is_positional a = false -> forall id, In id (a_blacklist a) ->
    (is_some (find_arg m id) || find_group m id) = true.
Proof.
  unfold conflicts_local. rewrite forallb_forall. split.
  - intros H a Ha Hp id Hid.
    assert (Hf : In a (filter (fun a => negb (a_is_positional a)) (c_args m))) by (apply filter_In; rewrite Hp; auto).
    specialize (H a Hf). rewrite forallb_forall in H. exact (H id Hid).
  - intros H a Ha. apply filter_In in Ha. destruct Ha as [Ha Hp]. apply Bool.negb_true_iff in Hp.
    apply forallb_forall. intros id Hid. exact (H a Ha Hp id Hid).
Qed.
