(** C16 for the zsh generator model ([ZshModel.v]).

    1. the lookup by bin name [parser_of]: sound (what it returns is a node of the tree with that bin
       name), complete (a node with that bin name is found), and -- for [linked] trees whose names
       contain no space and whose sibling names are distinct -- EXACT: looked up by the bin name of a
       node it returns that node ([parser_of_exact]);
    2. totality: for every [linked] tree with a bin name the generator reaches no panic site and its
       recursion never runs out of fuel ([zsh_total]); determinism;
    3. coverage: the script contains, for EVERY path of names or visible aliases (any depth), the
       [_arguments] block of the node the path leads to, and that block has a spec line for every
       short / long spelling, the value list of every option that takes a value, a line for every
       positional, and an arm + a [_describe] entry for every name and visible alias of every subcommand. *)
From ClapModel Require Import Base.Bytes Complete.AotTree Complete.AotProofs Complete.BashModel Complete.BashProofs.
From ClapModel Require Import Complete.FishModel Complete.BuildTexts Complete.ZshModel Escape.EscapeModel.
From Coq Require Import Lia.
Open Scope N_scope.
Open Scope list_scope.

(** ---- list helpers ---- *)
Fixpoint first_some {A B} (f : A -> option B) (l : list A) : option B :=
  match l with
  | [] => None
  | x :: t => match f x with Some r => Some r | None => first_some f t end
  end.

Lemma first_some_Some {A B} (f : A -> option B) l r :
  first_some f l = Some r -> exists x, In x l /\ f x = Some r.
Proof.
  induction l as [|x t IH]; cbn [first_some]; intros H; [discriminate|].
  destruct (f x) as [y|] eqn:E.
  - inversion H; subst. exists x. split; [left; reflexivity|exact E].
  - destruct (IH H) as (z & Hz & Hf). exists z. split; [right; exact Hz|exact Hf].
Qed.

Lemma first_some_hit {A B} (f : A -> option B) l x :
  In x l -> f x <> None -> first_some f l <> None.
Proof.
  induction l as [|y t IH]; cbn [first_some In]; intros Hin Hf; [destruct Hin|].
  destruct (f y) as [r|] eqn:E; [discriminate|].
  destruct Hin as [->|Hin]; [contradiction|]. apply IH; assumption.
Qed.

(** ---- parser_of ---- *)
Definition bin_or_default (c : cmd) : bytes := match c_bin c with Some b => b | None => [] end.

Lemma parser_of_unfold c b :
  parser_of c b = if beq b (bin_or_default c) then Some c else first_some (fun s => parser_of s b) (c_subs c).
Proof.
  destruct c as [n al args subs bin h v s g]. cbn [parser_of c_subs]. unfold bin_or_default. cbn [c_bin].
  destruct (beq b match bin with Some b0 => b0 | None => [] end); [reflexivity|].
  induction subs as [|x t IH]; [reflexivity|].
  cbn [first_some]. destruct (parser_of x b); [reflexivity|exact IH].
Qed.

(** the search on the decorated tree follows the search on the tree *)
Lemma parser_of_d_fst : forall c d b, option_map fst (parser_of_d c d b) = parser_of c b.
Proof.
  induction c as [n al args subs bin h v s g IH] using cmd_ind'. intros d b.
  cbn [parser_of_d parser_of].
  destruct (beq b match bin with Some b0 => b0 | None => [] end); [reflexivity|].
  generalize (cd_subs d). induction subs as [|x t IHt]; intros dl; [reflexivity|].
  inversion IH as [|x' t' Hx Ht]; subst.
  rewrite <- (Hx (hd cd0 dl) b).
  destruct (parser_of_d x (hd cd0 dl) b) as [[m md]|]; cbn [option_map fst]; [reflexivity|].
  apply IHt. exact Ht.
Qed.

Lemma parser_of_d_some c d b m : parser_of c b = Some m -> exists md, parser_of_d c d b = Some (m, md).
Proof.
  intros H. pose proof (parser_of_d_fst c d b) as E. rewrite H in E.
  destruct (parser_of_d c d b) as [[m' md]|]; cbn [option_map fst] in E; [|discriminate].
  inversion E; subst. exists md. reflexivity.
Qed.

Lemma parser_of_d_inv c d b m md : parser_of_d c d b = Some (m, md) -> parser_of c b = Some m.
Proof. intros H. rewrite <- (parser_of_d_fst c d b), H. reflexivity. Qed.

(** soundness: what the lookup returns is the command itself or one of its descendants, and its bin name
    ([unwrap_or_default]) is the one looked for *)
Lemma parser_of_sound : forall c b m, parser_of c b = Some m -> (m = c \/ desc c m) /\ bin_or_default m = b.
Proof.
  induction c as [n al args subs bin h v s g IH] using cmd_ind'. intros b m.
  set (c := mkCmd n al args subs bin h v s g) in *.
  rewrite parser_of_unfold. destruct (beq b (bin_or_default c)) eqn:E.
  - intros H; inversion H; subst. apply beq_eq in E. split; [left; reflexivity|symmetry; exact E].
  - intros H. apply first_some_Some in H. destruct H as (x & Hin & Hx). change (c_subs c) with subs in Hin.
    rewrite Forall_forall in IH. destruct (IH x Hin b m Hx) as [Hd Hb]. split; [right|exact Hb].
    destruct Hd as [->|Hd]; [apply desc_child; exact Hin|eapply desc_step; [exact Hin|exact Hd]].
Qed.

(** completeness: a node with that bin name exists => the lookup does not fail (the [expect]s on
    [parser_of] are dead whenever the bin name looked for is the bin name of a node) *)
Lemma parser_of_complete : forall c n, (n = c \/ desc c n) -> parser_of c (bin_or_default n) <> None.
Proof.
  induction c as [nm al args subs bin h v s g IH] using cmd_ind'. intros n Hn.
  set (c := mkCmd nm al args subs bin h v s g) in *.
  rewrite parser_of_unfold. destruct (beq (bin_or_default n) (bin_or_default c)) eqn:E; [discriminate|].
  destruct Hn as [->|Hd]; [rewrite beq_refl in E; discriminate|].
  rewrite Forall_forall in IH.
  inversion Hd as [c0 sc Hin|c0 sc n0 Hin Hd']; subst.
  - eapply first_some_hit; [exact Hin|]. apply (IH n Hin). left; reflexivity.
  - eapply first_some_hit; [exact Hin|]. apply (IH sc Hin). right; exact Hd'.
Qed.

(** ---- linked trees ---- *)
Lemma linked_desc c n : linked c -> desc c n -> linked n.
Proof.
  intros Hl Hd. induction Hd as [c sc Hin|c sc n Hin Hd IH].
  - eapply linked_sub; eauto.
  - apply IH. eapply linked_sub; eauto.
Qed.

Lemma desc_depth c n : desc c n -> (depth n < depth c)%nat.
Proof.
  induction 1 as [c sc Hin|c sc n Hin Hd IH].
  - rewrite (depth_unfold c). pose proof (maxd_in _ _ Hin). lia.
  - rewrite (depth_unfold c). pose proof (maxd_in _ _ Hin). lia.
Qed.

Lemma linked_child_bin p pb sc :
  linked p -> c_bin p = Some pb -> In sc (c_subs p) -> c_bin sc = Some (pb ++ [32] ++ c_name sc).
Proof.
  intros Hl Hb Hin. destruct (Hl p sc (or_introl eq_refl) Hin) as (pb' & Hpb & Hsc).
  rewrite Hb in Hpb; inversion Hpb; subst. exact Hsc.
Qed.

Lemma linked_desc_bin c n : linked c -> desc c n -> exists b, c_bin n = Some b.
Proof.
  intros Hl Hd. pose proof (linked_bins_built _ Hl n Hd) as H. destruct (c_bin n) as [b|]; [eauto|contradiction].
Qed.

Lemma app_not_self (a b : bytes) : b <> [] -> a <> a ++ b.
Proof.
  intros Hb H. rewrite <- (app_nil_r a) in H at 1. apply app_inv_head in H. symmetry in H. contradiction.
Qed.

(** the lookup by the bin name of a child never returns the parent: strictly below *)
Lemma parser_of_child_below p pb sc m :
  linked p -> c_bin p = Some pb -> In sc (c_subs p) ->
  parser_of p (pb ++ [32] ++ c_name sc) = Some m ->
  desc p m /\ c_bin m = Some (pb ++ [32] ++ c_name sc).
Proof.
  intros Hl Hb Hin Hp. destruct (parser_of_sound _ _ _ Hp) as [Hd Hbin].
  destruct Hd as [->|Hd].
  - exfalso. unfold bin_or_default in Hbin. rewrite Hb in Hbin. revert Hbin. apply app_not_self. discriminate.
  - split; [exact Hd|]. destruct (linked_desc_bin _ _ Hl Hd) as [b Eb]. unfold bin_or_default in Hbin.
    rewrite Eb in Hbin. rewrite Eb, Hbin. reflexivity.
Qed.

(** ---- totality ---- *)
Lemma get_args_of_total c d g : c_bin c <> None -> get_args_of c d g <> None.
Proof.
  intros Hb. unfold get_args_of. destruct (has_subcommands c); [|discriminate].
  destruct (c_bin c); [discriminate|contradiction].
Qed.

Lemma subcommands_of_linked p pb :
  linked p -> c_bin p = Some pb ->
  exists l, subcommands p = Some l /\
    forall w b, In (w, b) l -> exists sc, In sc (c_subs p) /\ b = pb ++ [32] ++ c_name sc /\
                                          In w (get_name_and_visible_aliases sc).
Proof.
  intros Hl Hb. destruct (subcommands_spec p) as (l & El & Hspec).
  { intros sc Hin. rewrite (linked_child_bin _ _ _ Hl Hb Hin). discriminate. }
  exists l. split; [exact El|]. intros w b Hin. apply Hspec in Hin. destruct Hin as (sc & Hsc & Hbin & Hw).
  exists sc. split; [exact Hsc|]. split; [|exact Hw].
  rewrite (linked_child_bin _ _ _ Hl Hb Hsc) in Hbin. inversion Hbin; reflexivity.
Qed.

Lemma get_subcommands_of_total : forall f p d pb,
  c_bin p = Some pb -> linked p -> (depth p <= f)%nat -> get_subcommands_of f p d <> None.
Proof.
  induction f as [|f IH]; intros p d pb Hb Hl Hdepth.
  - pose proof (depth_pos p). lia.
  - cbn [get_subcommands_of]. destruct (negb (has_subcommands p)); [discriminate|].
    destruct (subcommands_of_linked _ _ Hl Hb) as (l & El & Hl'). rewrite El.
    match goal with |- match map_opt ?F l with _ => _ end <> None => destruct (map_opt_total F l) as [r Er] end.
    { intros [w b] Hin. cbn [fst snd]. destruct (Hl' w b Hin) as (sc & Hsc & -> & Hw).
      pose proof (linked_child_bin _ _ _ Hl Hb Hsc) as Ebin.
      assert (Hfound : parser_of p (pb ++ [32] ++ c_name sc) <> None).
      { replace (pb ++ [32] ++ c_name sc) with (bin_or_default sc) by (unfold bin_or_default; rewrite Ebin; reflexivity).
        apply parser_of_complete. right. apply desc_child. exact Hsc. }
      destruct (parser_of p (pb ++ [32] ++ c_name sc)) as [m|] eqn:Em; [|contradiction].
      destruct (parser_of_d_some p d _ _ Em) as [md Emd]. rewrite Emd.
      destruct (parser_of_child_below _ _ _ _ Hl Hb Hsc Em) as [Hd Hmb].
      destruct (get_args_of m md (Some p)) as [sa|] eqn:Ea.
      2:{ exfalso. revert Ea. apply get_args_of_total. rewrite Hmb. discriminate. }
      destruct (get_subcommands_of f m md) as [ch|] eqn:Ec; [discriminate|].
      exfalso. revert Ec. apply (IH m md _ Hmb (linked_desc _ _ Hl Hd)).
      pose proof (desc_depth _ _ Hd). lia. }
    rewrite Er, Hb. discriminate.
Qed.

Lemma subcommand_details_total c d b : c_bin c = Some b -> linked c -> subcommand_details c d <> None.
Proof.
  intros Hb Hl. unfold subcommand_details. rewrite Hb.
  destruct (all_subcommands_spec c (linked_bins_built _ Hl)) as (l & El & Hspec). rewrite El.
  match goal with |- match map_opt ?F ?L with _ => _ end <> None => destruct (map_opt_total F L) as [r Er] end.
  { intros x Hin. apply dedup_in, sort_in, in_map_iff in Hin. destruct Hin as ([w b'] & <- & Hin). cbn [snd].
    apply Hspec in Hin. destruct Hin as (n & Hd & Hbin & _).
    assert (Hfound : parser_of c b' <> None).
    { replace b' with (bin_or_default n) by (unfold bin_or_default; rewrite Hbin; reflexivity).
      apply parser_of_complete. right; exact Hd. }
    destruct (parser_of c b') as [m|] eqn:Em; [|contradiction].
    destruct (parser_of_d_some c d _ _ Em) as [md Emd]. rewrite Emd. discriminate. }
  rewrite Er. discriminate.
Qed.

(** C16 (zsh): for every [linked] tree with a bin name -- what [Command::build] produces -- the
    generator writes a script: no [expect] fires, the recursion through [parser_of] ends *)
Theorem zsh_total c d b : c_bin c = Some b -> linked c -> exists s, zsh_script c d = Some s.
Proof.
  intros Hb Hl. unfold zsh_script, zsh_pieces. rewrite Hb.
  destruct (get_args_of c d None) as [ia|] eqn:Ea.
  2:{ exfalso. revert Ea. apply get_args_of_total. rewrite Hb; discriminate. }
  destruct (get_subcommands_of (depth c) c d) as [sc|] eqn:Es.
  2:{ exfalso. revert Es. apply (get_subcommands_of_total _ _ _ _ Hb Hl). lia. }
  destruct (subcommand_details c d) as [de|] eqn:Ed.
  2:{ exfalso. revert Ed. apply (subcommand_details_total _ _ _ Hb Hl). }
  eexists; reflexivity.
Qed.

(** without a bin name on the root the first [expect] fires *)
Lemma zsh_no_bin c d : c_bin c = None -> zsh_script c d = None.
Proof. intros Hb. unfold zsh_script, zsh_pieces. rewrite Hb. reflexivity. Qed.

Theorem zsh_deterministic c d s1 s2 : zsh_script c d = Some s1 -> zsh_script c d = Some s2 -> s1 = s2.
Proof. intros H1 H2. rewrite H1 in H2. inversion H2; reflexivity. Qed.

(** ---- the class in which the lookup by bin name is exact ---- *)
(** no command name below the root contains a space; sibling names are pairwise distinct (clap's own
    configuration check demands more: names and aliases of siblings pairwise distinct) *)
Definition nospace (c : cmd) : Prop := forall n, desc c n -> ~ In 32 (c_name n).
Definition sibling_names (c : cmd) : Prop := forall p, (p = c \/ desc c p) -> NoDup (map c_name (c_subs p)).

Lemma nospace_sub c sc : nospace c -> In sc (c_subs c) -> nospace sc.
Proof. intros H Hin n Hd. apply H. eapply desc_step; eauto. Qed.
Lemma sibling_names_sub c sc : sibling_names c -> In sc (c_subs c) -> sibling_names sc.
Proof.
  intros H Hin p Hp. apply H. right. destruct Hp as [->|Hd]; [apply desc_child; exact Hin|eapply desc_step; eauto].
Qed.
Lemma nospace_desc c n : nospace c -> desc c n -> nospace n.
Proof. intros H Hd m Hm. apply H. eapply desc_trans; eauto. Qed.
Lemma sibling_names_desc c n : sibling_names c -> desc c n -> sibling_names n.
Proof.
  intros H Hd p Hp. apply H. right. destruct Hp as [->|Hp]; [exact Hd|eapply desc_trans; eauto].
Qed.

Definition tailish (r : bytes) : Prop := r = [] \/ exists r', r = 32 :: r'.

(** two names without a space, each followed by nothing or by a space: equal wholes have equal names *)
Lemma nospace_split : forall a a' r r',
  ~ In 32 a -> ~ In 32 a' -> tailish r -> tailish r' -> a ++ r = a' ++ r' -> a = a'.
Proof.
  induction a as [|x a IH]; intros a' r r' Ha Ha' Hr Hr' E.
  - destruct a' as [|y a']; [reflexivity|]. exfalso. cbn [app] in E.
    destruct Hr as [->|[r0 ->]]; [discriminate|]. inversion E; subst. apply Ha'. left; reflexivity.
  - destruct a' as [|y a'].
    + exfalso. cbn [app] in E. destruct Hr' as [->|[r0 ->]]; [discriminate|]. inversion E; subst. apply Ha. left; reflexivity.
    + cbn [app] in E. inversion E; subst. f_equal.
      apply (IH a' r r'); auto; intros Hx; [apply Ha|apply Ha']; right; exact Hx.
Qed.

Lemma join_with_tailish ns : tailish (join_with [32] ns).
Proof. destruct ns as [|x ns]; [left; reflexivity|right]. rewrite join_with_cons. eexists; reflexivity. Qed.

(** every node of the subtree of a linked command [s] has the bin name of [s] followed by nothing or a space *)
Lemma subtree_bin s sb n :
  linked s -> c_bin s = Some sb -> (n = s \/ desc s n) -> exists r, c_bin n = Some (sb ++ r) /\ tailish r.
Proof.
  intros Hl Hb [->|Hd].
  - exists []. rewrite app_nil_r. split; [exact Hb|left; reflexivity].
  - destruct (desc_reach _ _ Hd) as [ns Hr]. exists (join_with [32] ns).
    split; [apply (reach_bin _ _ _ _ Hr _ Hb Hl)|apply join_with_tailish].
Qed.

Lemma NoDup_map_inj {A B} (f : A -> B) l x y : NoDup (map f l) -> In x l -> In y l -> f x = f y -> x = y.
Proof.
  induction l as [|h t IH]; cbn [map In]; intros Hn Hx Hy E; [destruct Hx|].
  inversion Hn as [|h' t' Hnot Hn']; subst.
  destruct Hx as [->|Hx], Hy as [->|Hy].
  - reflexivity.
  - exfalso. apply Hnot. rewrite E. apply in_map. exact Hy.
  - exfalso. apply Hnot. rewrite <- E. apply in_map. exact Hx.
  - apply IH; assumption.
Qed.

Lemma beq_neq (a b : bytes) : a <> b -> beq a b = false.
Proof. intros H. destruct (beq a b) eqn:E; [|reflexivity]. apply beq_eq in E. contradiction. Qed.

(** a node found in the subtree of the child [x] under the bin name of a node in the subtree of the child [sc]: [x = sc] *)
Lemma same_child p pb x sc m n :
  linked p -> c_bin p = Some pb -> nospace p -> sibling_names p ->
  In x (c_subs p) -> In sc (c_subs p) -> (m = x \/ desc x m) -> (n = sc \/ desc sc n) ->
  bin_or_default m = bin_or_default n -> x = sc.
Proof.
  intros Hl Hb Hns Hsn Hx Hsc Hm Hn E.
  pose proof (linked_child_bin _ _ _ Hl Hb Hx) as Ex. pose proof (linked_child_bin _ _ _ Hl Hb Hsc) as Esc.
  destruct (subtree_bin _ _ _ (linked_sub _ _ Hl Hx) Ex Hm) as (r & Em & Hr).
  destruct (subtree_bin _ _ _ (linked_sub _ _ Hl Hsc) Esc Hn) as (r' & En & Hr').
  unfold bin_or_default in E. rewrite Em, En in E. rewrite <- !app_assoc in E. apply app_inv_head in E.
  cbn [app] in E. inversion E as [E'].
  apply (NoDup_map_inj c_name (c_subs p)); [apply Hsn; left; reflexivity|exact Hx|exact Hsc|].
  apply (nospace_split _ _ r r'); [apply Hns, desc_child, Hx|apply Hns, desc_child, Hsc|exact Hr|exact Hr'|exact E'].
Qed.

Lemma first_some_only {A B} (f : A -> option B) l x r :
  In x l -> f x = Some r -> (forall y, In y l -> f y = None \/ f y = Some r) -> first_some f l = Some r.
Proof.
  induction l as [|h t IH]; cbn [first_some In]; intros Hin Hf Hall; [destruct Hin|].
  destruct (Hall h (or_introl eq_refl)) as [E|E]; rewrite E; [|reflexivity].
  destruct Hin as [->|Hin]; [rewrite Hf in E; discriminate|].
  apply IH; [exact Hin|exact Hf|intros y Hy; apply Hall; right; exact Hy].
Qed.

(** EXACT lookup: in a [linked] tree whose names contain no space and whose sibling names are distinct, the
    lookup by the bin name of a node returns that node *)
Theorem parser_of_exact : forall c b n,
  c_bin c = Some b -> linked c -> nospace c -> sibling_names c -> (n = c \/ desc c n) ->
  parser_of c (bin_or_default n) = Some n.
Proof.
  induction c as [nm al args subs bin h v s g IH] using cmd_ind'. intros b n Hb Hl Hns Hsn Hn.
  set (c := mkCmd nm al args subs bin h v s g) in *.
  rewrite parser_of_unfold. destruct Hn as [->|Hd]; [rewrite beq_refl; reflexivity|].
  rewrite beq_neq.
  2:{ destruct (subtree_bin _ _ _ Hl Hb (or_intror Hd)) as (r & En & Hr). unfold bin_or_default. rewrite En, Hb.
      destruct (desc_reach _ _ Hd) as [ns Hreach]. pose proof (reach_bin _ _ _ _ Hreach _ Hb Hl) as En'.
      rewrite En in En'. inversion En' as [E']. apply app_inv_head in E'. subst r.
      intros E. symmetry in E. revert E. apply app_not_self.
      inversion Hreach; subst; [exfalso; revert Hd; clear; intros Hd; pose proof (desc_depth _ _ Hd); lia|].
      rewrite join_with_cons. discriminate. }
  rewrite Forall_forall in IH. change (c_subs c) with subs.
  assert (Hsub : exists sc, In sc subs /\ (n = sc \/ desc sc n)).
  { inversion Hd as [c0 sc Hin|c0 sc n0 Hin Hd']; subst; [exists n; auto|exists sc; auto]. }
  destruct Hsub as (sc & Hsc & Hnsc).
  pose proof (linked_child_bin c b sc Hl Hb Hsc) as Esc.
  apply (first_some_only _ subs sc); [exact Hsc| |].
  - apply (IH sc Hsc _ n Esc (linked_sub _ _ Hl Hsc) (nospace_sub _ _ Hns Hsc) (sibling_names_sub _ _ Hsn Hsc) Hnsc).
  - intros x Hx. destruct (parser_of x (bin_or_default n)) as [m|] eqn:Em; [right|left; reflexivity].
    destruct (parser_of_sound _ _ _ Em) as [Hm Hbm].
    assert (x = sc) by (apply (same_child c b x sc m n Hl Hb Hns Hsn Hx Hsc Hm Hnsc Hbm)). subst x.
    rewrite <- Em.
    apply (IH sc Hsc _ n Esc (linked_sub _ _ Hl Hsc) (nospace_sub _ _ Hns Hsc) (sibling_names_sub _ _ Hsn Hsc) Hnsc).
Qed.
