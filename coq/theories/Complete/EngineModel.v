(** The dynamic completion engine: [clap_complete::engine::complete] and its helpers
    (clap_complete/src/engine/complete.rs, candidate.rs), one Gallina function per Rust
    function, same branch order (property C18).

    The command is a [Parse.Cmd.cmd]; [Command::build] (with the help-tree expansion that
    only [build()] performs) is [build_full] below, on top of the blocks of [Parse.Build].
    Every panic site of complete.rs is a visible [CPanic line] ([unreachable!], [expect("built")]).

    Not modelled (see docs/notes/C18.md): the final stable sort by (tag, display order) - results
    are compared as multisets -, help texts and tags of candidates, custom completers
    ([ArgValueCompleter], [ArgValueCandidates], [SubcommandCandidates]) and path completion
    (value hints): the generators never install them, [current_dir] is [None]. *)
From ClapModel Require Import Base.Bytes Base.Machine Base.Utf8.
From ClapModel Require Import Parse.Cmd Parse.Build Parse.Valid.
From Coq Require Import ZArith.
From RecordUpdate Require Import RecordSet.
Import RecordSetNotations.
Open Scope N_scope.

(** * Lexing on bytes ([clap_lex::ParsedArg], [ShortFlags]); single-byte needles written out *)
Definition DASH : N := 45.
Definition EQ : N := 61.
Definition is_empty (s : bytes) : bool := match s with [] => true | _ => false end.
Definition is_stdio (s : bytes) : bool := match s with [b] => b =? DASH | _ => false end.
Definition is_escape (s : bytes) : bool := match s with [a; b] => (a =? DASH) && (b =? DASH) | _ => false end.
Definition is_none {A} (o : option A) : bool := match o with None => true | Some _ => false end.

(** [remainder.split_once("=")] *)
Fixpoint split_eq (r : bytes) : bytes * option bytes :=
  match r with
  | [] => ([], None)
  | b :: t => if b =? EQ then ([], Some t) else let '(f, v) := split_eq t in (b :: f, v)
  end.

(** [ParsedArg::to_long]: [Some (flag, flag is UTF-8, value)]; [--] alone is the escape, not a long *)
Definition to_long (s : bytes) : option (bytes * bool * option bytes) :=
  match s with
  | a :: b :: r =>
      if (a =? DASH) && (b =? DASH) then
        match r with
        | [] => None
        | _ => let '(f, v) := split_eq r in Some (f, utf8_valid f, v)
        end
      else None
  | _ => None
  end.

(** [ParsedArg::to_short]: the bytes handed to [ShortFlags::new] *)
Definition to_short (s : bytes) : option bytes :=
  match s with
  | a :: r => if a =? DASH then match r with [] => None | b :: _ => if b =? DASH then None else Some r end
              else None
  | _ => None
  end.

(** [ShortFlags::next_flag] over the unread bytes (LexProofs.any_interleaving relates this
    representation to the Rust struct) *)
Inductive flag := FOk (c : N) | FErr.
Definition next_flag (u : bytes) : option (flag * bytes) :=
  match u with
  | [] => None
  | _ :: _ => match utf8_step u with
              | Some (c, n) => Some (FOk c, skipn n u)
              | None => Some (FErr, [])
              end
  end.
(** [ShortFlags::next_value_os] *)
Definition next_value_os (u : bytes) : option bytes := match u with [] => None | _ => Some u end.

(** [is_number] / [ShortFlags::is_negative_number] (clap_lex) *)
Definition is_digit c := (48 <=? c) && (c <=? 57).
Fixpoint is_number_aux (s : bytes) (i : N) (seen_dot : bool) (pos_e : option N) : option (option N) :=
  match s with
  | [] => Some pos_e
  | c :: t =>
     if is_digit c then is_number_aux t (i+1) seen_dot pos_e
     else if (c =? 46) && negb seen_dot && is_none pos_e && (0 <? i) then is_number_aux t (i+1) true pos_e
     else if ((c =? 101) || (c =? 69)) && is_none pos_e && (0 <? i) then is_number_aux t (i+1) seen_dot (Some i)
     else None
  end.
Definition is_number (s : bytes) : bool :=
  match is_number_aux s 0 false None with
  | None => false
  | Some None => true
  | Some (Some i) => negb (i =? N.of_nat (length s) - 1)
  end.
Definition sf_is_negative_number (r : bytes) := utf8_valid r && is_number r.

(** * [Command::build]: [_build_recursive(true)] *)

(** [_copy_subtree_for_help] *)
Fixpoint copy_subtree_for_help (c : cmd) : cmd :=
  match c with
  | mkCmd name _ _ _ _ _ _ _ subs cset gset _ _ _ _ _ about _ =>
      let hidden := s_hidden cset || s_hidden gset in
      let st := settings_none <| s_disable_help_flag := true |> <| s_disable_version_flag := true |> in
      (cmd_new name)
        <| c_set := st <| s_hidden := hidden |> |> <| c_gset := st |>
        <| c_subs := (fix go (l : list cmd) : list cmd :=
                        match l with [] => [] | s :: t => copy_subtree_for_help s :: go t end) subs |>
        <| c_about := about |>
  end.

(** the help subcommand of [_check_help_and_version] with [expand_help_tree = true] *)
Definition help_subcommand_x (parent : cmd) : cmd :=
  let help_help :=
    (cmd_new s_help) <| c_about := Some s_help_about |>
      <| c_set := settings_none <| s_disable_help_flag := true |> <| s_disable_version_flag := true |> |> in
  let dh := settings_none <| s_disable_help_sub := true |> in
  let h := (cmd_new s_help) <| c_about := Some s_help_about |> <| c_set := dh |> <| c_gset := dh |>
             <| c_subs := map copy_subtree_for_help (c_subs parent) ++ [help_help] |> in
  let h := propagate_subcommand parent h in
  h <| c_version := None |> <| c_long_version := None |>
    <| c_set := (c_set h) <| s_disable_help_flag := true |> <| s_disable_version_flag := true |> |>
    <| c_gset := (c_gset h) <| s_propagate_version := false |> |>.

Definition bs_help_version_x (c : cmd) : cmd :=
  let c := if negb (is_set s_disable_help_flag c) then c <| c_args := c_args c ++ [help_arg] |> else c in
  let c := if negb (is_disable_version_flag_set c) then c <| c_args := c_args c ++ [version_arg] |> else c in
  if negb (is_set s_disable_help_sub c)
  then c <| c_subs := c_subs c ++ [fix_help_unset (help_subcommand_x c)] |> else c.

(** [_build_self(true)] of a command that has not been built before (the [Built] short cut is
    the subject of C11, not of this model) *)
Definition build_self_x (c : cmd) : cmd :=
  bs_mark (bs_deprecated (bs_args (bs_globals (bs_help_version_x (bs_propagate (bs_settings c)))))).

Inductive bres := BOk (c : cmd) | BInvalid | BFuel.

(** [_build_recursive(true)]; [assert_app] runs at the end of every [_build_self] (debug build).
    The Rust recursion is structural on the mutated tree; the model is given fuel.
    [build_list rec] = the loop over [get_subcommands_mut]; [build_node] = one level. *)
Definition build_list (rec : cmd -> bres) : list cmd -> option (option (list cmd)) :=
  fix go (l : list cmd) : option (option (list cmd)) :=
    match l with
    | [] => Some (Some [])
    | s :: t =>
        match rec s with
        | BOk s' => match go t with
                    | Some (Some t') => Some (Some (s' :: t'))
                    | other => other end
        | BInvalid => Some None
        | BFuel => None
        end
    end.
Definition build_node (rec : cmd -> bres) (c : cmd) : bres :=
  if negb (assert_app c) then BInvalid
  else match build_list rec (c_subs c) with
       | Some (Some subs) => BOk (c <| c_subs := subs |>)
       | Some None => BInvalid
       | None => BFuel
       end.
Fixpoint build_full (fuel : nat) (c : cmd) : bres :=
  match fuel with
  | O => BFuel
  | S f => build_node (build_full f) (build_self_x c)
  end.

(** enough for [build_full]: every level of the tree is built with one unit, the expanded help
    tree below a level is at most as deep as the level's own subtree plus the [help help] entry *)
Definition build_fuel (c : cmd) : nat := 2 * depth c + 4.

(** * Candidates (candidate.rs) *)
Inductive cid := IdArg (i : id) | IdCmd (n : bytes).
Definition cid_eqb (a b : cid) : bool :=
  match a, b with
  | IdArg x, IdArg y => beq x y
  | IdCmd x, IdCmd y => beq x y
  | _, _ => false
  end.
Record cand := mkCand { cd_value : bytes; cd_id : option cid; cd_hidden : bool }.
Definition add_prefix (p : bytes) (c : cand) : cand := mkCand (p ++ cd_value c) (cd_id c) (cd_hidden c).
Definition hide (h : bool) (c : cand) : cand := mkCand (cd_value c) (cd_id c) h.

(** * Reflection helpers of [Arg] / [Command] *)
Definition vis_aliases {A} (l : list (A * bool)) : list A := map fst (filter (fun p => snd p) l).
Definition hid_aliases {A} (l : list (A * bool)) : list A := map fst (filter (fun p => negb (snd p)) l).
Definition get_long_and_visible_aliases (a : arg) : option (list bytes) :=
  match a_long a with
  | None => None
  | Some l => Some (l :: vis_aliases (a_aliases a))
  end.
(** [Arg::get_aliases]: the hidden ones *)
Definition get_aliases (a : arg) : option (list bytes) :=
  if is_nil (a_aliases a) then None else Some (hid_aliases (a_aliases a)).
Definition get_short_and_visible_aliases (a : arg) : option (list N) :=
  match a_short a with
  | None => None
  | Some s => Some (s :: vis_aliases (a_short_aliases a))
  end.
Definition is_hide_set (c : cmd) : bool := is_set s_hidden c.
Definition find_pos (c : cmd) (i : N) : option arg :=
  List.find (fun p => match a_index p with Some n => n =? i | None => false end) (positionals c).

(** possible values given through [PossibleValuesParser] (side table: arg id -> values with
    their hidden flag); [BoolValueParser] offers true/false; the other modelled parsers none *)
Definition pvtable := list (id * list (bytes * bool)).
Definition lookup_pv (tbl : pvtable) (i : id) : option (list (bytes * bool)) :=
  opt_map snd (List.find (fun p => beq (fst p) i) tbl).
(** [possible_values]: [None] outer = [expect("built")] failed *)
Definition possible_values (tbl : pvtable) (a : arg) : option (option (list (bytes * bool))) :=
  match a_num a with
  | None => None
  | Some r =>
      if negb (r_takes_values r) then Some None
      else match lookup_pv tbl (a_id a) with
           | Some l => Some (Some l)
           | None => match a_vp a with
                     | Some VPBool => Some (Some [(s_true, false); (s_false, false)])
                     | _ => Some None
                     end
           end
  end.

(** * complete.rs *)
Inductive pstate := ValueDone | Pos (idx cnt : N) | Opt (a : arg) (cnt : N).

Inductive cres := CPanic (site : N) | CErr | COk (l : list cand) | CInvalid | CFuel.

(** [rsplit_delimiter]: split after the last occurrence of the delimiter *)
Fixpoint rfind_split (d : bytes) (seen rest : bytes) (best : option (bytes * bytes)) : option (bytes * bytes) :=
  match rest with
  | [] => best
  | b :: t =>
      let best' := if starts_with rest d then Some (seen ++ d, skipn (length d) rest) else best in
      rfind_split d (seen ++ [b]) t best'
  end.
Definition rsplit_delimiter (value : bytes) (delim : option N) : option (bytes * bytes) :=
  match delim with
  | None => None
  | Some d => if utf8_valid value then rfind_split (utf8_encode d) [] value None else None
  end.

(** [complete_arg_value]; [None] = panic at the [expect("built")] of [possible_values] *)
Definition complete_arg_value (tbl : pvtable) (value : bytes) (a : arg) : option (list cand) :=
  let '(prefix, value) :=
    match rsplit_delimiter value (a_delim a) with
    | Some (p, v) => (Some p, v)
    | None => (None, value)
    end in
  match possible_values tbl a with
  | None => None
  | Some pvs =>
      let values :=
        match pvs with
        | Some l =>
            if utf8_valid value
            then map (fun p => mkCand (fst p) None (snd p)) (filter (fun p => is_prefix value (fst p)) l)
            else []
        | None => []                       (* ValueHint::Unknown: should not complete *)
        end in
      Some (match prefix with
            | Some p => map (add_prefix p) values
            | None => values
            end)
  end.

Definition populate_arg_candidate (v : bytes) (a : arg) : cand := mkCand v (Some (IdArg (a_id a))) (a_hide a).
Definition populate_command_candidate (v : bytes) (sc : cmd) : cand :=
  mkCand v (Some (IdCmd (c_name sc))) (is_hide_set sc).

Definition dd : bytes := [DASH; DASH].

Definition longs_and_visible_aliases (p : cmd) : list cand :=
  flat_map (fun a => match get_long_and_visible_aliases a with
                     | Some longs => map (fun s => populate_arg_candidate (dd ++ s) a) longs
                     | None => [] end) (c_args p).
Definition hidden_longs_aliases (p : cmd) : list cand :=
  flat_map (fun a => match get_aliases a with
                     | Some longs => map (fun s => hide true (populate_arg_candidate (dd ++ s) a)) longs
                     | None => [] end) (c_args p).
Definition shorts_and_visible_aliases (p : cmd) : list cand :=
  flat_map (fun a => match get_short_and_visible_aliases a with
                     | Some shorts => map (fun s => populate_arg_candidate (utf8_encode s) a) shorts
                     | None => [] end) (c_args p).

(** [subcommands] *)
Definition subcommands (p : cmd) : list cand :=
  flat_map (fun sc =>
     map (fun s => populate_command_candidate s sc) (c_name sc :: vis_aliases (c_aliases sc))
     ++ map (fun s => hide true (populate_command_candidate s sc)) (hid_aliases (c_aliases sc))) (c_subs p).

(** [Vec::sort] on candidates: the derived [Ord] compares [value] first; candidates of one level
    with equal values are exact duplicates or belong to an invalid command *)
Fixpoint ble (a b : bytes) : bool :=
  match a, b with
  | [], _ => true
  | _ :: _, [] => false
  | x :: a', y :: b' => if x <? y then true else if y <? x then false else ble a' b'
  end.
Fixpoint insert_cand (c : cand) (l : list cand) : list cand :=
  match l with
  | [] => [c]
  | d :: t => if ble (cd_value c) (cd_value d) then c :: l else d :: insert_cand c t
  end.
Definition sort_cands (l : list cand) : list cand := fold_right insert_cand [] l.
Definition opt_cid_eqb (a b : option cid) :=
  match a, b with Some x, Some y => cid_eqb x y | None, None => true | _, _ => false end.
Definition cand_eqb (a b : cand) : bool :=
  beq (cd_value a) (cd_value b) && opt_cid_eqb (cd_id a) (cd_id b) && Bool.eqb (cd_hidden a) (cd_hidden b).
(** [Vec::dedup] *)
Fixpoint dedup_adjacent (l : list cand) : list cand :=
  match l with
  | [] => []
  | a :: t => match t with
              | [] => [a]
              | b :: _ => if cand_eqb a b then dedup_adjacent t else a :: dedup_adjacent t
              end
  end.

(** [complete_subcommand] (no external-subcommand completer installed) *)
Definition complete_subcommand (value : bytes) (c : cmd) : list cand :=
  dedup_adjacent (sort_cands (filter (fun x => is_prefix value (cd_value x)) (subcommands c))).

(** [parse_shortflags]: the loop; [leading] accumulates [leading_flags] *)
Inductive sfres := SFPanic | SFFuel | SFOk (leading : bytes) (opt : option arg) (rest : bytes).
Definition find_short_visible (c : cmd) (ch : N) : option arg :=
  List.find (fun a => match get_short_and_visible_aliases a with
                      | Some shorts => existsb (N.eqb ch) shorts
                      | None => false end
                      (* hidden short aliases are accepted by the parser too (fix 8ab1e69) *)
                      || existsb (N.eqb ch) (map fst (a_short_aliases a))) (c_args c).
Fixpoint parse_shortflags_loop (fuel : nat) (c : cmd) (short leading : bytes) : sfres :=
  match fuel with
  | O => SFFuel
  | S f =>
      match next_flag short with
      | Some (FOk ch, short') =>
          let leading := leading ++ utf8_encode ch in
          match find_short_visible c ch with
          | Some o =>
              match a_num o with
              | None => SFPanic                               (* expect("built"), line 603 *)
              | Some r => if r_takes_values r then SFOk leading (Some o) short'
                          else parse_shortflags_loop f c short' leading
              end
          | None => parse_shortflags_loop f c short' leading
          end
      | Some (FErr, short') => SFOk leading None short'
      | None => SFOk leading None short
      end
  end.
Definition parse_shortflags (c : cmd) (short : bytes) : sfres :=
  parse_shortflags_loop (S (length short)) c short [].

(** [complete_option]; the panic sites are those of the callees *)
Definition complete_option (tbl : pvtable) (arg : bytes) (c : cmd) : cres :=
  if is_empty arg then
    COk (longs_and_visible_aliases c ++ hidden_longs_aliases c
         ++ map (add_prefix [DASH]) (shorts_and_visible_aliases c))
  else if is_stdio arg then
    COk (map (add_prefix [DASH]) (shorts_and_visible_aliases c)
         ++ longs_and_visible_aliases c ++ hidden_longs_aliases c)
  else if is_escape arg then
    COk (longs_and_visible_aliases c ++ hidden_longs_aliases c)
  else
    match to_long arg with
    | Some (flag, flag_utf8, value) =>
        if flag_utf8 then
          match value with
          | Some v =>
              match List.find (fun a => match a_long a with Some l => beq l flag | None => false end) (c_args c) with
              | Some a =>
                  match complete_arg_value tbl v a with
                  | None => CPanic 535
                  | Some l => COk (map (add_prefix (dd ++ flag ++ [EQ])) l)
                  end
              | None => COk []
              end
          | None =>
              COk (filter (fun comp => is_prefix (dd ++ flag) (cd_value comp)) (longs_and_visible_aliases c)
                   ++ filter (fun comp => is_prefix (dd ++ flag) (cd_value comp)) (hidden_longs_aliases c))
          end
        else COk []
    | None =>
        match to_short arg with
        | Some short =>
            if negb (sf_is_negative_number short) then
              match parse_shortflags c short with
              | SFPanic => CPanic 603
              | SFFuel => CFuel
              | SFOk leading (Some o) short' =>
                  let '(has_equal, short'') :=
                    match next_flag short' with
                    | Some (FOk ch, s2) => if ch =? EQ then (true, s2) else (false, short')
                    | _ => (false, short')
                    end in
                  let value := match next_value_os short'' with Some v => v | None => [] end in
                  match complete_arg_value tbl value o with
                  | None => CPanic 535
                  | Some l => COk (map (add_prefix ([DASH] ++ leading ++ (if has_equal then [EQ] else []))) l)
                  end
              | SFOk leading None _ =>
                  (* a cluster cut short by invalid UTF-8 cannot be extended by a flag (fix 2e813fe) *)
                  if utf8_valid arg
                  then COk (map (add_prefix ([DASH] ++ leading)) (shorts_and_visible_aliases c))
                  else COk []
              end
            else COk []
        | None => COk []
        end
    end.

(** the tail of [complete_arg]: hidden filter, then de-duplication by id (first one wins);
    the final stable sort by (tag, display order) is a permutation and is not modelled *)
Definition hide_filter (l : list cand) : list cand :=
  if existsb (fun a => negb (cd_hidden a)) l then filter (fun a => negb (cd_hidden a)) l else l.
Fixpoint dedup_ids (seen : list cid) (l : list cand) : list cand :=
  match l with
  | [] => []
  | a :: t =>
      match cd_id a with
      | Some i => if existsb (cid_eqb i) seen then dedup_ids seen t else a :: dedup_ids (i :: seen) t
      | None => a :: dedup_ids seen t
      end
  end.
Definition finish (l : list cand) : list cand := dedup_ids [] (hide_filter l).

Definition cbind (r : cres) (f : list cand -> cres) : cres := match r with COk l => f l | other => other end.
Definition of_opt (site : N) (o : option (list cand)) : cres := match o with Some l => COk l | None => CPanic site end.

(** [complete_arg] in state [ValueDone] (before the repair of finding C18-args-conflict; see [complete_arg_v]) *)
Definition complete_arg_value_done (tbl : pvtable) (arg : bytes) (c : cmd) (pos_index : N) : cres :=
  let subs := if utf8_valid arg then complete_subcommand arg c else [] in
  cbind (match find_pos c pos_index with
         | Some p => of_opt 535 (complete_arg_value tbl arg p)
         | None => COk [] end) (fun posv =>
  cbind (complete_option tbl arg c) (fun opts =>
  COk (finish (subs ++ posv ++ opts)))).

(** [complete_arg] *)
Definition complete_arg (tbl : pvtable) (arg : bytes) (c : cmd) (pos_index : N) (st : pstate) : cres :=
  match st with
  | ValueDone => complete_arg_value_done tbl arg c pos_index
  | Pos _ num_arg =>
      match find_pos c pos_index with
      | Some p =>
          cbind (of_opt 535 (complete_arg_value tbl arg p)) (fun posv =>
          cbind (if match a_num p with Some r => vmin r <=? num_arg | None => false end
                 then complete_option tbl arg c else COk []) (fun opts =>
          COk (finish (posv ++ opts))))
      | None => COk (finish [])
      end
  | Opt o count =>
      cbind (of_opt 535 (complete_arg_value tbl arg o)) (fun optv =>
      let min := match a_num o with Some r => vmin r | None => 0 end in
      cbind (if min <? count then complete_arg_value_done tbl arg c pos_index else COk []) (fun more =>
      COk (finish (optv ++ more))))
  end.

(** [complete_arg] with the argument [valid_arg_found] (repair of finding C18-args-conflict): like the real parser, no
    subcommand is offered behind an argument of a command whose arguments conflict with subcommands.  The function
    above is the code before the repair and this function with the flag off. *)
Definition complete_arg_value_done_v (tbl : pvtable) (arg : bytes) (c : cmd) (pos_index : N) (valid_arg_found : bool) : cres :=
  let maybe_subcommand := negb (is_set s_args_negate_subs c && valid_arg_found) in
  let subs := if utf8_valid arg && maybe_subcommand then complete_subcommand arg c else [] in
  cbind (match find_pos c pos_index with
         | Some p => of_opt 535 (complete_arg_value tbl arg p)
         | None => COk [] end) (fun posv =>
  cbind (complete_option tbl arg c) (fun opts =>
  COk (finish (subs ++ posv ++ opts)))).

Definition complete_arg_v (tbl : pvtable) (arg : bytes) (c : cmd) (pos_index : N) (st : pstate) (valid_arg_found : bool) : cres :=
  match st with
  | ValueDone => complete_arg_value_done_v tbl arg c pos_index valid_arg_found
  | Pos _ num_arg =>
      match find_pos c pos_index with
      | Some p =>
          cbind (of_opt 535 (complete_arg_value tbl arg p)) (fun posv =>
          cbind (if match a_num p with Some r => vmin r <=? num_arg | None => false end
                 then complete_option tbl arg c else COk []) (fun opts =>
          COk (finish (posv ++ opts))))
      | None => COk (finish [])
      end
  | Opt o count =>
      cbind (of_opt 535 (complete_arg_value tbl arg o)) (fun optv =>
      let min := match a_num o with Some r => vmin r | None => 0 end in
      cbind (if min <? count then complete_arg_value_done_v tbl arg c pos_index valid_arg_found else COk []) (fun more =>
      COk (finish (optv ++ more))))
  end.

(** [parse_opt_value] / [parse_positional] BEFORE the repair of finding C18-value-terminator (no notion of
    [Arg::value_terminator]); used by the loops kept for the before/after witnesses *)
Definition parse_opt_value_before_termfix (o : arg) (count : N) : option pstate :=
  match a_num o with
  | None => None
  | Some r => Some (if count <? vmax r then Opt o (count + 1) else ValueDone)
  end.

(** [parse_positional]; [None] = the [expect("built")] of [parse_opt_value] (line 673).
    (Before fix 8cf4a4e the [Opt] arm was [unreachable!]: finding D.) *)
Definition parse_positional_before_termfix (c : cmd) (pos_index : N) (is_escaped : bool) (st : pstate) : option (pstate * N) :=
  (* a positional that appends keeps accepting values (fix c6f4cbc) *)
  let num_args := match find_pos c pos_index with
                  | Some a => match a_get_action a with
                              | AAppend => usize_max
                              | _ => match a_num a with Some r => vmax r | None => 1 end
                              end
                  | None => 1 end in
  let update_state_with_new_positional :=
    if 1 <? num_args then (Pos pos_index 1, pos_index)
    else if is_escaped then (Pos pos_index 1, pos_index + 1)
    else (ValueDone, pos_index + 1) in
  match st with
  | ValueDone => Some update_state_with_new_positional
  | Pos prev_pos_index num_arg =>
      if prev_pos_index =? pos_index then
        if num_arg + 1 <? num_args then Some (Pos pos_index (num_arg + 1), pos_index)
        else if is_escaped then Some (Pos pos_index 1, pos_index + 1)
        else Some (ValueDone, pos_index + 1)
      else Some update_state_with_new_positional
  | Opt o count => match parse_opt_value_before_termfix o count with Some st => Some (st, pos_index) | None => None end
  end.

(** [is_value_terminator] (repair of finding C18-value-terminator): the parser's [check_terminator] *)
Definition is_value_terminator (o : arg) (w : bytes) : bool :=
  match a_term o with Some t => beq t w | None => false end.

(** [parse_opt_value]; [None] = [expect("built")] (line 673).  Like the real parser, the value terminator ends
    the values of the option and is itself dropped. *)
Definition parse_opt_value (o : arg) (count : N) (w : bytes) : option pstate :=
  if is_value_terminator o w then Some ValueDone
  else
    match a_num o with
    | None => None
    | Some r => Some (if count <? vmax r then Opt o (count + 1) else ValueDone)
    end.

(** [parse_positional]; [None] = the [expect("built")] of [parse_opt_value] (line 673).
    (Before fix 8cf4a4e the [Opt] arm was [unreachable!]: finding D.)  Like the real parser, the value terminator
    of the positional at [pos_index] ends its values: the word is dropped, the next positional is up. *)
Definition parse_positional (c : cmd) (pos_index : N) (is_escaped : bool) (st : pstate) (w : bytes) : option (pstate * N) :=
  if negb (match st with Opt _ _ => true | _ => false end)
     && match find_pos c pos_index with Some p => is_value_terminator p w | None => false end
  then Some (if is_escaped then (Pos pos_index 1, pos_index + 1) else (ValueDone, pos_index + 1))
  else
  (* a positional that appends keeps accepting values (fix c6f4cbc) *)
  let num_args := match find_pos c pos_index with
                  | Some a => match a_get_action a with
                              | AAppend => usize_max
                              | _ => match a_num a with Some r => vmax r | None => 1 end
                              end
                  | None => 1 end in
  let update_state_with_new_positional :=
    if 1 <? num_args then (Pos pos_index 1, pos_index)
    else if is_escaped then (Pos pos_index 1, pos_index + 1)
    else (ValueDone, pos_index + 1) in
  match st with
  | ValueDone => Some update_state_with_new_positional
  | Pos prev_pos_index num_arg =>
      if prev_pos_index =? pos_index then
        if num_arg + 1 <? num_args then Some (Pos pos_index (num_arg + 1), pos_index)
        else if is_escaped then Some (Pos pos_index 1, pos_index + 1)
        else Some (ValueDone, pos_index + 1)
      else Some update_state_with_new_positional
  | Opt o count => match parse_opt_value o count w with Some st => Some (st, pos_index) | None => None end
  end.

Definition has_short (c : cmd) (ch : N) : bool := is_some (find_short_visible c ch).
Definition pos_allows_hyphen (c : cmd) (pos_index : N) : bool :=
  match find_pos c pos_index with Some p => a_hyphen p | None => false end.
Definition opt_allows_hyphen (st : pstate) (arg : bytes) : bool :=
  match arg with
  | b :: _ => (b =? DASH) && match st with Opt o _ => a_hyphen o | _ => false end
  | _ => false
  end.
Definition find_long_visible (c : cmd) (flag : bytes) : option arg :=
  List.find (fun a => match get_long_and_visible_aliases a with
                      | Some longs => existsb (beq flag) longs
                      | None => false end
                      (* hidden aliases are accepted by the parser too (fix 8ab1e69) *)
                      || match get_aliases a with
                         | Some longs => existsb (beq flag) longs
                         | None => false end) (c_args c).

(** the [while let Some(arg) = raw_args.next(&mut cursor)] loop of [complete] up to the point
    where the cursor reaches the target: where the shadow parse stands when [complete_arg] is called *)
Inductive walk :=
| WPanic (site : N) | WFuel | WEnd
| WAt (arg : bytes) (cur : cmd) (pos_index : N) (st : pstate) (is_escaped : bool) (valid_arg_found : bool).

(** one iteration of the loop body after the cursor test: new (cmd, pos_index, is_escaped, state, valid_arg_found) *)
Inductive step := SPanic (site : N) | SFuel
| SNext (cur : cmd) (pos_index : N) (is_escaped : bool) (st : pstate) (valid_arg_found : bool).

(** [valid_arg_found]: like the real parser's flag of the same name - an argument of [cur] was seen (an option,
    a cluster of known flags, a positional value); it starts afresh in every subcommand.  On a command whose
    arguments conflict with subcommands a word behind such an argument is not looked up as a subcommand
    (repair of finding C18-args-conflict; the code before it: [shadow_step_before_fix]) *)
Definition shadow_step (arg : bytes) (cur : cmd) (pos_index : N) (is_escaped : bool) (current_state : pstate)
           (valid_arg_found : bool) : step :=
  let positional :=
    match parse_positional cur pos_index is_escaped current_state arg with
    | Some (st, pi) => SNext cur pi is_escaped st true
    | None => SPanic 673
    end in
  (* like the real parser, a value of a pending option or of a positional that is still being
     filled is not a subcommand (fixes 689b619, c6f4cbc), and neither is a word that follows an argument of a
     command whose arguments conflict with subcommands *)
  let maybe_subcommand :=
    (is_set s_sub_precedence cur
     || negb (match current_state with Opt _ _ | Pos _ _ => true | ValueDone => false end))
    && negb (is_set s_args_negate_subs cur && valid_arg_found) in
  match (if maybe_subcommand && utf8_valid arg then find_subcommand cur arg else None) with
  | Some next_cmd => SNext next_cmd 1 is_escaped ValueDone false
  | None =>
      if is_escaped then positional
      else if is_escape arg then SNext cur pos_index true ValueDone valid_arg_found
      else if opt_allows_hyphen current_state arg then
        match current_state with
        | Opt o count => match parse_opt_value o count arg with
                         | Some st => SNext cur pos_index is_escaped st valid_arg_found
                         | None => SPanic 673 end
        | _ => SPanic 69
        end
      else
        match to_long arg with
        | Some (flag, flag_utf8, value) =>
            if flag_utf8 then
              match find_long_visible cur flag with
              | Some o =>
                  match a_num o with
                  | None => SPanic 84
                  | Some r => (* like the real parser, an option that requires `=` never takes the next word as its
                                 value (repair of finding C18-require-equals) *)
                              if r_takes_values r && is_none value && negb (a_req_eq o)
                              then SNext cur pos_index is_escaped (Opt o 1) true
                              else SNext cur pos_index is_escaped ValueDone true
                  end
              | None => if pos_allows_hyphen cur pos_index then positional
                        else SNext cur pos_index is_escaped ValueDone valid_arg_found
              end
            else SNext cur pos_index is_escaped ValueDone valid_arg_found
        | None =>
            match to_short arg with
            | Some short =>
                match parse_shortflags cur short with
                | SFPanic => SPanic 603
                | SFFuel => SFuel
                | SFOk _ (Some o) short' =>
                    if is_none (next_value_os short') && negb (a_req_eq o) then SNext cur pos_index is_escaped (Opt o 1) true
                    else SNext cur pos_index is_escaped ValueDone true
                | SFOk flags None _ =>
                    (* known flags stay flags even if the next positional allows hyphens (fix d4a15c6) *)
                    if utf8_valid arg && forallb (has_short cur) (decode flags)
                    then SNext cur pos_index is_escaped ValueDone true
                    else if pos_allows_hyphen cur pos_index then positional
                    else SNext cur pos_index is_escaped ValueDone valid_arg_found
                end
            | None =>
                match current_state with
                | Opt o count => match parse_opt_value o count arg with
                                 | Some st => SNext cur pos_index is_escaped st valid_arg_found
                                 | None => SPanic 673 end
                | _ => positional
                end
            end
        end
  end.

Fixpoint shadow_walk (items : list bytes) (cursor target : N) (cur : cmd) (pos_index : N)
         (is_escaped : bool) (next_state : pstate) (valid_arg_found : bool) : walk :=
  match items with
  | [] => WEnd
  | arg :: rest =>
      let cursor := sat_add cursor 1 in
      if cursor =? target then WAt arg cur pos_index next_state is_escaped valid_arg_found
      else
        match shadow_step arg cur pos_index is_escaped next_state valid_arg_found with
        | SPanic s => WPanic s
        | SFuel => WFuel
        | SNext cur' pi esc st vaf => shadow_walk rest cursor target cur' pi esc st vaf
        end
  end.

(** [complete] on the built command *)
Definition start_walk (b : cmd) (args : list bytes) (arg_index : N) : walk :=
  let len := N.of_nat (length args) in
  let target := sat_add (N.min arg_index len) 1 in
  let cursor := if is_set s_no_binary_name b then 0 else 1 in
  shadow_walk (skipn (N.to_nat cursor) args) cursor target b 1 false ValueDone false.

Definition complete_built (tbl : pvtable) (b : cmd) (args : list bytes) (arg_index : N) : cres :=
  match start_walk b args arg_index with
  | WPanic s => CPanic s
  | WFuel => CFuel
  | WEnd => CErr
  | WAt arg cur pi st _ vaf => complete_arg_v tbl arg cur pi st vaf
  end.

(** [complete]: [cmd.build()] then the above *)
Definition complete_model (tbl : pvtable) (c : cmd) (args : list bytes) (arg_index : N) : cres :=
  match build_full (build_fuel c) c with
  | BInvalid => CInvalid
  | BFuel => CFuel
  | BOk b => complete_built tbl b args arg_index
  end.

(** ** the loop BEFORE the repair of finding C18-args-conflict (no [valid_arg_found]; kept for the witness
    [args_conflict_before_after]); the last component of [SNext] is unused *)
Definition shadow_step_before_fix (arg : bytes) (cur : cmd) (pos_index : N) (is_escaped : bool) (current_state : pstate) : step :=
  let positional :=
    match parse_positional_before_termfix cur pos_index is_escaped current_state with
    | Some (st, pi) => SNext cur pi is_escaped st false
    | None => SPanic 673
    end in
  let maybe_subcommand :=
    is_set s_sub_precedence cur
    || negb (match current_state with Opt _ _ | Pos _ _ => true | ValueDone => false end) in
  match (if maybe_subcommand && utf8_valid arg then find_subcommand cur arg else None) with
  | Some next_cmd => SNext next_cmd 1 is_escaped ValueDone false
  | None =>
      if is_escaped then positional
      else if is_escape arg then SNext cur pos_index true ValueDone false
      else if opt_allows_hyphen current_state arg then
        match current_state with
        | Opt o count => match parse_opt_value_before_termfix o count with
                         | Some st => SNext cur pos_index is_escaped st false
                         | None => SPanic 673 end
        | _ => SPanic 69
        end
      else
        match to_long arg with
        | Some (flag, flag_utf8, value) =>
            if flag_utf8 then
              match find_long_visible cur flag with
              | Some o =>
                  match a_num o with
                  | None => SPanic 84
                  | Some r => if r_takes_values r && is_none value
                              then SNext cur pos_index is_escaped (Opt o 1) false
                              else SNext cur pos_index is_escaped ValueDone false
                  end
              | None => if pos_allows_hyphen cur pos_index then positional
                        else SNext cur pos_index is_escaped ValueDone false
              end
            else SNext cur pos_index is_escaped ValueDone false
        | None =>
            match to_short arg with
            | Some short =>
                match parse_shortflags cur short with
                | SFPanic => SPanic 603
                | SFFuel => SFuel
                | SFOk _ (Some o) short' =>
                    if is_none (next_value_os short') then SNext cur pos_index is_escaped (Opt o 1) false
                    else SNext cur pos_index is_escaped ValueDone false
                | SFOk flags None _ =>
                    if utf8_valid arg && forallb (has_short cur) (decode flags)
                    then SNext cur pos_index is_escaped ValueDone false
                    else if pos_allows_hyphen cur pos_index then positional
                    else SNext cur pos_index is_escaped ValueDone false
                end
            | None =>
                match current_state with
                | Opt o count => match parse_opt_value_before_termfix o count with
                                 | Some st => SNext cur pos_index is_escaped st false
                                 | None => SPanic 673 end
                | _ => positional
                end
            end
        end
  end.

Fixpoint shadow_walk_before_fix (items : list bytes) (cursor target : N) (cur : cmd) (pos_index : N)
         (is_escaped : bool) (next_state : pstate) : walk :=
  match items with
  | [] => WEnd
  | arg :: rest =>
      let cursor := sat_add cursor 1 in
      if cursor =? target then WAt arg cur pos_index next_state is_escaped false
      else
        match shadow_step_before_fix arg cur pos_index is_escaped next_state with
        | SPanic s => WPanic s
        | SFuel => WFuel
        | SNext cur' pi esc st _ => shadow_walk_before_fix rest cursor target cur' pi esc st
        end
  end.

Definition start_walk_before_fix (b : cmd) (args : list bytes) (arg_index : N) : walk :=
  let len := N.of_nat (length args) in
  let target := sat_add (N.min arg_index len) 1 in
  let cursor := if is_set s_no_binary_name b then 0 else 1 in
  shadow_walk_before_fix (skipn (N.to_nat cursor) args) cursor target b 1 false ValueDone.

Definition complete_model_before_fix (tbl : pvtable) (c : cmd) (args : list bytes) (arg_index : N) : cres :=
  match build_full (build_fuel c) c with
  | BInvalid => CInvalid
  | BFuel => CFuel
  | BOk b => match start_walk_before_fix b args arg_index with
             | WPanic s => CPanic s
             | WFuel => CFuel
             | WEnd => CErr
             | WAt arg cur pi st _ _ => complete_arg tbl arg cur pi st
             end
  end.

(** ** the loop BEFORE the repair of finding C18-value-terminator (the engine did not know [Arg::value_terminator];
    kept for the witness [terminator_before_after]) *)
Definition shadow_step_before_termfix (arg : bytes) (cur : cmd) (pos_index : N) (is_escaped : bool) (current_state : pstate)
           (valid_arg_found : bool) : step :=
  let positional :=
    match parse_positional_before_termfix cur pos_index is_escaped current_state with
    | Some (st, pi) => SNext cur pi is_escaped st true
    | None => SPanic 673
    end in
  (* like the real parser, a value of a pending option or of a positional that is still being
     filled is not a subcommand (fixes 689b619, c6f4cbc), and neither is a word that follows an argument of a
     command whose arguments conflict with subcommands *)
  let maybe_subcommand :=
    (is_set s_sub_precedence cur
     || negb (match current_state with Opt _ _ | Pos _ _ => true | ValueDone => false end))
    && negb (is_set s_args_negate_subs cur && valid_arg_found) in
  match (if maybe_subcommand && utf8_valid arg then find_subcommand cur arg else None) with
  | Some next_cmd => SNext next_cmd 1 is_escaped ValueDone false
  | None =>
      if is_escaped then positional
      else if is_escape arg then SNext cur pos_index true ValueDone valid_arg_found
      else if opt_allows_hyphen current_state arg then
        match current_state with
        | Opt o count => match parse_opt_value_before_termfix o count with
                         | Some st => SNext cur pos_index is_escaped st valid_arg_found
                         | None => SPanic 673 end
        | _ => SPanic 69
        end
      else
        match to_long arg with
        | Some (flag, flag_utf8, value) =>
            if flag_utf8 then
              match find_long_visible cur flag with
              | Some o =>
                  match a_num o with
                  | None => SPanic 84
                  | Some r => if r_takes_values r && is_none value
                              then SNext cur pos_index is_escaped (Opt o 1) true
                              else SNext cur pos_index is_escaped ValueDone true
                  end
              | None => if pos_allows_hyphen cur pos_index then positional
                        else SNext cur pos_index is_escaped ValueDone valid_arg_found
              end
            else SNext cur pos_index is_escaped ValueDone valid_arg_found
        | None =>
            match to_short arg with
            | Some short =>
                match parse_shortflags cur short with
                | SFPanic => SPanic 603
                | SFFuel => SFuel
                | SFOk _ (Some o) short' =>
                    if is_none (next_value_os short') then SNext cur pos_index is_escaped (Opt o 1) true
                    else SNext cur pos_index is_escaped ValueDone true
                | SFOk flags None _ =>
                    (* known flags stay flags even if the next positional allows hyphens (fix d4a15c6) *)
                    if utf8_valid arg && forallb (has_short cur) (decode flags)
                    then SNext cur pos_index is_escaped ValueDone true
                    else if pos_allows_hyphen cur pos_index then positional
                    else SNext cur pos_index is_escaped ValueDone valid_arg_found
                end
            | None =>
                match current_state with
                | Opt o count => match parse_opt_value_before_termfix o count with
                                 | Some st => SNext cur pos_index is_escaped st valid_arg_found
                                 | None => SPanic 673 end
                | _ => positional
                end
            end
        end
  end.

Fixpoint shadow_walk_before_termfix (items : list bytes) (cursor target : N) (cur : cmd) (pos_index : N)
         (is_escaped : bool) (next_state : pstate) (valid_arg_found : bool) : walk :=
  match items with
  | [] => WEnd
  | arg :: rest =>
      let cursor := sat_add cursor 1 in
      if cursor =? target then WAt arg cur pos_index next_state is_escaped valid_arg_found
      else
        match shadow_step_before_termfix arg cur pos_index is_escaped next_state valid_arg_found with
        | SPanic s => WPanic s
        | SFuel => WFuel
        | SNext cur' pi esc st vaf => shadow_walk_before_termfix rest cursor target cur' pi esc st vaf
        end
  end.

Definition start_walk_before_termfix (b : cmd) (args : list bytes) (arg_index : N) : walk :=
  let len := N.of_nat (length args) in
  let target := sat_add (N.min arg_index len) 1 in
  let cursor := if is_set s_no_binary_name b then 0 else 1 in
  shadow_walk_before_termfix (skipn (N.to_nat cursor) args) cursor target b 1 false ValueDone false.

Definition complete_model_before_termfix (tbl : pvtable) (c : cmd) (args : list bytes) (arg_index : N) : cres :=
  match build_full (build_fuel c) c with
  | BInvalid => CInvalid
  | BFuel => CFuel
  | BOk b => match start_walk_before_termfix b args arg_index with
             | WPanic s => CPanic s
             | WFuel => CFuel
             | WEnd => CErr
             | WAt arg cur pi st _ vaf => complete_arg_v tbl arg cur pi st vaf
             end
  end.

(** ** the loop BEFORE the repair of finding C18-require-equals (behind `--opt` / `-o` the engine always waited for a value, also
    when the option requires `=`; kept for the witness [require_equals_before_after]) *)
Definition shadow_step_before_reqfix (arg : bytes) (cur : cmd) (pos_index : N) (is_escaped : bool) (current_state : pstate)
           (valid_arg_found : bool) : step :=
  let positional :=
    match parse_positional cur pos_index is_escaped current_state arg with
    | Some (st, pi) => SNext cur pi is_escaped st true
    | None => SPanic 673
    end in
  (* like the real parser, a value of a pending option or of a positional that is still being
     filled is not a subcommand (fixes 689b619, c6f4cbc), and neither is a word that follows an argument of a
     command whose arguments conflict with subcommands *)
  let maybe_subcommand :=
    (is_set s_sub_precedence cur
     || negb (match current_state with Opt _ _ | Pos _ _ => true | ValueDone => false end))
    && negb (is_set s_args_negate_subs cur && valid_arg_found) in
  match (if maybe_subcommand && utf8_valid arg then find_subcommand cur arg else None) with
  | Some next_cmd => SNext next_cmd 1 is_escaped ValueDone false
  | None =>
      if is_escaped then positional
      else if is_escape arg then SNext cur pos_index true ValueDone valid_arg_found
      else if opt_allows_hyphen current_state arg then
        match current_state with
        | Opt o count => match parse_opt_value o count arg with
                         | Some st => SNext cur pos_index is_escaped st valid_arg_found
                         | None => SPanic 673 end
        | _ => SPanic 69
        end
      else
        match to_long arg with
        | Some (flag, flag_utf8, value) =>
            if flag_utf8 then
              match find_long_visible cur flag with
              | Some o =>
                  match a_num o with
                  | None => SPanic 84
                  | Some r => if r_takes_values r && is_none value
                              then SNext cur pos_index is_escaped (Opt o 1) true
                              else SNext cur pos_index is_escaped ValueDone true
                  end
              | None => if pos_allows_hyphen cur pos_index then positional
                        else SNext cur pos_index is_escaped ValueDone valid_arg_found
              end
            else SNext cur pos_index is_escaped ValueDone valid_arg_found
        | None =>
            match to_short arg with
            | Some short =>
                match parse_shortflags cur short with
                | SFPanic => SPanic 603
                | SFFuel => SFuel
                | SFOk _ (Some o) short' =>
                    if is_none (next_value_os short') then SNext cur pos_index is_escaped (Opt o 1) true
                    else SNext cur pos_index is_escaped ValueDone true
                | SFOk flags None _ =>
                    (* known flags stay flags even if the next positional allows hyphens (fix d4a15c6) *)
                    if utf8_valid arg && forallb (has_short cur) (decode flags)
                    then SNext cur pos_index is_escaped ValueDone true
                    else if pos_allows_hyphen cur pos_index then positional
                    else SNext cur pos_index is_escaped ValueDone valid_arg_found
                end
            | None =>
                match current_state with
                | Opt o count => match parse_opt_value o count arg with
                                 | Some st => SNext cur pos_index is_escaped st valid_arg_found
                                 | None => SPanic 673 end
                | _ => positional
                end
            end
        end
  end.

Fixpoint shadow_walk_before_reqfix (items : list bytes) (cursor target : N) (cur : cmd) (pos_index : N)
         (is_escaped : bool) (next_state : pstate) (valid_arg_found : bool) : walk :=
  match items with
  | [] => WEnd
  | arg :: rest =>
      let cursor := sat_add cursor 1 in
      if cursor =? target then WAt arg cur pos_index next_state is_escaped valid_arg_found
      else
        match shadow_step_before_reqfix arg cur pos_index is_escaped next_state valid_arg_found with
        | SPanic s => WPanic s
        | SFuel => WFuel
        | SNext cur' pi esc st vaf => shadow_walk_before_reqfix rest cursor target cur' pi esc st vaf
        end
  end.

Definition start_walk_before_reqfix (b : cmd) (args : list bytes) (arg_index : N) : walk :=
  let len := N.of_nat (length args) in
  let target := sat_add (N.min arg_index len) 1 in
  let cursor := if is_set s_no_binary_name b then 0 else 1 in
  shadow_walk_before_reqfix (skipn (N.to_nat cursor) args) cursor target b 1 false ValueDone false.

Definition complete_model_before_reqfix (tbl : pvtable) (c : cmd) (args : list bytes) (arg_index : N) : cres :=
  match build_full (build_fuel c) c with
  | BInvalid => CInvalid
  | BFuel => CFuel
  | BOk b => match start_walk_before_reqfix b args arg_index with
             | WPanic s => CPanic s
             | WFuel => CFuel
             | WEnd => CErr
             | WAt arg cur pi st _ vaf => complete_arg_v tbl arg cur pi st vaf
             end
  end.

(** The panic sites the model makes visible, per Rust function:
    (name, number of [unreachable!]-like macros, number of [expect]/[unwrap] calls).
    [complete]: [SPanic 69] and [SPanic 84]; [possible_values]: [CPanic 535]; [parse_shortflags]:
    [SFPanic] (603); [parse_opt_value]: [None] (673).  Compared with the table read off the source
    (Gen/EngineSites.v) in EngineProofs.sites_match. *)
Definition model_panic_sites : list (bytes * N * N) :=
  [ ([99; 111; 109; 112; 108; 101; 116; 101], 1, 1);
    ([112; 111; 115; 115; 105; 98; 108; 101; 95; 118; 97; 108; 117; 101; 115], 0, 1);
    ([112; 97; 114; 115; 101; 95; 115; 104; 111; 114; 116; 102; 108; 97; 103; 115], 0, 1);
    ([112; 97; 114; 115; 101; 95; 111; 112; 116; 95; 118; 97; 108; 117; 101], 0, 1) ].
