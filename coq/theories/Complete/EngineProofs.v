(** Proofs about the completion-engine model (property C18). *)
From ClapModel Require Import Base.Bytes Base.Machine Base.Utf8.
From ClapModel Require Import Parse.Cmd Parse.Build Parse.Valid Complete.EngineModel.
From Coq Require Import ZArith Lia.
From RecordUpdate Require Import RecordSet.
Import RecordSetNotations.
Open Scope N_scope.

