(** Proofs about the completion-engine model (property C18). *)
From ClapModel Require Import Base.Bytes Base.Machine Base.Utf8.
From ClapModel Require Import Parse.Cmd Parse.Build Parse.Valid Complete.EngineModel.
From Coq Require Import ZArith Lia Bool.
From RecordUpdate Require Import RecordSet.
Import RecordSetNotations.
Open Scope N_scope.

Ltac split_andb :=
  repeat match goal with
         | H : _ && _ = true |- _ => apply andb_prop in H; destruct H
         end.

(** * The built tree: every node passed [assert_app] *)
Inductive tree_all (P : cmd -> Prop) : cmd -> Prop :=
| tree_all_node c : P c -> Forall (tree_all P) (c_subs c) -> tree_all P c.

Inductive reach : cmd -> cmd -> Prop :=
| reach_refl c : reach c c
| reach_step c s d : In s (c_subs c) -> reach s d -> reach c d.

Lemma tree_all_here P c : tree_all P c -> P c.
Proof. intros H; inversion H; assumption. Qed.

Lemma tree_all_sub P c s : tree_all P c -> In s (c_subs c) -> tree_all P s.
Proof. intros H Hin. inversion H as [c' _ Hs]; subst. rewrite Forall_forall in Hs. auto. Qed.

Lemma tree_all_reach P c d : reach c d -> tree_all P c -> tree_all P d.
Proof. induction 1; intros Ht; [assumption|]. apply IHreach. eapply tree_all_sub; eauto. Qed.

Lemma reach_trans a b c : reach a b -> reach b c -> reach a c.
Proof. induction 1; intros; [assumption|]. econstructor; eauto. Qed.

Definition node_ok (c : cmd) : Prop := assert_app c = true.

Lemma c_subs_set_subs c l : c_subs (c <| c_subs := l |>) = l.
Proof. destruct c; reflexivity. Qed.
Lemma assert_app_c_args_set_subs c l : c_args (c <| c_subs := l |>) = c_args c.
Proof. destruct c; reflexivity. Qed.

(** what [assert_app] guarantees for the engine depends only on the arguments of the node *)
Definition args_ok (c : cmd) : Prop := forall a, In a (c_args c) -> assert_arg a = true.

Lemma assert_app_args_ok c : assert_app c = true -> args_ok c.
Proof.
  unfold assert_app. intros H a Ha. split_andb.
  match goal with
  | H : forallb _ (c_args c) = true |- _ => rewrite forallb_forall in H; specialize (H a Ha)
  end.
  split_andb. assumption.
Qed.

Lemma build_list_ok rec (IH : forall c b, rec c = BOk b -> tree_all args_ok b) :
  forall l subs, build_list rec l = Some (Some subs) -> Forall (tree_all args_ok) subs.
Proof.
  induction l as [|s t IHl]; intros subs Hs; cbn in Hs.
  - inversion Hs; constructor.
  - destruct (rec s) eqn:Hb; try discriminate.
    destruct (build_list rec t) as [[t'|]|] eqn:Ht; try discriminate.
    inversion Hs; subst. constructor; [eapply IH; eauto | apply IHl; reflexivity].
Qed.

Lemma build_node_ok rec (IH : forall c b, rec c = BOk b -> tree_all args_ok b) c1 b :
  build_node rec c1 = BOk b -> tree_all args_ok b.
Proof.
  unfold build_node. destruct (negb (assert_app c1)) eqn:Ha; [discriminate|].
  apply negb_false_iff in Ha.
  destruct (build_list rec (c_subs c1)) as [[subs|]|] eqn:Hs; try discriminate.
  intros H; inversion H; subst. constructor.
  - intros a Hin. rewrite assert_app_c_args_set_subs in Hin. eapply assert_app_args_ok; eauto.
  - rewrite c_subs_set_subs. eapply build_list_ok; eauto.
Qed.

(* conversion must unfold [build_full] (one iota step) before it looks into [build_node] *)
Local Strategy 100 [build_node build_self_x assert_app].
Lemma build_full_ok : forall f c b, build_full f c = BOk b -> tree_all args_ok b.
Proof.
  induction f as [|f IH]; intros c b H; [discriminate|].
  cbn [build_full] in H. eapply build_node_ok; eauto.
Qed.

Lemma assert_arg_num a : assert_arg a = true -> a_num a <> None.
Proof.
  unfold assert_arg. intros H. split_andb.
  destruct (a_num a); [discriminate|]. cbn in *. discriminate.
Qed.

Lemma args_ok_num c a : args_ok c -> In a (c_args c) -> a_num a <> None.
Proof. intros H Ha. apply assert_arg_num. auto. Qed.

(** * Totality *)

Lemma find_some_in {A} (f : A -> bool) l x : List.find f l = Some x -> In x l /\ f x = true.
Proof. apply find_some. Qed.

Lemma find_pos_in c i p : find_pos c i = Some p -> In p (c_args c).
Proof.
  unfold find_pos, positionals. intros H. apply find_some in H. destruct H as [H _].
  apply filter_In in H. tauto.
Qed.

Lemma find_short_visible_in c ch o : find_short_visible c ch = Some o -> In o (c_args c).
Proof. unfold find_short_visible. intros H. apply find_some in H. tauto. Qed.

Lemma find_long_visible_in c l o : find_long_visible c l = Some o -> In o (c_args c).
Proof. unfold find_long_visible. intros H. apply find_some in H. tauto. Qed.

Lemma possible_values_some tbl a : a_num a <> None -> possible_values tbl a <> None.
Proof.
  unfold possible_values. destruct (a_num a); [|tauto]. intros _.
  destruct (negb _); [discriminate|]. destruct (lookup_pv _ _); [discriminate|].
  destruct (a_vp a) as [[]|]; discriminate.
Qed.

Lemma complete_arg_value_some tbl v a : a_num a <> None -> complete_arg_value tbl v a <> None.
Proof.
  intros H. unfold complete_arg_value.
  destruct (match rsplit_delimiter v (a_delim a) with Some (p, v0) => (Some p, v0) | None => (None, v) end).
  pose proof (possible_values_some tbl a H). destruct (possible_values tbl a); [discriminate|tauto].
Qed.

(** [parse_shortflags]: no panic on a validated node, and the fuel always suffices *)
Lemma next_flag_shorter u f u' : next_flag u = Some (f, u') -> (length u' < length u)%nat.
Proof.
  unfold next_flag. destruct u as [|b t]; [discriminate|].
  destruct (utf8_step (b :: t)) as [[c n]|] eqn:E; intros H; inversion H; subst.
  - apply utf8_step_len in E. rewrite skipn_length. cbn [length] in *. lia.
  - cbn. lia.
Qed.

Lemma parse_shortflags_loop_safe c : args_ok c -> forall fuel short leading,
  (length short < fuel)%nat ->
  parse_shortflags_loop fuel c short leading <> SFPanic /\
  parse_shortflags_loop fuel c short leading <> SFFuel.
Proof.
  intros Hok. induction fuel as [|f IH]; intros short leading Hlen; [lia|].
  cbn [parse_shortflags_loop].
  destruct (next_flag short) as [[[ch|] short']|] eqn:E; try (split; discriminate).
  apply next_flag_shorter in E.
  destruct (find_short_visible c ch) as [o|] eqn:Eo.
  - pose proof (args_ok_num c o Hok (find_short_visible_in _ _ _ Eo)) as Hn.
    destruct (a_num o) as [r|]; [|tauto].
    destruct (r_takes_values r); [split; discriminate|]. apply IH. lia.
  - apply IH. lia.
Qed.

Lemma parse_shortflags_safe c short : args_ok c ->
  parse_shortflags c short <> SFPanic /\ parse_shortflags c short <> SFFuel.
Proof. intros H. apply parse_shortflags_loop_safe; [assumption|lia]. Qed.

Lemma parse_shortflags_loop_opt c : forall fuel short leading lead o rest,
  parse_shortflags_loop fuel c short leading = SFOk lead (Some o) rest -> In o (c_args c).
Proof.
  induction fuel as [|f IH]; intros short leading lead o rest H; [discriminate|].
  cbn [parse_shortflags_loop] in H.
  destruct (next_flag short) as [[[ch|] short']|]; try discriminate.
  destruct (find_short_visible c ch) as [o'|] eqn:Eo.
  - destruct (a_num o') as [r|]; [|discriminate].
    destruct (r_takes_values r).
    + inversion H; subst. eapply find_short_visible_in; eauto.
    + eapply IH; eauto.
  - eapply IH; eauto.
Qed.

(** the state invariant: an option awaiting values is an argument of a validated node *)
Definition st_ok (st : pstate) : Prop := match st with Opt o _ => a_num o <> None | _ => True end.

Definition is_cpanic (r : cres) : Prop := exists s, r = CPanic s.
Definition is_cfuel (r : cres) : Prop := r = CFuel.
Definition bad (r : cres) : Prop := is_cpanic r \/ is_cfuel r.

Lemma complete_option_good tbl w c : args_ok c -> ~ bad (complete_option tbl w c).
Proof.
  intros Hok. unfold bad, is_cpanic, is_cfuel, complete_option.
  destruct (is_empty w); [intros [[s H]|H]; discriminate|].
  destruct (is_stdio w); [intros [[s H]|H]; discriminate|].
  destruct (is_escape w); [intros [[s H]|H]; discriminate|].
  destruct (to_long w) as [[[flag u] value]|].
  - destruct u; [|intros [[s H]|H]; discriminate].
    destruct value as [v|]; [|intros [[s H]|H]; discriminate].
    destruct (List.find _ (c_args c)) as [a|] eqn:Ea; [|intros [[s H]|H]; discriminate].
    apply find_some in Ea. destruct Ea as [Ea _].
    pose proof (complete_arg_value_some tbl v a (args_ok_num _ _ Hok Ea)).
    destruct (complete_arg_value tbl v a); [intros [[s H']|H']; discriminate|tauto].
  - destruct (to_short w) as [short|]; [|intros [[s H]|H]; discriminate].
    destruct (negb (sf_is_negative_number short)); [|intros [[s H]|H]; discriminate].
    destruct (parse_shortflags_safe c short Hok) as [Hp Hf].
    destruct (parse_shortflags c short) as [| |leading [o|] short'] eqn:E; try tauto.
    + unfold parse_shortflags in E. apply parse_shortflags_loop_opt in E.
      destruct (match next_flag short' with
                | Some (FOk ch, s2) => if ch =? EQ then (true, s2) else (false, short')
                | _ => (false, short') end) as [he s2].
      pose proof (complete_arg_value_some tbl (match next_value_os s2 with Some v => v | None => [] end) o
                    (args_ok_num _ _ Hok E)).
      destruct (complete_arg_value tbl _ o); [intros [[s H']|H']; discriminate|tauto].
    + destruct (utf8_valid w); intros [[s H]|H]; discriminate.
Qed.

Lemma cbind_good r f : ~ bad r -> (forall l, ~ bad (f l)) -> ~ bad (cbind r f).
Proof. intros Hr Hf. destruct r; cbn; auto. Qed.

Lemma of_opt_good s o : o <> None -> ~ bad (of_opt s o).
Proof. destruct o; [|tauto]. intros _ [[x H]|H]; discriminate. Qed.

Lemma cok_good l : ~ bad (COk l).
Proof. intros [[x H]|H]; discriminate. Qed.

Lemma complete_arg_value_done_good tbl w c pi : args_ok c -> ~ bad (complete_arg_value_done tbl w c pi).
Proof.
  intros Hok. unfold complete_arg_value_done. apply cbind_good.
  - destruct (find_pos c pi) as [p|] eqn:E; [|apply cok_good].
    apply of_opt_good. apply complete_arg_value_some. eapply args_ok_num; eauto. eapply find_pos_in; eauto.
  - intros posv. apply cbind_good; [apply complete_option_good; assumption|]. intros; apply cok_good.
Qed.

Lemma complete_arg_good tbl w c pi st : args_ok c -> st_ok st -> ~ bad (complete_arg tbl w c pi st).
Proof.
  intros Hok Hst. destruct st as [|idx cnt|o cnt]; cbn [complete_arg].
  - apply complete_arg_value_done_good; assumption.
  - destruct (find_pos c pi) as [p|] eqn:E; [|apply cok_good].
    apply cbind_good.
    + apply of_opt_good. apply complete_arg_value_some. eapply args_ok_num; eauto. eapply find_pos_in; eauto.
    + intros posv. apply cbind_good; [|intros; apply cok_good].
      destruct (match a_num p with Some r => vmin r <=? cnt | None => false end);
        [apply complete_option_good; assumption|apply cok_good].
  - apply cbind_good.
    + apply of_opt_good. apply complete_arg_value_some. exact Hst.
    + intros optv. apply cbind_good; [|intros; apply cok_good].
      destruct (_ <? cnt); [apply complete_arg_value_done_good; assumption|apply cok_good].
Qed.

Lemma parse_opt_value_ok o count : a_num o <> None ->
  exists st, parse_opt_value o count = Some st /\ st_ok st.
Proof.
  unfold parse_opt_value. intros H. destruct (a_num o) as [r|] eqn:E; [|tauto].
  eexists; split; [reflexivity|]. destruct (count <? vmax r); cbn; [rewrite E; discriminate|exact I].
Qed.

Lemma parse_positional_ok c pi esc st : st_ok st ->
  exists st' pi', parse_positional c pi esc st = Some (st', pi') /\ st_ok st'.
Proof.
  intros Hst. unfold parse_positional.
  set (na := match find_pos c pi with Some a => match a_num a with Some r => vmax r | None => 1 end | None => 1 end).
  destruct st as [|p n|o cnt].
  - destruct (1 <? na); [|destruct esc]; do 2 eexists; split; try reflexivity; exact I.
  - destruct (p =? pi).
    + destruct (n + 1 <? na); [|destruct esc]; do 2 eexists; split; try reflexivity; exact I.
    + destruct (1 <? na); [|destruct esc]; do 2 eexists; split; try reflexivity; exact I.
  - destruct (parse_opt_value_ok o cnt Hst) as [st' [E Hs]]. rewrite E. do 2 eexists; split; [reflexivity|exact Hs].
Qed.

(** one step of the shadow parse: no panic, no fuel exhaustion; the next node is the same or a
    subcommand; the state invariant is kept *)
Lemma shadow_step_ok w cur pi esc st : args_ok cur -> st_ok st ->
  exists cur' pi' esc' st', shadow_step w cur pi esc st = SNext cur' pi' esc' st' /\
    (cur' = cur \/ In cur' (c_subs cur)) /\ st_ok st'.
Proof.
  intros Hok Hst. unfold shadow_step.
  destruct (parse_positional_ok cur pi esc st Hst) as [stp [pip [Ep Hp]]]. rewrite Ep.
  destruct (if _ && utf8_valid w then find_subcommand cur w else None) as [nc|] eqn:Es.
  { do 4 eexists. split; [reflexivity|]. split; [|exact I]. right.
    destruct (_ && utf8_valid w); [|discriminate]. unfold find_subcommand in Es.
    apply find_some in Es. tauto. }
  destruct esc. { do 4 eexists; split; [reflexivity|]; split; [left; reflexivity|assumption]. }
  destruct (is_escape w). { do 4 eexists; split; [reflexivity|]; split; [left; reflexivity|exact I]. }
  destruct (opt_allows_hyphen st w) eqn:Eh.
  { destruct st as [|p n|o cnt];
      try (unfold opt_allows_hyphen in Eh; destruct w as [|b t]; [discriminate|];
           rewrite andb_false_r in Eh; discriminate).
    destruct (parse_opt_value_ok o cnt Hst) as [st' [E Hs]]. rewrite E.
    do 4 eexists; split; [reflexivity|]; split; [left; reflexivity|assumption]. }
  destruct (to_long w) as [[[flag u] value]|].
  { destruct u; [|do 4 eexists; split; [reflexivity|]; split; [left; reflexivity|exact I]].
    destruct (find_long_visible cur flag) as [o|] eqn:Eo.
    - pose proof (args_ok_num _ _ Hok (find_long_visible_in _ _ _ Eo)) as Hn.
      destruct (a_num o) as [r|] eqn:En; [|tauto].
      destruct (r_takes_values r && is_none value);
        do 4 eexists; (split; [reflexivity|]); (split; [left; reflexivity|]); cbn; try exact I.
      rewrite En; discriminate.
    - destruct (pos_allows_hyphen cur pi);
        do 4 eexists; (split; [reflexivity|]); (split; [left; reflexivity|]); [assumption|exact I]. }
  destruct (to_short w) as [short|].
  { destruct (parse_shortflags_safe cur short Hok) as [Hpn Hfn].
    destruct (parse_shortflags cur short) as [| |leading [o|] short'] eqn:E; try tauto.
    - unfold parse_shortflags in E. apply parse_shortflags_loop_opt in E.
      pose proof (args_ok_num _ _ Hok E) as Hn.
      destruct (is_none (next_value_os short'));
        do 4 eexists; (split; [reflexivity|]); (split; [left; reflexivity|]); cbn; try exact I. assumption.
    - destruct (utf8_valid w && forallb (has_short cur) (decode leading)).
      { do 4 eexists; split; [reflexivity|]; split; [left; reflexivity|exact I]. }
      destruct (pos_allows_hyphen cur pi);
        do 4 eexists; (split; [reflexivity|]); (split; [left; reflexivity|]); [assumption|exact I]. }
  destruct st as [|p n|o cnt].
  - do 4 eexists; split; [reflexivity|]; split; [left; reflexivity|assumption].
  - do 4 eexists; split; [reflexivity|]; split; [left; reflexivity|assumption].
  - destruct (parse_opt_value_ok o cnt Hst) as [st' [E Hs]]. rewrite E.
    do 4 eexists; split; [reflexivity|]; split; [left; reflexivity|assumption].
Qed.

(** the walk: ends, or stands at a node reachable from the start with a good state *)
Lemma shadow_walk_ok : forall items cursor target cur pi esc st,
  tree_all args_ok cur -> st_ok st ->
  shadow_walk items cursor target cur pi esc st = WEnd \/
  exists w cur' pi' st' esc', shadow_walk items cursor target cur pi esc st = WAt w cur' pi' st' esc' /\
    reach cur cur' /\ st_ok st'.
Proof.
  induction items as [|w rest IH]; intros cursor target cur pi esc st Ht Hst; cbn [shadow_walk].
  - left; reflexivity.
  - destruct (sat_add cursor 1 =? target).
    + right. do 5 eexists. split; [reflexivity|]. split; [constructor|assumption].
    + destruct (shadow_step_ok w cur pi esc st (tree_all_here _ _ Ht) Hst)
        as [cur' [pi' [esc' [st' [E [Hc Hs]]]]]].
      rewrite E.
      assert (Ht' : tree_all args_ok cur') by (destruct Hc as [->|Hin]; [assumption|eapply tree_all_sub; eauto]).
      destruct (IH (sat_add cursor 1) target cur' pi' esc' st' Ht' Hs) as [H|[w' [c2 [p2 [s2 [e2 [H [Hr Hs2]]]]]]]].
      * left; assumption.
      * right. do 5 eexists. split; [exact H|]. split; [|assumption].
        destruct Hc as [->|Hin]; [assumption|econstructor; eauto].
Qed.

Lemma complete_built_good tbl b args i : tree_all args_ok b -> ~ bad (complete_built tbl b args i).
Proof.
  intros Ht. unfold complete_built, start_walk.
  destruct (shadow_walk_ok
     (skipn (N.to_nat (if is_set s_no_binary_name b then 0 else 1)) args)
     (if is_set s_no_binary_name b then 0 else 1)
     (sat_add (N.min i (N.of_nat (length args))) 1) b 1 false ValueDone Ht I)
    as [H|[w [c [p [s [e [H [Hr Hs]]]]]]]];
    rewrite H.
  - intros [[x Hx]|Hx]; discriminate.
  - apply complete_arg_good; [|assumption]. apply (tree_all_here args_ok). eapply tree_all_reach; eauto.
Qed.

(** C18_total *)
Theorem total : forall tbl c args i site, complete_model tbl c args i <> CPanic site.
Proof.
  intros tbl c args i site. unfold complete_model.
  destruct (build_full (build_fuel c) c) eqn:E; try discriminate.
  intros H. apply (complete_built_good tbl c0 args i (build_full_ok _ _ _ E)). left. eexists; eauto.
Qed.

(** the only fuel is that of [build_full]: the engine proper never runs out *)
Theorem built_no_fuel : forall tbl f c b args i,
  build_full f c = BOk b -> complete_built tbl b args i <> CFuel.
Proof.
  intros tbl f c b args i E H.
  apply (complete_built_good tbl b args i (build_full_ok _ _ _ E)). right. exact H.
Qed.
