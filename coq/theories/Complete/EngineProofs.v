(** Proofs about the completion-engine model (property C18). *)
From ClapModel Require Import Base.Bytes Base.Machine Base.Utf8.
From ClapModel Require Import Parse.Cmd Parse.Build Parse.Valid Complete.EngineModel.
From Coq Require Import ZArith Lia Bool.
From RecordUpdate Require Import RecordSet.
Import RecordSetNotations.
Open Scope N_scope.

Ltac split_andb :=
  repeat match goal with
         | H : _ && _ = true |- _ => apply andb_prop in H; destruct H
         end.

(** * The built tree: every node passed [assert_app] *)
Inductive tree_all (P : cmd -> Prop) : cmd -> Prop :=
| tree_all_node c : P c -> Forall (tree_all P) (c_subs c) -> tree_all P c.

Inductive reach : cmd -> cmd -> Prop :=
| reach_refl c : reach c c
| reach_step c s d : In s (c_subs c) -> reach s d -> reach c d.

Lemma tree_all_here P c : tree_all P c -> P c.
Proof. intros H; inversion H; assumption. Qed.

Lemma tree_all_sub P c s : tree_all P c -> In s (c_subs c) -> tree_all P s.
Proof. intros H Hin. inversion H as [c' _ Hs]; subst. rewrite Forall_forall in Hs. auto. Qed.

Lemma tree_all_reach P c d : reach c d -> tree_all P c -> tree_all P d.
Proof. induction 1; intros Ht; [assumption|]. apply IHreach. eapply tree_all_sub; eauto. Qed.

Lemma reach_trans a b c : reach a b -> reach b c -> reach a c.
Proof. induction 1; intros; [assumption|]. econstructor; eauto. Qed.

Definition node_ok (c : cmd) : Prop := assert_app c = true.

Lemma c_subs_set_subs c l : c_subs (c <| c_subs := l |>) = l.
Proof. destruct c; reflexivity. Qed.
Lemma assert_app_c_args_set_subs c l : c_args (c <| c_subs := l |>) = c_args c.
Proof. destruct c; reflexivity. Qed.

(** what [assert_app] guarantees for the engine depends only on the arguments of the node *)
Definition args_ok (c : cmd) : Prop := forall a, In a (c_args c) -> assert_arg a = true.

Lemma assert_app_args_ok c : assert_app c = true -> args_ok c.
Proof.
  unfold assert_app. intros H a Ha. split_andb.
  match goal with
  | H : forallb _ (c_args c) = true |- _ => rewrite forallb_forall in H; specialize (H a Ha)
  end.
  split_andb. assumption.
Qed.

Lemma build_list_ok rec (IH : forall c b, rec c = BOk b -> tree_all args_ok b) :
  forall l subs, build_list rec l = Some (Some subs) -> Forall (tree_all args_ok) subs.
Proof.
  induction l as [|s t IHl]; intros subs Hs; cbn in Hs.
  - inversion Hs; constructor.
  - destruct (rec s) eqn:Hb; try discriminate.
    destruct (build_list rec t) as [[t'|]|] eqn:Ht; try discriminate.
    inversion Hs; subst. constructor; [eapply IH; eauto | apply IHl; reflexivity].
Qed.

Lemma build_node_ok rec (IH : forall c b, rec c = BOk b -> tree_all args_ok b) c1 b :
  build_node rec c1 = BOk b -> tree_all args_ok b.
Proof.
  unfold build_node. destruct (negb (assert_app c1)) eqn:Ha; [discriminate|].
  apply negb_false_iff in Ha.
  destruct (build_list rec (c_subs c1)) as [[subs|]|] eqn:Hs; try discriminate.
  intros H; inversion H; subst. constructor.
  - intros a Hin. rewrite assert_app_c_args_set_subs in Hin. eapply assert_app_args_ok; eauto.
  - rewrite c_subs_set_subs. eapply build_list_ok; eauto.
Qed.

(* conversion must unfold [build_full] (one iota step) before it looks into [build_node] *)
Local Strategy 100 [build_node build_self_x assert_app].
Lemma build_full_ok : forall f c b, build_full f c = BOk b -> tree_all args_ok b.
Proof.
  induction f as [|f IH]; intros c b H; [discriminate|].
  cbn [build_full] in H. eapply build_node_ok; eauto.
Qed.

Lemma assert_arg_num a : assert_arg a = true -> a_num a <> None.
Proof.
  unfold assert_arg. intros H. split_andb.
  destruct (a_num a); [discriminate|]. cbn in *. discriminate.
Qed.

Lemma args_ok_num c a : args_ok c -> In a (c_args c) -> a_num a <> None.
Proof. intros H Ha. apply assert_arg_num. auto. Qed.

(** * Totality *)

Lemma find_some_in {A} (f : A -> bool) l x : List.find f l = Some x -> In x l /\ f x = true.
Proof. apply find_some. Qed.

Lemma find_pos_in c i p : find_pos c i = Some p -> In p (c_args c).
Proof.
  unfold find_pos, positionals. intros H. apply find_some in H. destruct H as [H _].
  apply filter_In in H. tauto.
Qed.

Lemma find_short_visible_in c ch o : find_short_visible c ch = Some o -> In o (c_args c).
Proof. unfold find_short_visible. intros H. apply find_some in H. tauto. Qed.

Lemma find_long_visible_in c l o : find_long_visible c l = Some o -> In o (c_args c).
Proof. unfold find_long_visible. intros H. apply find_some in H. tauto. Qed.

Lemma possible_values_some tbl a : a_num a <> None -> possible_values tbl a <> None.
Proof.
  unfold possible_values. destruct (a_num a); [|tauto]. intros _.
  destruct (negb _); [discriminate|]. destruct (lookup_pv _ _); [discriminate|].
  destruct (a_vp a) as [[]|]; discriminate.
Qed.

Lemma complete_arg_value_some tbl v a : a_num a <> None -> complete_arg_value tbl v a <> None.
Proof.
  intros H. unfold complete_arg_value.
  destruct (match rsplit_delimiter v (a_delim a) with Some (p, v0) => (Some p, v0) | None => (None, v) end).
  pose proof (possible_values_some tbl a H). destruct (possible_values tbl a); [discriminate|tauto].
Qed.

(** [parse_shortflags]: no panic on a validated node, and the fuel always suffices *)
Lemma next_flag_shorter u f u' : next_flag u = Some (f, u') -> (length u' < length u)%nat.
Proof.
  unfold next_flag. destruct u as [|b t]; [discriminate|].
  destruct (utf8_step (b :: t)) as [[c n]|] eqn:E; intros H; inversion H; subst.
  - apply utf8_step_len in E. rewrite skipn_length. cbn [length] in *. lia.
  - cbn. lia.
Qed.

Lemma parse_shortflags_loop_safe c : args_ok c -> forall fuel short leading,
  (length short < fuel)%nat ->
  parse_shortflags_loop fuel c short leading <> SFPanic /\
  parse_shortflags_loop fuel c short leading <> SFFuel.
Proof.
  intros Hok. induction fuel as [|f IH]; intros short leading Hlen; [lia|].
  cbn [parse_shortflags_loop].
  destruct (next_flag short) as [[[ch|] short']|] eqn:E; try (split; discriminate).
  apply next_flag_shorter in E.
  destruct (find_short_visible c ch) as [o|] eqn:Eo.
  - pose proof (args_ok_num c o Hok (find_short_visible_in _ _ _ Eo)) as Hn.
    destruct (a_num o) as [r|]; [|tauto].
    destruct (r_takes_values r); [split; discriminate|]. apply IH. lia.
  - apply IH. lia.
Qed.

Lemma parse_shortflags_safe c short : args_ok c ->
  parse_shortflags c short <> SFPanic /\ parse_shortflags c short <> SFFuel.
Proof. intros H. apply parse_shortflags_loop_safe; [assumption|lia]. Qed.

Lemma parse_shortflags_loop_opt c : forall fuel short leading lead o rest,
  parse_shortflags_loop fuel c short leading = SFOk lead (Some o) rest -> In o (c_args c).
Proof.
  induction fuel as [|f IH]; intros short leading lead o rest H; [discriminate|].
  cbn [parse_shortflags_loop] in H.
  destruct (next_flag short) as [[[ch|] short']|]; try discriminate.
  destruct (find_short_visible c ch) as [o'|] eqn:Eo.
  - destruct (a_num o') as [r|]; [|discriminate].
    destruct (r_takes_values r).
    + inversion H; subst. eapply find_short_visible_in; eauto.
    + eapply IH; eauto.
  - eapply IH; eauto.
Qed.

(** the state invariant: an option awaiting values is an argument of a validated node *)
Definition st_ok (st : pstate) : Prop := match st with Opt o _ => a_num o <> None | _ => True end.

Definition is_cpanic (r : cres) : Prop := exists s, r = CPanic s.
Definition is_cfuel (r : cres) : Prop := r = CFuel.
Definition bad (r : cres) : Prop := is_cpanic r \/ is_cfuel r.

Lemma complete_option_good tbl w c : args_ok c -> ~ bad (complete_option tbl w c).
Proof.
  intros Hok. unfold bad, is_cpanic, is_cfuel, complete_option.
  destruct (is_empty w); [intros [[s H]|H]; discriminate|].
  destruct (is_stdio w); [intros [[s H]|H]; discriminate|].
  destruct (is_escape w); [intros [[s H]|H]; discriminate|].
  destruct (to_long w) as [[[flag u] value]|].
  - destruct u; [|intros [[s H]|H]; discriminate].
    destruct value as [v|]; [|intros [[s H]|H]; discriminate].
    destruct (List.find _ (c_args c)) as [a|] eqn:Ea; [|intros [[s H]|H]; discriminate].
    apply find_some in Ea. destruct Ea as [Ea _].
    pose proof (complete_arg_value_some tbl v a (args_ok_num _ _ Hok Ea)).
    destruct (complete_arg_value tbl v a); [intros [[s H']|H']; discriminate|tauto].
  - destruct (to_short w) as [short|]; [|intros [[s H]|H]; discriminate].
    destruct (negb (sf_is_negative_number short)); [|intros [[s H]|H]; discriminate].
    destruct (parse_shortflags_safe c short Hok) as [Hp Hf].
    destruct (parse_shortflags c short) as [| |leading [o|] short'] eqn:E; try tauto.
    + unfold parse_shortflags in E. apply parse_shortflags_loop_opt in E.
      destruct (match next_flag short' with
                | Some (FOk ch, s2) => if ch =? EQ then (true, s2) else (false, short')
                | _ => (false, short') end) as [he s2].
      pose proof (complete_arg_value_some tbl (match next_value_os s2 with Some v => v | None => [] end) o
                    (args_ok_num _ _ Hok E)).
      destruct (complete_arg_value tbl _ o); [intros [[s H']|H']; discriminate|tauto].
    + destruct (utf8_valid w); intros [[s H]|H]; discriminate.
Qed.

Lemma cbind_good r f : ~ bad r -> (forall l, ~ bad (f l)) -> ~ bad (cbind r f).
Proof. intros Hr Hf. destruct r; cbn; auto. Qed.

Lemma of_opt_good s o : o <> None -> ~ bad (of_opt s o).
Proof. destruct o; [|tauto]. intros _ [[x H]|H]; discriminate. Qed.

Lemma cok_good l : ~ bad (COk l).
Proof. intros [[x H]|H]; discriminate. Qed.

Lemma complete_arg_value_done_good tbl w c pi : args_ok c -> ~ bad (complete_arg_value_done tbl w c pi).
Proof.
  intros Hok. unfold complete_arg_value_done. apply cbind_good.
  - destruct (find_pos c pi) as [p|] eqn:E; [|apply cok_good].
    apply of_opt_good. apply complete_arg_value_some. eapply args_ok_num; eauto. eapply find_pos_in; eauto.
  - intros posv. apply cbind_good; [apply complete_option_good; assumption|]. intros; apply cok_good.
Qed.

Lemma complete_arg_good tbl w c pi st : args_ok c -> st_ok st -> ~ bad (complete_arg tbl w c pi st).
Proof.
  intros Hok Hst. destruct st as [|idx cnt|o cnt]; cbn [complete_arg].
  - apply complete_arg_value_done_good; assumption.
  - destruct (find_pos c pi) as [p|] eqn:E; [|apply cok_good].
    apply cbind_good.
    + apply of_opt_good. apply complete_arg_value_some. eapply args_ok_num; eauto. eapply find_pos_in; eauto.
    + intros posv. apply cbind_good; [|intros; apply cok_good].
      destruct (match a_num p with Some r => vmin r <=? cnt | None => false end);
        [apply complete_option_good; assumption|apply cok_good].
  - apply cbind_good.
    + apply of_opt_good. apply complete_arg_value_some. exact Hst.
    + intros optv. apply cbind_good; [|intros; apply cok_good].
      destruct (_ <? cnt); [apply complete_arg_value_done_good; assumption|apply cok_good].
Qed.

Lemma parse_opt_value_ok o count w : a_num o <> None ->
  exists st, parse_opt_value o count w = Some st /\ st_ok st.
Proof.
  unfold parse_opt_value. intros H. destruct (is_value_terminator o w).
  { eexists; split; [reflexivity|exact I]. }
  destruct (a_num o) as [r|] eqn:E; [|tauto].
  eexists; split; [reflexivity|]. destruct (count <? vmax r); cbn; [rewrite E; discriminate|exact I].
Qed.

Lemma parse_positional_ok c pi esc st w : st_ok st ->
  exists st' pi', parse_positional c pi esc st w = Some (st', pi') /\ st_ok st'.
Proof.
  intros Hst. unfold parse_positional.
  destruct (negb _ && _).
  { destruct esc; do 2 eexists; split; try reflexivity; exact I. }
  set (na := match find_pos c pi with
             | Some a => match a_get_action a with
                         | AAppend => usize_max
                         | _ => match a_num a with Some r => vmax r | None => 1 end
                         end
             | None => 1 end).
  destruct st as [|p n|o cnt].
  - destruct (1 <? na); [|destruct esc]; do 2 eexists; split; try reflexivity; exact I.
  - destruct (p =? pi).
    + destruct (n + 1 <? na); [|destruct esc]; do 2 eexists; split; try reflexivity; exact I.
    + destruct (1 <? na); [|destruct esc]; do 2 eexists; split; try reflexivity; exact I.
  - destruct (parse_opt_value_ok o cnt w Hst) as [st' [E Hs]]. rewrite E. do 2 eexists; split; [reflexivity|exact Hs].
Qed.

(** one step of the shadow parse: no panic, no fuel exhaustion; the next node is the same or a
    subcommand; the state invariant is kept *)
Lemma shadow_step_ok w cur pi esc st vaf : args_ok cur -> st_ok st ->
  exists cur' pi' esc' st' vaf', shadow_step w cur pi esc st vaf = SNext cur' pi' esc' st' vaf' /\
    (cur' = cur \/ In cur' (c_subs cur)) /\ st_ok st'.
Proof.
  intros Hok Hst. unfold shadow_step.
  destruct (parse_positional_ok cur pi esc st w Hst) as [stp [pip [Ep Hp]]]. rewrite Ep.
  destruct (if _ && utf8_valid w then find_subcommand cur w else None) as [nc|] eqn:Es.
  { do 5 eexists. split; [reflexivity|]. split; [|exact I]. right.
    destruct (_ && utf8_valid w); [|discriminate]. unfold find_subcommand in Es.
    apply find_some in Es. tauto. }
  destruct esc. { do 5 eexists; split; [reflexivity|]; split; [left; reflexivity|assumption]. }
  destruct (is_escape w). { do 5 eexists; split; [reflexivity|]; split; [left; reflexivity|exact I]. }
  destruct (opt_allows_hyphen st w) eqn:Eh.
  { destruct st as [|p n|o cnt];
      try (unfold opt_allows_hyphen in Eh; destruct w as [|b t]; [discriminate|];
           rewrite andb_false_r in Eh; discriminate).
    destruct (parse_opt_value_ok o cnt w Hst) as [st' [E Hs]]. rewrite E.
    do 5 eexists; split; [reflexivity|]; split; [left; reflexivity|assumption]. }
  destruct (to_long w) as [[[flag u] value]|].
  { destruct u; [|do 5 eexists; split; [reflexivity|]; split; [left; reflexivity|exact I]].
    destruct (find_long_visible cur flag) as [o|] eqn:Eo.
    - pose proof (args_ok_num _ _ Hok (find_long_visible_in _ _ _ Eo)) as Hn.
      destruct (a_num o) as [r|] eqn:En; [|tauto].
      destruct (r_takes_values r && is_none value && negb (a_req_eq o));
        do 5 eexists; (split; [reflexivity|]); (split; [left; reflexivity|]); cbn; try exact I.
      rewrite En; discriminate.
    - destruct (pos_allows_hyphen cur pi);
        do 5 eexists; (split; [reflexivity|]); (split; [left; reflexivity|]); [assumption|exact I]. }
  destruct (to_short w) as [short|].
  { destruct (parse_shortflags_safe cur short Hok) as [Hpn Hfn].
    destruct (parse_shortflags cur short) as [| |leading [o|] short'] eqn:E; try tauto.
    - unfold parse_shortflags in E. apply parse_shortflags_loop_opt in E.
      pose proof (args_ok_num _ _ Hok E) as Hn.
      destruct (is_none (next_value_os short') && negb (a_req_eq o));
        do 5 eexists; (split; [reflexivity|]); (split; [left; reflexivity|]); cbn; try exact I. assumption.
    - destruct (utf8_valid w && forallb (has_short cur) (decode leading)).
      { do 5 eexists; split; [reflexivity|]; split; [left; reflexivity|exact I]. }
      destruct (pos_allows_hyphen cur pi);
        do 5 eexists; (split; [reflexivity|]); (split; [left; reflexivity|]); [assumption|exact I]. }
  destruct st as [|p n|o cnt].
  - do 5 eexists; split; [reflexivity|]; split; [left; reflexivity|assumption].
  - do 5 eexists; split; [reflexivity|]; split; [left; reflexivity|assumption].
  - destruct (parse_opt_value_ok o cnt w Hst) as [st' [E Hs]]. rewrite E.
    do 5 eexists; split; [reflexivity|]; split; [left; reflexivity|assumption].
Qed.

(** the walk: ends, or stands at a node reachable from the start with a good state *)
Lemma shadow_walk_ok : forall items cursor target cur pi esc st vaf,
  tree_all args_ok cur -> st_ok st ->
  shadow_walk items cursor target cur pi esc st vaf = WEnd \/
  exists w cur' pi' st' esc' vaf', shadow_walk items cursor target cur pi esc st vaf = WAt w cur' pi' st' esc' vaf' /\
    reach cur cur' /\ st_ok st'.
Proof.
  induction items as [|w rest IH]; intros cursor target cur pi esc st vaf Ht Hst; cbn [shadow_walk].
  - left; reflexivity.
  - destruct (sat_add cursor 1 =? target).
    + right. do 6 eexists. split; [reflexivity|]. split; [constructor|assumption].
    + destruct (shadow_step_ok w cur pi esc st vaf (tree_all_here _ _ Ht) Hst)
        as [cur' [pi' [esc' [st' [vaf' [E [Hc Hs]]]]]]].
      rewrite E.
      assert (Ht' : tree_all args_ok cur') by (destruct Hc as [->|Hin]; [assumption|eapply tree_all_sub; eauto]).
      destruct (IH (sat_add cursor 1) target cur' pi' esc' st' vaf' Ht' Hs) as [H|[w' [c2 [p2 [s2 [e2 [v2 [H [Hr Hs2]]]]]]]]].
      * left; assumption.
      * right. do 6 eexists. split; [exact H|]. split; [|assumption].
        destruct Hc as [->|Hin]; [assumption|econstructor; eauto].
Qed.

(** ** [complete_arg_v] (with [valid_arg_found]) through [complete_arg]: behind an argument of a command whose arguments
    conflict with subcommands the candidates are those of the same command WITHOUT subcommands - everything else of
    [complete_arg] reads the arguments of the command only *)
Definition sub_cut (c : cmd) (vaf : bool) : cmd :=
  if is_set s_args_negate_subs c && vaf then c <| c_subs := [] |> else c.

Lemma sub_cut_args c vaf : c_args (sub_cut c vaf) = c_args c.
Proof. unfold sub_cut. destruct (is_set s_args_negate_subs c && vaf); [destruct c; reflexivity|reflexivity]. Qed.

Lemma parse_shortflags_loop_args c c' : c_args c = c_args c' -> forall fuel short leading,
  parse_shortflags_loop fuel c short leading = parse_shortflags_loop fuel c' short leading.
Proof.
  intros Ha. induction fuel as [|f IH]; intros short leading; [reflexivity|]. cbn [parse_shortflags_loop].
  destruct (next_flag short) as [[[ch|] short']|]; try reflexivity.
  unfold find_short_visible. rewrite Ha.
  destruct (List.find _ (c_args c')) as [o|]; [|apply IH].
  destruct (a_num o) as [r|]; [|reflexivity]. destruct (r_takes_values r); [reflexivity|apply IH].
Qed.

Lemma complete_option_args tbl w c c' : c_args c = c_args c' -> complete_option tbl w c = complete_option tbl w c'.
Proof.
  intros Ha. unfold complete_option, longs_and_visible_aliases, hidden_longs_aliases, shorts_and_visible_aliases. rewrite Ha.
  destruct (is_empty w); [reflexivity|]. destruct (is_stdio w); [reflexivity|]. destruct (is_escape w); [reflexivity|].
  destruct (to_long w) as [[[flag u] value]|]; [reflexivity|].
  destruct (to_short w) as [short|]; [|reflexivity].
  unfold parse_shortflags. rewrite (parse_shortflags_loop_args c c' Ha). reflexivity.
Qed.

Lemma find_pos_args_eq c c' i : c_args c = c_args c' -> find_pos c i = find_pos c' i.
Proof. unfold find_pos, positionals. intros ->. reflexivity. Qed.

Lemma complete_subcommand_nosubs w c : c_subs c = [] -> complete_subcommand w c = [].
Proof. intros H. unfold complete_subcommand, subcommands. rewrite H. reflexivity. Qed.

Lemma value_done_v_cut tbl w c pi vaf :
  complete_arg_value_done_v tbl w c pi vaf = complete_arg_value_done tbl w (sub_cut c vaf) pi.
Proof.
  unfold complete_arg_value_done_v, complete_arg_value_done.
  rewrite (find_pos_args_eq (sub_cut c vaf) c pi (sub_cut_args c vaf)),
          (complete_option_args tbl w (sub_cut c vaf) c (sub_cut_args c vaf)).
  unfold sub_cut. destruct (is_set s_args_negate_subs c && vaf); cbn [negb].
  - rewrite andb_false_r, (complete_subcommand_nosubs w (c <| c_subs := [] |>)) by (destruct c; reflexivity).
    destruct (utf8_valid w); reflexivity.
  - rewrite andb_true_r. reflexivity.
Qed.

Theorem complete_arg_v_cut tbl w c pi st vaf : complete_arg_v tbl w c pi st vaf = complete_arg tbl w (sub_cut c vaf) pi st.
Proof.
  destruct st as [|idx cnt|o cnt]; cbn [complete_arg_v complete_arg].
  - apply value_done_v_cut.
  - rewrite (find_pos_args_eq (sub_cut c vaf) c pi (sub_cut_args c vaf)),
            (complete_option_args tbl w (sub_cut c vaf) c (sub_cut_args c vaf)). reflexivity.
  - rewrite value_done_v_cut. reflexivity.
Qed.

Lemma sub_cut_args_ok c vaf : args_ok c -> args_ok (sub_cut c vaf).
Proof. unfold args_ok. rewrite sub_cut_args. auto. Qed.

Lemma sub_cut_subs c vaf sc : In sc (c_subs (sub_cut c vaf)) -> In sc (c_subs c).
Proof. unfold sub_cut. destruct (is_set s_args_negate_subs c && vaf); [destruct c; intros []|auto]. Qed.

Lemma complete_built_good tbl b args i : tree_all args_ok b -> ~ bad (complete_built tbl b args i).
Proof.
  intros Ht. unfold complete_built, start_walk.
  destruct (shadow_walk_ok
     (skipn (N.to_nat (if is_set s_no_binary_name b then 0 else 1)) args)
     (if is_set s_no_binary_name b then 0 else 1)
     (sat_add (N.min i (N.of_nat (length args))) 1) b 1 false ValueDone false Ht I)
    as [H|[w [c [p [s [e [v [H [Hr Hs]]]]]]]]];
    rewrite H.
  - intros [[x Hx]|Hx]; discriminate.
  - rewrite complete_arg_v_cut. apply complete_arg_good; [|assumption].
    apply sub_cut_args_ok. apply (tree_all_here args_ok). eapply tree_all_reach; eauto.
Qed.

(** C18_total *)
Theorem total : forall tbl c args i site, complete_model tbl c args i <> CPanic site.
Proof.
  intros tbl c args i site. unfold complete_model.
  destruct (build_full (build_fuel c) c) eqn:E; try discriminate.
  intros H. apply (complete_built_good tbl c0 args i (build_full_ok _ _ _ E)). left. eexists; eauto.
Qed.

(** the only fuel is that of [build_full]: the engine proper never runs out *)
Theorem built_no_fuel : forall tbl f c b args i,
  build_full f c = BOk b -> complete_built tbl b args i <> CFuel.
Proof.
  intros tbl f c b args i E H.
  apply (complete_built_good tbl b args i (build_full_ok _ _ _ E)). right. exact H.
Qed.

(** * The tail of [complete_arg]: what [finish] keeps *)
Lemma cid_eqb_eq a b : cid_eqb a b = true <-> a = b.
Proof.
  destruct a, b; cbn; split; intros H; try discriminate; try (apply beq_eq in H; subst; reflexivity);
    inversion H; subst; apply beq_refl.
Qed.

Lemma dedup_ids_incl : forall l seen x, In x (dedup_ids seen l) -> In x l.
Proof.
  induction l as [|a t IH]; intros seen x H; cbn in *; [assumption|].
  destruct (cd_id a) as [i|].
  - destruct (existsb (cid_eqb i) seen); [right; eauto|]. destruct H; [left; assumption|right; eauto].
  - destruct H; [left; assumption|right; eauto].
Qed.

Lemma hide_filter_incl l x : In x (hide_filter l) -> In x l.
Proof. unfold hide_filter. destruct (existsb _ l); [|auto]. intros H. apply filter_In in H. tauto. Qed.

Lemma finish_incl l x : In x (finish l) -> In x l.
Proof. unfold finish. intros H. apply hide_filter_incl. eapply dedup_ids_incl; eauto. Qed.

Lemma hide_filter_rule l x : In x (hide_filter l) -> cd_hidden x = false ->
  forall y, In y (hide_filter l) -> cd_hidden y = false.
Proof.
  unfold hide_filter. destruct (existsb (fun a => negb (cd_hidden a)) l) eqn:E.
  - intros _ _ y Hy. apply filter_In in Hy. destruct Hy as [_ Hy]. apply negb_true_iff in Hy. exact Hy.
  - intros Hx Hv. exfalso. assert (existsb (fun a => negb (cd_hidden a)) l = true).
    { apply existsb_exists. exists x. split; [assumption|]. rewrite Hv. reflexivity. }
    congruence.
Qed.

(** hidden candidates are offered only when nothing visible is *)
Lemma finish_rule l x : In x (finish l) -> cd_hidden x = false ->
  forall y, In y (finish l) -> cd_hidden y = false.
Proof.
  unfold finish. intros Hx Hv y Hy.
  apply (hide_filter_rule l x); [eapply dedup_ids_incl; eauto|assumption|eapply dedup_ids_incl; eauto].
Qed.

Lemma dedup_ids_repr : forall l seen x i, In x l -> cd_id x = Some i ->
  existsb (cid_eqb i) seen = false -> exists y, In y (dedup_ids seen l) /\ cd_id y = Some i.
Proof.
  induction l as [|a t IH]; intros seen x i Hx Hi Hs; [destruct Hx|].
  cbn [dedup_ids]. destruct (cd_id a) as [j|] eqn:Ej.
  - destruct (existsb (cid_eqb j) seen) eqn:Es.
    + destruct Hx as [->|Hx]; [|eauto]. rewrite Hi in Ej. inversion Ej; subst. congruence.
    + destruct (cid_eqb i j) eqn:Eij.
      * apply cid_eqb_eq in Eij. subst. exists a. split; [left; reflexivity|assumption].
      * destruct Hx as [->|Hx].
        { rewrite Hi in Ej. inversion Ej; subst.
          assert (cid_eqb j j = true) by (apply cid_eqb_eq; reflexivity). congruence. }
        destruct (IH (j :: seen) x i Hx Hi) as [y [Hy Hyi]]; [cbn; rewrite Eij; exact Hs|].
        exists y. split; [right; assumption|assumption].
  - destruct Hx as [->|Hx]; [congruence|].
    destruct (IH seen x i Hx Hi Hs) as [y [Hy Hyi]]. exists y. split; [right; assumption|assumption].
Qed.

(** a visible raw candidate with an id is represented in the result by a visible candidate of that id *)
Lemma finish_repr l x i : In x l -> cd_hidden x = false -> cd_id x = Some i ->
  exists y, In y (finish l) /\ cd_id y = Some i /\ cd_hidden y = false.
Proof.
  intros Hx Hv Hi.
  assert (Hf : In x (hide_filter l)).
  { unfold hide_filter.
    assert (E : existsb (fun a => negb (cd_hidden a)) l = true)
      by (apply existsb_exists; exists x; split; [assumption|rewrite Hv; reflexivity]).
    rewrite E. apply filter_In. split; [assumption|rewrite Hv; reflexivity]. }
  destruct (dedup_ids_repr (hide_filter l) [] x i Hf Hi eq_refl) as [y [Hy Hyi]].
  exists y. split; [exact Hy|]. split; [exact Hyi|].
  apply (hide_filter_rule l x Hf Hv). eapply dedup_ids_incl; eauto.
Qed.

(** * Lexer facts *)
Lemma split_eq_none : forall r f, split_eq r = (f, None) -> r = f.
Proof.
  induction r as [|b t IH]; intros f H; cbn in H; [inversion H; reflexivity|].
  destruct (b =? EQ); [discriminate|].
  destruct (split_eq t) as [f' v] eqn:E. inversion H; subst. f_equal. apply IH. reflexivity.
Qed.

Lemma split_eq_noeq : forall r, ~ In EQ r -> split_eq r = (r, None).
Proof.
  induction r as [|b t IH]; intros H; cbn; [reflexivity|].
  destruct (b =? EQ) eqn:E; [apply N.eqb_eq in E; subst; exfalso; apply H; left; reflexivity|].
  rewrite IH; [reflexivity|]. intros Hin. apply H. right. assumption.
Qed.

Lemma to_long_novalue w flag u : to_long w = Some (flag, u, None) -> w = dd ++ flag.
Proof.
  unfold to_long. destruct w as [|a [|b r]]; try discriminate.
  destruct ((a =? DASH) && (b =? DASH)) eqn:E; [|discriminate].
  apply andb_prop in E. destruct E as [Ea Eb]. apply N.eqb_eq in Ea, Eb. subst.
  destruct r as [|c r]; [discriminate|].
  destruct (split_eq (c :: r)) as [f v] eqn:Es. intros H. inversion H; subst.
  apply split_eq_none in Es. rewrite Es. reflexivity.
Qed.

Lemma to_short_some w short : to_short w = Some short -> w = DASH :: short.
Proof.
  unfold to_short. destruct w as [|a r]; [discriminate|].
  destruct (a =? DASH) eqn:E; [|discriminate]. apply N.eqb_eq in E. subst.
  destruct r as [|b t]; [discriminate|]. destruct (b =? DASH); [discriminate|].
  intros H; inversion H; reflexivity.
Qed.

Lemma utf8_step_dash t : utf8_step (DASH :: t) = Some (DASH, 1%nat).
Proof. reflexivity. Qed.

Lemma utf8_valid_dash t : utf8_valid (DASH :: t) = true -> utf8_valid t = true.
Proof. intros H. apply (utf8_valid_skip _ _ _ H (utf8_step_dash t)). Qed.

(** on a well-formed cluster the flag scan that finds no value-taking option has read all of it *)
Lemma parse_shortflags_loop_all c : forall fuel short leading lead rest,
  utf8_valid short = true ->
  parse_shortflags_loop fuel c short leading = SFOk lead None rest -> lead = leading ++ short.
Proof.
  induction fuel as [|f IH]; intros short leading lead rest Hv H; [discriminate|].
  cbn [parse_shortflags_loop] in H. unfold next_flag in H.
  destruct short as [|b t]; [inversion H; subst; rewrite app_nil_r; reflexivity|].
  destruct (utf8_valid_nonempty (b :: t) Hv) as [ch [n E]]; [discriminate|]. rewrite E in H.
  pose proof (utf8_step_encode _ _ _ E) as [Henc _].
  pose proof (utf8_valid_skip _ _ _ Hv E) as Hv'.
  assert (Hgoal : forall lead', lead' = (leading ++ utf8_encode ch) ++ skipn n (b :: t) -> lead' = leading ++ b :: t).
  { intros lead' ->. rewrite <- Henc, <- app_assoc, firstn_skipn. reflexivity. }
  destruct (find_short_visible c ch) as [o|].
  - destruct (a_num o) as [r|]; [|discriminate].
    destruct (r_takes_values r); [discriminate|]. apply Hgoal. eapply IH; eauto.
  - apply Hgoal. eapply IH; eauto.
Qed.

(** * Where the raw candidates come from *)
Definition names_option (cur : cmd) (cd : cand) (aid : id) : Prop :=
  exists a, In a (c_args cur) /\ a_id a = aid /\
    ((exists s, cd_value cd = dd ++ s /\ (a_long a = Some s \/ In s (map fst (a_aliases a))))
     \/ (exists lead s, cd_value cd = [DASH] ++ lead ++ utf8_encode s
                        /\ (a_short a = Some s \/ In s (map fst (a_short_aliases a))))).

Definition names_subcommand (cur : cmd) (cd : cand) (n : bytes) : Prop :=
  exists sc, In sc (c_subs cur) /\ c_name sc = n /\ aliases_to sc (cd_value cd) = true.

(** soundness of one candidate against the word [w] and the level [cur] *)
Definition cand_sound (w : bytes) (cur : cmd) (cd : cand) : Prop :=
  match cd_id cd with
  | Some (IdArg aid) => is_prefix w (cd_value cd) = true /\ names_option cur cd aid
  | Some (IdCmd n) => is_prefix w (cd_value cd) = true /\ names_subcommand cur cd n
  | None => True
  end.

Lemma vis_aliases_in {A} (l : list (A * bool)) s : In s (vis_aliases l) -> In s (map fst l).
Proof. unfold vis_aliases. intros H. apply in_map_iff in H. destruct H as [p [<- Hp]].
  apply filter_In in Hp. apply in_map. tauto. Qed.
Lemma hid_aliases_in {A} (l : list (A * bool)) s : In s (hid_aliases l) -> In s (map fst l).
Proof. unfold hid_aliases. intros H. apply in_map_iff in H. destruct H as [p [<- Hp]].
  apply filter_In in Hp. apply in_map. tauto. Qed.

Lemma longs_in c x : In x (longs_and_visible_aliases c) ->
  exists a s, In a (c_args c) /\ x = populate_arg_candidate (dd ++ s) a /\
              (a_long a = Some s \/ In s (map fst (a_aliases a))).
Proof.
  unfold longs_and_visible_aliases. intros H. apply in_flat_map in H. destruct H as [a [Ha Hx]].
  unfold get_long_and_visible_aliases in Hx. destruct (a_long a) as [l|] eqn:El; [|destruct Hx].
  apply in_map_iff in Hx. destruct Hx as [s [<- Hs]]. exists a, s. split; [assumption|]. split; [reflexivity|].
  destruct Hs as [->|Hs]; [left; assumption|right; apply vis_aliases_in; assumption].
Qed.

Lemma hidden_longs_in c x : In x (hidden_longs_aliases c) ->
  exists a s, In a (c_args c) /\ x = hide true (populate_arg_candidate (dd ++ s) a) /\
              In s (map fst (a_aliases a)).
Proof.
  unfold hidden_longs_aliases. intros H. apply in_flat_map in H. destruct H as [a [Ha Hx]].
  unfold get_aliases in Hx. destruct (is_nil (a_aliases a)); [destruct Hx|].
  apply in_map_iff in Hx. destruct Hx as [s [<- Hs]]. exists a, s. split; [assumption|]. split; [reflexivity|].
  apply hid_aliases_in; assumption.
Qed.

Lemma shorts_in c x : In x (shorts_and_visible_aliases c) ->
  exists a s, In a (c_args c) /\ x = populate_arg_candidate (utf8_encode s) a /\
              (a_short a = Some s \/ In s (map fst (a_short_aliases a))).
Proof.
  unfold shorts_and_visible_aliases. intros H. apply in_flat_map in H. destruct H as [a [Ha Hx]].
  unfold get_short_and_visible_aliases in Hx. destruct (a_short a) as [l|] eqn:El; [|destruct Hx].
  apply in_map_iff in Hx. destruct Hx as [s [<- Hs]]. exists a, s. split; [assumption|]. split; [reflexivity|].
  destruct Hs as [->|Hs]; [left; assumption|right; apply vis_aliases_in; assumption].
Qed.

Lemma long_cand_sound w c x : In x (longs_and_visible_aliases c) \/ In x (hidden_longs_aliases c) ->
  is_prefix w (cd_value x) = true -> cand_sound w c x.
Proof.
  intros [H|H] Hp.
  - destruct (longs_in c x H) as [a [s [Ha [-> Hs]]]]. unfold cand_sound; cbn. split; [exact Hp|].
    exists a. split; [assumption|]. split; [reflexivity|]. left. exists s. split; [reflexivity|assumption].
  - destruct (hidden_longs_in c x H) as [a [s [Ha [-> Hs]]]]. unfold cand_sound; cbn. split; [exact Hp|].
    exists a. split; [assumption|]. split; [reflexivity|]. left. exists s. split; [reflexivity|]. right; assumption.
Qed.

Lemma short_cand_sound w c lead x : In x (shorts_and_visible_aliases c) ->
  is_prefix w (DASH :: lead ++ cd_value x) = true -> cand_sound w c (add_prefix ([DASH] ++ lead) x).
Proof.
  intros H Hp. destruct (shorts_in c x H) as [a [s [Ha [-> Hs]]]].
  unfold cand_sound, add_prefix, populate_arg_candidate in *. cbn [cd_id cd_value] in *.
  split; [exact Hp|].
  exists a. split; [assumption|]. split; [reflexivity|]. right. exists lead, s.
  cbn [cd_value]. split; [reflexivity|assumption].
Qed.

Lemma is_prefix_nil s : is_prefix [] s = true.
Proof. unfold is_prefix. destruct s; reflexivity. Qed.

Lemma dd_prefix_dash s : is_prefix [DASH] (dd ++ s) = true.
Proof. reflexivity. Qed.
Lemma dd_prefix_dd s : is_prefix dd (dd ++ s) = true.
Proof. unfold is_prefix. apply starts_with_app. Qed.

Lemma complete_arg_value_ids tbl v a l : complete_arg_value tbl v a = Some l -> forall x, In x l -> cd_id x = None.
Proof.
  unfold complete_arg_value.
  destruct (match rsplit_delimiter v (a_delim a) with Some (p, v0) => (Some p, v0) | None => (None, v) end) as [prefix v'].
  destruct (possible_values tbl a) as [pvs|]; [|discriminate].
  intros H; inversion H; subst; clear H. intros x Hx.
  assert (Hbase : forall y, In y (match pvs with
                      | Some l0 => if utf8_valid v'
                          then map (fun p => mkCand (fst p) None (snd p)) (filter (fun p => is_prefix v' (fst p)) l0)
                          else []
                      | None => [] end) -> cd_id y = None).
  { intros y Hy. destruct pvs as [l0|]; [|destruct Hy]. destruct (utf8_valid v'); [|destruct Hy].
    apply in_map_iff in Hy. destruct Hy as [p [<- _]]. reflexivity. }
  destruct prefix as [p|]; [|auto].
  apply in_map_iff in Hx. destruct Hx as [y [<- Hy]]. cbn. auto.
Qed.

Lemma cand_sound_noid w c x : cd_id x = None -> cand_sound w c x.
Proof. unfold cand_sound. intros ->. exact I. Qed.

(** [complete_option]: every candidate is sound *)
Lemma complete_option_sound tbl w c l : complete_option tbl w c = COk l ->
  forall x, In x l -> cand_sound w c x.
Proof.
  unfold complete_option.
  destruct (is_empty w) eqn:E0.
  { destruct w; [|discriminate]. intros H; inversion H; subst; clear H. intros x Hx.
    apply in_app_or in Hx. destruct Hx as [Hx|Hx]; [apply long_cand_sound; [left; assumption|apply is_prefix_nil]|].
    apply in_app_or in Hx. destruct Hx as [Hx|Hx]; [apply long_cand_sound; [right; assumption|apply is_prefix_nil]|].
    apply in_map_iff in Hx. destruct Hx as [y [<- Hy]].
    apply (short_cand_sound [] c [] y Hy). apply is_prefix_nil. }
  destruct (is_stdio w) eqn:E1.
  { destruct w as [|b [|]]; try discriminate. cbn in E1. apply N.eqb_eq in E1. subst.
    intros H; inversion H; subst; clear H. intros x Hx.
    apply in_app_or in Hx. destruct Hx as [Hx|Hx].
    { apply in_map_iff in Hx. destruct Hx as [y [<- Hy]]. apply (short_cand_sound [DASH] c [] y Hy). unfold is_prefix. apply (starts_with_app [DASH]). }
    assert (Hd : forall z, In z (longs_and_visible_aliases c) \/ In z (hidden_longs_aliases c) ->
                           is_prefix [DASH] (cd_value z) = true).
    { intros z [Hz|Hz].
      - destruct (longs_in c z Hz) as [a [s [_ [-> _]]]]. apply dd_prefix_dash.
      - destruct (hidden_longs_in c z Hz) as [a [s [_ [-> _]]]]. apply dd_prefix_dash. }
    apply in_app_or in Hx. destruct Hx as [Hx|Hx]; apply long_cand_sound; auto. }
  destruct (is_escape w) eqn:E2.
  { destruct w as [|a [|b [|]]]; try discriminate. cbn in E2. apply andb_prop in E2. destruct E2 as [Ea Eb].
    apply N.eqb_eq in Ea, Eb. subst.
    intros H; inversion H; subst; clear H. intros x Hx.
    assert (Hd : forall z, In z (longs_and_visible_aliases c) \/ In z (hidden_longs_aliases c) ->
                           is_prefix [DASH; DASH] (cd_value z) = true).
    { intros z [Hz|Hz].
      - destruct (longs_in c z Hz) as [a [s [_ [-> _]]]]. apply dd_prefix_dd.
      - destruct (hidden_longs_in c z Hz) as [a [s [_ [-> _]]]]. apply dd_prefix_dd. }
    apply in_app_or in Hx. destruct Hx as [Hx|Hx]; apply long_cand_sound; auto. }
  destruct (to_long w) as [[[flag u] value]|] eqn:El.
  { destruct u; [|intros H; inversion H; subst; intros x []].
    destruct value as [v|].
    - destruct (List.find _ (c_args c)) as [a|]; [|intros H; inversion H; subst; intros x []].
      destruct (complete_arg_value tbl v a) as [l0|] eqn:Ev; [|discriminate].
      intros H; inversion H; subst; clear H. intros x Hx. apply in_map_iff in Hx. destruct Hx as [y [<- Hy]].
      apply cand_sound_noid. cbn. eapply complete_arg_value_ids; eauto.
    - apply to_long_novalue in El. subst w.
      intros H; inversion H; subst; clear H. intros x Hx.
      apply in_app_or in Hx. destruct Hx as [Hx|Hx]; apply filter_In in Hx; destruct Hx as [Hx Hp];
        apply long_cand_sound; auto. }
  destruct (to_short w) as [short|] eqn:Es; [|intros H; inversion H; subst; intros x []].
  destruct (negb (sf_is_negative_number short)); [|intros H; inversion H; subst; intros x []].
  destruct (parse_shortflags c short) as [| |leading [o|] short'] eqn:Ep; try discriminate.
  - destruct (match next_flag short' with
              | Some (FOk ch, s2) => if ch =? EQ then (true, s2) else (false, short')
              | _ => (false, short') end) as [he s2].
    destruct (complete_arg_value tbl _ o) as [l0|] eqn:Ev; [|discriminate].
    intros H; inversion H; subst; clear H. intros x Hx. apply in_map_iff in Hx. destruct Hx as [y [<- Hy]].
    apply cand_sound_noid. cbn. eapply complete_arg_value_ids; eauto.
  - destruct (utf8_valid w) eqn:Ev; [|intros H; inversion H; subst; intros x []].
    apply to_short_some in Es. subst w.
    unfold parse_shortflags in Ep. apply parse_shortflags_loop_all in Ep; [|apply utf8_valid_dash; assumption].
    cbn [app] in Ep. subst leading.
    intros H; inversion H; subst; clear H. intros x Hx. apply in_map_iff in Hx. destruct Hx as [y [<- Hy]].
    apply short_cand_sound; [assumption|]. unfold is_prefix.
    change (DASH :: short ++ cd_value y) with ((DASH :: short) ++ cd_value y). apply starts_with_app.
Qed.

(** [complete_subcommand] *)
Lemma insert_cand_in x c l : In x (insert_cand c l) <-> c = x \/ In x l.
Proof.
  induction l as [|d t IH]; cbn; [tauto|].
  destruct (ble (cd_value c) (cd_value d)); cbn; [tauto|]. rewrite IH. tauto.
Qed.
Lemma sort_cands_in x l : In x (sort_cands l) <-> In x l.
Proof.
  induction l as [|a t IH]; cbn; [tauto|]. rewrite insert_cand_in, IH. tauto.
Qed.
Lemma cand_eqb_eq a b : cand_eqb a b = true -> a = b.
Proof.
  unfold cand_eqb. intros H. apply andb_prop in H. destruct H as [H H3]. apply andb_prop in H. destruct H as [H1 H2].
  destruct a as [va ia ha], b as [vb ib hb]; cbn in *.
  apply beq_eq in H1. apply Bool.eqb_prop in H3. subst. f_equal.
  destruct ia as [x|], ib as [y|]; cbn in H2; try discriminate; [|reflexivity].
  apply cid_eqb_eq in H2. subst. reflexivity.
Qed.
Lemma dedup_adjacent_in : forall l x, In x (dedup_adjacent l) <-> In x l.
Proof.
  induction l as [|a t IH]; intros x; [tauto|]. cbn [dedup_adjacent]. destruct t as [|b t'].
  - tauto.
  - destruct (cand_eqb a b) eqn:E.
    + apply cand_eqb_eq in E. subst. rewrite IH. cbn. tauto.
    + cbn [In]. rewrite IH. cbn. tauto.
Qed.

Lemma subcommands_in c x : In x (subcommands c) ->
  exists sc n, In sc (c_subs c) /\ cd_value x = n /\ cd_id x = Some (IdCmd (c_name sc)) /\
               (n = c_name sc \/ In n (map fst (c_aliases sc))).
Proof.
  unfold subcommands. intros H. apply in_flat_map in H. destruct H as [sc [Hsc Hx]].
  apply in_app_or in Hx. destruct Hx as [Hx|Hx]; apply in_map_iff in Hx; destruct Hx as [n [<- Hn]];
    exists sc, n; (split; [assumption|]); (split; [reflexivity|]); (split; [reflexivity|]).
  - destruct Hn as [<-|Hn]; [left; reflexivity|right; apply vis_aliases_in; assumption].
  - right. apply hid_aliases_in; assumption.
Qed.

Lemma complete_subcommand_sound w c x : In x (complete_subcommand w c) -> cand_sound w c x.
Proof.
  unfold complete_subcommand. rewrite dedup_adjacent_in, sort_cands_in, filter_In. intros [Hx Hp].
  destruct (subcommands_in c x Hx) as [sc [n [Hsc [Hv [Hi Hn]]]]].
  unfold cand_sound. rewrite Hi. split; [exact Hp|]. exists sc. split; [assumption|]. split; [reflexivity|].
  unfold aliases_to, all_aliases. rewrite Hv. destruct Hn as [->|Hn].
  - rewrite beq_refl. reflexivity.
  - apply orb_true_iff. right. apply existsb_exists. exists n. split; [assumption|apply beq_refl].
Qed.

(** decomposition of a successful [complete_arg] in state [ValueDone] *)
Lemma value_done_inv tbl w c pi l : complete_arg_value_done tbl w c pi = COk l ->
  exists posv opts,
    (forall x, In x posv -> cd_id x = None) /\ complete_option tbl w c = COk opts /\
    l = finish ((if utf8_valid w then complete_subcommand w c else []) ++ posv ++ opts).
Proof.
  unfold complete_arg_value_done. intros H.
  destruct (match find_pos c pi with Some p => of_opt 535 (complete_arg_value tbl w p) | None => COk [] end)
    as [| |posv| |] eqn:Ep; try discriminate.
  cbn [cbind] in H. destruct (complete_option tbl w c) as [| |opts| |] eqn:Eo; try discriminate.
  cbn [cbind] in H. inversion H; subst. exists posv, opts. split; [|split; reflexivity].
  destruct (find_pos c pi) as [p|].
  - destruct (complete_arg_value tbl w p) as [l0|] eqn:Ev; [|discriminate]. inversion Ep; subst.
    eapply complete_arg_value_ids; eauto.
  - inversion Ep; subst. intros x [].
Qed.

(** C18_sound (i), (ii): state [ValueDone] *)
Theorem value_done_sound tbl w c pi l : complete_arg_value_done tbl w c pi = COk l ->
  forall x, In x l -> cand_sound w c x.
Proof.
  intros H x Hx. destruct (value_done_inv _ _ _ _ _ H) as [posv [opts [Hpos [Ho ->]]]].
  apply finish_incl in Hx. apply in_app_or in Hx. destruct Hx as [Hx|Hx].
  - destruct (utf8_valid w); [apply complete_subcommand_sound; assumption|destruct Hx].
  - apply in_app_or in Hx. destruct Hx as [Hx|Hx]; [apply cand_sound_noid; auto|].
    eapply complete_option_sound; eauto.
Qed.

(** * Completeness in state [ValueDone] *)
Lemma utf8_valid_dd r : utf8_valid (dd ++ r) = true -> utf8_valid r = true.
Proof. intros H. apply utf8_valid_dash. apply utf8_valid_dash. exact H. Qed.

Lemma noeq_prefix : forall r s, starts_with s r = true -> ~ In EQ s -> ~ In EQ r.
Proof.
  intros r s H Hs Hr. apply starts_with_spec in H. destruct H as [t ->]. apply Hs. apply in_or_app. left; assumption.
Qed.

(** the long spelling [--s] of a visible argument extends the (well-formed) word: it is among the
    candidates of [complete_option] *)
Lemma complete_option_has_long tbl w c a s :
  In a (c_args c) -> a_long a <> None -> (a_long a = Some s \/ In s (vis_aliases (a_aliases a))) ->
  ~ In EQ s -> utf8_valid w = true -> is_prefix w (dd ++ s) = true ->
  exists opts, complete_option tbl w c = COk opts /\ In (populate_arg_candidate (dd ++ s) a) opts.
Proof.
  intros Ha Hl Hs Hne Hv Hp.
  assert (Hin : In (populate_arg_candidate (dd ++ s) a) (longs_and_visible_aliases c)).
  { unfold longs_and_visible_aliases. apply in_flat_map. exists a. split; [assumption|].
    unfold get_long_and_visible_aliases. destruct (a_long a) as [l|] eqn:El; [|tauto].
    apply (in_map (fun s0 => populate_arg_candidate (dd ++ s0) a)).
    destruct Hs as [Hs|Hs]; [inversion Hs; left; reflexivity|right; assumption]. }
  unfold complete_option. unfold is_prefix, dd in Hp.
  destruct w as [|x [|y [|z r]]].
  - eexists. split; [reflexivity|]. apply in_or_app. left; assumption.
  - cbn [app starts_with] in Hp. apply andb_prop in Hp. destruct Hp as [Hx _]. apply N.eqb_eq in Hx. subst x.
    eexists. split; [reflexivity|]. apply in_or_app. right. apply in_or_app. left; assumption.
  - cbn [app starts_with] in Hp. apply andb_prop in Hp. destruct Hp as [Hx Hp].
    apply andb_prop in Hp. destruct Hp as [Hy _].
    apply N.eqb_eq in Hx, Hy. subst x y.
    eexists. split; [reflexivity|]. apply in_or_app. left; assumption.
  - assert (Hxy : x = DASH /\ y = DASH /\ starts_with s (z :: r) = true).
    { cbn [app starts_with] in Hp. apply andb_prop in Hp. destruct Hp as [Hx Hp].
      apply andb_prop in Hp. destruct Hp as [Hy Hr].
      apply N.eqb_eq in Hx, Hy. subst x y. auto. }
    destruct Hxy as [-> [-> Hr]].
    change (is_empty (DASH :: DASH :: z :: r)) with false.
    change (is_stdio (DASH :: DASH :: z :: r)) with false.
    change (is_escape (DASH :: DASH :: z :: r)) with false.
    cbv iota.
    assert (El : to_long (DASH :: DASH :: z :: r) = Some (z :: r, utf8_valid (z :: r), None)).
    { unfold to_long. change ((DASH =? DASH) && (DASH =? DASH)) with true. cbv iota.
      rewrite (split_eq_noeq (z :: r) (noeq_prefix _ _ Hr Hne)). reflexivity. }
    rewrite El. rewrite (utf8_valid_dd (z :: r) Hv).
    eexists. split; [reflexivity|]. apply in_or_app. left. apply filter_In. split; [assumption|].
    unfold is_prefix, populate_arg_candidate. cbn [cd_value].
    apply starts_with_spec. apply starts_with_spec in Hr. destruct Hr as [t ->]. exists t.
    rewrite app_assoc. reflexivity.
Qed.

Lemma in_finish_of_parts l1 l2 l3 (x : cand) : In x l3 -> In x (l1 ++ l2 ++ l3).
Proof. intros H. apply in_or_app. right. apply in_or_app. right. assumption. Qed.

(** C18_complete, options *)
Theorem value_done_complete_long tbl w c pi l a s :
  complete_arg_value_done tbl w c pi = COk l ->
  In a (c_args c) -> a_hide a = false -> a_long a <> None ->
  (a_long a = Some s \/ In s (vis_aliases (a_aliases a))) ->
  ~ In EQ s -> utf8_valid w = true -> is_prefix w (dd ++ s) = true ->
  exists y, In y l /\ cd_id y = Some (IdArg (a_id a)) /\ cd_hidden y = false.
Proof.
  intros H Ha Hh Hl Hs Hne Hv Hp.
  destruct (value_done_inv _ _ _ _ _ H) as [posv [opts [_ [Ho ->]]]].
  destruct (complete_option_has_long tbl w c a s Ha Hl Hs Hne Hv Hp) as [opts' [Ho' Hin]].
  rewrite Ho in Ho'. inversion Ho'; subst opts'.
  eapply finish_repr; [apply in_finish_of_parts; exact Hin| |]; cbn; [assumption|reflexivity].
Qed.

(** C18_complete, subcommands *)
Theorem value_done_complete_sub tbl w c pi l sc n :
  complete_arg_value_done tbl w c pi = COk l ->
  In sc (c_subs c) -> is_hide_set sc = false ->
  (n = c_name sc \/ In n (vis_aliases (c_aliases sc))) ->
  utf8_valid w = true -> is_prefix w n = true ->
  exists y, In y l /\ cd_id y = Some (IdCmd (c_name sc)) /\ cd_hidden y = false.
Proof.
  intros H Hsc Hh Hn Hv Hp.
  destruct (value_done_inv _ _ _ _ _ H) as [posv [opts [_ [_ ->]]]]. rewrite Hv.
  eapply (finish_repr _ (populate_command_candidate n sc)); [| |reflexivity].
  - apply in_or_app. left. unfold complete_subcommand.
    rewrite dedup_adjacent_in, sort_cands_in, filter_In. split; [|exact Hp].
    unfold subcommands. apply in_flat_map. exists sc. split; [assumption|]. apply in_or_app. left.
    apply (in_map (fun s0 => populate_command_candidate s0 sc)).
    destruct Hn as [->|Hn]; [left; reflexivity|right; assumption].
  - cbn. assumption.
Qed.

(** hidden candidates are offered only when no visible candidate is: every state *)
Lemma cbind_ok_inv r f l : cbind r f = COk l -> exists l0, r = COk l0 /\ f l0 = COk l.
Proof. destruct r; cbn; try discriminate. intros H. eexists; split; [reflexivity|assumption]. Qed.

Lemma complete_arg_is_finish tbl w c pi st l : complete_arg tbl w c pi st = COk l -> exists raw, l = finish raw.
Proof.
  destruct st as [|idx cnt|o cnt]; cbn [complete_arg].
  - intros H. destruct (value_done_inv _ _ _ _ _ H) as [posv [opts [_ [_ ->]]]]. eexists; reflexivity.
  - destruct (find_pos c pi); [|intros H; inversion H; eexists; reflexivity].
    intros H. apply cbind_ok_inv in H. destruct H as [l0 [_ H]].
    apply cbind_ok_inv in H. destruct H as [l1 [_ H]]. inversion H. eexists; reflexivity.
  - intros H. apply cbind_ok_inv in H. destruct H as [l0 [_ H]].
    apply cbind_ok_inv in H. destruct H as [l1 [_ H]]. inversion H. eexists; reflexivity.
Qed.

Theorem hidden_only_if_no_visible tbl w c pi st l : complete_arg tbl w c pi st = COk l ->
  forall x, In x l -> cd_hidden x = false -> forall y, In y l -> cd_hidden y = false.
Proof.
  intros H x Hx Hv y Hy. destruct (complete_arg_is_finish _ _ _ _ _ _ H) as [raw ->].
  exact (finish_rule raw x Hx Hv y Hy).
Qed.

(** * (iii) the parser's lookups resolve what is offered *)
Lemma find_exists {A} (f : A -> bool) l x : In x l -> f x = true -> exists y, List.find f l = Some y.
Proof.
  induction l as [|a t IH]; intros Hx Hf; [destruct Hx|]. cbn. destruct (f a) eqn:E; [eexists; reflexivity|].
  destruct Hx as [->|Hx]; [congruence|auto].
Qed.

Lemma names_subcommand_resolves cur cd n : names_subcommand cur cd n ->
  exists sc', find_subcommand cur (cd_value cd) = Some sc' /\ aliases_to sc' (cd_value cd) = true.
Proof.
  intros [sc [Hsc [_ Ha]]]. unfold find_subcommand.
  destruct (find_exists (fun s => aliases_to s (cd_value cd)) (c_subs cur) sc Hsc Ha) as [y Hy].
  exists y. split; [assumption|]. apply find_some in Hy. tauto.
Qed.

Lemma keymap_in c a k : In a (c_args c) -> In k (arg_keys a) -> In (k, a) (keymap c).
Proof.
  intros Ha Hk. unfold keymap. apply in_flat_map. exists a. split; [assumption|].
  apply in_map_iff. exists k. split; [reflexivity|assumption].
Qed.

Lemma get_long_resolves c a s : In a (c_args c) -> a_index a = None ->
  (a_long a = Some s \/ In s (map fst (a_aliases a))) -> get_long c s <> None.
Proof.
  intros Ha Hi Hs. unfold get_long.
  assert (Hk : In (KLong s, a) (keymap c)).
  { apply keymap_in; [assumption|]. unfold arg_keys. rewrite Hi. apply in_or_app. right.
    destruct Hs as [Hs|Hs].
    - rewrite Hs. apply in_or_app. left. left. reflexivity.
    - apply in_or_app. right. apply in_or_app. right. apply in_map_iff in Hs. destruct Hs as [p [<- Hp]].
      apply in_map_iff. exists p. split; [reflexivity|assumption]. }
  destruct (find_exists (fun p => match fst p with KLong l' => beq l' s | _ => false end) (keymap c) _ Hk)
    as [y Hy]; [cbn; apply beq_refl|]. rewrite Hy. discriminate.
Qed.

Lemma get_short_resolves c a s : In a (c_args c) -> a_index a = None ->
  (a_short a = Some s \/ In s (map fst (a_short_aliases a))) -> get_short c s <> None.
Proof.
  intros Ha Hi Hs. unfold get_short.
  assert (Hk : In (KShort s, a) (keymap c)).
  { apply keymap_in; [assumption|]. unfold arg_keys. rewrite Hi.
    destruct Hs as [Hs|Hs].
    - rewrite Hs. left. reflexivity.
    - apply in_or_app. right. apply in_or_app. right. apply in_or_app. left.
      apply in_map_iff in Hs. destruct Hs as [p [<- Hp]].
      apply in_map_iff. exists p. split; [reflexivity|assumption]. }
  destruct (find_exists (fun p => match fst p with KShort s' => s' =? s | _ => false end) (keymap c) _ Hk)
    as [y Hy]; [cbn; apply N.eqb_refl|]. rewrite Hy. discriminate.
Qed.

(** a validated option (it has a long or a short name) carries no positional index *)
Lemma assert_arg_option_no_index a : assert_arg a = true -> a_is_positional a = false -> a_index a = None.
Proof.
  unfold assert_arg. intros H Hp. split_andb.
  destruct (a_index a); [|reflexivity]. cbn in *. rewrite Hp in *. discriminate.
Qed.

(** what "accepted as such by the parser model" means for a candidate *)
Definition cand_resolves (cur : cmd) (cd : cand) : Prop :=
  match cd_id cd with
  | Some (IdArg aid) =>
      exists a, In a (c_args cur) /\ a_id a = aid /\
        (a_is_positional a = false ->
           (exists s, cd_value cd = dd ++ s /\ get_long cur s <> None)
           \/ (exists lead s, cd_value cd = [DASH] ++ lead ++ utf8_encode s /\ get_short cur s <> None))
  | Some (IdCmd n) =>
      exists sc', find_subcommand cur (cd_value cd) = Some sc' /\ aliases_to sc' (cd_value cd) = true
  | None => True
  end.

Lemma cand_sound_resolves w cur cd : args_ok cur -> cand_sound w cur cd -> cand_resolves cur cd.
Proof.
  intros Hok. unfold cand_sound, cand_resolves. destruct (cd_id cd) as [[aid|n]|]; [| |auto].
  - intros [_ [a [Ha [Hid Hn]]]]. exists a. split; [assumption|]. split; [assumption|]. intros Hp.
    pose proof (assert_arg_option_no_index a (Hok a Ha) Hp) as Hi.
    destruct Hn as [[s [Hv Hs]]|[lead [s [Hv Hs]]]].
    + left. exists s. split; [assumption|]. eapply get_long_resolves; eauto.
    + right. exists lead, s. split; [assumption|]. eapply get_short_resolves; eauto.
  - intros [_ Hn]. eapply names_subcommand_resolves; eauto.
Qed.

(** * Tying the level to the shadow parse of the preceding words *)
Lemma start_walk_reach b args i w cur pi st esc vaf : tree_all args_ok b ->
  start_walk b args i = WAt w cur pi st esc vaf -> reach b cur /\ args_ok cur.
Proof.
  intros Ht H. unfold start_walk in H.
  destruct (shadow_walk_ok
     (skipn (N.to_nat (if is_set s_no_binary_name b then 0 else 1)) args)
     (if is_set s_no_binary_name b then 0 else 1)
     (sat_add (N.min i (N.of_nat (length args))) 1) b 1 false ValueDone false Ht I)
    as [E|[w' [c' [p' [s' [e' [v' [E [Hr _]]]]]]]]]; rewrite E in H; [discriminate|].
  inversion H; subst. split; [assumption|]. apply (tree_all_here args_ok). eapply tree_all_reach; eauto.
Qed.

(** C18_sound: full statement over [complete_model]'s pieces *)
Lemma cand_sound_cut w c vaf cd : cand_sound w (sub_cut c vaf) cd -> cand_sound w c cd.
Proof.
  unfold cand_sound, names_option, names_subcommand. rewrite sub_cut_args.
  destruct (cd_id cd) as [[aid|n]|]; [auto| |auto].
  intros [Hp [sc [Hsc H]]]. split; [exact Hp|]. exists sc. split; [exact (sub_cut_subs c vaf sc Hsc)|exact H].
Qed.

Theorem sound : forall tbl c b args i w cur pi esc vaf l cd,
  build_full (build_fuel c) c = BOk b ->
  start_walk b args i = WAt w cur pi ValueDone esc vaf ->
  complete_arg_v tbl w cur pi ValueDone vaf = COk l -> In cd l ->
  reach b cur /\ cand_sound w cur cd /\ cand_resolves cur cd.
Proof.
  intros tbl c b args i w cur pi esc vaf l cd Hb Hw Hc Hin.
  destruct (start_walk_reach b args i w cur pi ValueDone esc vaf (build_full_ok _ _ _ Hb) Hw) as [Hr Hok].
  rewrite complete_arg_v_cut in Hc.
  pose proof (cand_sound_cut w cur vaf cd (value_done_sound tbl w (sub_cut cur vaf) pi l Hc cd Hin)) as Hs.
  split; [assumption|]. split; [assumption|]. eapply cand_sound_resolves; eauto.
Qed.

(** [complete_model] succeeds exactly through these pieces *)
Theorem model_ok_inv tbl c args i l : complete_model tbl c args i = COk l ->
  exists b w cur pi st esc vaf,
    build_full (build_fuel c) c = BOk b /\ start_walk b args i = WAt w cur pi st esc vaf /\
    complete_arg_v tbl w cur pi st vaf = COk l /\ complete_arg tbl w (sub_cut cur vaf) pi st = COk l.
Proof.
  unfold complete_model. destruct (build_full (build_fuel c) c) as [b| |] eqn:Eb; try discriminate.
  unfold complete_built. destruct (start_walk b args i) as [| | |w cur pi st esc vaf] eqn:Ew; try discriminate.
  intros H. exists b, w, cur, pi, st, esc, vaf. split; [reflexivity|]. split; [exact Ew|]. split; [exact H|].
  rewrite <- complete_arg_v_cut. exact H.
Qed.

(** * Non-vacuity: the hypotheses of the theorems above are satisfiable *)
Definition s_opt : bytes := [111; 112; 116].
Definition s_optv : bytes := [111; 112; 116; 118].
Definition s_sub : bytes := [115; 117; 98].
Definition ex_cmd : cmd :=
  (cmd_new [112])
    <| c_args := [ (arg_new s_opt) <| a_long := Some s_opt |> <| a_short := Some 111 |>
                                   <| a_aliases := [(s_optv, true)] |> <| a_action := Some ASet |>;
                   (arg_new [102]) <| a_short := Some 102 |> <| a_action := Some ASetTrue |> <| a_hide := true |> ] |>
    <| c_subs := [ (cmd_new s_sub) <| c_aliases := [([115; 118], true); ([115; 104], false)] |> ] |>.
(** [p --o], cursor on [--o] *)
Definition ex_args : list bytes := [[112]; [45; 45; 111]].

Example ex_sound_hyps :
  match build_full (build_fuel ex_cmd) ex_cmd with
  | BOk b => match start_walk b ex_args 1 with
             | WAt w cur pi ValueDone false vaf =>
                 match complete_arg_v [] w cur pi ValueDone vaf with COk (_ :: _) => True | _ => False end
             | _ => False end
  | _ => False end.
Proof. vm_compute. exact I. Qed.

(** the same line: the visible option [opt] with spelling [--opt] extending [--o] *)
Example ex_complete_long_hyps :
  match build_full (build_fuel ex_cmd) ex_cmd with
  | BOk b => match start_walk b ex_args 1 with
             | WAt w cur pi ValueDone false _ =>
                 existsb (fun a => negb (a_hide a) && is_some (a_long a)
                                   && match a_long a with Some s => is_prefix w (dd ++ s) && negb (existsb (N.eqb EQ) s)
                                                     | None => false end) (c_args cur)
                 && utf8_valid w = true
             | _ => False end
  | _ => False end.
Proof. vm_compute. reflexivity. Qed.

(** [p s], cursor on [s]: the visible subcommand [sub] extends it *)
Example ex_complete_sub_hyps :
  match build_full (build_fuel ex_cmd) ex_cmd with
  | BOk b => match start_walk b [[112]; [115]] 1 with
             | WAt w cur pi ValueDone false _ =>
                 existsb (fun sc => negb (is_hide_set sc) && is_prefix w (c_name sc)) (c_subs cur)
                 && utf8_valid w = true
             | _ => False end
  | _ => False end.
Proof. vm_compute. reflexivity. Qed.

(** a result containing a visible candidate (hence no hidden one): [p -] *)
Example ex_hidden_hyps :
  match complete_model [] ex_cmd [[112]; [45]] 1 with
  | COk l => existsb (fun x => negb (cd_hidden x)) l = true
  | _ => False end.
Proof. vm_compute. reflexivity. Qed.

(** the converse of the hidden rule, as the code has it: when no raw candidate is visible the hidden
    ones are all kept (up to the de-duplication by id, first one wins) *)
Theorem hidden_kept_when_nothing_visible raw :
  (forall x, In x raw -> cd_hidden x = true) -> finish raw = dedup_ids [] raw.
Proof.
  intros H. unfold finish, hide_filter.
  destruct (existsb (fun a => negb (cd_hidden a)) raw) eqn:E; [|reflexivity].
  apply existsb_exists in E. destruct E as [x [Hx Hv]]. rewrite (H x Hx) in Hv. discriminate.
Qed.

(** the source has exactly the panic sites the model makes visible (table regenerated from
    clap_complete/src/engine/complete.rs on every run) *)
From ClapModel Require Gen.EngineSites.
Theorem sites_match : Gen.EngineSites.engine_panic_sites = model_panic_sites.
Proof. reflexivity. Qed.
