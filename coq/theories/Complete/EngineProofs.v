(** Proofs about the completion-engine model (property C18). *)
From ClapModel Require Import Base.Bytes Base.Machine Base.Utf8.
From ClapModel Require Import Parse.Cmd Parse.Build Parse.Valid Complete.EngineModel.
From Coq Require Import ZArith Lia.
From RecordUpdate Require Import RecordSet.
Import RecordSetNotations.
Open Scope N_scope.

(** finding D: [--opt] (Set) + a positional with allow_hyphen_values;
    [complete(["p","--opt","--unknown",""], 3)] reaches the [unreachable!] of [parse_positional] *)
Definition s_opt : bytes := [111; 112; 116].
Definition d_cmd : cmd :=
  (cmd_new [112])
    <| c_args := [ (arg_new s_opt) <| a_long := Some s_opt |> <| a_action := Some ASet |>;
                   (arg_new [112; 111; 115]) <| a_hyphen := true |> ] |>.
Definition d_args : list bytes := [[112]; [45; 45; 111; 112; 116]; [45; 45; 117; 110; 107]; []].

Lemma total_refuted : exists tbl c args i site, complete_model tbl c args i = CPanic site.
Proof. exists [], d_cmd, d_args, 3, 664. vm_compute. reflexivity. Qed.
