(** C16 for the fish generator model ([FishModel.v]): totality, determinism, and "the file mentions
    every option spelling, every possible value and every subcommand word" for the root and the
    two levels of subcommands the format supports; what happens below that; the class boundary
    [alias-without-primary]. *)
From ClapModel Require Import Base.Bytes Complete.AotTree Complete.AotProofs Complete.BashProofs Complete.FishModel.
From Coq Require Import String Lia.
Open Scope list_scope.

(** ---- zipd ---- *)
Lemma zipd_fst {A B} (dflt : B) (l : list A) : forall m, map fst (zipd dflt l m) = l.
Proof. induction l as [|a l IH]; intros m; cbn [zipd map fst]; [reflexivity|]. now rewrite IH. Qed.

Lemma zipd_in {A B} (dflt : B) (l : list A) a : In a l -> forall m, exists b, In (a, b) (zipd dflt l m).
Proof.
  induction l as [|x l IH]; intros Hin m; [destruct Hin|].
  cbn [zipd]. destruct Hin as [->|Hin].
  - exists (hd dflt m). left. reflexivity.
  - destruct (IH Hin (tl m)) as [b Hb]. exists b. right. exact Hb.
Qed.

Lemma zipd_in_fst {A B} (dflt : B) (l : list A) m p : In p (zipd dflt l m) -> In (fst p) l.
Proof. intros H. rewrite <- (zipd_fst dflt l m). apply in_map. exact H. Qed.

Lemma zipd_length {A B} (dflt : B) (l : list A) m : List.length (zipd dflt l m) = List.length l.
Proof. rewrite <- (zipd_fst dflt l m) at 2. now rewrite map_length. Qed.

(** ---- gen_fish_inner: one unfolding step, as the Rust function reads ---- *)
Lemma gen_fish_inner_unfold root nds usg parents c d :
  gen_fish_inner root nds usg parents c d =
  match basic_template root nds usg parents c with
  | None => []
  | Some basic =>
      node_lines basic c d ++
      flat_map (fun q : cmd * cdesc =>
                  flat_map (fun nm => gen_fish_inner root nds usg (parents ++ [nm]) (fst q) (snd q))
                           (get_name_and_visible_aliases (fst q)))
               (zipd cd0 (c_subs c) (cd_subs d))
  end.
Proof.
  destruct c as [n al args subs bin h v s g]. cbn [gen_fish_inner c_subs].
  destruct (basic_template root nds usg parents (mkCmd n al args subs bin h v s g)) as [basic|]; [|reflexivity].
  f_equal. generalize (cd_subs d) as dl. clear.
  induction subs as [|sc t IH]; intros dl; [reflexivity|].
  cbn [zipd flat_map fst snd]. rewrite IH. reflexivity.
Qed.

(** [basic_template]: the three arms that produce a template, the one that returns *)
Lemma basic_template_some root nds usg parents c :
  (List.length parents <= 2)%nat -> exists basic, basic_template root nds usg parents c = Some basic.
Proof.
  intros H. destruct parents as [|p1 [|p2 [|p3 r]]]; cbn [basic_template]; try (eexists; reflexivity).
  cbn in H. lia.
Qed.

Lemma basic_template_deep root nds usg parents c :
  (3 <= List.length parents)%nat -> basic_template root nds usg parents c = None.
Proof.
  intros H. destruct parents as [|p1 [|p2 [|p3 r]]]; cbn in H; try lia. reflexivity.
Qed.

(** below the second level of subcommands the generator writes nothing at all (the [_ => return] arm
    comes before every loop, the recursion included) *)
Theorem gen_fish_inner_deep root nds usg parents c d :
  (3 <= List.length parents)%nat -> gen_fish_inner root nds usg parents c d = [].
Proof. intros H. rewrite gen_fish_inner_unfold, basic_template_deep by exact H. reflexivity. Qed.

(** ---- totality, determinism ---- *)
Definition fish_needs (bin : bytes) (c : cmd) : bytes :=
  if has_subcommands c then lit "__fish_" ++ escape_name bin ++ lit "_needs_command" else lit "__fish_use_subcommand".
Definition fish_using (bin : bytes) (c : cmd) : bytes :=
  if has_subcommands c then lit "__fish_" ++ escape_name bin ++ lit "_using_subcommand"
  else lit "__fish_seen_subcommand_from".
(** the [complete] lines (everything but the helper block) *)
Definition complete_lines (bin : bytes) (c : cmd) (d : cdesc) : list (list piece) :=
  gen_fish_inner bin (fish_needs bin c) (fish_using bin c) [] c d.

Lemma fish_lines_shape c d bin :
  c_bin c = Some bin ->
  exists pre, fish_lines c d = Some (pre ++ complete_lines bin c d) /\
              (pre = [] \/ exists h, pre = [[Fx h]]).
Proof.
  intros Hb. unfold fish_lines, complete_lines, fish_needs, fish_using. rewrite Hb.
  destruct (has_subcommands c).
  - eexists [_]. split; [reflexivity|]. right. eexists. reflexivity.
  - exists []. split; [reflexivity|]. left. reflexivity.
Qed.

Theorem fish_script_total c d : fish_script c d = None <-> c_bin c = None.
Proof.
  unfold fish_script, fish_pieces, fish_lines. destruct (c_bin c) as [bin|].
  - destruct (has_subcommands c); split; discriminate.
  - split; reflexivity.
Qed.

Theorem fish_script_some c d bin : c_bin c = Some bin -> exists s, fish_script c d = Some s.
Proof.
  intros Hb. destruct (fish_script c d) as [s|] eqn:E; [exists s; reflexivity|].
  apply fish_script_total in E. rewrite Hb in E. discriminate.
Qed.

Theorem generate_fish_deterministic c1 c2 d1 d2 b1 b2 :
  c1 = c2 -> d1 = d2 -> b1 = b2 -> generate_fish c1 d1 b1 = generate_fish c2 d2 b2.
Proof. intros -> -> ->. reflexivity. Qed.

(** the generator proper cannot fail once [build] has succeeded: the bin name [generate] sets is still there *)
Lemma bin_bs_help_version c : c_bin (bs_help_version c) = c_bin c.
Proof.
  unfold bs_help_version. cbv zeta.
  destruct (negb (is_set s_dhf c)).
  - match goal with |- context [if ?b then _ else _] => destruct b end;
    match goal with |- context [if ?b then _ else _] => destruct b end; reflexivity.
  - match goal with |- context [if ?b then _ else _] => destruct b end;
    match goal with |- context [if ?b then _ else _] => destruct b end; reflexivity.
Qed.
Lemma build_self_bin c : c_bin (build_self c) = c_bin c.
Proof.
  unfold build_self.
  change (c_bin (bs_globals (bs_help_version (bs_propagate (bs_settings c)))))
    with (c_bin (bs_help_version (bs_propagate (bs_settings c)))).
  rewrite bin_bs_help_version. reflexivity.
Qed.

Lemma build_recursive_bin : forall fuel c b, build_recursive fuel c = Some b -> c_bin b = c_bin c.
Proof.
  intros [|f] c b; cbn [build_recursive]; [discriminate|].
  destruct (map_opt (build_recursive f) (c_subs (build_self c))) as [subs|]; [|discriminate].
  intros H; inversion H; subst; clear H. change (c_bin (with_subs (build_self c) subs)) with (c_bin (build_self c)).
  apply build_self_bin.
Qed.

Theorem generate_fish_total c d bin :
  generate_fish c d bin = None <-> build (set_bin_name c bin) = None.
Proof.
  unfold generate_fish. destruct (build (set_bin_name c bin)) as [b|] eqn:Eb; [|split; reflexivity].
  split; [|discriminate]. intros H. exfalso.
  apply fish_script_total in H. unfold build in Eb.
  destruct (build_recursive (build_fuel (set_bin_name c bin)) (set_bin_name c bin)) as [c'|] eqn:Er; [|discriminate].
  inversion Eb; subst b; clear Eb. unfold build_bin_names in H. rewrite assign_bins_bin in H.
  rewrite (build_recursive_bin _ _ _ Er) in H. destruct c; discriminate.
Qed.

(** ---- what a line contains ---- *)
Lemma in_join_pieces sep (x : list piece) l : In x l -> incl x (join_pieces sep l).
Proof.
  induction l as [|y t IH]; intros Hin; [destruct Hin|].
  cbn [join_pieces]. destruct t as [|z t'].
  - destruct Hin as [->|[]]. apply incl_refl.
  - destruct Hin as [->|Hin].
    + apply incl_appl, incl_refl.
    + apply incl_appr, incl_appr, IH. exact Hin.
Qed.

Lemma spellings_short a l s :
  get_short_and_visible_aliases a = Some l -> In s l -> In (short_word s) (spellings a).
Proof. intros Hl Hs. unfold spellings. rewrite Hl. apply in_or_app. left. apply in_map. exact Hs. Qed.

Lemma spellings_long a l s :
  get_long_and_visible_aliases a = Some l -> In s l -> In (long_word s) (spellings a).
Proof. intros Hl Hs. unfold spellings. rewrite Hl. apply in_or_app. right. apply in_map. exact Hs. Qed.

Lemma value_completion_value (p : arg * adesc) vs v :
  possible_values (fst p) = Some vs -> In v vs -> pv_hide v = false ->
  In (value_word (pv_name v)) (value_completion p).
Proof.
  intros Hpv Hv Hh. unfold value_completion.
  assert (Ht : a_takes_values (fst p) = true).
  { unfold possible_values in Hpv. destruct (a_takes_values (fst p)); [reflexivity|discriminate]. }
  rewrite Ht, Hpv. cbn [negb]. apply in_or_app. right. apply in_or_app. left.
  destruct (zipd_in (@None bytes) vs v Hv (ad_pvh (snd p))) as [h Hin].
  apply (in_join_pieces [Fx lf] (pv_entry (v, h))).
  - apply in_map. apply filter_In. split; [exact Hin|]. cbn [fst]. rewrite Hh. reflexivity.
  - left. reflexivity.
Qed.

(** the line of an argument: the option line when it takes values, the flag line otherwise *)
Definition arg_line (basic : bytes) (p : arg * adesc) : list piece :=
  if a_takes_values (fst p) then opt_line basic p else flag_line basic p.

Lemma arg_line_head basic p : hd_error (arg_line basic p) = Some (Fx basic).
Proof. unfold arg_line. destruct (a_takes_values (fst p)); reflexivity. Qed.

Lemma arg_line_spellings basic p x : In x (spellings (fst p)) -> In x (arg_line basic p).
Proof.
  intros H. unfold arg_line, opt_line, flag_line. destruct (a_takes_values (fst p)); right; apply in_or_app; left; exact H.
Qed.

Lemma arg_line_value basic p vs v :
  possible_values (fst p) = Some vs -> In v vs -> pv_hide v = false ->
  In (value_word (pv_name v)) (arg_line basic p).
Proof.
  intros Hpv Hv Hh. unfold arg_line.
  assert (Ht : a_takes_values (fst p) = true).
  { unfold possible_values in Hpv. destruct (a_takes_values (fst p)); [reflexivity|discriminate]. }
  rewrite Ht. unfold opt_line. right. apply in_or_app. right. apply in_or_app. right. apply in_or_app. left.
  eapply value_completion_value; eassumption.
Qed.

Lemma node_lines_arg basic c d o :
  In o (c_args c) -> a_is_positional o = false ->
  exists ad, In (arg_line basic (o, ad)) (node_lines basic c d).
Proof.
  intros Hin Hpos. destruct (zipd_in ad0 (c_args c) o Hin (cd_args d)) as [ad Had]. exists ad.
  unfold node_lines, arg_line. cbn [fst]. destruct (a_takes_values o) eqn:Et.
  - apply in_or_app. left. apply in_map. apply filter_In. split; [exact Had|].
    unfold is_opt. cbn [fst]. rewrite Et, Hpos. reflexivity.
  - apply in_or_app. right. apply in_or_app. left. apply in_map. apply filter_In. split; [exact Had|].
    unfold is_flag. cbn [fst]. rewrite Et, Hpos. reflexivity.
Qed.

(** the template of the subcommand lines of a node: [-f] is added when the node has no positional *)
Definition sub_template (basic : bytes) (c : cmd) : bytes :=
  if is_nil (get_positionals c) then basic ++ lit " -f" else basic.

Lemma node_lines_sub basic c d sc w :
  In sc (c_subs c) -> In w (get_name_and_visible_aliases sc) ->
  exists about, In (sub_line (sub_template basic c) w about) (node_lines basic c d).
Proof.
  intros Hin Hw. destruct (zipd_in cd0 (c_subs c) sc Hin (cd_subs d)) as [dsc Hd]. exists (cd_about dsc).
  unfold node_lines. apply in_or_app. right. apply in_or_app. right.
  apply in_flat_map. exists (sc, dsc). split; [exact Hd|]. cbn [fst snd].
  apply in_map_iff. exists w. split; [reflexivity|exact Hw].
Qed.

(** ---- paths ---- *)
(** the lines written for a node reached by at most two words (names or visible aliases) are lines
    of the file; the template they carry is the one of that path *)
Lemma gen_fish_inner_reach root nds usg : forall c ws ns n,
  reach c ws ns n -> forall parents d, (List.length parents + List.length ws <= 2)%nat ->
  exists dn, incl (gen_fish_inner root nds usg (parents ++ ws) n dn) (gen_fish_inner root nds usg parents c d).
Proof.
  induction 1 as [c|c sc w ws ns n Hin Hw Hr IH]; intros parents d Hlen.
  - exists d. rewrite app_nil_r. apply incl_refl.
  - cbn [List.length] in Hlen.
    destruct (zipd_in cd0 (c_subs c) sc Hin (cd_subs d)) as [dsc Hd].
    destruct (IH (parents ++ [w]) dsc) as [dn Hdn].
    { rewrite app_length. cbn [List.length]. lia. }
    exists dn. rewrite <- app_assoc in Hdn. cbn [app] in Hdn.
    intros line Hline. apply Hdn in Hline.
    rewrite (gen_fish_inner_unfold root nds usg parents c d).
    destruct (basic_template_some root nds usg parents c) as [basic Hb]; [lia|]. rewrite Hb.
    apply in_or_app. right. apply in_flat_map. exists (sc, dsc). split; [exact Hd|].
    cbn [fst snd]. apply in_flat_map. exists w. split; [exact Hw|exact Hline].
Qed.

(** ---- C16 for the fish file ---- *)
(** [aliases_have_primary]: every visible alias then is one of the spellings the generators are given *)
Lemma short_spelling_listed n o s :
  aliases_have_primary n -> In o (c_args n) ->
  (a_short o = Some s \/ In (s, true) (a_short_aliases o)) ->
  exists l, get_short_and_visible_aliases o = Some l /\ In s l.
Proof.
  intros Hp Ho Hs. destruct (Hp o Ho) as [H1 _]. unfold get_short_and_visible_aliases, get_visible_short_aliases.
  destruct (a_short o) as [sh|] eqn:Es.
  - eexists; split; [reflexivity|]. destruct Hs as [Hs|Hs]; [inversion Hs; left; reflexivity|right].
    destruct (a_short_aliases o) as [|x r] eqn:Ea; [destruct Hs|]. cbn [is_nil]. apply visible_in. exact Hs.
  - exfalso. destruct Hs as [Hs|Hs]; [discriminate|].
    apply H1; [intros Hn; rewrite Hn in Hs; destruct Hs|reflexivity].
Qed.

Lemma long_spelling_listed n o s :
  aliases_have_primary n -> In o (c_args n) ->
  (a_long o = Some s \/ In (s, true) (a_aliases o)) ->
  exists l, get_long_and_visible_aliases o = Some l /\ In s l.
Proof.
  intros Hp Ho Hs. destruct (Hp o Ho) as [_ H2]. unfold get_long_and_visible_aliases, get_visible_aliases.
  destruct (a_long o) as [lg|] eqn:El.
  - eexists; split; [reflexivity|]. destruct Hs as [Hs|Hs]; [inversion Hs; left; reflexivity|right].
    destruct (a_aliases o) as [|x r] eqn:Ea; [destruct Hs|]. cbn [is_nil]. apply visible_in. exact Hs.
  - exfalso. destruct Hs as [Hs|Hs]; [discriminate|].
    apply H2; [intros Hn; rewrite Hn in Hs; destruct Hs|reflexivity].
Qed.

(** The file, for a built tree with a bin name: for the root ([ws = []]) and every node reached by one
    or two words (names or visible aliases), there is the template of that path, and
    - every named argument of the node (option or flag, hidden or not) has a line that starts with
      the template and carries every spelling [Arg::get_short_and_visible_aliases] /
      [get_long_and_visible_aliases] return, and every non-hidden possible value;
    - every name and visible alias of every subcommand of the node has a line [-a "word"]. *)
Theorem fish_mentions c d bin ws ns n :
  c_bin c = Some bin -> reach c ws ns n -> (List.length ws <= 2)%nat ->
  exists lines basic,
    fish_lines c d = Some lines /\
    basic_template bin (fish_needs bin c) (fish_using bin c) ws n = Some basic /\
    (forall o, In o (c_args n) -> a_is_positional o = false ->
       exists line, In line lines /\ hd_error line = Some (Fx basic) /\
         (forall l s, get_short_and_visible_aliases o = Some l -> In s l -> In (short_word s) line) /\
         (forall l s, get_long_and_visible_aliases o = Some l -> In s l -> In (long_word s) line) /\
         (forall vs v, possible_values o = Some vs -> In v vs -> pv_hide v = false ->
                       In (value_word (pv_name v)) line)) /\
    (forall sc w, In sc (c_subs n) -> In w (get_name_and_visible_aliases sc) ->
       exists line, In line lines /\ hd_error line = Some (Fx (sub_template basic n)) /\ In (sub_word w) line).
Proof.
  intros Hb Hr Hlen.
  destruct (fish_lines_shape c d bin Hb) as (pre & Hlines & _).
  destruct (gen_fish_inner_reach bin (fish_needs bin c) (fish_using bin c) c ws ns n Hr [] d) as [dn Hdn];
    [cbn [List.length]; lia|]. cbn [app] in Hdn. fold (complete_lines bin c d) in Hdn.
  destruct (basic_template_some bin (fish_needs bin c) (fish_using bin c) ws n Hlen) as [basic Hbasic].
  exists (pre ++ complete_lines bin c d), basic. split; [exact Hlines|]. split; [exact Hbasic|].
  assert (Hnode : incl (node_lines basic n dn) (pre ++ complete_lines bin c d)).
  { intros line Hl. apply in_or_app. right. apply Hdn.
    rewrite gen_fish_inner_unfold, Hbasic. apply in_or_app. left. exact Hl. }
  split.
  - intros o Ho Hpos. destruct (node_lines_arg basic n dn o Ho Hpos) as [ad Had].
    exists (arg_line basic (o, ad)). split; [apply Hnode; exact Had|]. split; [apply arg_line_head|].
    split; [|split].
    + intros l s Hl Hs. apply arg_line_spellings. eapply spellings_short; eassumption.
    + intros l s Hl Hs. apply arg_line_spellings. eapply spellings_long; eassumption.
    + intros vs v Hpv Hv Hh. apply (arg_line_value basic (o, ad) vs v); assumption.
  - intros sc w Hsc Hw. destruct (node_lines_sub basic n dn sc w Hsc Hw) as [about Hab].
    exists (sub_line (sub_template basic n) w about). split; [apply Hnode; exact Hab|].
    split; [reflexivity|]. right. left. reflexivity.
Qed.

(** the property's wording: in the class where an alias comes with its primary spelling, every short,
    every long and every visible alias of every named argument is mentioned *)
Theorem fish_mentions_all_spellings c d bin ws ns n :
  c_bin c = Some bin -> reach c ws ns n -> (List.length ws <= 2)%nat -> aliases_have_primary n ->
  exists lines, fish_lines c d = Some lines /\
    forall o, In o (c_args n) -> a_is_positional o = false ->
      exists line, In line lines /\
        (forall s, a_short o = Some s \/ In (s, true) (a_short_aliases o) -> In (short_word s) line) /\
        (forall s, a_long o = Some s \/ In (s, true) (a_aliases o) -> In (long_word s) line).
Proof.
  intros Hb Hr Hlen Hp.
  destruct (fish_mentions c d bin ws ns n Hb Hr Hlen) as (lines & basic & Hl & _ & Hargs & _).
  exists lines. split; [exact Hl|]. intros o Ho Hpos.
  destruct (Hargs o Ho Hpos) as (line & Hin & _ & Hs & Hlg & _).
  exists line. split; [exact Hin|]. split.
  - intros s H. destruct (short_spelling_listed n o s Hp Ho H) as (l & Hl1 & Hl2). eapply Hs; eassumption.
  - intros s H. destruct (long_spelling_listed n o s Hp Ho H) as (l & Hl1 & Hl2). eapply Hlg; eassumption.
Qed.

(** what a piece of a line means for the bytes of the file *)
Lemma render_in_line (line : list piece) p : In p line ->
  exists pre post, render_pieces line = pre ++ render1 p ++ post.
Proof.
  intros H. apply in_split in H. destruct H as (l1 & l2 & ->).
  exists (render_pieces l1), (render_pieces l2). unfold render_pieces.
  rewrite flat_map_app. cbn [flat_map]. reflexivity.
Qed.

Theorem fish_mention_in_text c d lines line p :
  fish_lines c d = Some lines -> In line lines -> In p line ->
  exists s pre post, fish_script c d = Some s /\ s = pre ++ render1 p ++ post.
Proof.
  intros Hl Hline Hp. unfold fish_script, fish_pieces. rewrite Hl.
  apply in_split in Hline. destruct Hline as (a & b & ->).
  destruct (render_in_line line p Hp) as (pre & post & Hr).
  exists (render_pieces (List.concat (a ++ line :: b))),
         (render_pieces (List.concat a) ++ pre), (post ++ render_pieces (List.concat b)).
  split; [reflexivity|].
  rewrite concat_app. cbn [List.concat]. unfold render_pieces. rewrite !flat_map_app.
  fold (render_pieces line). rewrite Hr. unfold render_pieces.
  repeat rewrite <- app_assoc. reflexivity.
Qed.

(** ---- the class boundaries, as facts about the model ---- *)
(** [alias-without-primary]: a visible short alias of an option that has no short is written nowhere *)
Definition mentions (lines : list (list piece)) (p : piece) : Prop := exists line, In line lines /\ In p line.

Definition piece_eqb (p q : piece) : bool :=
  match p, q with
  | Fx a, Fx b | Dsq a, Dsq b | Ddq a, Ddq b => beq a b
  | _, _ => false
  end.
Lemma beq_refl_true (a : bytes) : beq a a = true.
Proof. induction a as [|x a IH]; [reflexivity|]. cbn [beq]. rewrite N.eqb_refl. exact IH. Qed.
Lemma piece_eqb_refl p : piece_eqb p p = true.
Proof. destruct p; cbn [piece_eqb]; apply beq_refl_true. Qed.
Definition mentionsb (lines : list (list piece)) (p : piece) : bool :=
  existsb (fun line => existsb (piece_eqb p) line) lines.
Lemma mentionsb_complete lines p : mentions lines p -> mentionsb lines p = true.
Proof.
  intros (line & Hl & Hp). unfold mentionsb. apply existsb_exists. exists line. split; [exact Hl|].
  apply existsb_exists. exists p. split; [exact Hp|apply piece_eqb_refl].
Qed.

Lemma fish_alias_without_primary_refuted :
  exists c d bin lines o s,
    c_bin c = Some bin /\ fish_lines c d = Some lines /\ In o (c_args c) /\ a_is_positional o = false /\
    In (s, true) (a_short_aliases o) /\ ~ mentions lines (short_word s).
Proof.
  exists alias_only_cmd, cd0, [112], [flag_line (lit "complete -c p") (alias_only_arg, ad0)], alias_only_arg, [120].
  split; [reflexivity|]. split; [vm_compute; reflexivity|]. split; [left; reflexivity|].
  split; [reflexivity|]. split; [left; reflexivity|].
  intros H. apply mentionsb_complete in H. vm_compute in H. discriminate.
Qed.

(** below two levels: a flag of a command three words down is written nowhere (its name still is:
    the subcommand words of a second-level node are lines of that node) *)
Definition deep_flag : arg := mkArg [122] (Some [122]) None [] [] ASetTrue None None None false false false.
Definition deep_c : cmd := mkCmd [99] [] [deep_flag] [] None false false sets0 sets0.
Definition deep_b : cmd := mkCmd [98] [] [] [deep_c] None false false sets0 sets0.
Definition deep_a : cmd := mkCmd [97] [] [] [deep_b] None false false sets0 sets0.
Definition deep_tree : cmd := mkCmd [112] [] [] [deep_a] (Some [112]) false false sets0 sets0.

Lemma fish_third_level_not_written :
  exists c d bin lines ws ns n o s,
    c_bin c = Some bin /\ fish_lines c d = Some lines /\ reach c ws ns n /\ List.length ws = 3%nat /\
    In o (c_args n) /\ a_short o = Some s /\ ~ mentions lines (short_word s) /\
    mentions lines (sub_word (c_name n)).
Proof.
  destruct (fish_lines deep_tree cd0) as [lines|] eqn:El; [|vm_compute in El; discriminate].
  exists deep_tree, cd0, [112], lines, [[97]; [98]; [99]], [[97]; [98]; [99]], deep_c, deep_flag, [122].
  split; [reflexivity|]. split; [exact El|]. split.
  { apply (reach_cons deep_tree deep_a [97] [[98]; [99]] [[98]; [99]] deep_c); [left; reflexivity|left; reflexivity|].
    apply (reach_cons deep_a deep_b [98] [[99]] [[99]] deep_c); [left; reflexivity|left; reflexivity|].
    apply (reach_cons deep_b deep_c [99] [] [] deep_c); [left; reflexivity|left; reflexivity|].
    apply reach_nil. }
  split; [reflexivity|]. split; [left; reflexivity|]. split; [reflexivity|].
  vm_compute in El. inversion El; subst lines; clear El. split.
  - intros H. apply mentionsb_complete in H. vm_compute in H. discriminate.
  - eexists. split; [do 3 right; left; reflexivity|]. right. left. reflexivity.
Qed.

(** non-vacuity of the hypotheses of [fish_mentions] / [fish_mentions_all_spellings]: a two-level tree
    with a hyphenated name, a visible and a hidden alias, an option with a short, a long, a visible
    alias and possible values *)
Definition ex_opt : arg :=
  mkArg [111] (Some [111]) (Some [111; 112; 116]) [([120], true)] [([97; 108], true); ([104; 105], false)]
        ASet None (Some [mkPv [118; 49] false; mkPv [118; 50] true]) None false false false.
Definition ex_fish_leaf : cmd := mkCmd [99] [] [ex_opt] [] None false false sets0 sets0.
Definition ex_fish_sub : cmd :=
  mkCmd [97; 45; 98] [([120], true); ([121], false)] [] [ex_fish_leaf] None false false sets0 sets0.
Definition ex_fish_root : cmd := mkCmd [112] [] [] [ex_fish_sub] (Some [112]) false false sets0 sets0.

Example fish_mentions_hyps :
  c_bin ex_fish_root = Some [112] /\ reach ex_fish_root [[120]; [99]] [[97; 45; 98]; [99]] ex_fish_leaf /\
  (List.length [[120]; [99]] <= 2)%nat /\ aliases_have_primary ex_fish_leaf /\
  In ex_opt (c_args ex_fish_leaf) /\ a_is_positional ex_opt = false /\
  get_short_and_visible_aliases ex_opt = Some [[111]; [120]] /\
  get_long_and_visible_aliases ex_opt = Some [[111; 112; 116]; [97; 108]] /\
  possible_values ex_opt = Some [mkPv [118; 49] false; mkPv [118; 50] true].
Proof.
  split; [reflexivity|]. split.
  { apply (reach_cons ex_fish_root ex_fish_sub [120] [[99]] [[99]] ex_fish_leaf); [left; reflexivity|right; left; reflexivity|].
    apply (reach_cons ex_fish_sub ex_fish_leaf [99] [] [] ex_fish_leaf); [left; reflexivity|left; reflexivity|].
    apply reach_nil. }
  split; [cbn; lia|]. split.
  { intros a [<-|[]]. split; intros _; discriminate. }
  split; [left; reflexivity|]. repeat split; reflexivity.
Qed.
