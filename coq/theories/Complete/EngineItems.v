(** Property C18, round 4: a wider class of option items for the state-agreement and line theorems.

    [ParseProofs/Chain.v]'s [item] (C09) covers `--flag`, `--opt=v`, `--opt v`, `-abc`, `-ov`, `-o v` with ONE value.
    Here: `-o=v` (the `=` is dropped by both machines), and MULTI-VALUED options `--opt v1 .. vk` / `-o v1 .. vk`
    with [k] = the maximum of the option's range: the engine counts [Opt a 1 .. Opt a k] and is back in
    [ValueDone] exactly when the parser's pending occurrence is full ([needs_more_vals] false) and its loop is
    back in [ValuesDone].  While [j < k] values are read the engine stands in [Opt a (j+1)] where the parser stands
    in [PSOpt (a_id a)] with [j] pending values ([values_agree]).
    A value TERMINATOR is unknown to the engine: [terminator_refuted].

    Then [pitems18]: [ChainWide.pitems] over these items (options and single-valued positionals).

    Names that exist in both models are the PARSER's when unqualified. *)
From ClapModel Require Import Base.Bytes Base.Machine Base.Utf8 Lex.OsStrExtModel Lex.OsStrExtProofs.
From ClapModel Require Import Complete.EngineModel Complete.EngineProofs.
From ClapModel Require Import Parse.Cmd Parse.Build Parse.Valid Parse.Matcher Parse.Errors Parse.Validator Parse.Parser.
From ClapModel Require Import ParseProofs.Spelling ParseProofs.Dispatch ParseProofs.ErrorSound.
From ClapModel Require Import ParseProofs.Actions ParseProofs.ActionsLoop ParseProofs.ActionsTop ParseProofs.Chain ParseProofs.ChainWide.
From ClapModel Require Import Complete.EngineAccept Complete.EngineLevel Complete.EngineLine Complete.EngineOptState.
From ClapModel Require ParseProofs.UnparseLift ParseProofs.UnparseProofs ParseProofs.Globals.
From Coq Require Import ZArith Lia List Bool.
From RecordUpdate Require Import RecordSet.
Import RecordSetNotations.
Import ListNotations.
Open Scope N_scope.

(** * Parser side *)

(** ** `-o=v` *)
Lemma short_loop_opt_eq c f r ch a v ret vaf st :
  sf_next r = Some (inl ch, 61 :: v) -> get_short c ch = Some a -> a_takes_value a = true ->
  a_req_eq a = false ->
  short_loop c (S f) r ret vaf st =
  (do x <- parse_opt_value c IShort (Some v) a true st; ROk (fst x, PRValuesDone, true)).
Proof.
  intros N GS TV RE. cbn [short_loop]. rewrite N, GS, TV. cbn [negb]. cbv beta iota zeta.
  rewrite !parse_opt_value_attached by exact RE.
  match goal with |- context [react ?a1 ?a2 ?a3 ?a4 ?a5 ?a6 ?a7] =>
    destruct (react a1 a2 a3 a4 a5 a6 a7) as [x|e s|n] end; reflexivity.
Qed.

Lemma loop_short_eq c tok r ch v a rest pos vaf st :
  no_sub c tok -> is_escape tok = false -> to_long tok = None -> to_short tok = Some r ->
  sf_next r = Some (inl ch, 61 :: v) -> get_short c ch = Some a -> a_takes_value a = true ->
  a_req_eq a = false -> no_hyphen c -> fs_skip st = 0 ->
  parse_loop c (tok :: rest) (lsV pos vaf) st =
  (do st' <- react_all c [short_occ a [v]] st; parse_loop c rest (lsV pos true) st').
Proof.
  intros Hns He Hl Hs Hn Hg Htv Hre Hpos Hsk. unfold lsV. cbn [parse_loop l_trailing l_pst l_vaf l_pos].
  rewrite orb_true_r, (Hns vaf), He, Hl, Hs.
  rewrite (parse_short_arg_clean c r pos vaf st Hsk (Hpos pos)).
  replace (st <| fs_skip := 0 |>) with st by (destruct st as [m0 ci fa fk]; cbn in Hsk; subst fk; reflexivity).
  rewrite (short_loop_opt_eq c _ r ch a v PRNoArg vaf st Hn Hg Htv Hre).
  unfold parse_opt_value. rewrite Hre. cbn [andb].
  cbn [react_all short_occ o_ident o_src o_arg o_raw o_ti]. unfold bytes in *.
  match goal with |- context [react ?a1 ?a2 ?a3 ?a4 ?a5 ?a6 ?a7] =>
    destruct (react a1 a2 a3 a4 a5 a6 a7) as [[st1 pr]|e st1|site] end; cbn [rbind fst snd]; reflexivity.
Qed.

(** ** the values of a pending option *)

(** a value token of the option [a]: a plain word, no subcommand name, not [a]'s terminator *)
Definition value_tok (c : cmd) (a : arg) (v : bytes) : Prop :=
  no_sub c v /\ plain_tok v /\ check_terminator a v = false.

Definition with_raw (st : ps) (p : pending) (raw : list bytes) : ps :=
  st <| mt := (mt st) <| mt_pending := Some (mkPending (p_id p) (p_ident p) raw (p_trailing_idx p)) |> |>.

Lemma with_raw_again st p raw p' raw' : p_id p' = p_id p -> p_ident p' = p_ident p -> p_trailing_idx p' = p_trailing_idx p ->
  with_raw (with_raw st p raw) p' raw' = with_raw st p raw'.
Proof.
  intros H1 H2 H3. unfold with_raw. destruct st as [m ci fa fk]. destruct m as [ma mp ms]. cbn. rewrite H1, H2, H3. reflexivity.
Qed.

(** a value that is NOT the last one the range admits: the loop stays in [PSOpt] (the companion of [Chain.loop_value]) *)
Lemma loop_value_more c tok rest pos vaf st a r p :
  no_sub c tok -> is_escape tok = false -> to_long tok = None -> to_short tok = None ->
  find_arg c (a_id a) = Some a -> check_terminator a tok = false ->
  a_num a = Some r -> r_accepts_more r (N.of_nat (S (length (p_raw p)))) = true ->
  mt_pending (mt st) = Some p -> p_id p = a_id a ->
  parse_loop c (tok :: rest) (mkL (PSOpt (a_id a)) pos vaf false) st =
  parse_loop c rest (mkL (PSOpt (a_id a)) pos vaf false) (with_raw st p (p_raw p ++ [tok])).
Proof.
  intros Hns He Hl Hs Hf Hct Hn Hacc Hp Hid. cbn [parse_loop l_trailing l_pst l_vaf l_pos].
  replace (if is_set s_sub_precedence c || false then possible_subcommand c tok vaf else None) with (@None bytes)
    by (destruct (is_set s_sub_precedence c); cbn [orb]; [rewrite (Hns vaf)|]; reflexivity).
  rewrite He, Hl, Hs. cbn [rbind l_trailing l_pst l_vaf l_pos]. rewrite Hf. cbn [expect rbind]. rewrite Hct.
  unfold pending_values_push. rewrite Hp, Hid, beq_refl. cbn [negb is_some andb expect rbind].
  set (P := mkPending (a_id a) (p_ident p) (p_raw p ++ [tok]) (p_trailing_idx p)).
  unfold needs_more_vals.
  replace (mt_pending (mt st <| mt_pending := Some P |>)) with (Some P) by reflexivity.
  subst P. cbn [p_id p_raw]. rewrite beq_refl, Hn. cbn [expect rbind].
  rewrite app_length. cbn [length]. rewrite Nat.add_1_r, Hacc. unfold with_raw. rewrite Hid. reflexivity.
Qed.

Lemma loop_value_last c tok rest pos vaf st a r p :
  no_sub c tok -> is_escape tok = false -> to_long tok = None -> to_short tok = None ->
  find_arg c (a_id a) = Some a -> check_terminator a tok = false ->
  a_num a = Some r -> r_accepts_more r (N.of_nat (S (length (p_raw p)))) = false ->
  mt_pending (mt st) = Some p -> p_id p = a_id a ->
  parse_loop c (tok :: rest) (mkL (PSOpt (a_id a)) pos vaf false) st =
  parse_loop c rest (lsV pos vaf) (with_raw st p (p_raw p ++ [tok])).
Proof. intros. unfold with_raw. eapply loop_value; eassumption. Qed.

(** [j] values are pending, the tokens [vs] bring the occurrence up to the range's maximum: back in [ValuesDone] *)
Lemma loop_values_full c a r : find_arg c (a_id a) = Some a -> a_num a = Some r ->
  forall vs rest pos vaf st p, vs <> [] -> Forall (value_tok c a) vs ->
  N.of_nat (length (p_raw p) + length vs) = vmax r ->
  mt_pending (mt st) = Some p -> p_id p = a_id a ->
  parse_loop c (vs ++ rest) (mkL (PSOpt (a_id a)) pos vaf false) st =
  parse_loop c rest (lsV pos vaf) (with_raw st p (p_raw p ++ vs)).
Proof.
  intros Hf Hn. induction vs as [|v t IH]; intros rest pos vaf st p Hne Hall Hlen Hp Hid; [contradiction|].
  inversion Hall as [|v0 t0 [Hns [[He [Hl Hs]] Hct]] Hall']; subst. cbn [app].
  destruct t as [|v' t'].
  - cbn [app]. apply (loop_value_last c v rest pos vaf st a r p); try assumption.
    unfold r_accepts_more. apply N.ltb_ge. cbn [length] in Hlen. lia.
  - rewrite (loop_value_more c v ((v' :: t') ++ rest) pos vaf st a r p); try assumption.
    2:{ unfold r_accepts_more. apply N.ltb_lt. cbn [length] in Hlen. lia. }
    set (p' := mkPending (p_id p) (p_ident p) (p_raw p ++ [v]) (p_trailing_idx p)).
    rewrite (IH rest pos vaf (with_raw st p (p_raw p ++ [v])) p'); try assumption.
    + rewrite with_raw_again by reflexivity. subst p'. cbn [p_raw]. rewrite <- app_assoc. reflexivity.
    + discriminate.
    + subst p'. cbn [p_raw]. rewrite app_length. cbn [length] in *. lia.
    + reflexivity.
Qed.

(** ... fewer than the maximum: the loop is still in [PSOpt], [length vs] values pending *)
Lemma loop_values_open c a r : find_arg c (a_id a) = Some a -> a_num a = Some r ->
  forall vs rest pos vaf st p, Forall (value_tok c a) vs ->
  N.of_nat (length (p_raw p) + length vs) < vmax r ->
  mt_pending (mt st) = Some p -> p_id p = a_id a ->
  parse_loop c (vs ++ rest) (mkL (PSOpt (a_id a)) pos vaf false) st =
  parse_loop c rest (mkL (PSOpt (a_id a)) pos vaf false) (with_raw st p (p_raw p ++ vs)).
Proof.
  intros Hf Hn. induction vs as [|v t IH]; intros rest pos vaf st p Hall Hlen Hp Hid.
  - cbn [app]. rewrite app_nil_r. unfold with_raw. destruct st as [m ci fa fk]. destruct m as [ma mp ms].
    cbn in Hp. subst mp. destruct p. reflexivity.
  - inversion Hall as [|v0 t0 [Hns [[He [Hl Hs]] Hct]] Hall']; subst. cbn [app].
    rewrite (loop_value_more c v (t ++ rest) pos vaf st a r p); try assumption.
    2:{ unfold r_accepts_more. apply N.ltb_lt. cbn [length] in Hlen. lia. }
    set (p' := mkPending (p_id p) (p_ident p) (p_raw p ++ [v]) (p_trailing_idx p)).
    rewrite (IH rest pos vaf (with_raw st p (p_raw p ++ [v])) p'); try assumption.
    + rewrite with_raw_again by reflexivity. subst p'. cbn [p_raw]. rewrite <- app_assoc. reflexivity.
    + subst p'. cbn [p_raw]. rewrite app_length. cbn [length] in *. lia.
    + reflexivity.
Qed.

(** the state transformer of `--opt v1 .. vk` / `-o v1 .. vk`: flush, then the new pending occurrence *)
Definition sepm_fn (c : cmd) (idn : ident) (a : arg) (vs : list bytes) (st : ps) : res ps :=
  do st1 <- resolve_pending c st;
  ROk (st1 <| mt := (mt st1) <| mt_pending := Some (mkPending (a_id a) (Some idn) vs None) |> |>).

Lemma sepm_fn_fs c idn a vs st st' : sepm_fn c idn a vs st = ROk st' -> fs_skip st' = fs_skip st /\ fs_at st' = fs_at st.
Proof.
  unfold sepm_fn. destruct (resolve_pending c st) as [st1|e s1|x] eqn:RP; cbn [rbind]; try discriminate.
  intros H. inversion H. cbn. split; [exact (resolve_pending_fs c st st1 RP)|exact (resolve_pending_fsat c st st1 RP)].
Qed.

Lemma sepm_fn_err c idn a vs st e s : sepm_fn c idn a vs st = RErr e s -> reaction_error c e.
Proof.
  unfold sepm_fn. destruct (resolve_pending c st) as [st1|e1 s1|x] eqn:E; cbn [rbind]; try discriminate.
  intros H. inversion H; subst. eapply resolve_pending_err; eauto.
Qed.

Lemma with_raw_open st1 a idn vs :
  with_raw (st1 <| mt := (mt st1) <| mt_pending := Some (mkPending (a_id a) (Some idn) [] None) |> |>)
           (mkPending (a_id a) (Some idn) [] None) ([] ++ vs) =
  st1 <| mt := (mt st1) <| mt_pending := Some (mkPending (a_id a) (Some idn) vs None) |> |>.
Proof. unfold with_raw. destruct st1 as [m ci fa fk]. destruct m. reflexivity. Qed.

Lemma loop_long_multi c tok f a r vs rest pos vaf st :
  no_sub c tok -> to_long tok = Some (f, true, None) -> get_long c f = Some a -> a_takes_value a = true ->
  a_req_eq a = false -> find_arg c (a_id a) = Some a -> a_num a = Some r ->
  vs <> [] -> N.of_nat (length vs) = vmax r -> Forall (value_tok c a) vs ->
  parse_loop c (tok :: vs ++ rest) (lsV pos vaf) st =
  (do st' <- sepm_fn c ILong a vs st; parse_loop c rest (lsV pos true) st').
Proof.
  intros Hns Hl Hg Htv Hre Hf Hn Hne Hlen Hall.
  rewrite (loop_long_open c tok f a (vs ++ rest) pos vaf st Hns Hl Hg Htv Hre).
  unfold sepm_fn. destruct (resolve_pending c st) as [st1|e s1|x]; cbn [rbind]; try reflexivity.
  rewrite (loop_values_full c a r Hf Hn vs rest pos true _ (mkPending (a_id a) (Some ILong) [] None) Hne Hall);
    [|cbn [p_raw length]; lia|reflexivity|reflexivity].
  cbn [p_raw]. rewrite with_raw_open. reflexivity.
Qed.

Lemma loop_short_multi c tok r0 ch a r vs rest pos vaf st :
  no_sub c tok -> is_escape tok = false -> to_long tok = None -> to_short tok = Some r0 ->
  sf_next r0 = Some (inl ch, []) -> get_short c ch = Some a -> a_takes_value a = true ->
  a_req_eq a = false -> no_hyphen c -> find_arg c (a_id a) = Some a -> a_num a = Some r ->
  vs <> [] -> N.of_nat (length vs) = vmax r -> Forall (value_tok c a) vs -> fs_skip st = 0 ->
  parse_loop c (tok :: vs ++ rest) (lsV pos vaf) st =
  (do st' <- sepm_fn c IShort a vs st; parse_loop c rest (lsV pos true) st').
Proof.
  intros Hns He Hl Hs Hnx Hg Htv Hre Hpos Hf Hn Hne Hlen Hall Hsk.
  rewrite (loop_short_open c tok r0 ch a (vs ++ rest) pos vaf st Hns He Hl Hs Hnx Hg Htv Hre Hpos Hsk).
  unfold sepm_fn. destruct (resolve_pending c st) as [st1|e s1|x]; cbn [rbind]; try reflexivity.
  rewrite (loop_values_full c a r Hf Hn vs rest pos true _ (mkPending (a_id a) (Some IShort) [] None) Hne Hall);
    [|cbn [p_raw length]; lia|reflexivity|reflexivity].
  cbn [p_raw]. rewrite with_raw_open. reflexivity.
Qed.

(** the value TERMINATOR of the pending option: the occurrence is closed, the word is dropped, nothing is pushed *)
Lemma loop_value_term c tok rest pos vaf st a :
  no_sub c tok -> is_escape tok = false -> to_long tok = None -> to_short tok = None ->
  find_arg c (a_id a) = Some a -> check_terminator a tok = true ->
  parse_loop c (tok :: rest) (mkL (PSOpt (a_id a)) pos vaf false) st = parse_loop c rest (lsV pos vaf) st.
Proof.
  intros Hns He Hl Hs Hf Hct. cbn [parse_loop l_trailing l_pst l_vaf l_pos].
  replace (if is_set s_sub_precedence c || false then possible_subcommand c tok vaf else None) with (@None bytes)
    by (destruct (is_set s_sub_precedence c); cbn [orb]; [rewrite (Hns vaf)|]; reflexivity).
  rewrite He, Hl, Hs. cbn [rbind l_trailing l_pst l_vaf l_pos]. rewrite Hf. cbn [expect rbind]. rewrite Hct. reflexivity.
Qed.

(** `--opt v1 .. vj ;` / `-o v1 .. vj ;`: [j] values below the maximum, then the terminator *)
Lemma loop_long_term c tok f a r vs t rest pos vaf st :
  no_sub c tok -> to_long tok = Some (f, true, None) -> get_long c f = Some a -> a_takes_value a = true ->
  a_req_eq a = false -> find_arg c (a_id a) = Some a -> a_num a = Some r ->
  N.of_nat (length vs) < vmax r -> Forall (value_tok c a) vs ->
  no_sub c t -> plain_tok t -> check_terminator a t = true ->
  parse_loop c (tok :: (vs ++ [t]) ++ rest) (lsV pos vaf) st =
  (do st' <- sepm_fn c ILong a vs st; parse_loop c rest (lsV pos true) st').
Proof.
  intros Hns Hl Hg Htv Hre Hf Hn Hlen Hall Hnst [Het [Hlt Hst]] Hct.
  rewrite (loop_long_open c tok f a ((vs ++ [t]) ++ rest) pos vaf st Hns Hl Hg Htv Hre).
  unfold sepm_fn. destruct (resolve_pending c st) as [st1|e s1|x]; cbn [rbind]; try reflexivity.
  rewrite <- app_assoc.
  rewrite (loop_values_open c a r Hf Hn vs ([t] ++ rest) pos true _ (mkPending (a_id a) (Some ILong) [] None) Hall);
    [|cbn [p_raw length]; lia|reflexivity|reflexivity].
  cbn [p_raw]. rewrite with_raw_open. cbn [app].
  apply (loop_value_term c t rest pos true _ a Hnst Het Hlt Hst Hf Hct).
Qed.

Lemma loop_short_term c tok r0 ch a r vs t rest pos vaf st :
  no_sub c tok -> is_escape tok = false -> to_long tok = None -> to_short tok = Some r0 ->
  sf_next r0 = Some (inl ch, []) -> get_short c ch = Some a -> a_takes_value a = true ->
  a_req_eq a = false -> no_hyphen c -> find_arg c (a_id a) = Some a -> a_num a = Some r ->
  N.of_nat (length vs) < vmax r -> Forall (value_tok c a) vs ->
  no_sub c t -> plain_tok t -> check_terminator a t = true -> fs_skip st = 0 ->
  parse_loop c (tok :: (vs ++ [t]) ++ rest) (lsV pos vaf) st =
  (do st' <- sepm_fn c IShort a vs st; parse_loop c rest (lsV pos true) st').
Proof.
  intros Hns He Hl Hs Hnx Hg Htv Hre Hpos Hf Hn Hlen Hall Hnst [Het [Hlt Hst]] Hct Hsk.
  rewrite (loop_short_open c tok r0 ch a ((vs ++ [t]) ++ rest) pos vaf st Hns He Hl Hs Hnx Hg Htv Hre Hpos Hsk).
  unfold sepm_fn. destruct (resolve_pending c st) as [st1|e s1|x]; cbn [rbind]; try reflexivity.
  rewrite <- app_assoc.
  rewrite (loop_values_open c a r Hf Hn vs ([t] ++ rest) pos true _ (mkPending (a_id a) (Some IShort) [] None) Hall);
    [|cbn [p_raw length]; lia|reflexivity|reflexivity].
  cbn [p_raw]. rewrite with_raw_open. cbn [app].
  apply (loop_value_term c t rest pos true _ a Hnst Het Hlt Hst Hf Hct).
Qed.

(** `--opt` of an option that REQUIRES `=`, given without it, minimum 0: a complete occurrence without values
    ([Parser::parse_opt_value]: "Requires equals, but min_vals == 0"), exactly like a flag's *)
Lemma loop_long_reqeq c tok f a r rest pos vaf st :
  no_sub c tok -> to_long tok = Some (f, true, None) -> get_long c f = Some a -> a_takes_value a = true ->
  a_req_eq a = true -> a_num a = Some r -> vmin r = 0 ->
  parse_loop c (tok :: rest) (lsV pos vaf) st =
  (do st' <- react_all c [long_occ a []] st; parse_loop c rest (lsV pos true) st').
Proof.
  intros Hns Hl Hg Htv Hre Hn Hmin. unfold lsV. cbn [parse_loop l_trailing l_pst l_vaf l_pos].
  rewrite orb_true_r, (Hns vaf), (to_long_not_escape _ _ Hl), Hl.
  rewrite parse_long_arg_unfold. cbn [state_arg rbind negb].
  rewrite (to_long_flag_nonempty _ _ _ Hl). cbn [andb].
  rewrite (long_exact_wins c f a Hg). unfold parse_long_found. rewrite Htv.
  unfold parse_opt_value. cbn [is_some negb]. rewrite Hre. cbn [andb]. rewrite Hn. cbn [expect rbind]. rewrite Hmin.
  change (0 =? 0) with true. cbn iota.
  cbn [react_all long_occ o_ident o_src o_arg o_raw o_ti].
  destruct (react c (Some ILong) SCmdLine a [] None st) as [[st1 pr]|e st1|site] eqn:Er; cbn [rbind fst snd]; try reflexivity.
Qed.

(** * The wider items *)

(** no argument of the level accepts hyphen values or negative numbers (a word that looks like an option is one) *)
Definition hyphen_free (c : cmd) : Prop :=
  forallb (fun a => negb (a_negnum a) && negb (a_hyphen a)) (c_args c) = true.

Inductive item18 (c : cmd) : list bytes -> (ps -> res ps) -> Prop :=
| i18_base toks F : item c toks F -> item18 c toks F
| i18_short_eq tok r ch v a :        (* `-o=v` *)
    no_sub c tok -> is_escape tok = false -> to_long tok = None -> to_short tok = Some r ->
    sf_next r = Some (inl ch, 61 :: v) -> get_short c ch = Some a -> a_takes_value a = true ->
    a_req_eq a = false -> no_hyphen c ->
    item18 c [tok] (react_all c [short_occ a [v]])
| i18_long_multi tok f a r vs :      (* `--opt v1 .. vk`, k = the maximum of the range *)
    no_sub c tok -> to_long tok = Some (f, true, None) -> get_long c f = Some a -> a_takes_value a = true ->
    a_req_eq a = false -> find_arg c (a_id a) = Some a -> a_num a = Some r ->
    vs <> [] -> N.of_nat (length vs) = vmax r -> Forall (value_tok c a) vs ->
    item18 c (tok :: vs) (sepm_fn c ILong a vs)
| i18_short_multi tok r0 ch a r vs : (* `-o v1 .. vk` *)
    no_sub c tok -> is_escape tok = false -> to_long tok = None -> to_short tok = Some r0 ->
    sf_next r0 = Some (inl ch, []) -> get_short c ch = Some a -> a_takes_value a = true ->
    a_req_eq a = false -> no_hyphen c -> find_arg c (a_id a) = Some a -> a_num a = Some r ->
    vs <> [] -> N.of_nat (length vs) = vmax r -> Forall (value_tok c a) vs ->
    item18 c (tok :: vs) (sepm_fn c IShort a vs)
| i18_long_term tok f a r vs t :     (* `--opt v1 .. vj ;`: j below the maximum, `;` = the option's value terminator *)
    no_sub c tok -> to_long tok = Some (f, true, None) -> get_long c f = Some a -> a_takes_value a = true ->
    a_req_eq a = false -> find_arg c (a_id a) = Some a -> a_num a = Some r ->
    N.of_nat (length vs) < vmax r -> Forall (value_tok c a) vs ->
    no_sub c t -> plain_tok t -> check_terminator a t = true ->
    item18 c (tok :: vs ++ [t]) (sepm_fn c ILong a vs)
| i18_short_term tok r0 ch a r vs t : (* `-o v1 .. vj ;` *)
    no_sub c tok -> is_escape tok = false -> to_long tok = None -> to_short tok = Some r0 ->
    sf_next r0 = Some (inl ch, []) -> get_short c ch = Some a -> a_takes_value a = true ->
    a_req_eq a = false -> no_hyphen c -> find_arg c (a_id a) = Some a -> a_num a = Some r ->
    N.of_nat (length vs) < vmax r -> Forall (value_tok c a) vs ->
    no_sub c t -> plain_tok t -> check_terminator a t = true ->
    item18 c (tok :: vs ++ [t]) (sepm_fn c IShort a vs)
| i18_long_reqeq tok f a r :          (* `--opt` of an option that requires `=`, without it, minimum 0: complete, no values *)
    no_sub c tok -> to_long tok = Some (f, true, None) -> get_long c f = Some a -> a_takes_value a = true ->
    a_req_eq a = true -> a_num a = Some r -> vmin r = 0 ->
    item18 c [tok] (react_all c [long_occ a []])
| i18_long_partial tok f a r vs toks2 F2 :  (* `--opt v1 .. vj` PARTIALLY FILLED (j below the maximum), then another option item *)
    hyphen_free c ->
    no_sub c tok -> to_long tok = Some (f, true, None) -> get_long c f = Some a -> a_takes_value a = true ->
    a_req_eq a = false -> find_arg c (a_id a) = Some a -> a_num a = Some r ->
    N.of_nat (length vs) < vmax r -> Forall (value_tok c a) vs ->
    item18 c toks2 F2 ->
    item18 c (tok :: vs ++ toks2) (fun st => do st' <- sepm_fn c ILong a vs st; F2 st')
| i18_short_partial tok r0 ch a r vs toks2 F2 : (* `-o v1 .. vj`, then another option item *)
    hyphen_free c ->
    no_sub c tok -> is_escape tok = false -> to_long tok = None -> to_short tok = Some r0 ->
    sf_next r0 = Some (inl ch, []) -> get_short c ch = Some a -> a_takes_value a = true ->
    a_req_eq a = false -> no_hyphen c -> find_arg c (a_id a) = Some a -> a_num a = Some r ->
    N.of_nat (length vs) < vmax r -> Forall (value_tok c a) vs ->
    item18 c toks2 F2 ->
    item18 c (tok :: vs ++ toks2) (fun st => do st' <- sepm_fn c IShort a vs st; F2 st').

(** every item starts with a word that is lexed as an exact long key or as a non-empty short cluster *)
Lemma sf_next_nonempty r x : sf_next r = Some x -> r <> [].
Proof. intros H ->. cbn in H. discriminate. Qed.

Lemma cluster_token_dash c tok os : no_sub c tok -> cluster_token c tok os -> dash_tok c tok.
Proof.
  intros Hns [ch [r [Et [Hne [Hd Hc]]]]]. subst tok.
  assert (E45 : (ch =? 45) = false) by (apply N.eqb_neq; exact Hne).
  split; [exact Hns|]. split.
  - unfold is_escape, DASH. cbn [beq]. rewrite E45. reflexivity.
  - right. split.
    + unfold to_long, strip_prefix, DASH. cbn [starts_with]. rewrite E45. reflexivity.
    + exists (ch :: r). split; [|discriminate].
      unfold to_short, strip_prefix, DASH. cbn [starts_with length skipn].
      change ((45 =? 45) && true) with true. cbn iota. cbn [starts_with]. rewrite E45. reflexivity.
Qed.

Lemma item_head c toks F : item c toks F -> exists t0 ts, toks = t0 :: ts /\ dash_tok c t0.
Proof.
  intros Hi. destruct Hi.
  - exists tok, []. split; [reflexivity|]. split; [assumption|]. split; [eapply to_long_not_escape; eauto|]. left. eauto.
  - exists tok, []. split; [reflexivity|]. split; [assumption|]. split; [eapply to_long_not_escape; eauto|]. left. eauto.
  - exists tok, [v]. split; [reflexivity|]. split; [assumption|]. split; [eapply to_long_not_escape; eauto|]. left. eauto.
  - exists tok, []. split; [reflexivity|]. eapply cluster_token_dash; eauto.
  - exists tok, []. split; [reflexivity|]. split; [assumption|]. split; [assumption|]. right. split; [assumption|].
    exists r. split; [assumption|eapply sf_next_nonempty; eauto].
  - exists tok, [v]. split; [reflexivity|]. split; [assumption|]. split; [assumption|]. right. split; [assumption|].
    exists r0. split; [assumption|eapply sf_next_nonempty; eauto].
Qed.

Lemma item18_head c toks F : item18 c toks F -> exists t0 ts, toks = t0 :: ts /\ dash_tok c t0.
Proof.
  intros Hi. destruct Hi.
  - eapply item_head; eauto.
  - exists tok, []. split; [reflexivity|]. split; [assumption|]. split; [assumption|]. right. split; [assumption|].
    exists r. split; [assumption|eapply sf_next_nonempty; eauto].
  - exists tok, vs. split; [reflexivity|]. split; [assumption|]. split; [eapply to_long_not_escape; eauto|]. left. eauto.
  - exists tok, vs. split; [reflexivity|]. split; [assumption|]. split; [assumption|]. right. split; [assumption|].
    exists r0. split; [assumption|eapply sf_next_nonempty; eauto].
  - exists tok, (vs ++ [t]). split; [reflexivity|]. split; [assumption|]. split; [eapply to_long_not_escape; eauto|]. left. eauto.
  - exists tok, (vs ++ [t]). split; [reflexivity|]. split; [assumption|]. split; [assumption|]. right. split; [assumption|].
    exists r0. split; [assumption|eapply sf_next_nonempty; eauto].
  - exists tok, []. split; [reflexivity|]. split; [assumption|]. split; [eapply to_long_not_escape; eauto|]. left. eauto.
  - exists tok, (vs ++ toks2). split; [reflexivity|]. split; [assumption|]. split; [eapply to_long_not_escape; eauto|]. left. eauto.
  - exists tok, (vs ++ toks2). split; [reflexivity|]. split; [assumption|]. split; [assumption|]. right. split; [assumption|].
    exists r0. split; [assumption|eapply sf_next_nonempty; eauto].
Qed.

Lemma hyphen_free_arg c a : hyphen_free c -> find_arg c (a_id a) = Some a -> a_hyphen a = false /\ a_negnum a = false.
Proof.
  unfold hyphen_free. intros H Hf. rewrite forallb_forall in H.
  assert (Hin : In a (c_args c)) by (unfold find_arg in Hf; apply find_some in Hf; tauto).
  specialize (H a Hin). apply andb_true_iff in H. destruct H as [H1 H2].
  apply negb_true_iff in H1. apply negb_true_iff in H2. split; assumption.
Qed.

(** the parser's loop behind a partially filled occurrence of [a], on an item: as between arguments *)
Lemma loop_partial_then c a toks2 F2 : hyphen_free c -> find_arg c (a_id a) = Some a -> item18 c toks2 F2 ->
  forall rest pos vaf st, fs_skip st = 0 ->
  parse_loop c (toks2 ++ rest) (mkL (PSOpt (a_id a)) pos vaf false) st = parse_loop c (toks2 ++ rest) (lsV pos vaf) st.
Proof.
  intros Hhf Hf Hi rest pos vaf st Hsk.
  destruct (item18_head c toks2 F2 Hi) as [t0 [ts [-> Hd]]]. cbn [app].
  destruct (hyphen_free_arg c a Hhf Hf) as [Hh Hn].
  exact (loop_opt_dash c t0 a (ts ++ rest) pos vaf st Hf Hh Hn (no_hyphen_of_args c Hhf) Hsk Hd).
Qed.

Lemma item18_fs c toks F : item18 c toks F -> forall st st', F st = ROk st' -> fs_skip st' = fs_skip st /\ fs_at st' = fs_at st.
Proof.
  induction 1 as [toks F Hi| | | | | | |tok f a r vs toks2 F2 Hhf Hns Hl Hg Htv Hre Hf Hn Hlen Hall Hi2 IH
                 |tok r0 ch a r vs toks2 F2 Hhf Hns He Hl Hs Hnx Hg Htv Hre Hnh Hf Hn Hlen Hall Hi2 IH]; intros st st' HF.
  - split; [eapply item_fs; eauto|eapply item_fsat; eauto].
  - split; [apply (react_all_fs _ _ _ _ HF)|apply (react_all_fsat _ _ _ _ HF)].
  - eapply sepm_fn_fs; eauto.
  - eapply sepm_fn_fs; eauto.
  - eapply sepm_fn_fs; eauto.
  - eapply sepm_fn_fs; eauto.
  - split; [apply (react_all_fs _ _ _ _ HF)|apply (react_all_fsat _ _ _ _ HF)].
  - destruct (sepm_fn c ILong a vs st) as [st1|e s1|x] eqn:E; cbn [rbind] in HF; try discriminate.
    destruct (IH _ _ HF) as [H1 H2]. destruct (sepm_fn_fs _ _ _ _ _ _ E) as [H3 H4]. rewrite H1, H2. split; assumption.
  - destruct (sepm_fn c IShort a vs st) as [st1|e s1|x] eqn:E; cbn [rbind] in HF; try discriminate.
    destruct (IH _ _ HF) as [H1 H2]. destruct (sepm_fn_fs _ _ _ _ _ _ E) as [H3 H4]. rewrite H1, H2. split; assumption.
Qed.

Lemma item18_step c toks F : item18 c toks F -> forall rest pos vaf st, fs_skip st = 0 ->
  parse_loop c (toks ++ rest) (lsV pos vaf) st = (do st' <- F st; parse_loop c rest (lsV pos true) st').
Proof.
  induction 1 as [toks F Hi| | | | | | |tok f a r vs toks2 F2 Hhf Hns Hl Hg Htv Hre Hf Hn Hlen Hall Hi2 IH
                 |tok r0 ch a r vs toks2 F2 Hhf Hns He Hl Hs Hnx Hg Htv Hre Hnh Hf Hn Hlen Hall Hi2 IH];
    intros rest pos vaf st Hfs; cbn [app].
  - apply item_step; assumption.
  - apply (loop_short_eq c tok r ch v a); assumption.
  - apply (loop_long_multi c tok f a r vs); assumption.
  - apply (loop_short_multi c tok r0 ch a r vs); assumption.
  - apply (loop_long_term c tok f a r vs t); assumption.
  - apply (loop_short_term c tok r0 ch a r vs t); assumption.
  - apply (loop_long_reqeq c tok f a r); assumption.
  - rewrite <- app_assoc.
    rewrite (loop_long_open c tok f a (vs ++ toks2 ++ rest) pos vaf st Hns Hl Hg Htv Hre).
    unfold sepm_fn. destruct (resolve_pending c st) as [st1|e s1|x] eqn:RP; cbn [rbind]; try reflexivity.
    rewrite (loop_values_open c a r Hf Hn vs (toks2 ++ rest) pos true _ (mkPending (a_id a) (Some ILong) [] None) Hall);
      [|cbn [p_raw length]; lia|reflexivity|reflexivity].
    cbn [p_raw]. rewrite with_raw_open.
    assert (Hfs1 : fs_skip (st1 <| mt := (mt st1) <| mt_pending := Some (mkPending (a_id a) (Some ILong) vs None) |> |>) = 0).
    { cbn. rewrite (resolve_pending_fs c st st1 RP). exact Hfs. }
    rewrite (loop_partial_then c a toks2 F2 Hhf Hf Hi2 rest pos true _ Hfs1).
    exact (IH rest pos true _ Hfs1).
  - rewrite <- app_assoc.
    rewrite (loop_short_open c tok r0 ch a (vs ++ toks2 ++ rest) pos vaf st Hns He Hl Hs Hnx Hg Htv Hre Hnh Hfs).
    unfold sepm_fn. destruct (resolve_pending c st) as [st1|e s1|x] eqn:RP; cbn [rbind]; try reflexivity.
    rewrite (loop_values_open c a r Hf Hn vs (toks2 ++ rest) pos true _ (mkPending (a_id a) (Some IShort) [] None) Hall);
      [|cbn [p_raw length]; lia|reflexivity|reflexivity].
    cbn [p_raw]. rewrite with_raw_open.
    assert (Hfs1 : fs_skip (st1 <| mt := (mt st1) <| mt_pending := Some (mkPending (a_id a) (Some IShort) vs None) |> |>) = 0).
    { cbn. rewrite (resolve_pending_fs c st st1 RP). exact Hfs. }
    rewrite (loop_partial_then c a toks2 F2 Hhf Hf Hi2 rest pos true _ Hfs1).
    exact (IH rest pos true _ Hfs1).
Qed.

Lemma item18_nonempty c toks F : item18 c toks F -> is_nil toks = false.
Proof. intros Hi. destruct Hi; try reflexivity. eapply item_nonempty; eauto. Qed.

Lemma item18_err c toks F : item18 c toks F -> forall st e s, F st = RErr e s -> reaction_error c e.
Proof.
  induction 1 as [toks F Hi| | | | | | |tok f a r vs toks2 F2 Hhf Hns Hl Hg Htv Hre Hf Hn Hlen Hall Hi2 IH
                 |tok r0 ch a r vs toks2 F2 Hhf Hns He Hl Hs Hnx Hg Htv Hre Hnh Hf Hn Hlen Hall Hi2 IH]; intros st e s HF.
  - eapply item_err; eauto.
  - eapply react_all_err; eauto.
  - eapply sepm_fn_err; eauto.
  - eapply sepm_fn_err; eauto.
  - eapply sepm_fn_err; eauto.
  - eapply sepm_fn_err; eauto.
  - eapply react_all_err; eauto.
  - destruct (sepm_fn c ILong a vs st) as [st1|e1 s1|x] eqn:E; cbn [rbind] in HF.
    + eapply IH; eauto.
    + inversion HF; subst. eapply sepm_fn_err; eauto.
    + discriminate.
  - destruct (sepm_fn c IShort a vs st) as [st1|e1 s1|x] eqn:E; cbn [rbind] in HF.
    + eapply IH; eauto.
    + inversion HF; subst. eapply sepm_fn_err; eauto.
    + discriminate.
Qed.

(** * Engine side *)
Section EngineItems18.
Variables pc cur : cmd.
Hypothesis L : elevel pc cur.
Let Hrel : lvl_rel pc cur := el_rel pc cur L.

(** one value of a pending option: the count moves on, [ValueDone] when the range's maximum is reached *)
Lemma eng_value_step v a r pi j evaf : no_sub pc v -> plain_tok v -> check_terminator a v = false -> a_num a = Some r ->
  shadow_step v cur pi false (Opt a j) evaf = SNext cur pi false (if j <? vmax r then Opt a (j + 1) else ValueDone) evaf.
Proof.
  intros Hns [He [Hl Hs]] Hct Hn. unfold shadow_step. cbn [negb]. rewrite (eng_no_sub pc cur v _ Hrel Hns).
  rewrite lex_is_escape, He, lex_to_long, Hl, lex_to_short, Hs.
  unfold EngineModel.parse_opt_value. rewrite is_value_terminator_check, Hct, Hn.
  destruct (opt_allows_hyphen (Opt a j) v); reflexivity.
Qed.

(** the value terminator of the pending option: back in [ValueDone] whatever the count (the repair of finding
    C18-value-terminator) *)
Lemma eng_term_step t a pi j evaf : no_sub pc t -> plain_tok t -> check_terminator a t = true ->
  shadow_step t cur pi false (Opt a j) evaf = SNext cur pi false ValueDone evaf.
Proof.
  intros Hns [He [Hl Hs]] Hct. unfold shadow_step. cbn [negb]. rewrite (eng_no_sub pc cur t _ Hrel Hns).
  rewrite lex_is_escape, He, lex_to_long, Hl, lex_to_short, Hs.
  unfold EngineModel.parse_opt_value. rewrite is_value_terminator_check, Hct.
  destruct (opt_allows_hyphen (Opt a j) t); reflexivity.
Qed.

Lemma eng_values_full a r pi evaf : a_num a = Some r -> forall vs j, vs <> [] -> Forall (value_tok pc a) vs ->
  j + N.of_nat (length vs) = vmax r + 1 ->
  shadow_run vs cur pi false (Opt a j) evaf = SNext cur pi false ValueDone evaf.
Proof.
  intros Hn. induction vs as [|v t IH]; intros j Hne Hall Hlen; [contradiction|].
  inversion Hall as [|v0 t0 [Hns [Hpl Hct]] Hall']; subst. cbn [shadow_run].
  rewrite (eng_value_step v a r pi j evaf Hns Hpl Hct Hn).
  destruct t as [|v' t'].
  - cbn [length] in Hlen. replace (j <? vmax r) with false by (symmetry; apply N.ltb_ge; lia). reflexivity.
  - replace (j <? vmax r) with true by (symmetry; apply N.ltb_lt; cbn [length] in Hlen; lia).
    apply IH; [discriminate|exact Hall'|cbn [length] in *; lia].
Qed.

Lemma eng_values_open a r pi evaf : a_num a = Some r -> forall vs j, Forall (value_tok pc a) vs ->
  j + N.of_nat (length vs) <= vmax r ->
  shadow_run vs cur pi false (Opt a j) evaf = SNext cur pi false (Opt a (j + N.of_nat (length vs))) evaf.
Proof.
  intros Hn. induction vs as [|v t IH]; intros j Hall Hlen.
  - cbn [shadow_run length N.of_nat]. rewrite N.add_0_r. reflexivity.
  - inversion Hall as [|v0 t0 [Hns [Hpl Hct]] Hall']; subst. cbn [shadow_run].
    rewrite (eng_value_step v a r pi j evaf Hns Hpl Hct Hn).
    replace (j <? vmax r) with true by (symmetry; apply N.ltb_lt; cbn [length] in Hlen; lia).
    rewrite IH; [|exact Hall'|cbn [length] in *; lia].
    replace (j + 1 + N.of_nat (length t)) with (j + N.of_nat (length (v :: t))) by (cbn [length]; lia). reflexivity.
Qed.

(** no positional of the level accepts hyphen values *)
Lemma hyphen_free_pos pi : hyphen_free pc -> pos_allows_hyphen cur pi = false.
Proof.
  unfold hyphen_free, pos_allows_hyphen. intros H. destruct (find_pos cur pi) as [p|] eqn:Ef; [|reflexivity].
  assert (Hin : In p (c_args pc)).
  { rewrite (proj1 Hrel). unfold find_pos, positionals in Ef. apply find_some in Ef. destruct Ef as [Hin _].
    apply filter_In in Hin. tauto. }
  rewrite forallb_forall in H. specialize (H p Hin). apply andb_true_iff in H. destruct H as [_ H2].
  apply negb_true_iff in H2. exact H2.
Qed.

(** the engine's run on an item while the option [a] is pending (any count): as between arguments *)
Lemma eng_partial_then a k toks2 F2 pi evaf : hyphen_free pc -> find_arg pc (a_id a) = Some a -> item18 pc toks2 F2 ->
  shadow_run toks2 cur pi false (Opt a k) evaf = shadow_run toks2 cur pi false ValueDone evaf.
Proof.
  intros Hhf Hf Hi. destruct (item18_head pc toks2 F2 Hi) as [t0 [ts [-> [Hns [He Hlex]]]]].
  destruct (hyphen_free_arg pc a Hhf Hf) as [Hh _].
  cbn [shadow_run]. rewrite (eng_opt_as_vd pc cur L t0 a k pi evaf Hh (hyphen_free_pos pi Hhf) Hns He); [reflexivity|].
  destruct Hlex as [[f [v [b [Hl _]]]]|[_ [r [Hs _]]]]; [left; rewrite Hl; discriminate|right; rewrite Hs; discriminate].
Qed.

Lemma eng_item18 toks F : item18 pc toks F -> forall pi evaf,
  shadow_run toks cur pi false ValueDone evaf = SNext cur pi false ValueDone true.
Proof.
  induction 1 as [toks F Hi| | | | | | |tok f a r vs toks2 F2 Hhf Hns Hl Hg Htv Hre Hf Hn Hlen Hall Hi2 IH
                 |tok r0 ch a r vs toks2 F2 Hhf Hns He Hl Hs Hnx Hg Htv Hre Hnh Hf Hn Hlen Hall Hi2 IH]; intros pi evaf.
  - apply (eng_item pc cur L toks F pi evaf). assumption.
  - (* -o=v *) cbn [shadow_run]. rewrite (eng_short_opt pc cur L tok r ch (61 :: v) a pi evaf) by assumption. reflexivity.
  - (* --opt v1 .. vk *) cbn [shadow_run]. rewrite (eng_long pc cur L tok f None a pi evaf) by assumption.
    match goal with H : a_takes_value a = true |- _ => rewrite H end.
    match goal with H : a_req_eq a = false |- _ => rewrite H end. cbn [is_none andb negb].
    apply (eng_values_full a r pi true); try assumption. lia.
  - (* -o v1 .. vk *) cbn [shadow_run]. rewrite (eng_short_opt pc cur L tok r0 ch [] a pi evaf) by assumption.
    match goal with H : a_req_eq a = false |- _ => rewrite H end. cbn [is_nil andb negb].
    apply (eng_values_full a r pi true); try assumption. lia.
  - (* --opt v1 .. vj ; *) cbn [shadow_run]. rewrite (eng_long pc cur L tok f None a pi evaf) by assumption.
    match goal with H : a_takes_value a = true |- _ => rewrite H end.
    match goal with H : a_req_eq a = false |- _ => rewrite H end. cbn [is_none andb negb].
    rewrite shadow_run_app, (eng_values_open a r pi true) by (try assumption; lia).
    cbn [shadow_run]. rewrite (eng_term_step t a pi _ true) by assumption. reflexivity.
  - (* -o v1 .. vj ; *) cbn [shadow_run]. rewrite (eng_short_opt pc cur L tok r0 ch [] a pi evaf) by assumption.
    match goal with H : a_req_eq a = false |- _ => rewrite H end. cbn [is_nil andb negb].
    rewrite shadow_run_app, (eng_values_open a r pi true) by (try assumption; lia).
    cbn [shadow_run]. rewrite (eng_term_step t a pi _ true) by assumption. reflexivity.
  - (* --opt, requires `=` *) cbn [shadow_run]. rewrite (eng_long pc cur L tok f None a pi evaf) by assumption.
    match goal with H : a_req_eq a = true |- _ => rewrite H end. rewrite andb_false_r. reflexivity.
  - (* --opt v1 .. vj, then an item *) cbn [shadow_run]. rewrite (eng_long pc cur L tok f None a pi evaf Hns Hl Hg), Htv, Hre. cbn [is_none andb negb].
    rewrite shadow_run_app, (eng_values_open a r pi true Hn vs 1 Hall) by lia.
    rewrite (eng_partial_then a _ toks2 F2 pi true Hhf Hf Hi2). apply IH.
  - (* -o v1 .. vj, then an item *) cbn [shadow_run].
    rewrite (eng_short_opt pc cur L tok r0 ch [] a pi evaf Hns He Hl Hs Hnx Hg Htv), Hre. cbn [is_nil andb negb].
    rewrite shadow_run_app, (eng_values_open a r pi true Hn vs 1 Hall) by lia.
    rewrite (eng_partial_then a _ toks2 F2 pi true Hhf Hf Hi2). apply IH.
Qed.
End EngineItems18.

(** STATE AGREEMENT inside a multi-valued occurrence: after `--opt v1 .. vj` with [j] below the range's maximum the
    engine stands in [Opt a (j+1)] where the parser stands in [PSOpt (a_id a)] with exactly [v1 .. vj] pending *)
Theorem values_agree pc cur tok f a r vs : elevel pc cur ->
  no_sub pc tok -> to_long tok = Some (f, true, None) -> get_long pc f = Some a -> a_takes_value a = true ->
  a_req_eq a = false -> find_arg pc (a_id a) = Some a -> a_num a = Some r ->
  N.of_nat (length vs) < vmax r -> Forall (value_tok pc a) vs ->
  (forall pi evaf, shadow_run (tok :: vs) cur pi false ValueDone evaf = SNext cur pi false (Opt a (1 + N.of_nat (length vs))) true) /\
  (forall rest pos vaf st,
     parse_loop pc (tok :: vs ++ rest) (lsV pos vaf) st =
     (do st' <- sepm_fn pc ILong a vs st; parse_loop pc rest (mkL (PSOpt (a_id a)) pos true false) st')).
Proof.
  intros L Hns Hl Hg Htv Hre Hf Hn Hlen Hall. split.
  - intros pi evaf. cbn [shadow_run]. rewrite (eng_long pc cur L tok f None a pi evaf Hns Hl Hg), Htv, Hre. cbn [is_none andb negb].
    apply (eng_values_open pc cur L a r pi true Hn vs 1 Hall). lia.
  - intros rest pos vaf st.
    rewrite (loop_long_open pc tok f a (vs ++ rest) pos vaf st Hns Hl Hg Htv Hre).
    unfold sepm_fn. destruct (resolve_pending pc st) as [st1|e s1|x]; cbn [rbind]; try reflexivity.
    rewrite (loop_values_open pc a r Hf Hn vs rest pos true _ (mkPending (a_id a) (Some ILong) [] None) Hall);
      [|cbn [p_raw length]; lia|reflexivity|reflexivity].
    cbn [p_raw]. rewrite with_raw_open. reflexivity.
Qed.

(** * The value terminator of a positional *)

(** [parse_positional]'s number of values the positional may still take *)
Definition eng_num_args (a : arg) : N :=
  match a_get_action a with
  | AAppend => usize_max
  | _ => match a_num a with Some r => vmax r | None => 1 end
  end.

(** [tok] is the value terminator of the positional [a] at the counter ([ChainWide.takes_at] with the opposite answer
    of [check_terminator]) *)
Definition term_at (c : cmd) (pos : N) (a : arg) (tok : bytes) : Prop :=
  pos_plain c /\ get_pos c pos = Some a /\ a_last a = false /\ a_tva a = false /\ check_terminator a tok = true.

(** what the loop does with the terminator: the pending occurrence of another argument (or of a positional that does
    not take multiple values) is flushed; the word itself is dropped *)
Definition term_fn (c : cmd) (a : arg) (st : ps) : res ps :=
  if negb (match pending_arg_id (mt st) with Some i => beq i (a_id a) | None => false end) || negb (a_multiple_values a)
  then resolve_pending c st else ROk st.

Lemma term_fn_fs c a st st' : term_fn c a st = ROk st' -> fs_skip st' = fs_skip st /\ fs_at st' = fs_at st.
Proof.
  unfold term_fn. destruct (_ || _).
  - intros H. split; [exact (resolve_pending_fs c st st' H)|exact (resolve_pending_fsat c st st' H)].
  - intros H. inversion H. split; reflexivity.
Qed.

Lemma term_fn_err c a st e s : term_fn c a st = RErr e s -> reaction_error c e.
Proof.
  unfold term_fn. destruct (_ || _); [|discriminate]. intros H. eapply resolve_pending_err; eauto.
Qed.

(** the loop on the terminator of the positional at the counter, between arguments or while that positional is being
    filled: the counter moves on, back in [ValuesDone] *)
Lemma loop_pos_term c pst tok a rest pos vaf st :
  match pst with PSOpt _ => False | _ => True end ->
  (if is_set s_sub_precedence c || match pst with PSValuesDone => true | _ => false end
   then possible_subcommand c tok vaf else None) = None ->
  plain_tok tok -> term_at c pos a tok ->
  parse_loop c (tok :: rest) (mkL pst pos vaf false) st =
  (do st' <- term_fn c a st; parse_loop c rest (lsV (pos + 1) true) st').
Proof.
  intros Hpst Hns [He [Hl Hs]] [[Hmiss Hlow] [Hg [Hlast [Htva Hct]]]].
  cbn [parse_loop l_trailing l_pst l_vaf l_pos].
  rewrite Hns, He, Hl, Hs. cbn [rbind l_trailing l_pst l_vaf l_pos].
  unfold term_fn, lsV.
  destruct pst as [|i|i]; [|contradiction|];
    cbv zeta; rewrite Hlow, Hmiss; rewrite !andb_false_r; cbn [andb orb rbind]; rewrite Hg, Hlast, Htva, Hct; cbn [andb orb];
    reflexivity.
Qed.

(** * [pitems18]: options ([item18]) and single-valued positionals; the indices are the parser's "an argument was
    seen" flag at the start and the positional counter before and after.  A positional value must not be read as a
    subcommand WHERE IT STANDS ([possible_subcommand c tok vaf = None]): on a level with
    [args_conflicts_with_subcommands] a subcommand NAME behind an argument of the level is a value *)
Inductive pitems18 (c : cmd) : bool -> N -> list bytes -> (ps -> res ps) -> N -> Prop :=
| p18_nil vaf pos : pitems18 c vaf pos [] (fun st => ROk st) pos
| p18_opt vaf pos toks F pre G pos' : item18 c toks F -> pitems18 c true pos pre G pos' ->
    pitems18 c vaf pos (toks ++ pre) (fun st => do st' <- F st; G st') pos'
| p18_pos vaf pos tok a pre G pos' :
    possible_subcommand c tok vaf = None -> plain_tok tok -> takes_at c pos a tok -> a_is_multiple a = false ->
    pitems18 c true (pos + 1) pre G pos' ->
    pitems18 c vaf pos (tok :: pre) (fun st => do st' <- sep_fn c IIndex a tok st; G st') pos'
| p18_term vaf pos t a pre G pos' :   (* the terminator of the positional at the counter as the first word: it is skipped *)
    possible_subcommand c t vaf = None -> plain_tok t -> term_at c pos a t ->
    pitems18 c true (pos + 1) pre G pos' ->
    pitems18 c vaf pos (t :: pre) (fun st => do st' <- term_fn c a st; G st') pos'
| p18_multi_term vaf pos a v1 vs t pre G pos' :  (* `v1 .. vk ;`: values of a multi-valued positional, then its terminator *)
    multi_vals c pos a v1 vs -> N.of_nat (length (v1 :: vs)) < eng_num_args a ->
    (is_set s_sub_precedence c = true -> no_sub c t) -> plain_tok t -> term_at c pos a t ->
    pitems18 c true (pos + 1) pre G pos' ->
    pitems18 c vaf pos ((v1 :: vs) ++ t :: pre)
             (fun st => do st' <- push_all c a (v1 :: vs) st; do st'' <- term_fn c a st'; G st'') pos'.

Lemma pitems_pitems18 c pos pre F pos' : pitems c pos pre F pos' -> forall vaf, pitems18 c vaf pos pre F pos'.
Proof.
  induction 1 as [pos|pos toks F pre G pos' Hi Hp IH|pos tok a pre G pos' Hns Hpl Ht Hm Hp IH]; intros vaf.
  - apply p18_nil.
  - apply p18_opt; [apply i18_base; exact Hi|apply IH].
  - apply p18_pos; [apply Hns|assumption|assumption|assumption|apply IH].
Qed.

Lemma pitems18_fs c vaf pos pre F pos' : pitems18 c vaf pos pre F pos' -> forall st st', F st = ROk st' ->
  fs_skip st' = fs_skip st /\ fs_at st' = fs_at st.
Proof.
  induction 1 as [vaf pos|vaf pos toks F pre G pos' Hi Hp IH|vaf pos tok a pre G pos' Hns Hpl Ht Hm Hp IH
                   |vaf pos t a pre G pos' Hns Hpl Ht Hp IH|vaf pos a v1 vs t pre G pos' Hmv Hlen Hns Hpl Ht Hp IH]; intros st st' H.
  - inversion H. split; reflexivity.
  - destruct (F st) as [st1|e s1|x] eqn:E; cbn [rbind] in H; try discriminate.
    destruct (IH _ _ H) as [H1 H2]. destruct (item18_fs c toks F Hi _ _ E) as [H3 H4]. rewrite H1, H2. split; assumption.
  - destruct (sep_fn c IIndex a tok st) as [st1|e s1|x] eqn:E; cbn [rbind] in H; try discriminate.
    destruct (IH _ _ H) as [H1 H2]. destruct (sep_fn_fs _ _ _ _ _ _ E) as [H3 H4]. rewrite H1, H2. split; assumption.
  - destruct (term_fn c a st) as [st1|e s1|x] eqn:E; cbn [rbind] in H; try discriminate.
    destruct (IH _ _ H) as [H1 H2]. destruct (term_fn_fs _ _ _ _ E) as [H3 H4]. rewrite H1, H2. split; assumption.
  - destruct (push_all c a (v1 :: vs) st) as [st1|e s1|x] eqn:E; cbn [rbind] in H; try discriminate.
    destruct (term_fn c a st1) as [st2|e s2|x] eqn:E2; cbn [rbind] in H; try discriminate.
    destruct (IH _ _ H) as [H1 H2]. destruct (term_fn_fs _ _ _ _ E2) as [H3 H4]. destruct (push_all_fs _ _ _ _ _ E) as [H5 H6].
    rewrite H1, H2, H3, H4. split; assumption.
Qed.

Theorem loop_pitems18 c vaf pos pre F pos' : pitems18 c vaf pos pre F pos' -> forall rest st, fs_skip st = 0 ->
  parse_loop c (pre ++ rest) (lsV pos vaf) st =
  (do st' <- F st; parse_loop c rest (lsV pos' (vaf || negb (is_nil pre))) st').
Proof.
  induction 1 as [vaf pos|vaf pos toks F pre G pos' Hi Hp IH|vaf pos tok a pre G pos' Hns Hpl Ht Hm Hp IH
                   |vaf pos t a pre G pos' Hns Hpl Ht Hp IH|vaf pos a v1 vs t pre G pos' Hmv Hlen Hns Hpl Ht Hp IH]; intros rest st Hfs.
  - cbn [app rbind is_nil negb]. rewrite orb_false_r. reflexivity.
  - rewrite <- app_assoc, (item18_step c toks F Hi (pre ++ rest) pos vaf st Hfs).
    destruct (F st) as [st1|e s1|x] eqn:E; cbn [rbind]; try reflexivity.
    rewrite IH by (rewrite (proj1 (item18_fs c toks F Hi _ _ E)); exact Hfs).
    pose proof (item18_nonempty c toks F Hi) as Hne. destruct toks as [|t0 ts]; [discriminate|].
    cbn [app is_nil negb orb]. rewrite orb_true_r. reflexivity.
  - cbn [app]. unfold lsV at 1.
    rewrite (loop_pos_step c PSValuesDone tok a (pre ++ rest) pos vaf st I); [| |exact Hpl|exact Ht].
    2:{ rewrite orb_true_r. exact Hns. }
    rewrite (pos_push_single c a tok st Hm). unfold after_pos. rewrite Hm.
    destruct (sep_fn c IIndex a tok st) as [st1|e s1|x] eqn:E; cbn [rbind]; try reflexivity.
    destruct (sep_fn_fs _ _ _ _ _ _ E) as [H3 _].
    rewrite IH by (rewrite H3; exact Hfs). cbn [is_nil negb orb]. rewrite orb_true_r. reflexivity.
  - cbn [app]. unfold lsV at 1.
    rewrite (loop_pos_term c PSValuesDone t a (pre ++ rest) pos vaf st I); [| |exact Hpl|exact Ht].
    2:{ rewrite orb_true_r. exact Hns. }
    destruct (term_fn c a st) as [st1|e s1|x] eqn:E; cbn [rbind]; try reflexivity.
    destruct (term_fn_fs _ _ _ _ E) as [H3 _].
    rewrite IH by (rewrite H3; exact Hfs). cbn [is_nil negb orb]. rewrite orb_true_r. reflexivity.
  - rewrite <- app_assoc. rewrite (loop_multi c pos a v1 vs Hmv ((t :: pre) ++ rest) vaf st).
    destruct (push_all c a (v1 :: vs) st) as [st1|e s1|x] eqn:E; cbn [rbind]; try reflexivity.
    destruct (push_all_fs _ _ _ _ _ E) as [H5 _]. cbn [app].
    rewrite (loop_pos_term c (PSPos (a_id a)) t a (pre ++ rest) pos true st1 I); [| |exact Hpl|exact Ht].
    2:{ rewrite orb_false_r. destruct (is_set s_sub_precedence c) eqn:Ep; [|reflexivity]. apply (Hns eq_refl). }
    destruct (term_fn c a st1) as [st2|e s2|x] eqn:E2; cbn [rbind]; try reflexivity.
    destruct (term_fn_fs _ _ _ _ E2) as [H3 _].
    rewrite IH by (rewrite H3, H5; exact Hfs). cbn [is_nil negb orb]. rewrite orb_true_r. reflexivity.
Qed.

Lemma sep_fn_err c idn a v st e s : sep_fn c idn a v st = RErr e s -> reaction_error c e.
Proof.
  unfold sep_fn. destruct (resolve_pending c st) as [st1|e1 s1|x] eqn:E; cbn [rbind]; try discriminate.
  intros H. inversion H; subst. eapply resolve_pending_err; eauto.
Qed.

Lemma pos_push_err c a v st e s : pos_push c a v st = RErr e s -> reaction_error c e.
Proof.
  unfold pos_push.
  destruct (negb _ || negb _).
  - destruct (resolve_pending c st) as [st1|e1 s1|x] eqn:RP; cbn [rbind]; try discriminate.
    + destruct (pending_values_push _ _ _ _ _); cbn [expect rbind]; discriminate.
    + intros H. inversion H; subst. eapply resolve_pending_err; eauto.
  - cbn [rbind]. destruct (pending_values_push _ _ _ _ _); cbn [expect rbind]; discriminate.
Qed.

Lemma push_all_err c a : forall vs st e s, push_all c a vs st = RErr e s -> reaction_error c e.
Proof.
  induction vs as [|v t IH]; intros st e s H; cbn [push_all] in H; [discriminate|].
  destruct (pos_push c a v st) as [st1|e1 s1|x] eqn:E; cbn [rbind] in H.
  - eapply IH; eauto.
  - inversion H; subst. eapply pos_push_err; eauto.
  - discriminate.
Qed.

Lemma pitems18_err c vaf pos pre F pos' : pitems18 c vaf pos pre F pos' -> forall st e s, F st = RErr e s -> reaction_error c e.
Proof.
  induction 1 as [vaf pos|vaf pos toks F pre G pos' Hi Hp IH|vaf pos tok a pre G pos' Hns Hpl Ht Hm Hp IH
                   |vaf pos t a pre G pos' Hns Hpl Ht Hp IH|vaf pos a v1 vs t pre G pos' Hmv Hlen Hns Hpl Ht Hp IH]; intros st e s H.
  - discriminate.
  - destruct (F st) as [st1|e1 s1|x] eqn:E; cbn [rbind] in H.
    + eapply IH; eauto.
    + inversion H; subst. eapply item18_err; eauto.
    + discriminate.
  - destruct (sep_fn c IIndex a tok st) as [st1|e1 s1|x] eqn:E; cbn [rbind] in H.
    + eapply IH; eauto.
    + inversion H; subst. eapply sep_fn_err; eauto.
    + discriminate.
  - destruct (term_fn c a st) as [st1|e1 s1|x] eqn:E; cbn [rbind] in H.
    + eapply IH; eauto.
    + inversion H; subst. eapply term_fn_err; eauto.
    + discriminate.
  - destruct (push_all c a (v1 :: vs) st) as [st1|e1 s1|x] eqn:E; cbn [rbind] in H.
    + destruct (term_fn c a st1) as [st2|e2 s2|x] eqn:E2; cbn [rbind] in H.
      * eapply IH; eauto.
      * inversion H; subst. eapply term_fn_err; eauto.
      * discriminate.
    + inversion H; subst. eapply push_all_err; eauto.
    + discriminate.
Qed.

(** * Value terminators: finding C18-value-terminator, before and after the repair *)
Module Term.
Definition w_opt : bytes := [111; 112; 116].
Definition w_sub : bytes := [115; 117; 98].
Definition w_so : bytes := [115; 111].
Definition w_pf : bytes := [112; 102].
Definition w_files : bytes := [102; 105; 108; 101; 115].
Definition semi : bytes := [59].
Definition sub : cmd :=
  (cmd_new w_sub) <| c_args := [ (arg_new w_so) <| a_long := Some w_so |> <| a_action := Some ASetTrue |> ] |>.
(** p(--opt <v>{1..3}, value_terminator ";") -> sub(--so) *)
Definition c0 : cmd :=
  (cmd_new [112])
    <| c_args := [ (arg_new w_opt) <| a_long := Some w_opt |> <| a_action := Some ASet |>
                     <| a_num := Some {| vmin := 1; vmax := 3 |} |> <| a_term := Some semi |> ] |>
    <| c_subs := [ sub ] |>.
(** p(--pf; <files>{1..}, value_terminator ";") -> sub(--so) *)
Definition c1 : cmd :=
  (cmd_new [112])
    <| c_args := [ (arg_new w_pf) <| a_long := Some w_pf |> <| a_action := Some ASetTrue |>;
                   (arg_new w_files) <| a_action := Some ASet |>
                     <| a_num := Some {| vmin := 1; vmax := usize_max |} |> <| a_term := Some semi |> ] |>
    <| c_subs := [ sub ] |>.
Definition dd (w : bytes) : bytes := 45 :: 45 :: w.
Definition ddopt : bytes := dd w_opt.
Definition line : list bytes := [ddopt; [97]; semi; w_sub].
Definition line1 : list bytes := [[97]; semi; w_sub].
Definition has_cand (v : bytes) (i : cid) (r : cres) : bool :=
  match r with COk l => existsb (fun cd => beq (cd_value cd) v && opt_cid_eqb (cd_id cd) (Some i)) l | _ => false end.
(** where the walk stands: level, and 0 = [ValueDone] / the count of the [Opt] or [Pos] state *)
Definition stands (w : walk) : option (bytes * N) :=
  match w with
  | WAt _ cur _ ValueDone false _ => Some (c_name cur, 0)
  | WAt _ cur _ (Opt _ k) false _ => Some (c_name cur, k)
  | WAt _ cur _ (Pos _ k) false _ => Some (c_name cur, k)
  | _ => None end.
Definition walk_at (c : cmd) (args : list bytes) (i : N) : option (bytes * N) :=
  match build_full (build_fuel c) c with BOk b => stands (start_walk b args i) | _ => None end.
Definition walk_at_before (c : cmd) (args : list bytes) (i : N) : option (bytes * N) :=
  match build_full (build_fuel c) c with BOk b => stands (start_walk_before_termfix b args i) | _ => None end.
Definition kind_of (o : outcome) : option ekind := match o with OErr e => Some (e_kind e) | _ => None end.
Definition chain_of (o : outcome) : option (list bytes) := match o with OOk m => Some (Globals.chain m) | _ => None end.
End Term.

(** BEFORE / AFTER.  Option, `p(--opt <v>{1..3} terminator ";") -> sub(--so)`: the parser ACCEPTS `p --opt a ; sub` and has
    dispatched to `sub` (the terminator closed the occurrence and was dropped).  Before the repair the engine counted `;` as
    the second value ([Opt _ 3] behind `p --opt a ;`), took `sub` for the third, stayed at `p` and offered `--opt`
    (id arg::opt) of `p`; the completed line `p --opt a ; sub --opt` is rejected: UnknownArgument.  After: behind
    `p --opt a ;` the engine stands in [ValueDone] at `p`, behind `p --opt a ; sub` at `sub`; it offers `--so` and not `--opt`,
    and `p --opt a ; sub --so` is accepted.
    Positional, `p(--pf; <files>{1..} terminator ";") -> sub(--so)`: the same with `p a ; sub`: before, [Pos _ 3] at `p`, `--pf`
    offered, `p a ; sub --pf` UnknownArgument; after, [ValueDone] at `sub`.  (Same on the real crate:
    corpus/C18/accept.value-terminator.cases) *)
Theorem terminator_before_after :
  (* option: the parser *)
  Term.chain_of (parse_top Term.c0 ([112] :: Term.line)) = Some [Term.w_sub] /\
  Term.kind_of (parse_top Term.c0 ([112] :: Term.line ++ [Term.ddopt])) = Some EUnknownArgument /\
  Term.chain_of (parse_top Term.c0 ([112] :: Term.line ++ [Term.dd Term.w_so])) = Some [Term.w_sub] /\
  (* option: before *)
  Term.walk_at_before Term.c0 ([112] :: [Term.ddopt; [97]; Term.semi] ++ [[]]) 4 = Some ([112], 3) /\
  Term.walk_at_before Term.c0 ([112] :: Term.line ++ [[45; 45]]) 5 = Some ([112], 0) /\
  Term.has_cand Term.ddopt (IdArg Term.w_opt) (complete_model_before_termfix [] Term.c0 ([112] :: Term.line ++ [[45; 45]]) 5) = true /\
  (* option: after *)
  Term.walk_at Term.c0 ([112] :: [Term.ddopt; [97]; Term.semi] ++ [[]]) 4 = Some ([112], 0) /\
  Term.walk_at Term.c0 ([112] :: Term.line ++ [[45; 45]]) 5 = Some (Term.w_sub, 0) /\
  Term.has_cand Term.ddopt (IdArg Term.w_opt) (complete_model [] Term.c0 ([112] :: Term.line ++ [[45; 45]]) 5) = false /\
  Term.has_cand (Term.dd Term.w_so) (IdArg Term.w_so) (complete_model [] Term.c0 ([112] :: Term.line ++ [[45; 45]]) 5) = true /\
  (* positional: the parser *)
  Term.chain_of (parse_top Term.c1 ([112] :: Term.line1)) = Some [Term.w_sub] /\
  Term.kind_of (parse_top Term.c1 ([112] :: Term.line1 ++ [Term.dd Term.w_pf])) = Some EUnknownArgument /\
  (* positional: before *)
  Term.walk_at_before Term.c1 ([112] :: Term.line1 ++ [[45; 45]]) 4 = Some ([112], 3) /\
  Term.has_cand (Term.dd Term.w_pf) (IdArg Term.w_pf) (complete_model_before_termfix [] Term.c1 ([112] :: Term.line1 ++ [[45; 45]]) 4) = true /\
  (* positional: after *)
  Term.walk_at Term.c1 ([112] :: Term.line1 ++ [[45; 45]]) 4 = Some (Term.w_sub, 0) /\
  Term.has_cand (Term.dd Term.w_pf) (IdArg Term.w_pf) (complete_model [] Term.c1 ([112] :: Term.line1 ++ [[45; 45]]) 4) = false /\
  Term.has_cand (Term.dd Term.w_so) (IdArg Term.w_so) (complete_model [] Term.c1 ([112] :: Term.line1 ++ [[45; 45]]) 4) = true.
Proof. vm_compute. repeat split; reflexivity. Qed.

(** STATE AGREEMENT on one item of the wider class, both machines *)
Theorem state_agreement_item18 pc cur toks F : elevel pc cur -> item18 pc toks F ->
  (forall pi vaf, shadow_run toks cur pi false ValueDone vaf = SNext cur pi false ValueDone true) /\
  (forall rest pos vaf st, fs_skip st = 0 ->
     parse_loop pc (toks ++ rest) (lsV pos vaf) st = (do st' <- F st; parse_loop pc rest (lsV pos true) st')).
Proof.
  intros L Hi. split; [intros pi vaf; exact (eng_item18 pc cur L toks F Hi pi vaf)|exact (item18_step pc toks F Hi)].
Qed.
