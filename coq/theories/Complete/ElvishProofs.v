(** C16 for the elvish generator model: the transcription of elvish.rs computes the table
    specification [PathTable.gi] of its format, is total on built trees, deterministic, and its
    table covers the tree at every depth. *)
From ClapModel Require Import Base.Bytes Complete.AotTree Complete.TextTree Complete.BashModel Complete.AotProofs
  Complete.BashProofs Escape.EscapeModel Complete.PathTable Complete.ElvishModel.
From Coq Require Import String.
Open Scope N_scope.
Open Scope list_scope.

(** the five text shapes of elvish.rs *)
Definition el_short (n tip : bytes) : bytes := preamble ++ lit "-" ++ n ++ lit " '" ++ tip ++ lit "'".
Definition el_long (n tip : bytes) : bytes := preamble ++ lit "--" ++ n ++ lit " '" ++ tip ++ lit "'".
Definition el_sub (n tip : bytes) : bytes := preamble ++ n ++ lit " '" ++ tip ++ lit "'".
Definition el_fmt : fmt := mkFmt escape_help el_short el_long el_sub case_block.

(** ---- the transcription computes the specification ---- *)
Lemma spell_lines_eq dash mk o h :
  (o = None \/ exists s l, o = Some (s :: l)) ->
  (forall n tip, mk n tip = preamble ++ dash ++ n ++ lit " '" ++ tip ++ lit "'") ->
  spell_lines dash o h = Some (spell_entries el_fmt mk o h).
Proof.
  intros [->|(s & l & ->)] Hmk; [reflexivity|].
  unfold spell_lines, spell_entries. cbn [idx0 hd f_tip el_fmt]. f_equal. f_equal.
  apply map_ext. intros n. now rewrite Hmk.
Qed.

Lemma arg_lines_eq x : arg_lines x = Some (arg_entries el_fmt x).
Proof.
  unfold arg_lines, arg_entries.
  rewrite (spell_lines_eq (lit "-") (f_short el_fmt) _ _ (short_spellings_shape (fst x))) by reflexivity.
  rewrite (spell_lines_eq (lit "--") (f_long el_fmt) _ _ (long_spellings_shape (fst x))) by reflexivity.
  reflexivity.
Qed.

Lemma sub_lines_eq x : sub_lines x = sub_entries el_fmt x.
Proof. reflexivity. Qed.

Lemma command_names_eq p prev : c_bin p <> None -> command_names p prev = Some (cnames p prev).
Proof.
  intros Hb. unfold command_names, cnames. destruct (is_nil prev); [|reflexivity].
  destruct (c_bin p); [reflexivity|congruence].
Qed.

Lemma generate_inner_unfold p t prev :
  generate_inner p t prev =
  match command_names p prev with
  | None => None
  | Some names =>
      match map_opt arg_lines (get_opts_t p t), map_opt arg_lines (flags_t p t) with
      | Some lo, Some lf =>
          let completions := List.concat lo ++ List.concat lf ++ List.concat (map sub_lines (zsubs p t)) in
          match map_opt (fun x : cmd * ttree =>
                           match map_opt (fun cn => generate_inner (fst x) (snd x) cn) names with
                           | Some a => Some (List.concat a)
                           | None => None
                           end) (zsubs p t) with
          | Some rest => Some (List.concat (map (fun cn => case_block cn completions) names) ++ List.concat rest)
          | None => None
          end
      | _, _ => None
      end
  end.
Proof.
  destruct p as [n al args subs bin h v s g]. cbn [generate_inner].
  destruct (command_names _ prev) as [names|]; [|reflexivity].
  destruct (map_opt arg_lines (get_opts_t _ t)) as [lo|]; [|reflexivity].
  destruct (map_opt arg_lines (flags_t _ t)) as [lf|]; [|reflexivity].
  cbv zeta. unfold zsubs at 2. cbn [c_subs].
  match goal with |- match ?go subs (tt_subs t) with _ => _ end = _ => set (G := go) end.
  assert (E : forall ts, G subs ts =
    match map_opt (fun x : cmd * ttree =>
                     match map_opt (fun cn => generate_inner (fst x) (snd x) cn) names with
                     | Some a => Some (List.concat a)
                     | None => None
                     end) (zip_pad subs ts tt_none) with
    | Some rest => Some (List.concat rest)
    | None => None
    end).
  { induction subs as [|sc subs IH]; intros ts; [reflexivity|].
    unfold G; fold G. cbn [zip_pad]. rewrite map_opt_cons. cbn [fst snd]. rewrite IH.
    destruct (map_opt (fun cn => generate_inner sc (hd tt_none ts) cn) names); [|reflexivity].
    destruct (map_opt _ (zip_pad subs (tl ts) tt_none)); reflexivity. }
  rewrite E. destruct (map_opt _ (zip_pad subs (tt_subs t) tt_none)); reflexivity.
Qed.

Theorem generate_inner_spec : forall p, all_bins p ->
  forall t prev, generate_inner p t prev = Some (gi el_fmt p t prev).
Proof.
  induction p as [n al args subs bin h v s g IH] using cmd_ind'. intros Hb t prev.
  set (p := mkCmd n al args subs bin h v s g) in *.
  rewrite generate_inner_unfold, (gi_unfold el_fmt p t prev).
  rewrite (command_names_eq p prev) by (apply Hb; now left).
  rewrite (map_opt_fun arg_lines (arg_entries el_fmt)) by (intros; apply arg_lines_eq).
  rewrite (map_opt_fun arg_lines (arg_entries el_fmt)) by (intros; apply arg_lines_eq).
  cbv zeta.
  rewrite (map_opt_fun _ (fun x : cmd * ttree =>
             List.concat (map (fun cn => gi el_fmt (fst x) (snd x) cn) (cnames p prev)))).
  - reflexivity.
  - intros x Hx. assert (Hs : In (fst x) subs) by exact (zip_pad_in_fst _ _ _ _ Hx).
    rewrite Forall_forall in IH.
    rewrite (map_opt_fun _ (fun cn => gi el_fmt (fst x) (snd x) cn)); [reflexivity|].
    intros cn _. apply (IH _ Hs). exact (all_bins_sub p _ Hb Hs).
Qed.

(** ---- [Elvish::generate] ---- *)
Theorem generate_spec c t bin : c_bin c = Some bin -> bins_built c ->
  generate c t = Some (render bin (gi el_fmt c t [])).
Proof.
  intros Hbin Hb. unfold generate. rewrite Hbin, generate_inner_spec; [reflexivity|].
  apply all_bins_intro; [congruence|exact Hb].
Qed.

(** total on every built tree *)
Theorem generate_total c b t : build c = Some b -> c_bin b <> None -> exists s, generate b t = Some s.
Proof.
  intros Hbuild Hbin. destruct (c_bin b) as [bin|] eqn:E; [|congruence].
  eexists. apply generate_spec; [exact E|exact (build_bins_built _ _ Hbuild)].
Qed.

(** deterministic: a function of the command and its texts *)
Theorem generate_elvish_deterministic c1 c2 t1 t2 b1 b2 :
  c1 = c2 -> t1 = t2 -> b1 = b2 -> generate_elvish c1 t1 b1 = generate_elvish c2 t2 b2.
Proof. intros -> -> ->. reflexivity. Qed.

(** ---- coverage, every depth ---- *)
Definition path_key (bin : bytes) (ws : list bytes) : bytes := bin ++ join_with [59] ws.

Theorem elvish_covers c t bin ws ns n :
  c_bin c = Some bin -> bin <> [] -> bins_built c -> reach c ws ns n ->
  exists script tn,
    generate c t = Some script /\
    infix (case_block (path_key bin ws) (entries el_fmt n tn)) script /\
    (forall a s0 s, In a (c_args n) -> a_is_positional a = false -> a_short a = Some s0 ->
       (s = s0 \/ In (s, true) (a_short_aliases a)) ->
       exists tip, infix (el_short s tip) (entries el_fmt n tn)) /\
    (forall a l0 l, In a (c_args n) -> a_is_positional a = false -> a_long a = Some l0 ->
       (l = l0 \/ In (l, true) (a_aliases a)) ->
       exists tip, infix (el_long l tip) (entries el_fmt n tn)) /\
    (forall sc w, In sc (c_subs n) -> In w (get_name_and_visible_aliases sc) ->
       exists tip, infix (el_sub w tip) (entries el_fmt n tn)).
Proof.
  intros Hbin Hne Hb Hr.
  assert (Hk : In bin (cnames c [])) by (unfold cnames; cbn [is_nil]; rewrite Hbin; now left).
  destruct (gi_reach el_fmt c ws ns n Hr t [] bin Hk Hne) as [tn Htn].
  exists (render bin (gi el_fmt c t [])), tn. split; [apply generate_spec; assumption|]. split.
  - unfold render. do 7 apply infix_app_r. apply infix_app_l. exact Htn.
  - repeat split.
    + intros a s0 s Ha Hpos Hs Hin. destruct (short_spellings a s0 s Hs Hin) as (names & Hn & Hsn).
      exact (entries_short el_fmt n tn a names s Ha Hpos Hn Hsn).
    + intros a l0 l Ha Hpos Hl Hin. destruct (long_spellings a l0 l Hl Hin) as (names & Hn & Hln).
      exact (entries_long el_fmt n tn a names l Ha Hpos Hn Hln).
    + intros sc w Hsc Hw. exact (entries_sub el_fmt n tn sc w Hsc Hw).
Qed.

(** ---- non-vacuity and the boundaries of the class ---- *)
Definition ex_arg : arg :=
  mkArg (lit "o") (Some (lit "s")) (Some (lit "long")) [(lit "t", true); (lit "u", false)] [(lit "lg", true)]
        ASet None None None false false false.
Definition ex_tree : cmd :=
  mkCmd (lit "p") [] []
    [mkCmd (lit "a-b") [(lit "ab", true); (lit "hid", false)] [ex_arg] [cmd_new (lit "c")] None false false sets0 sets0]
    None false false sets0 sets0.
Definition ex_texts : ttree :=
  mkTt (Some (lit "root")) false [] [mkTt (Some (lit "it's")) false [mkAt (Some (lit "say 'hi'")) false] []].

Definition ex_built : cmd :=
  Eval vm_compute in match build (set_bin_name ex_tree (lit "p")) with Some b => b | None => ex_tree end.
Lemma ex_built_eq : build (set_bin_name ex_tree (lit "p")) = Some ex_built.
Proof. vm_compute. reflexivity. Qed.
Definition ex_node : cmd := Eval vm_compute in hd ex_tree (c_subs ex_built).

(** a built two-level tree satisfies every hypothesis of [elvish_covers], with a path through a
    visible alias, an option with a short, a visible and a hidden short alias, and a subcommand *)
Example elvish_covers_nonvacuous :
  exists sc, build (set_bin_name ex_tree (lit "p")) = Some ex_built /\
    c_bin ex_built = Some (lit "p") /\ lit "p" <> [] /\ bins_built ex_built /\
    reach ex_built [lit "ab"] [lit "a-b"] ex_node /\
    In ex_arg (c_args ex_node) /\ a_is_positional ex_arg = false /\ a_short ex_arg = Some (lit "s") /\
    In (lit "t", true) (a_short_aliases ex_arg) /\
    a_long ex_arg = Some (lit "long") /\ In sc (c_subs ex_node) /\ In (lit "c") (get_name_and_visible_aliases sc).
Proof.
  eexists.
  split; [exact ex_built_eq|].
  split; [reflexivity|]. split; [discriminate|].
  split; [exact (build_bins_built _ _ ex_built_eq)|].
  split; [apply (reach_cons ex_built ex_node (lit "ab") [] [] ex_node);
          [left; reflexivity|right; left; reflexivity|apply reach_nil]|].
  split; [left; reflexivity|]. split; [reflexivity|]. split; [reflexivity|].
  split; [left; reflexivity|]. split; [reflexivity|].
  split; [left; reflexivity|left; reflexivity].
Qed.

(** the script of that tree, with quotes in the texts *)
Example elvish_example_script :
  exists s, generate_elvish ex_tree ex_texts (lit "p") = Some s /\
    infixb (lit "&'p;ab'= {") s = true /\ infixb (lit "cand -t 'say ''hi'''") s = true /\
    infixb (lit "cand ab 'it''s'") s = true /\ infixb (lit "cand -u ") s = false.
Proof. eexists. split; [vm_compute; reflexivity|]. vm_compute. repeat split. Qed.

(** finding alias-without-primary is a boundary of the class: a visible short alias of an option
    without a short is in no entry of the script *)
Lemma elvish_alias_without_primary_refuted :
  exists c t bin a s script, In a (c_args c) /\ a_is_positional a = false /\ In (s, true) (a_short_aliases a) /\
    generate_elvish c t bin = Some script /\ ~ infix (lit "cand -" ++ s ++ lit " ") script.
Proof.
  exists alias_only_cmd, tt_none, [112], alias_only_arg, [120]. eexists.
  split; [left; reflexivity|]. split; [reflexivity|]. split; [left; reflexivity|].
  split; [vm_compute; reflexivity|].
  intros H. apply infixb_complete in H. vm_compute in H. discriminate.
Qed.

(** finding values-not-in-powershell-elvish: possible values are never written *)
Definition values_arg : arg :=
  mkArg (lit "o") None (Some (lit "opt")) [] [] ASet None (Some [mkPv (lit "zzz") false]) None false false false.
Definition values_cmd : cmd := mkCmd (lit "p") [] [values_arg] [] None false false sets0 sets0.
Lemma elvish_values_refuted :
  exists c t bin a v script, In a (c_args c) /\ possible_values a = Some [mkPv v false] /\
    generate_elvish c t bin = Some script /\ ~ infix v script.
Proof.
  exists values_cmd, tt_none, [112], values_arg, (lit "zzz"). eexists.
  split; [left; reflexivity|]. split; [reflexivity|].
  split; [vm_compute; reflexivity|].
  intros H. apply infixb_complete in H. vm_compute in H. discriminate.
Qed.

(** the hypothesis [bin <> []]: with an empty bin name the children are keyed by their own bin name
    ("s"), not by the [;]-joined path the script computes (";s") *)
Lemma elvish_empty_bin_refuted :
  exists c t script, generate_elvish c t [] = Some script /\
    (exists sc, In sc (c_subs c) /\ c_name sc = lit "s") /\
    ~ infix (lit "&'" ++ path_key [] [lit "s"] ++ lit "'= {") script.
Proof.
  exists (mkCmd (lit "p") [] [] [cmd_new (lit "s")] None false false sets0 sets0), tt_none. eexists.
  split; [vm_compute; reflexivity|]. split; [eexists; split; [left; reflexivity|reflexivity]|].
  intros H. apply infixb_complete in H. vm_compute in H. discriminate.
Qed.
