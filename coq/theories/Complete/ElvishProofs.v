(** C16 for the elvish generator model: the transcription of elvish.rs computes the table
    specification [PathTable.gi] of its format, is total on built trees, deterministic, and its
    table covers the tree at every depth. *)
From ClapModel Require Import Base.Bytes Complete.AotTree Complete.TextTree Complete.BashModel Complete.AotProofs
  Complete.BashProofs Escape.EscapeModel Escape.ShellLex Escape.EscapeProofs Complete.PathTable Complete.PathTableLex
  Complete.PathTableBlocks Complete.BuildTexts Complete.ElvishModel.
From Coq Require Import String.
Open Scope N_scope.
Open Scope list_scope.

(** the five text shapes of elvish.rs *)
Definition el_short (n tip : bytes) : bytes := preamble ++ lit "-" ++ n ++ lit " '" ++ tip ++ lit "'".
Definition el_long (n tip : bytes) : bytes := preamble ++ lit "--" ++ n ++ lit " '" ++ tip ++ lit "'".
Definition el_sub (n tip : bytes) : bytes := preamble ++ n ++ lit " '" ++ tip ++ lit "'".
Definition el_fmt : fmt := mkFmt escape_help el_short el_long el_sub case_block.

(** ---- the transcription computes the specification ---- *)
Lemma spell_lines_eq dash mk o h :
  (o = None \/ exists s l, o = Some (s :: l)) ->
  (forall n tip, mk n tip = preamble ++ dash ++ n ++ lit " '" ++ tip ++ lit "'") ->
  spell_lines dash o h = Some (spell_entries el_fmt mk o h).
Proof.
  intros [->|(s & l & ->)] Hmk; [reflexivity|].
  unfold spell_lines, spell_entries. cbn [idx0 hd f_tip el_fmt]. f_equal. f_equal.
  apply map_ext. intros n. now rewrite Hmk.
Qed.

Lemma arg_lines_eq x : arg_lines x = Some (arg_entries el_fmt x).
Proof.
  unfold arg_lines, arg_entries.
  rewrite (spell_lines_eq (lit "-") (f_short el_fmt) _ _ (short_spellings_shape (fst x))) by reflexivity.
  rewrite (spell_lines_eq (lit "--") (f_long el_fmt) _ _ (long_spellings_shape (fst x))) by reflexivity.
  reflexivity.
Qed.

Lemma sub_lines_eq x : sub_lines x = sub_entries el_fmt x.
Proof. reflexivity. Qed.

Lemma command_names_eq p prev : c_bin p <> None -> command_names p prev = Some (cnames p prev).
Proof.
  intros Hb. unfold command_names, cnames. destruct (is_nil prev); [|reflexivity].
  destruct (c_bin p); [reflexivity|congruence].
Qed.

Lemma generate_inner_unfold p t prev :
  generate_inner p t prev =
  match command_names p prev with
  | None => None
  | Some names =>
      match map_opt arg_lines (get_opts_t p t), map_opt arg_lines (flags_t p t) with
      | Some lo, Some lf =>
          let completions := List.concat lo ++ List.concat lf ++ List.concat (map sub_lines (zsubs p t)) in
          match map_opt (fun x : cmd * ttree =>
                           match map_opt (fun cn => generate_inner (fst x) (snd x) cn) names with
                           | Some a => Some (List.concat a)
                           | None => None
                           end) (zsubs p t) with
          | Some rest => Some (List.concat (map (fun cn => case_block cn completions) names) ++ List.concat rest)
          | None => None
          end
      | _, _ => None
      end
  end.
Proof.
  destruct p as [n al args subs bin h v s g]. cbn [generate_inner].
  destruct (command_names _ prev) as [names|]; [|reflexivity].
  destruct (map_opt arg_lines (get_opts_t _ t)) as [lo|]; [|reflexivity].
  destruct (map_opt arg_lines (flags_t _ t)) as [lf|]; [|reflexivity].
  cbv zeta. unfold zsubs at 2. cbn [c_subs].
  match goal with |- match ?go subs (tt_subs t) with _ => _ end = _ => set (G := go) end.
  assert (E : forall ts, G subs ts =
    match map_opt (fun x : cmd * ttree =>
                     match map_opt (fun cn => generate_inner (fst x) (snd x) cn) names with
                     | Some a => Some (List.concat a)
                     | None => None
                     end) (zip_pad subs ts tt_none) with
    | Some rest => Some (List.concat rest)
    | None => None
    end).
  { induction subs as [|sc subs IH]; intros ts; [reflexivity|].
    unfold G; fold G. cbn [zip_pad]. rewrite map_opt_cons. cbn [fst snd]. rewrite IH.
    destruct (map_opt (fun cn => generate_inner sc (hd tt_none ts) cn) names); [|reflexivity].
    destruct (map_opt _ (zip_pad subs (tl ts) tt_none)); reflexivity. }
  rewrite E. destruct (map_opt _ (zip_pad subs (tt_subs t) tt_none)); reflexivity.
Qed.

Theorem generate_inner_spec : forall p, all_bins p ->
  forall t prev, generate_inner p t prev = Some (gi el_fmt p t prev).
Proof.
  induction p as [n al args subs bin h v s g IH] using cmd_ind'. intros Hb t prev.
  set (p := mkCmd n al args subs bin h v s g) in *.
  rewrite generate_inner_unfold, (gi_unfold el_fmt p t prev).
  rewrite (command_names_eq p prev) by (apply Hb; now left).
  rewrite (map_opt_fun arg_lines (arg_entries el_fmt)) by (intros; apply arg_lines_eq).
  rewrite (map_opt_fun arg_lines (arg_entries el_fmt)) by (intros; apply arg_lines_eq).
  cbv zeta.
  rewrite (map_opt_fun _ (fun x : cmd * ttree =>
             List.concat (map (fun cn => gi el_fmt (fst x) (snd x) cn) (cnames p prev)))).
  - reflexivity.
  - intros x Hx. assert (Hs : In (fst x) subs) by exact (zip_pad_in_fst _ _ _ _ Hx).
    rewrite Forall_forall in IH.
    rewrite (map_opt_fun _ (fun cn => gi el_fmt (fst x) (snd x) cn)); [reflexivity|].
    intros cn _. apply (IH _ Hs). exact (all_bins_sub p _ Hb Hs).
Qed.

(** ---- [Elvish::generate] ---- *)
Theorem generate_spec c t bin : c_bin c = Some bin -> bins_built c ->
  generate c t = Some (render bin (gi el_fmt c t [])).
Proof.
  intros Hbin Hb. unfold generate. rewrite Hbin, generate_inner_spec; [reflexivity|].
  apply all_bins_intro; [congruence|exact Hb].
Qed.

(** total on every built tree *)
Theorem generate_total c b t : build c = Some b -> c_bin b <> None -> exists s, generate b t = Some s.
Proof.
  intros Hbuild Hbin. destruct (c_bin b) as [bin|] eqn:E; [|congruence].
  eexists. apply generate_spec; [exact E|exact (build_bins_built _ _ Hbuild)].
Qed.

(** deterministic: a function of the command and its texts *)
Theorem generate_elvish_deterministic c1 c2 t1 t2 b1 b2 :
  c1 = c2 -> t1 = t2 -> b1 = b2 -> generate_elvish c1 t1 b1 = generate_elvish c2 t2 b2.
Proof. intros -> -> ->. reflexivity. Qed.

(** ---- coverage, every depth ---- *)

Theorem elvish_covers c t bin ws ns n :
  c_bin c = Some bin -> bin <> [] -> bins_built c -> reach c ws ns n ->
  exists script tn,
    generate c t = Some script /\
    infix (case_block (path_key bin ws) (entries el_fmt n tn)) script /\
    (forall a s0 s, In a (c_args n) -> a_is_positional a = false -> a_short a = Some s0 ->
       (s = s0 \/ In (s, true) (a_short_aliases a)) ->
       exists tip, infix (el_short s tip) (entries el_fmt n tn)) /\
    (forall a l0 l, In a (c_args n) -> a_is_positional a = false -> a_long a = Some l0 ->
       (l = l0 \/ In (l, true) (a_aliases a)) ->
       exists tip, infix (el_long l tip) (entries el_fmt n tn)) /\
    (forall sc w, In sc (c_subs n) -> In w (get_name_and_visible_aliases sc) ->
       exists tip, infix (el_sub w tip) (entries el_fmt n tn)).
Proof.
  intros Hbin Hne Hb Hr.
  assert (Hk : In bin (cnames c [])) by (unfold cnames; cbn [is_nil]; rewrite Hbin; now left).
  destruct (gi_reach el_fmt c ws ns n Hr t [] bin Hk Hne) as [tn Htn].
  exists (render bin (gi el_fmt c t [])), tn. split; [apply generate_spec; assumption|]. split.
  - unfold render. do 7 apply infix_app_r. apply infix_app_l. exact Htn.
  - repeat split.
    + intros a s0 s Ha Hpos Hs Hin. destruct (short_spellings a s0 s Hs Hin) as (names & Hn & Hsn).
      exact (entries_short el_fmt n tn a names s Ha Hpos Hn Hsn).
    + intros a l0 l Ha Hpos Hl Hin. destruct (long_spellings a l0 l Hl Hin) as (names & Hn & Hln).
      exact (entries_long el_fmt n tn a names l Ha Hpos Hn Hln).
    + intros sc w Hsc Hw. exact (entries_sub el_fmt n tn sc w Hsc Hw).
Qed.

(** ---- non-vacuity and the boundaries of the class ---- *)
(** the script of that tree, with quotes in the texts *)
Example elvish_example_script :
  exists s, generate_elvish ex_tree ex_texts (lit "p") = Some s /\
    infixb (lit "&'p;ab'= {") s = true /\ infixb (lit "cand -t 'say ''hi'''") s = true /\
    infixb (lit "cand ab 'it''s'") s = true /\ infixb (lit "cand -u ") s = false.
Proof. eexists. split; [vm_compute; reflexivity|]. vm_compute. repeat split. Qed.

(** finding alias-without-primary is a boundary of the class: a visible short alias of an option
    without a short has no entry in the script, whatever the tooltip *)
Lemma elvish_alias_without_primary_refuted :
  exists c t bin a s script, In a (c_args c) /\ a_is_positional a = false /\ In (s, true) (a_short_aliases a) /\
    generate_elvish c t bin = Some script /\ forall tip, ~ infix (el_short s tip) script.
Proof.
  exists alias_only_cmd, tt_none, [112], alias_only_arg, [120]. eexists.
  split; [left; reflexivity|]. split; [reflexivity|]. split; [left; reflexivity|].
  split; [vm_compute; reflexivity|].
  intros tip H. unfold el_short in H. rewrite 3!app_assoc in H. apply infix_prefix in H.
  apply infixb_complete in H. vm_compute in H. discriminate.
Qed.

(** finding values-not-in-powershell-elvish: possible values are never written *)
Lemma elvish_values_refuted :
  exists c t bin a v script, In a (c_args c) /\ possible_values a = Some [mkPv v false] /\
    generate_elvish c t bin = Some script /\ ~ infix v script.
Proof.
  exists values_cmd, tt_none, [112], values_arg, (lit "zzz"). eexists.
  split; [left; reflexivity|]. split; [reflexivity|].
  split; [vm_compute; reflexivity|].
  intros H. apply infixb_complete in H. vm_compute in H. discriminate.
Qed.

(** the hypothesis [bin <> []]: with an empty bin name the children are keyed by their own bin name
    ("s"), not by the [;]-joined path the script computes (";s") *)
Lemma elvish_empty_bin_refuted :
  exists c t sc script, generate_elvish c t [] = Some script /\ In sc (c_subs c) /\
    forall es, ~ infix (case_block (path_key [] [c_name sc]) es) script.
Proof.
  exists (mkCmd (lit "p") [] [] [cmd_new (lit "s")] None false false sets0 sets0), tt_none, (cmd_new (lit "s")). eexists.
  split; [vm_compute; reflexivity|]. split; [left; reflexivity|].
  intros es H. unfold case_block in H. rewrite 3!app_assoc in H. apply infix_prefix in H.
  apply infixb_complete in H. vm_compute in H. discriminate.
Qed.

(** ---- C17: whole-script structure invariance under the elvish lexer model ---- *)
(** outside every literal and comment: between words, in a bare word, just after a closing quote *)
Definition el_outer (st : estate) : bool := match st with EB | EW | ESQQ => true | _ => false end.
(** characters a name may contain: everything except the two quotes and the comment sign *)
Definition el_plain (c : N) : bool := negb ((c =? 39) || (c =? 34) || (c =? 35)).

Lemma el_open st : el_outer st = true -> fst (el_step st 39) = ESQ.
Proof. destruct st; intros H; try discriminate H; reflexivity. Qed.
Lemma el_close : el_outer (fst (el_step ESQ 39)) = true.
Proof. reflexivity. Qed.
Lemma el_plain_outer st c : el_outer st = true -> el_plain c = true -> el_outer (fst (el_step st c)) = true.
Proof.
  intros Hst Hc. unfold el_plain in Hc. rewrite negb_true_iff, !orb_false_iff in Hc.
  destruct Hc as [[H39 H34] H35].
  destruct st; try discriminate Hst; cbn [el_step]; unfold el_bare; rewrite ?H39, ?H34, ?H35; cbn [andb];
    match goal with |- context [if ?b then _ else _] => destruct b end; reflexivity.
Qed.
Lemma el_plain_sq c : el_plain c = true -> el_step ESQ c = (ESQ, [Lit c]).
Proof.
  intros Hc. unfold el_plain in Hc. rewrite negb_true_iff, !orb_false_iff in Hc.
  destruct Hc as [[H39 _] _]. cbn [el_step]. now rewrite H39.
Qed.

Notation el_sim := (sim el_step el_outer).
Notation el_body := (body el_step ESQ).
Notation el_plainl := (plainl el_plain).

(** fixed template text: computed on the three outer states *)
Ltac el_fixed :=
  apply sim_refl_of; let st := fresh "st" in let H := fresh "H" in
  intros st H; destruct st; try discriminate H; vm_compute; reflexivity.

Lemma el_sim_plain x : el_plainl x = true -> el_sim x x.
Proof. apply (sim_plain el_step el_outer el_plain el_plain_outer). Qed.
Lemma el_sim_quote x y : el_body x -> el_body y -> el_sim (39 :: x ++ [39]) (39 :: y ++ [39]).
Proof. apply (sim_quote el_step el_outer ESQ 39 el_open el_close). Qed.
Lemma el_body_plain x : el_plainl x = true -> el_body x.
Proof. apply (body_plain el_step ESQ el_plain el_plain_sq). Qed.

Lemma el_tip_body h data : el_plainl data = true -> el_body (escape_help h data).
Proof.
  intros Hd. destruct h as [x|]; cbn [escape_help].
  - exact (body_transparent el_step ESQ _ _ (elvish_sq_transparent x)).
  - apply el_body_plain, Hd.
Qed.

Lemma el_short_sim n t1 t2 : el_plainl n = true -> el_body t1 -> el_body t2 -> el_sim (el_short n t1) (el_short n t2).
Proof.
  intros Hn H1 H2.
  assert (E : forall tip, el_short n tip = preamble ++ [45] ++ n ++ [32] ++ (39 :: tip ++ [39])) by reflexivity.
  rewrite !E. apply (sim_app el_step el_outer); [el_fixed|].
  apply (sim_app el_step el_outer); [el_fixed|].
  apply (sim_app el_step el_outer); [apply el_sim_plain, Hn|].
  apply (sim_app el_step el_outer); [el_fixed|]. apply el_sim_quote; assumption.
Qed.

Lemma el_long_sim n t1 t2 : el_plainl n = true -> el_body t1 -> el_body t2 -> el_sim (el_long n t1) (el_long n t2).
Proof.
  intros Hn H1 H2.
  assert (E : forall tip, el_long n tip = preamble ++ [45; 45] ++ n ++ [32] ++ (39 :: tip ++ [39])) by reflexivity.
  rewrite !E. apply (sim_app el_step el_outer); [el_fixed|].
  apply (sim_app el_step el_outer); [el_fixed|].
  apply (sim_app el_step el_outer); [apply el_sim_plain, Hn|].
  apply (sim_app el_step el_outer); [el_fixed|]. apply el_sim_quote; assumption.
Qed.

Lemma el_sub_sim n t1 t2 : el_plainl n = true -> el_body t1 -> el_body t2 -> el_sim (el_sub n t1) (el_sub n t2).
Proof.
  intros Hn H1 H2.
  assert (E : forall tip, el_sub n tip = preamble ++ n ++ [32] ++ (39 :: tip ++ [39])) by reflexivity.
  rewrite !E. apply (sim_app el_step el_outer); [el_fixed|].
  apply (sim_app el_step el_outer); [apply el_sim_plain, Hn|].
  apply (sim_app el_step el_outer); [el_fixed|]. apply el_sim_quote; assumption.
Qed.

Definition el_block_open : bytes := nl ++ lit "        &".
Definition el_block_mid : bytes := lit "= {".
Definition el_block_close : bytes := nl ++ lit "        }".

Lemma el_block_sim k x y : el_plainl k = true -> el_sim x y -> el_sim (case_block k x) (case_block k y).
Proof.
  intros Hk Hxy.
  assert (E : forall z, case_block k z = el_block_open ++ (39 :: k ++ [39]) ++ el_block_mid ++ z ++ el_block_close).
  { intros z. unfold case_block, el_block_open, el_block_mid, el_block_close.
    rewrite <- !app_assoc. cbn [app]. rewrite <- !app_assoc. reflexivity. }
  rewrite !E. apply (sim_app el_step el_outer); [el_fixed|].
  apply (sim_app el_step el_outer); [apply el_sim_quote; apply el_body_plain, Hk|].
  apply (sim_app el_step el_outer); [el_fixed|].
  apply (sim_app el_step el_outer); [exact Hxy|el_fixed].
Qed.

(** the table: ANY two assignments of description texts *)
Theorem elvish_table_sim c t1 t2 prev : cmd_plain el_plain c = true -> el_plainl prev = true ->
  el_sim (gi el_fmt c t1 prev) (gi el_fmt c t2 prev).
Proof.
  intros Hc Hp.
  exact (sim_gi el_step el_outer ESQ el_plain el_fmt eq_refl
           el_tip_body el_short_sim el_long_sim el_sub_sim el_block_sim c Hc t1 t2 prev Hp).
Qed.

(** the whole script *)
Lemma el_render_sim bin x y : el_plainl bin = true -> el_sim x y -> el_sim (render bin x) (render bin y).
Proof.
  intros Hb Hxy.
  assert (E : forall z, render bin z = head1 ++ bin ++ head2 ++ (39 :: bin ++ [39]) ++ head3 ++ z ++ tail1).
  { intros z. unfold render. cbn [app]. rewrite <- !app_assoc. reflexivity. }
  rewrite !E. apply (sim_app el_step el_outer); [el_fixed|].
  apply (sim_app el_step el_outer); [apply el_sim_plain, Hb|].
  apply (sim_app el_step el_outer); [el_fixed|].
  apply (sim_app el_step el_outer); [apply el_sim_quote; apply el_body_plain, Hb|].
  apply (sim_app el_step el_outer); [el_fixed|].
  apply (sim_app el_step el_outer); [exact Hxy|el_fixed].
Qed.

Lemma cmd_plain_bin c bin : cmd_plain el_plain c = true -> c_bin c = Some bin -> el_plainl bin = true.
Proof.
  intros Hc Hb. rewrite cmd_plain_unfold, !andb_true_iff in Hc. destruct Hc as [[_ Hbin] _].
  rewrite Hb in Hbin. exact Hbin.
Qed.

(** C17, elvish, whole script: for a built tree whose names contain no quote and no comment sign, the
    scripts generated for ANY two assignments of description texts (help / about of every argument and
    subcommand: present or absent, empty or not) have the same token skeleton and end in the same lexer state *)
Theorem elvish_script_structure c t1 t2 s1 s2 :
  bins_built c -> cmd_plain el_plain c = true ->
  generate c t1 = Some s1 -> generate c t2 = Some s2 ->
  skeleton (events el_step EB s1) = skeleton (events el_step EB s2) /\
  final el_step EB s1 = final el_step EB s2.
Proof.
  intros Hb Hc G1 G2. destruct (c_bin c) as [bin|] eqn:Ebin; [|unfold generate in G1; rewrite Ebin in G1; discriminate].
  rewrite (generate_spec c t1 bin Ebin Hb) in G1. rewrite (generate_spec c t2 bin Ebin Hb) in G2.
  inversion G1; inversion G2; subst s1 s2; clear G1 G2.
  pose proof (cmd_plain_bin c bin Hc Ebin) as Hbin.
  destruct (el_render_sim bin _ _ Hbin (elvish_table_sim c t1 t2 [] Hc eq_refl) EB eq_refl) as (_ & F & K).
  split; assumption.
Qed.

(** every text is literal payload: the skeleton of the script is the skeleton of the script generated
    with NO description text at all (every tooltip is then the spelling itself), and every literal is
    closed at the end of the script *)
Theorem elvish_text_is_payload c t s s0 :
  bins_built c -> cmd_plain el_plain c = true ->
  generate c t = Some s -> generate c tt_none = Some s0 ->
  skeleton (events el_step EB s) = skeleton (events el_step EB s0) /\ final el_step EB s = EB.
Proof.
  intros Hb Hc G G0. destruct (elvish_script_structure c t tt_none s s0 Hb Hc G G0) as [K F].
  split; [exact K|].
  destruct (c_bin c) as [bin|] eqn:Ebin; [|unfold generate in G; rewrite Ebin in G; discriminate].
  rewrite (generate_spec c t bin Ebin Hb) in G. inversion G; subst s; clear G.
  pose proof (cmd_plain_bin c bin Hc Ebin) as Hbin.
  assert (E : render bin (gi el_fmt c t []) =
              (head1 ++ bin ++ head2 ++ (39 :: bin ++ [39]) ++ head3 ++ gi el_fmt c t []) ++ tail1).
  { unfold render. repeat (progress (rewrite <- ?app_assoc; cbn [app])). reflexivity. }
  rewrite E, final_app.
  assert (O : el_outer (final el_step EB (head1 ++ bin ++ head2 ++ (39 :: bin ++ [39]) ++ head3 ++ gi el_fmt c t [])) = true).
  { assert (Hs : el_sim (head1 ++ bin ++ head2 ++ (39 :: bin ++ [39]) ++ head3 ++ gi el_fmt c t [])
                        (head1 ++ bin ++ head2 ++ (39 :: bin ++ [39]) ++ head3 ++ gi el_fmt c t [])).
    { apply (sim_app el_step el_outer); [el_fixed|].
      apply (sim_app el_step el_outer); [apply el_sim_plain, Hbin|].
      apply (sim_app el_step el_outer); [el_fixed|].
      apply (sim_app el_step el_outer); [apply el_sim_quote; apply el_body_plain, Hbin|].
      apply (sim_app el_step el_outer); [el_fixed|].
      exact (elvish_table_sim c t t [] Hc eq_refl). }
    exact (proj1 (Hs EB eq_refl)). }
  revert O. generalize (final el_step EB (head1 ++ bin ++ head2 ++ (39 :: bin ++ [39]) ++ head3 ++ gi el_fmt c t [])).
  intros st O. destruct st; try discriminate O; reflexivity.
Qed.

(** the same for [clap_complete::aot::generate] as a whole ([set_bin_name], [build], the generator):
    the built command does not depend on the texts *)
Theorem elvish_generate_structure c bin t1 t2 b s1 s2 :
  build (set_bin_name c bin) = Some b -> cmd_plain el_plain b = true ->
  generate_elvish c t1 bin = Some s1 -> generate_elvish c t2 bin = Some s2 ->
  skeleton (events el_step EB s1) = skeleton (events el_step EB s2) /\
  final el_step EB s1 = final el_step EB s2.
Proof.
  intros Hb Hp G1 G2. unfold generate_elvish in G1, G2. rewrite Hb in G1, G2.
  destruct (tbuild (set_bin_name c bin) t1) as [tb1|]; [|discriminate].
  destruct (tbuild (set_bin_name c bin) t2) as [tb2|]; [|discriminate].
  exact (elvish_script_structure b tb1 tb2 s1 s2 (build_bins_built _ _ Hb) Hp G1 G2).
Qed.

(** non-vacuity: the built example tree is in the class, and two text assignments with quotes,
    newlines and different emptiness both produce a script *)
Definition ex_texts2 : ttree :=
  mkTt None false [] [mkTt (Some []) false [mkAt (Some [39; 10; 39; 39; 36; 40]) false] []].
Example elvish_structure_nonvacuous :
  exists s1 s2, build (set_bin_name ex_tree (lit "p")) = Some ex_built /\ cmd_plain el_plain ex_built = true /\
    generate_elvish ex_tree ex_texts (lit "p") = Some s1 /\ generate_elvish ex_tree ex_texts2 (lit "p") = Some s2 /\
    s1 <> s2.
Proof.
  eexists. eexists. split; [exact ex_built_eq|]. split; [vm_compute; reflexivity|].
  split; [vm_compute; reflexivity|]. split; [vm_compute; reflexivity|]. discriminate.
Qed.

(** the class is sharp: names are written into the script unescaped, so with a quote in a subcommand
    name the about text of that subcommand is read OUTSIDE a literal and changes the skeleton *)
Definition quote_tree : cmd :=
  mkCmd (lit "p") [] [] [mkCmd [120; 39] [] [] [] None false false sets0 sets0] None false false
        (mkSets true true true false) (mkSets true true true false).
Lemma elvish_quote_in_name_refuted :
  exists c bin t1 t2 s1 s2,
    generate_elvish c t1 bin = Some s1 /\ generate_elvish c t2 bin = Some s2 /\
    skeleton (events el_step EB s1) <> skeleton (events el_step EB s2).
Proof.
  exists quote_tree, (lit "p"), (mkTt None false [] [mkTt (Some (lit "a b")) false [] []]),
         (mkTt None false [] [mkTt (Some (lit "ab")) false [] []]).
  eexists. eexists. split; [vm_compute; reflexivity|]. split; [vm_compute; reflexivity|].
  vm_compute. discriminate.
Qed.

(** ---- [clap_complete::aot::generate] as a whole; the lookup ---- *)
(** total: for EVERY command tree, texts and bin name the generator writes a script ([build] never runs out of fuel) *)
Theorem elvish_generate_total c bin t : exists s, generate_elvish c t bin = Some s.
Proof.
  destruct (build (set_bin_name c bin)) as [b|] eqn:Hb; [|exfalso; exact (build_total _ Hb)].
  unfold generate_elvish. rewrite Hb. destruct (tbuild_total _ b t Hb) as [tb ->].
  apply (generate_total _ b tb Hb). rewrite (build_root_bin c bin b Hb). discriminate.
Qed.

(** C17 with the class on the SOURCE tree: [build] keeps a tree in the class *)
Theorem elvish_generate_structure_src c bin t1 t2 s1 s2 :
  cmd_plain el_plain c = true -> el_plainl bin = true ->
  generate_elvish c t1 bin = Some s1 -> generate_elvish c t2 bin = Some s2 ->
  skeleton (events el_step EB s1) = skeleton (events el_step EB s2) /\
  final el_step EB s1 = final el_step EB s2.
Proof.
  intros Hc Hbin G1 G2.
  destruct (build (set_bin_name c bin)) as [b|] eqn:Hb;
    [|unfold generate_elvish in G1; rewrite Hb in G1; discriminate].
  apply (elvish_generate_structure c bin t1 t2 b s1 s2 Hb); [|exact G1|exact G2].
  apply (cp_build el_plain eq_refl eq_refl eq_refl eq_refl _ b Hb). apply cp_set_bin_name; assumption.
Qed.

(** the block of a path is what the shell finds: the script is the blocks rendered in order; the block
    keyed by the path is among them; every block with that key has the node's entries *)
Theorem elvish_lookup c t bin ws ns n :
  c_bin c = Some bin -> bin <> [] -> bins_built c -> siblings_ok c -> cmd_plain no_semi c = true ->
  reach c ws ns n ->
  exists tn,
    generate c t = Some (render bin (List.concat (map (render_block el_fmt) (blocks el_fmt c t [])))) /\
    In (path_key bin ws, entries el_fmt n tn) (blocks el_fmt c t []) /\
    (forall e, In (path_key bin ws, e) (blocks el_fmt c t []) -> e = entries el_fmt n tn) /\
    lookup_block (blocks el_fmt c t []) (path_key bin ws) = Some (path_key bin ws, entries el_fmt n tn).
Proof.
  intros Hbin Hne Hb Hs Hp Hr.
  destruct (table_lookup el_fmt c t bin ws ns n Hbin Hne Hs Hp Hr) as (tn & Hin & Hu).
  exists tn. split; [rewrite <- gi_blocks; apply generate_spec; assumption|].
  split; [exact Hin|]. split; [exact Hu|]. exact (lookup_first _ _ _ Hin Hu).
Qed.

(** the hypotheses of [elvish_generate_structure_src] hold for the example tree (its scripts: [elvish_structure_nonvacuous]) *)
Example elvish_src_hyps : cmd_plain el_plain ex_tree = true /\ el_plainl [112] = true.
Proof. split; vm_compute; reflexivity. Qed.

(** coverage for [clap_complete::aot::generate] as a whole: ONE script, every path of the built tree *)
Theorem elvish_generate_covers c t bin : bin <> [] ->
  exists b script,
    build (set_bin_name c bin) = Some b /\ generate_elvish c t bin = Some script /\
    forall ws ns n, reach b ws ns n ->
      exists tn,
        infix (case_block (path_key bin ws) (entries el_fmt n tn)) script /\
        (forall a s0 s, In a (c_args n) -> a_is_positional a = false -> a_short a = Some s0 ->
           (s = s0 \/ In (s, true) (a_short_aliases a)) ->
           exists tip, infix (el_short s tip) (entries el_fmt n tn)) /\
        (forall a l0 l, In a (c_args n) -> a_is_positional a = false -> a_long a = Some l0 ->
           (l = l0 \/ In (l, true) (a_aliases a)) ->
           exists tip, infix (el_long l tip) (entries el_fmt n tn)) /\
        (forall sc w, In sc (c_subs n) -> In w (get_name_and_visible_aliases sc) ->
           exists tip, infix (el_sub w tip) (entries el_fmt n tn)).
Proof.
  intros Hne. destruct (build (set_bin_name c bin)) as [b|] eqn:Hb; [|exfalso; exact (build_total _ Hb)].
  destruct (tbuild_total _ b t Hb) as [tb Htb].
  pose proof (build_root_bin c bin b Hb) as Hbin. pose proof (build_bins_built _ _ Hb) as Hbb.
  exists b, (render bin (gi el_fmt b tb [])). split; [reflexivity|]. split.
  - unfold generate_elvish. rewrite Hb, Htb. apply generate_spec; assumption.
  - intros ws ns n Hr. destruct (elvish_covers b tb bin ws ns n Hbin Hne Hbb Hr) as (script & tn & G & H).
    rewrite (generate_spec b tb bin Hbin Hbb) in G. inversion G; subst script. exists tn. exact H.
Qed.
