(** C16 / C17: clap_complete/src/aot/shells/fish.rs, all of it, over the built tree of [AotTree.v].

    The generator reads descriptive text ([Arg::get_help], [Command::get_about],
    [PossibleValue::get_help]) that [AotTree.cmd] does not carry.  The texts live in a
    decoration [cdesc] that runs parallel to the command tree (same shape: one [adesc] per
    argument, one [cdesc] per subcommand; a missing entry reads as "no text").  [dbuild] is what
    [Command::build] does to the texts (the generated [--help]/[--version] arguments and the
    expanded [help] subcommand tree bring their own, global arguments take theirs along).

    The script is produced as a list of lines, a line as a list of PIECES: [Fx b] is text the
    generator writes itself (names, option spellings, fixed syntax), [Dsq t] is a description
    text written through [escape_help] between single quotes, [Ddq t] a possible-value help
    written through [escape_double_quoted(escape_help(..))] inside the double-quoted [-a "..."]
    list.  [render_pieces] turns pieces into bytes; [fish_script] is the byte-exact file.
    One Gallina function per Rust function; an [expect] is a visible [None]. *)
From ClapModel Require Import Base.Bytes Complete.AotTree Escape.EscapeModel.
From Coq Require Import String.
Open Scope N_scope.
Open Scope list_scope.

(** ---- descriptive text, parallel to the command tree ---- *)
Record adesc := mkAd {
  ad_help : option bytes;            (* [Arg::help] *)
  ad_long : bool;                    (* [Arg::long_help] is present (read by [long_help_exists_] only) *)
  ad_pvh : list (option bytes)       (* [PossibleValue::help], parallel to [a_pvs] *)
}.
Inductive cdesc := mkCd {
  cd_about : option bytes;           (* [Command::about] *)
  cd_long : bool;                    (* long_about / before_long_help / after_long_help present *)
  cd_args : list adesc;              (* parallel to [c_args] *)
  cd_subs : list cdesc               (* parallel to [c_subs] *)
}.
Definition ad0 : adesc := mkAd None false [].
Definition cd0 : cdesc := mkCd None false [] [].

(** pair every element with its decoration; a missing decoration is the default *)
Fixpoint zipd {A B} (dflt : B) (l : list A) (m : list B) : list (A * B) :=
  match l with
  | [] => []
  | a :: t => (a, hd dflt m) :: zipd dflt t (tl m)
  end.

(** ---- what [Command::build] does to the texts ---- *)
Definition help_about : bytes := lit "Print this message or the help of the given subcommand(s)".
Definition help_arg_desc (long_help_exists : bool) : adesc :=
  mkAd (Some (if long_help_exists then lit "Print help (see more with '--help')" else lit "Print help"))
       long_help_exists [].
Definition version_arg_desc : adesc := mkAd (Some (lit "Print version")) false [].

(** [Arg::is_takes_value_set] before [Arg::_build] has run: [num_vals.unwrap_or(1)] *)
Definition pre_takes_value (a : arg) : bool :=
  match a_num a with Some r => negb (snd r =? 0) | None => true end.
(** [Command::long_help_exists_] (hide_long_help / hide_short_help / hide_possible_values are not modelled) *)
Definition should_long (p : arg * adesc) : bool :=
  negb (a_hide (fst p)) &&
  (ad_long (snd p) ||
   (pre_takes_value (fst p) &&
    existsb (fun q : pval * option bytes => negb (pv_hide (fst q)) && is_some (snd q))
            (zipd None (match a_pvs (fst p) with Some l => l | None => [] end) (ad_pvh (snd p))))).
Definition long_help_exists (c : cmd) (d : cdesc) : bool :=
  cd_long d || existsb should_long (zipd ad0 (c_args c) (cd_args d)).

(** [_copy_subtree_for_help]: the about text is copied, nothing else *)
Fixpoint copy_desc_for_help (d : cdesc) : cdesc :=
  match d with
  | mkCd about _ _ subs => mkCd about false [] (map copy_desc_for_help subs)
  end.
(** the copies follow the subcommands of the command, not the decoration *)
Definition help_subcommand_desc (parent : cmd) (d : cdesc) : cdesc :=
  mkCd (Some help_about) false []
       (map (fun p : cmd * cdesc => copy_desc_for_help (snd p)) (zipd cd0 (c_subs parent) (cd_subs d))
        ++ [mkCd (Some help_about) false [] []]).

Definition add_arg_desc (c : cmd) (d : cdesc) (ad : adesc) : cdesc :=
  mkCd (cd_about d) (cd_long d) (map snd (zipd ad0 (c_args c) (cd_args d)) ++ [ad]) (cd_subs d).
Definition add_sub_desc (c : cmd) (d : cdesc) (sd : cdesc) : cdesc :=
  mkCd (cd_about d) (cd_long d) (cd_args d) (map snd (zipd cd0 (c_subs c) (cd_subs d)) ++ [sd]).

(** [_check_help_and_version]; [c] is the command as [bs_help_version] receives it *)
Definition d_help_version (c : cmd) (d : cdesc) : cdesc :=
  let lhe := long_help_exists c d in
  let d1 := if negb (is_set s_dhf c) then add_arg_desc c d (help_arg_desc lhe) else d in
  let c1 := if negb (is_set s_dhf c) then with_args c (c_args c ++ [help_arg]) else c in
  let d2 := if negb (is_disable_version_flag_set c1) then add_arg_desc c1 d1 version_arg_desc else d1 in
  let c2 := if negb (is_disable_version_flag_set c1) then with_args c1 (c_args c1 ++ [version_arg]) else c1 in
  if negb (is_set s_dhs c2) then add_sub_desc c2 d2 (help_subcommand_desc c2 d2) else d2.

(** [_propagate_global_args]; [c] is the command as [bs_globals] receives it *)
Definition d_globals (c : cmd) (d : cdesc) : cdesc :=
  let autogenerated_help := negb (is_set s_dhs c) in
  let globals := filter (fun p : arg * adesc => a_global (fst p)) (zipd ad0 (c_args c) (cd_args d)) in
  mkCd (cd_about d) (cd_long d) (cd_args d)
    (map (fun q : cmd * cdesc =>
        if beq (c_name (fst q)) (lit "help") && autogenerated_help then snd q
        else snd (fold_left (fun (st : cmd * cdesc) (g : arg * adesc) =>
                     if is_some (find_arg (fst st) (a_id (fst g))) then st
                     else (with_args (fst st) (c_args (fst st) ++ [fst g]), add_arg_desc (fst st) (snd st) (snd g)))
                   globals q))
      (zipd cd0 (c_subs c) (cd_subs d))).

(** [_build_self] on the texts *)
Definition dbuild_self (c : cmd) (d : cdesc) : cdesc :=
  let c0 := bs_propagate (bs_settings c) in
  d_globals (bs_help_version c0) (d_help_version c0 d).

(** [_build_recursive]: same fuel discipline as [AotTree.build_recursive] *)
Fixpoint dbuild_recursive (fuel : nat) (c : cmd) (d : cdesc) : cdesc :=
  match fuel with
  | O => d
  | S f =>
      let d' := dbuild_self c d in
      let c' := build_self c in
      mkCd (cd_about d') (cd_long d') (cd_args d')
           (map (fun q : cmd * cdesc => dbuild_recursive f (fst q) (snd q)) (zipd cd0 (c_subs c') (cd_subs d')))
  end.
Definition dbuild (c : cmd) (d : cdesc) : cdesc := dbuild_recursive (build_fuel c) c d.

(** ---- pieces ---- *)
Inductive piece := Fx (b : bytes) | Dsq (t : bytes) | Ddq (t : bytes).
Definition render1 (p : piece) : bytes :=
  match p with
  | Fx b => b
  | Dsq t => fish_escape_help t                 (* escape_help(data), between '...' *)
  | Ddq t => fish_possible_value_help t         (* escape_double_quoted(&escape_help(help)), inside "..." *)
  end.
Definition render_pieces (l : list piece) : bytes := flat_map render1 l.

Definition lf : bytes := [10].
Definition tab : bytes := [9].

(** [escape_name]: [name.replace('-', "_")] *)
Definition escape_name (s : bytes) : bytes := replace [45] [95] s.

(** [Vec<String>::join(sep)] on piece lists *)
Fixpoint join_pieces (sep : list piece) (l : list (list piece)) : list piece :=
  match l with
  | [] => []
  | x :: t => match t with [] => x | _ :: _ => x ++ sep ++ join_pieces sep t end
  end.

(** ---- fish.rs: value_completion ---- *)
Definition value_word (name : bytes) : piece := Fx (fish_escape_string name true ++ lit "\t'").
Definition pv_entry (q : pval * option bytes) : list piece :=
  [value_word (pv_name (fst q));
   Ddq (match snd q with Some h => h | None => [] end);     (* value.get_help().unwrap_or_default() *)
   Fx (lit "'")].
Definition hint_completion (h : hint) : bytes :=
  match h with
  | HUnknown => lit " -r"
  | HAnyPath | HFilePath | HExecutablePath => lit " -r -F"
  | HDirPath => lit " -r -f -a ""(__fish_complete_directories)"""
  | HCommandString | HCommandName => lit " -r -f -a ""(__fish_complete_command)"""
  | HUsername => lit " -r -f -a ""(__fish_complete_users)"""
  | HHostname => lit " -r -f -a ""(__fish_print_hostnames)"""
  | _ => lit " -r -f"
  end.
Definition value_completion (p : arg * adesc) : list piece :=
  if negb (a_takes_values (fst p)) then []        (* get_num_args().expect("built") *)
  else match possible_values (fst p) with
       | Some data =>
           [Fx (lit " -r -f -a """)]
           ++ join_pieces [Fx lf]
                (map pv_entry (filter (fun q : pval * option bytes => negb (pv_hide (fst q)))
                                      (zipd None data (ad_pvh (snd p)))))
           ++ [Fx (lit """")]
       | None => [Fx (hint_completion (a_get_hint (fst p)))]
       end.

(** ---- fish.rs: gen_fish_inner ---- *)
(** the [-s]/[-l] part of a line *)
Definition short_word (s : bytes) : piece := Fx (lit " -s " ++ s).
Definition long_word (l : bytes) : piece := Fx (lit " -l " ++ fish_escape_string l false).
Definition spellings (a : arg) : list piece :=
  (match get_short_and_visible_aliases a with
   | Some shorts => map short_word shorts
   | None => [] end)
  ++ (match get_long_and_visible_aliases a with
      | Some longs => map long_word longs
      | None => [] end).
(** [ -d '{}'] *)
Definition description (h : option bytes) : list piece :=
  match h with
  | Some t => [Fx (lit " -d '"); Dsq t; Fx (lit "'")]
  | None => []
  end.
Definition opt_line (basic : bytes) (p : arg * adesc) : list piece :=
  Fx basic :: spellings (fst p) ++ description (ad_help (snd p)) ++ value_completion p ++ [Fx lf].
Definition flag_line (basic : bytes) (p : arg * adesc) : list piece :=
  Fx basic :: spellings (fst p) ++ description (ad_help (snd p)) ++ [Fx lf].
Definition sub_word (name : bytes) : piece := Fx (lit " -a """ ++ name ++ lit """").
Definition sub_line (basic : bytes) (name : bytes) (about : option bytes) : list piece :=
  Fx basic :: sub_word name :: description about ++ [Fx lf].

Definition is_opt (p : arg * adesc) : bool := a_takes_values (fst p) && negb (a_is_positional (fst p)).
Definition is_flag (p : arg * adesc) : bool := negb (a_takes_values (fst p)) && negb (a_is_positional (fst p)).

(** [basic_template]; [None] = the [_ => return] arm (three or more parent commands) *)
Definition basic_template (root nds usg : bytes) (parents : list bytes) (c : cmd) : option bytes :=
  let base := lit "complete -c " ++ root in
  match parents with
  | [] => Some (if has_subcommands c then base ++ lit " -n """ ++ nds ++ lit """" else base)
  | [command] =>
      Some (base ++ lit " -n """ ++ usg ++ lit " " ++ command
            ++ (if has_subcommands c then lit "; and not __fish_seen_subcommand_from" else [])
            ++ flat_map (fun n => lit " " ++ n) (flat_map get_name_and_visible_aliases (c_subs c))
            ++ lit """")
  | [command; subcommand] =>
      Some (base ++ lit " -n """ ++ usg ++ lit " " ++ command
            ++ lit "; and __fish_seen_subcommand_from " ++ subcommand ++ lit """")
  | _ => None
  end.

(** the lines one call writes itself: options, flags, subcommand names *)
Definition node_lines (basic : bytes) (c : cmd) (d : cdesc) : list (list piece) :=
  let args := zipd ad0 (c_args c) (cd_args d) in
  let basic' := if is_nil (get_positionals c) then basic ++ lit " -f" else basic in
  map (opt_line basic) (filter is_opt args)
  ++ map (flag_line basic) (filter is_flag args)
  ++ flat_map (fun q : cmd * cdesc =>
                 map (fun nm => sub_line basic' nm (cd_about (snd q))) (get_name_and_visible_aliases (fst q)))
              (zipd cd0 (c_subs c) (cd_subs d)).

Fixpoint gen_fish_inner (root nds usg : bytes) (parents : list bytes) (c : cmd) (d : cdesc) {struct c}
  : list (list piece) :=
  match c with
  | mkCmd _ _ _ subs _ _ _ _ _ =>
      match basic_template root nds usg parents c with
      | None => []
      | Some basic =>
          node_lines basic c d
          ++ (fix go (l : list cmd) (dl : list cdesc) {struct l} : list (list piece) :=
                match l with
                | [] => []
                | sc :: t =>
                    flat_map (fun nm => gen_fish_inner root nds usg (parents ++ [nm]) sc (hd cd0 dl))
                             (get_name_and_visible_aliases sc)
                    ++ go t (tl dl)
                end) subs (cd_subs d)
      end
  end.

(** ---- fish.rs: gen_subcommand_helpers ---- *)
Definition optspec (a : arg) : bytes :=
  lit " "
  ++ (match a_short a with Some s => s | None => [] end)
  ++ (match a_long a with
      | Some l => (if is_some (a_short a) then lit "/" else []) ++ fish_escape_string l false
      | None => [] end)
  ++ (if a_takes_values a then lit "=" else []).
Definition optspecs (c : cmd) : bytes :=
  flat_map optspec (filter (fun a => negb (a_is_positional a)) (c_args c)).

Definition subcommand_helpers (name : bytes) (c : cmd) (nds usg : bytes) : bytes :=
  let optspecs_fn := lit "__fish_" ++ name ++ lit "_global_optspecs" in
  lit "# Print an optspec for argparse to handle cmd's options that are independent of any subcommand." ++ lf ++
  lit "function " ++ optspecs_fn ++ lf ++
  tab ++ lit "string join \n" ++ optspecs c ++ lf ++
  lit "end" ++ lf ++ lf ++
  lit "function " ++ nds ++ lf ++
  tab ++ lit "# Figure out if the current invocation already has a command." ++ lf ++
  tab ++ lit "set -l cmd (commandline -opc)" ++ lf ++
  tab ++ lit "set -e cmd[1]" ++ lf ++
  tab ++ lit "argparse -s (" ++ optspecs_fn ++ lit ") -- $cmd 2>/dev/null" ++ lf ++
  tab ++ lit "or return" ++ lf ++
  tab ++ lit "if set -q argv[1]" ++ lf ++
  tab ++ tab ++ lit "# Also print the command, so this can be used to figure out what it is." ++ lf ++
  tab ++ tab ++ lit "echo $argv[1]" ++ lf ++
  tab ++ tab ++ lit "return 1" ++ lf ++
  tab ++ lit "end" ++ lf ++
  tab ++ lit "return 0" ++ lf ++
  lit "end" ++ lf ++ lf ++
  lit "function " ++ usg ++ lf ++
  tab ++ lit "set -l cmd (" ++ nds ++ lit ")" ++ lf ++
  tab ++ lit "test -z ""$cmd""" ++ lf ++
  tab ++ lit "and return 1" ++ lf ++
  tab ++ lit "contains -- $cmd[1] $argv" ++ lf ++
  lit "end" ++ lf ++ lf.

(** ---- Fish::generate ---- *)
(** the file as a list of lines (the helper block, when present, is the first element);
    [None] = [expect("crate::generate should have set the bin_name")] *)
Definition fish_lines (c : cmd) (d : cdesc) : option (list (list piece)) :=
  match c_bin c with
  | None => None
  | Some bin =>
      let name := escape_name bin in
      let nds := lit "__fish_" ++ name ++ lit "_needs_command" in
      let usg := lit "__fish_" ++ name ++ lit "_using_subcommand" in
      if has_subcommands c
      then Some ([Fx (subcommand_helpers name c nds usg)] :: gen_fish_inner bin nds usg [] c d)
      else Some (gen_fish_inner bin (lit "__fish_use_subcommand") (lit "__fish_seen_subcommand_from") [] c d)
  end.
Definition fish_pieces (c : cmd) (d : cdesc) : option (list piece) :=
  match fish_lines c d with Some ls => Some (List.concat ls) | None => None end.
Definition fish_script (c : cmd) (d : cdesc) : option bytes :=
  match fish_pieces c d with Some ps => Some (render_pieces ps) | None => None end.

(** [clap_complete::aot::generate(Fish, cmd, bin_name, buf)]: [set_bin_name], [build], the generator *)
Definition generate_fish (c : cmd) (d : cdesc) (bin : bytes) : option bytes :=
  match build (set_bin_name c bin) with
  | Some b => fish_script b (dbuild (set_bin_name c bin) d)
  | None => None
  end.

(** ---- the two instantiations of the texts the harness compares (C17 [script] mode) ---- *)
(** innocuous text of the same emptiness: "xx" / "" *)
Definition innocuous (t : bytes) : bytes := if is_nil t then [] else lit "xx".
Definition innocuous_opt (o : option bytes) : option bytes :=
  match o with Some t => Some (innocuous t) | None => None end.
Definition innocuous_adesc (a : adesc) : adesc :=
  mkAd (innocuous_opt (ad_help a)) (ad_long a) (map innocuous_opt (ad_pvh a)).
Fixpoint innocuous_desc (d : cdesc) : cdesc :=
  match d with
  | mkCd about lg args subs => mkCd (innocuous_opt about) lg (map innocuous_adesc args) (map innocuous_desc subs)
  end.
