(** C16: what the PowerShell and the elvish generator have in common -- a table from the [;]-joined
    subcommand path to candidate entries, built by recursion over the tree -- as ONE total
    specification function [gi], parametric in the five text shapes of a shell ([fmt]); and the
    coverage theorem on it, for trees of ANY depth:

      for every path [ws] of names or visible aliases from the root to a node [n], the table
      contains the block keyed [bin;w1;...;wk], and that block has an entry for every spelling of
      every non-positional argument of [n] that [Arg::get_short_and_visible_aliases] /
      [get_long_and_visible_aliases] return, and for every name and visible alias of every
      subcommand of [n].

    ElvishProofs.v / PowershellProofs.v show that the transcriptions of the two Rust files
    ([ElvishModel.generate_inner], [PowershellModel.generate_inner]) compute [gi] of their [fmt]
    whenever every node has a bin name (no panic site is reached). *)
From ClapModel Require Import Base.Bytes Complete.AotTree Complete.TextTree Complete.BashModel Complete.AotProofs
  Complete.BashProofs Escape.EscapeModel.
From Coq Require Import String.
Open Scope N_scope.
Open Scope list_scope.

Record fmt := mkFmt {
  f_tip : option str -> bytes -> bytes;     (* escape_help(help, data) *)
  f_short : bytes -> bytes -> bytes;        (* the entry of a short spelling: spelling, tooltip *)
  f_long : bytes -> bytes -> bytes;         (* the entry of a long spelling *)
  f_sub : bytes -> bytes -> bytes;          (* the entry of a subcommand name / visible alias *)
  f_block : bytes -> bytes -> bytes         (* one block of the table: key, entries *)
}.

(** ---- [zip_pad] ---- *)
Lemma zip_pad_fst {A B} (l : list A) : forall (t : list B) d, map fst (zip_pad l t d) = l.
Proof. induction l as [|a l IH]; intros t d; cbn [zip_pad map fst]; [reflexivity|now rewrite IH]. Qed.

Lemma zip_pad_in {A B} (l : list A) a : In a l -> forall (t : list B) d, exists b, In (a, b) (zip_pad l t d).
Proof.
  induction l as [|x l IH]; intros Hin t d; [destruct Hin|].
  destruct Hin as [->|Hin].
  - exists (hd d t). cbn [zip_pad]. now left.
  - destruct (IH Hin (tl t) d) as [b Hb]. exists b. cbn [zip_pad]. now right.
Qed.

Lemma zip_pad_in_fst {A B} (l : list A) (t : list B) d x : In x (zip_pad l t d) -> In (fst x) l.
Proof. intros H. rewrite <- (zip_pad_fst l t d). now apply in_map. Qed.

(** ---- contiguous occurrence ---- *)
Definition infix (x y : bytes) : Prop := exists pre post, y = pre ++ x ++ post.

Lemma infix_refl x : infix x x.
Proof. exists [], []. now rewrite app_nil_r. Qed.

Lemma infix_trans x y z : infix x y -> infix y z -> infix x z.
Proof.
  intros (p1 & q1 & ->) (p2 & q2 & ->). exists (p2 ++ p1), (q1 ++ q2).
  now rewrite <- !app_assoc.
Qed.

Lemma infix_app_l x a b : infix x a -> infix x (a ++ b).
Proof. intros (p & q & ->). exists p, (q ++ b). now rewrite <- !app_assoc. Qed.

Lemma infix_app_r x a b : infix x b -> infix x (a ++ b).
Proof. intros (p & q & ->). exists (a ++ p), q. now rewrite <- !app_assoc. Qed.

Lemma infix_concat (l : list bytes) x : In x l -> infix x (List.concat l).
Proof.
  induction l as [|y l IH]; intros Hin; [destruct Hin|]. cbn [List.concat].
  destruct Hin as [->|Hin]; [apply infix_app_l, infix_refl|apply infix_app_r, IH, Hin].
Qed.

Lemma infix_concat_map {A} (f : A -> bytes) (l : list A) a : In a l -> infix (f a) (List.concat (map f l)).
Proof. intros H. apply infix_concat, in_map, H. Qed.

Lemma infix_prefix a b y : infix (a ++ b) y -> infix a y.
Proof. intros (p & q & ->). exists p, (b ++ q). now rewrite <- !app_assoc. Qed.

(** a decision procedure, used for the refutation witnesses *)
Fixpoint infixb (x y : bytes) : bool :=
  starts_with y x || match y with [] => false | _ :: y' => infixb x y' end.

Lemma infixb_complete x y : infix x y -> infixb x y = true.
Proof.
  intros (pre & post & ->). induction pre as [|c pre IH].
  - cbn [app]. destruct (x ++ post) eqn:E; cbn [infixb]; rewrite <- E, starts_with_app; reflexivity.
  - cbn [app infixb]. rewrite IH. apply orb_true_r.
Qed.

(** ---- the specification function ---- *)
Section Gen.
  Variable F : fmt.

  (** the body of one [if let Some(names) = arg.get_*_and_visible_aliases()] block: the tooltip is
      computed from the first spelling, then one entry per spelling *)
  Definition spell_entries (mk : bytes -> bytes -> bytes) (o : option (list bytes)) (h : option str) : bytes :=
    match o with
    | None => []
    | Some names => List.concat (map (fun n => mk n (f_tip F h (hd [] names))) names)
    end.
  Definition arg_entries (p : arg * atext) : bytes :=
    spell_entries (f_short F) (get_short_and_visible_aliases (fst p)) (at_help (snd p)) ++
    spell_entries (f_long F) (get_long_and_visible_aliases (fst p)) (at_help (snd p)).
  Definition sub_entries (p : cmd * ttree) : bytes :=
    List.concat (map (fun n => f_sub F n (f_tip F (tt_about (snd p)) n)) (get_name_and_visible_aliases (fst p))).
  (** [completions] *)
  Definition entries (p : cmd) (t : ttree) : bytes :=
    List.concat (map arg_entries (get_opts_t p t)) ++ List.concat (map arg_entries (flags_t p t)) ++
    List.concat (map sub_entries (zsubs p t)).
  (** [command_names] *)
  Definition cnames (p : cmd) (prev : bytes) : list bytes :=
    if is_nil prev then [match c_bin p with Some b => b | None => [] end]
    else map (fun n => prev ++ [59] ++ n) (get_name_and_visible_aliases p).

  (** [generate_inner] *)
  Fixpoint gi (p : cmd) (t : ttree) (prev : bytes) {struct p} : bytes :=
    match p with
    | mkCmd _ _ _ subs _ _ _ _ _ =>
        List.concat (map (fun cn => f_block F cn (entries p t)) (cnames p prev)) ++
        (fix go (l : list cmd) (ts : list ttree) : bytes :=
           match l with
           | [] => []
           | sc :: l' => List.concat (map (fun cn => gi sc (hd tt_none ts) cn) (cnames p prev)) ++ go l' (tl ts)
           end) subs (tt_subs t)
    end.

  Lemma gi_unfold p t prev :
    gi p t prev =
    List.concat (map (fun cn => f_block F cn (entries p t)) (cnames p prev)) ++
    List.concat (map (fun x : cmd * ttree => List.concat (map (fun cn => gi (fst x) (snd x) cn) (cnames p prev)))
                     (zsubs p t)).
  Proof.
    destruct p as [n al args subs bin h v s g]. cbn [gi]. f_equal.
    unfold zsubs. cbn [c_subs]. generalize (tt_subs t) as ts.
    induction subs as [|sc subs IH]; intros ts; [reflexivity|].
    cbn [zip_pad map List.concat fst snd]. now rewrite IH.
  Qed.

  (** ---- coverage ---- *)
  Lemma gi_block p t prev cn : In cn (cnames p prev) -> infix (f_block F cn (entries p t)) (gi p t prev).
  Proof.
    intros H. rewrite (gi_unfold p t prev). apply infix_app_l.
    exact (infix_concat_map (fun cn => f_block F cn (entries p t)) _ cn H).
  Qed.

  Lemma gi_child p t prev x cn : In x (zsubs p t) -> In cn (cnames p prev) ->
    infix (gi (fst x) (snd x) cn) (gi p t prev).
  Proof.
    intros Hx Hcn. rewrite (gi_unfold p t prev). apply infix_app_r.
    eapply infix_trans;
      [|exact (infix_concat_map (fun x : cmd * ttree => List.concat (map (fun cn => gi (fst x) (snd x) cn) (cnames p prev))) _ x Hx)].
    exact (infix_concat_map (fun cn => gi (fst x) (snd x) cn) _ cn Hcn).
  Qed.

  (** the block of EVERY path of names or visible aliases, at every depth *)
  Theorem gi_reach c ws ns n : reach c ws ns n ->
    forall t prev key, In key (cnames c prev) -> key <> [] ->
      exists tn, infix (f_block F (key ++ join_with [59] ws) (entries n tn)) (gi c t prev).
  Proof.
    induction 1 as [c|c sc w ws ns n Hin Hw Hr IH]; intros t prev key Hkey Hne.
    - exists t. rewrite join_with_nil, app_nil_r. apply gi_block, Hkey.
    - destruct (zip_pad_in _ _ Hin (tt_subs t) tt_none) as [st Hst].
      assert (Hk' : In (key ++ [59] ++ w) (cnames sc key)).
      { unfold cnames. destruct key as [|k0 key']; [congruence|]. cbn [is_nil].
        apply in_map_iff. exists w. split; [reflexivity|exact Hw]. }
      assert (Hne' : key ++ [59] ++ w <> []) by (destruct key; [congruence|discriminate]).
      destruct (IH st key _ Hk' Hne') as [tn Htn]. exists tn.
      rewrite join_with_cons. rewrite <- !app_assoc in Htn. cbn [app] in Htn. cbn [app].
      eapply infix_trans; [exact Htn|].
      exact (gi_child c t prev (sc, st) key Hst Hkey).
  Qed.

  (** the entries of a node: every spelling of every non-positional argument ... *)
  Lemma opt_or_flag p t x : In x (zargs p t) -> a_is_positional (fst x) = false ->
    In x (get_opts_t p t) \/ In x (flags_t p t).
  Proof.
    intros Hin Hpos. unfold get_opts_t, flags_t. rewrite !filter_In, Hpos. cbn [negb].
    destruct (a_takes_values (fst x)); [left|right]; split; auto.
  Qed.

  Lemma spell_entries_in mk o h names s : o = Some names -> In s names ->
    infix (mk s (f_tip F h (hd [] names))) (spell_entries mk o h).
  Proof.
    intros -> Hs. unfold spell_entries.
    exact (infix_concat_map (fun n => mk n (f_tip F h (hd [] names))) names s Hs).
  Qed.

  Theorem entries_short p t a names s :
    In a (c_args p) -> a_is_positional a = false ->
    get_short_and_visible_aliases a = Some names -> In s names ->
    exists tip, infix (f_short F s tip) (entries p t).
  Proof.
    intros Ha Hpos Hn Hs. destruct (zip_pad_in _ _ Ha (tt_args t) at_none) as [h Hh].
    exists (f_tip F (at_help h) (hd [] names)).
    assert (E : infix (f_short F s (f_tip F (at_help h) (hd [] names))) (arg_entries (a, h))).
    { unfold arg_entries. apply infix_app_l. cbn [fst snd]. eapply spell_entries_in; eauto. }
    eapply infix_trans; [exact E|]. unfold entries.
    destruct (opt_or_flag p t (a, h) Hh Hpos) as [Ho|Hf].
    - apply infix_app_l. exact (infix_concat_map arg_entries _ _ Ho).
    - apply infix_app_r, infix_app_l. exact (infix_concat_map arg_entries _ _ Hf).
  Qed.

  Theorem entries_long p t a names s :
    In a (c_args p) -> a_is_positional a = false ->
    get_long_and_visible_aliases a = Some names -> In s names ->
    exists tip, infix (f_long F s tip) (entries p t).
  Proof.
    intros Ha Hpos Hn Hs. destruct (zip_pad_in _ _ Ha (tt_args t) at_none) as [h Hh].
    exists (f_tip F (at_help h) (hd [] names)).
    assert (E : infix (f_long F s (f_tip F (at_help h) (hd [] names))) (arg_entries (a, h))).
    { unfold arg_entries. apply infix_app_r. cbn [fst snd]. eapply spell_entries_in; eauto. }
    eapply infix_trans; [exact E|]. unfold entries.
    destruct (opt_or_flag p t (a, h) Hh Hpos) as [Ho|Hf].
    - apply infix_app_l. exact (infix_concat_map arg_entries _ _ Ho).
    - apply infix_app_r, infix_app_l. exact (infix_concat_map arg_entries _ _ Hf).
  Qed.

  (** ... and every name and visible alias of every subcommand *)
  Theorem entries_sub p t sc w :
    In sc (c_subs p) -> In w (get_name_and_visible_aliases sc) ->
    exists tip, infix (f_sub F w tip) (entries p t).
  Proof.
    intros Hsc Hw. destruct (zip_pad_in _ _ Hsc (tt_subs t) tt_none) as [st Hst].
    exists (f_tip F (tt_about st) w). unfold entries. apply infix_app_r, infix_app_r.
    eapply infix_trans; [|exact (infix_concat_map sub_entries _ _ Hst)].
    unfold sub_entries. cbn [fst snd].
    exact (infix_concat_map (fun n => f_sub F n (f_tip F (tt_about st) n)) _ w Hw).
  Qed.
End Gen.

(** what the two accessors return (AotTree.v), in the terms of the property: the primary spelling and
    the visible aliases *)
Lemma short_spellings a s0 s :
  a_short a = Some s0 -> (s = s0 \/ In (s, true) (a_short_aliases a)) ->
  exists names, get_short_and_visible_aliases a = Some names /\ In s names.
Proof.
  intros Hs H. unfold get_short_and_visible_aliases, get_visible_short_aliases. rewrite Hs.
  eexists. split; [reflexivity|]. destruct H as [->|H]; [now left|right].
  destruct (a_short_aliases a) as [|x l] eqn:E; [destruct H|]. cbn [is_nil]. apply visible_in. exact H.
Qed.

Lemma long_spellings a s0 s :
  a_long a = Some s0 -> (s = s0 \/ In (s, true) (a_aliases a)) ->
  exists names, get_long_and_visible_aliases a = Some names /\ In s names.
Proof.
  intros Hs H. unfold get_long_and_visible_aliases, get_visible_aliases. rewrite Hs.
  eexists. split; [reflexivity|]. destruct H as [->|H]; [now left|right].
  destruct (a_aliases a) as [|x l] eqn:E; [destruct H|]. cbn [is_nil]. apply visible_in. exact H.
Qed.

(** the two accessors never return an empty list: the index [names[0]] cannot panic *)
Lemma short_spellings_shape a :
  get_short_and_visible_aliases a = None \/ exists s l, get_short_and_visible_aliases a = Some (s :: l).
Proof. unfold get_short_and_visible_aliases. destruct (a_short a); [right; eauto|left; reflexivity]. Qed.
Lemma long_spellings_shape a :
  get_long_and_visible_aliases a = None \/ exists s l, get_long_and_visible_aliases a = Some (s :: l).
Proof. unfold get_long_and_visible_aliases. destruct (a_long a); [right; eauto|left; reflexivity]. Qed.

(** every node (the root included) has a bin name *)
Definition all_bins (c : cmd) : Prop := forall n, (n = c \/ desc c n) -> c_bin n <> None.

Lemma all_bins_sub c sc : all_bins c -> In sc (c_subs c) -> all_bins sc.
Proof.
  intros H Hin n Hn. apply H. right.
  destruct Hn as [->|Hd]; [apply desc_child; exact Hin|eapply desc_step; eauto].
Qed.

Lemma all_bins_intro c : c_bin c <> None -> bins_built c -> all_bins c.
Proof. intros Hc Hb n [->|Hd]; [exact Hc|apply Hb, Hd]. Qed.

Lemma map_opt_fun {A B} (f : A -> option B) (g : A -> B) l :
  (forall x, In x l -> f x = Some (g x)) -> map_opt f l = Some (map g l).
Proof.
  induction l as [|a l IH]; intros H; [reflexivity|].
  rewrite map_opt_cons, (H a (or_introl eq_refl)), IH; [reflexivity|].
  intros x Hx. apply H. now right.
Qed.

(** the key of the block of a path: the bin name and the words, joined with [;] *)
Definition path_key (bin : bytes) (ws : list bytes) : bytes := bin ++ join_with [59] ws.

(** ---- a worked example shared by the two shells (non-vacuity of the coverage theorems) ---- *)
Definition ex_arg : arg :=
  mkArg (lit "o") (Some (lit "s")) (Some (lit "long")) [(lit "t", true); (lit "u", false)] [(lit "lg", true)]
        ASet None None None false false false.
Definition ex_tree : cmd :=
  mkCmd (lit "p") [] []
    [mkCmd (lit "a-b") [(lit "ab", true); (lit "hid", false)] [ex_arg] [cmd_new (lit "c")] None false false sets0 sets0]
    None false false sets0 sets0.
Definition ex_texts : ttree :=
  mkTt (Some (lit "root")) false [] [mkTt (Some (lit "it's")) false [mkAt (Some (lit "say 'hi'")) false] []].

Definition ex_built : cmd :=
  Eval vm_compute in match build (set_bin_name ex_tree (lit "p")) with Some b => b | None => ex_tree end.
Lemma ex_built_eq : build (set_bin_name ex_tree (lit "p")) = Some ex_built.
Proof. vm_compute. reflexivity. Qed.
Definition ex_node : cmd := Eval vm_compute in hd ex_tree (c_subs ex_built).

Definition values_arg : arg :=
  mkArg (lit "o") None (Some (lit "opt")) [] [] ASet None (Some [mkPv (lit "zzz") false]) None false false false.
Definition values_cmd : cmd := mkCmd (lit "p") [] [values_arg] [] None false false sets0 sets0.

(** the hypotheses of the two coverage theorems are satisfiable: a built two-level tree, a path through a
    visible alias, an option with a short, a visible and a hidden short alias and a long, a subcommand *)
Example covers_hyps_example :
  exists c bin b ws ns n a s0 s l0 sc w,
    build (set_bin_name c bin) = Some b /\ c_bin b = Some bin /\ bin <> [] /\ bins_built b /\
    reach b ws ns n /\ ws <> [] /\
    In a (c_args n) /\ a_is_positional a = false /\ a_short a = Some s0 /\ In (s, true) (a_short_aliases a) /\
    a_long a = Some l0 /\ In sc (c_subs n) /\ In w (get_name_and_visible_aliases sc).
Proof.
  exists ex_tree, (lit "p"), ex_built, [lit "ab"], [lit "a-b"], ex_node, ex_arg, (lit "s"), (lit "t"), (lit "long").
  eexists. exists (lit "c").
  split; [exact ex_built_eq|].
  split; [reflexivity|]. split; [discriminate|].
  split; [exact (build_bins_built _ _ ex_built_eq)|].
  split; [apply (reach_cons ex_built ex_node (lit "ab") [] [] ex_node);
          [left; reflexivity|right; left; reflexivity|apply reach_nil]|].
  split; [discriminate|].
  split; [left; reflexivity|]. split; [reflexivity|]. split; [reflexivity|].
  split; [left; reflexivity|]. split; [reflexivity|].
  split; [left; reflexivity|left; reflexivity].
Qed.
