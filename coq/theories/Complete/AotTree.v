(** C16: the command tree as the ahead-of-time completion generators see it.
    - records for [Arg]/[Command] restricted to what [clap_complete::aot] reads
      (clap_builder/src/builder/{arg.rs, command.rs});
    - [Command::build] = [_build_recursive(true)] + [_build_bin_names_internal]
      (help/version args, the expanded [help] subcommand tree, global args, bin names);
    - clap_complete/src/aot/generator/utils.rs, one Gallina function per Rust function.
    A Rust [unwrap]/[expect] is a visible [None]. *)
From ClapModel Require Import Base.Bytes.
From Coq Require Import String Ascii.
Open Scope N_scope.
Open Scope list_scope.

(** string literals as bytes *)
Definition bs (x : string) : bytes := map N_of_ascii (list_ascii_of_string x).
(** literals are evaluated when a definition is elaborated, so that neither the theorems nor the
    extracted code depend on [String] *)
Notation "'lit' s" := (ltac:(let v := eval vm_compute in (bs s%string) in exact v)) (only parsing, at level 9).

Definition is_some {A} (o : option A) := match o with Some _ => true | None => false end.
Definition is_nil {A} (l : list A) := match l with [] => true | _ => false end.
Fixpoint filter_map {A B} (f : A -> option B) (l : list A) : list B :=
  match l with [] => [] | a :: t => match f a with Some b => b :: filter_map f t | None => filter_map f t end end.
(** [iter.map(f).collect::<Option<Vec<_>>>()] *)
Definition map_opt {A B} (f : A -> option B) : list A -> option (list B) :=
  fix go (l : list A) : option (list B) :=
    match l with
    | [] => Some []
    | a :: t => match f a with
                | None => None
                | Some b => match go t with Some r => Some (b :: r) | None => None end
                end
    end.

(** ---- Arg ---- *)
Record pval := mkPv { pv_name : bytes; pv_hide : bool }.
Inductive hint := HUnknown | HOther | HAnyPath | HFilePath | HDirPath | HExecutablePath | HCommandName
                | HCommandString | HCommandWithArguments | HUsername | HHostname | HUrl | HEmailAddress.
Inductive action := ASet | AAppend | ASetTrue | ASetFalse | ACount | AHelp | AVersion.

Record arg := mkArgX {
  a_id : bytes;
  a_short : option bytes;                 (* the char, UTF-8 encoded *)
  a_long : option bytes;
  a_short_aliases : list (bytes * bool);  (* (alias, visible) *)
  a_aliases : list (bytes * bool);
  a_action : action;
  a_num : option (N * N);                 (* explicit [num_args(min..=max)] *)
  a_pvs : option (list pval);             (* [value_parser(PossibleValuesParser)] *)
  a_hint : option hint;
  a_global : bool; a_hide : bool; a_required : bool;
  (* round 4: what only the zsh generator (and, for value names, [Arg::_build] / [render_arg_val]) reads;
     every one has the default of [Arg::new] in the smart constructor [mkArg] below *)
  a_value_names : list bytes;             (* [Arg::value_names]; [get_value_names()] is [None] when empty *)
  a_terminator : option bytes;            (* [Arg::value_terminator] *)
  a_last : bool;                          (* [Arg::last] *)
  a_blacklist : list bytes;               (* [Arg::blacklist] = [conflicts_with*]: ids of arguments or groups, declaration order *)
  a_groups : list bytes                   (* [Arg::group(s)]: [_build_self] creates / extends the [ArgGroup] of that id *)
}.
(** [Arg::new(id)] + the twelve fields every generator reads: the new fields take their defaults *)
Definition mkArg (i : bytes) (s l : option bytes) (sa al : list (bytes * bool)) (ac : action) (n : option (N * N))
                 (pv : option (list pval)) (h : option hint) (g hd r : bool) : arg :=
  mkArgX i s l sa al ac n pv h g hd r [] None false [] [].

Definition action_takes_values (a : action) : bool := match a with ASet | AAppend => true | _ => false end.
(** [get_num_args().expect("built")] after [Arg::_build]: [num_vals.get_or_insert(val_names_len)] when there is more
    than one value name, the action's [default_num_args] otherwise *)
Definition a_num_built (a : arg) : N * N :=
  match a_num a with
  | Some r => r
  | None =>
      let k := N.of_nat (List.length (a_value_names a)) in
      if 1 <? k then (k, k)
      else if action_takes_values (a_action a) then (1, 1) else (0, 0)
  end.
Definition a_takes_values (a : arg) : bool := negb (snd (a_num_built a) =? 0).
Definition a_min_values (a : arg) : N := fst (a_num_built a).
Definition a_max_values (a : arg) : N := snd (a_num_built a).
Definition a_is_positional (a : arg) : bool := negb (is_some (a_long a)) && negb (is_some (a_short a)).
Definition a_get_hint (a : arg) : hint := match a_hint a with Some h => h | None => HUnknown end.
Definition hint_eqb (x y : hint) : bool :=
  match x, y with
  | HUnknown, HUnknown | HOther, HOther | HAnyPath, HAnyPath | HFilePath, HFilePath | HDirPath, HDirPath
  | HExecutablePath, HExecutablePath | HCommandName, HCommandName | HCommandString, HCommandString
  | HCommandWithArguments, HCommandWithArguments | HUsername, HUsername | HHostname, HHostname
  | HUrl, HUrl | HEmailAddress, HEmailAddress => true
  | _, _ => false end.

(** [Arg::get_visible_short_aliases] / [get_visible_aliases]: [None] when there is no alias at all *)
Definition visible (l : list (bytes * bool)) : list bytes :=
  filter_map (fun p : bytes * bool => if snd p then Some (fst p) else None) l.
Definition get_visible_short_aliases (a : arg) : option (list bytes) :=
  if is_nil (a_short_aliases a) then None else Some (visible (a_short_aliases a)).
Definition get_visible_aliases (a : arg) : option (list bytes) :=
  if is_nil (a_aliases a) then None else Some (visible (a_aliases a)).
(** [Arg::get_short_and_visible_aliases] / [get_long_and_visible_aliases] *)
Definition get_short_and_visible_aliases (a : arg) : option (list bytes) :=
  match a_short a with
  | None => None
  | Some s => Some (s :: match get_visible_short_aliases a with Some l => l | None => [] end)
  end.
Definition get_long_and_visible_aliases (a : arg) : option (list bytes) :=
  match a_long a with
  | None => None
  | Some s => Some (s :: match get_visible_aliases a with Some l => l | None => [] end)
  end.

(** [Arg::render_arg_val], and [Display for Arg] of a positional: the value names (the id when there is none; a single
    name repeated [min_values().max(1)] times), each in [[..]] or [<..>] *)
Definition render_arg_val (a : arg) : bytes :=
  let k := N.to_nat (N.max (a_min_values a) 1) in
  let val_names := match a_value_names a with
                   | [] => repeat (a_id a) k
                   | [v] => repeat v k
                   | l => l
                   end in
  let one (v : bytes) := if a_is_positional a && ((a_min_values a =? 0) || negb (a_required a))
                         then lit "[" ++ v ++ lit "]" else lit "<" ++ v ++ lit ">" in
  let extra := (N.of_nat (List.length val_names) <? a_max_values a)
               || (a_is_positional a && match a_action a with AAppend => true | _ => false end) in
  intercalate (lit " ") (map one val_names) ++ (if extra then lit "..." else []).
Definition display_positional (a : arg) : bytes := render_arg_val a.

(** ---- Command ---- *)
Record sets := mkSets { s_dhf : bool; s_dvf : bool; s_dhs : bool; s_pver : bool }.
Definition sets0 := mkSets false false false false.
Definition sets_or (a b : sets) :=
  mkSets (s_dhf a || s_dhf b) (s_dvf a || s_dvf b) (s_dhs a || s_dhs b) (s_pver a || s_pver b).

Inductive cmd := mkCmd {
  c_name : bytes;
  c_aliases : list (bytes * bool);
  c_args : list arg;
  c_subs : list cmd;
  c_bin : option bytes;
  c_hide : bool;
  c_version : bool;            (* a version or long_version string is present *)
  c_set : sets; c_gset : sets
}.

Definition with_subs (c : cmd) (l : list cmd) : cmd :=
  mkCmd (c_name c) (c_aliases c) (c_args c) l (c_bin c) (c_hide c) (c_version c) (c_set c) (c_gset c).
Definition with_args (c : cmd) (l : list arg) : cmd :=
  mkCmd (c_name c) (c_aliases c) l (c_subs c) (c_bin c) (c_hide c) (c_version c) (c_set c) (c_gset c).
Definition with_bin (c : cmd) (b : option bytes) : cmd :=
  mkCmd (c_name c) (c_aliases c) (c_args c) (c_subs c) b (c_hide c) (c_version c) (c_set c) (c_gset c).
Definition with_sets (c : cmd) (s g : sets) : cmd :=
  mkCmd (c_name c) (c_aliases c) (c_args c) (c_subs c) (c_bin c) (c_hide c) (c_version c) s g.
Definition with_version (c : cmd) (v : bool) : cmd :=
  mkCmd (c_name c) (c_aliases c) (c_args c) (c_subs c) (c_bin c) (c_hide c) v (c_set c) (c_gset c).
Definition cmd_new (n : bytes) : cmd := mkCmd n [] [] [] None false false sets0 sets0.

Fixpoint depth (c : cmd) : nat :=
  match c with
  | mkCmd _ _ _ subs _ _ _ _ _ =>
      S ((fix go (l : list cmd) : nat := match l with [] => O | s :: t => Nat.max (depth s) (go t) end) subs)
  end.

Definition is_set (f : sets -> bool) (c : cmd) : bool := f (c_set c) || f (c_gset c).
Definition has_subcommands (c : cmd) : bool := negb (is_nil (c_subs c)).
Definition is_disable_version_flag_set (c : cmd) : bool := is_set s_dvf c || negb (c_version c).
Definition get_visible_cmd_aliases (c : cmd) : list bytes := visible (c_aliases c).
Definition get_all_cmd_aliases (c : cmd) : list bytes := map fst (c_aliases c).
Definition get_name_and_visible_aliases (c : cmd) : list bytes := c_name c :: get_visible_cmd_aliases c.
Definition get_positionals (c : cmd) : list arg := filter a_is_positional (c_args c).
(** [Command::get_opts] *)
Definition get_opts (c : cmd) : list arg :=
  filter (fun a => a_takes_values a && negb (a_is_positional a)) (c_args c).
(** [Command::aliases_to] / [find_subcommand] *)
Definition aliases_to (c : cmd) (n : bytes) : bool :=
  beq (c_name c) n || existsb (fun a => beq a n) (get_all_cmd_aliases c).
Definition find_subcommand (c : cmd) (n : bytes) : option cmd := find (fun s => aliases_to s n) (c_subs c).
Definition find_arg (c : cmd) (i : bytes) : option arg := find (fun a => beq (a_id a) i) (c_args c).

(** ---- Command::build ---- *)
Definition help_arg : arg :=
  mkArg (lit "help") (Some (lit "h")) (Some (lit "help")) [] [] AHelp None None None false false false.
Definition version_arg : arg :=
  mkArg (lit "version") (Some (lit "V")) (Some (lit "version")) [] [] AVersion None None None false false false.

(** [_propagate_subcommand] *)
Definition propagate_subcommand (parent sc : cmd) : cmd :=
  let sc := if s_pver (c_set parent) && c_version parent then with_version sc true else sc in
  with_sets sc (sets_or (c_set sc) (c_gset parent)) (sets_or (c_gset sc) (c_gset parent)).

(** [_copy_subtree_for_help]: name, hide and the copied subtree; no aliases, no args *)
Fixpoint copy_subtree_for_help (c : cmd) : cmd :=
  match c with
  | mkCmd n _ _ subs _ h _ _ _ =>
      mkCmd n [] [] (map copy_subtree_for_help subs) None h false
            (mkSets true true false false) (mkSets true true false false)   (* global_setting sets both *)
  end.

(** the [expand_help_tree] branch of [_check_help_and_version] *)
Definition help_subcommand (parent : cmd) : cmd :=
  let help_help := with_sets (cmd_new (lit "help")) (mkSets true true false false) sets0 in
  let h := mkCmd (lit "help") [] [] (map copy_subtree_for_help (c_subs parent) ++ [help_help]) None false false
                 (mkSets false false true false) (mkSets false false true false) in
  let h := propagate_subcommand parent h in
  let h := with_version h false in
  (* .setting(DisableHelpFlag).setting(DisableVersionFlag).unset_global_setting(PropagateVersion) *)
  with_sets h (mkSets true true (s_dhs (c_set h)) false)
              (mkSets (s_dhf (c_gset h)) (s_dvf (c_gset h)) (s_dhs (c_gset h)) false).

(** [_build_self(true)], one definition per block *)
Definition bs_settings (c : cmd) : cmd :=
  let s := sets_or (c_set c) (c_gset c) in
  let s := if negb (has_subcommands c) then mkSets (s_dhf s) (s_dvf s) true (s_pver s) else s in
  with_sets c s (c_gset c).
Definition bs_propagate (c : cmd) : cmd := with_subs c (map (propagate_subcommand c) (c_subs c)).
Definition bs_help_version (c : cmd) : cmd :=
  let c := if negb (is_set s_dhf c) then with_args c (c_args c ++ [help_arg]) else c in
  let c := if negb (is_disable_version_flag_set c) then with_args c (c_args c ++ [version_arg]) else c in
  if negb (is_set s_dhs c) then with_subs c (c_subs c ++ [help_subcommand c]) else c.
Definition bs_globals (c : cmd) : cmd :=
  let autogenerated_help := negb (is_set s_dhs c) in
  let globals := filter a_global (c_args c) in
  with_subs c (map (fun sc =>
      if beq (c_name sc) (lit "help") && autogenerated_help then sc
      else fold_left (fun sc a => if is_some (find_arg sc (a_id a)) then sc
                                  else with_args sc (c_args sc ++ [a])) globals sc)
    (c_subs c)).
Definition build_self (c : cmd) : cmd := bs_globals (bs_help_version (bs_propagate (bs_settings c))).

(** [_build_recursive(true)]: the children are built after the parent has received its
    help subcommand, so the recursion is not structural; [None] = out of fuel. *)
Fixpoint build_recursive (fuel : nat) (c : cmd) : option cmd :=
  match fuel with
  | O => None
  | S f =>
      let c := build_self c in
      match map_opt (build_recursive f) (c_subs c) with
      | Some subs => Some (with_subs c subs)
      | None => None
      end
  end.

(** [_build_bin_names_internal] (bin names only; usage/display names are not read by the generators) *)
Fixpoint assign_bins (inherited : option bytes) (c : cmd) : cmd :=
  match c with
  | mkCmd n al args subs bin h v s g =>
      (* [if sc.bin_name.is_none() { sc.bin_name = Some(format!("{self_bin_name} {name}")) }] done by the parent *)
      let bin' := match bin with Some b => Some b | None => inherited end in
      let self_bin := match bin' with Some b => b | None => n end in
      mkCmd n al args
        (map (fun sc => assign_bins (Some (self_bin ++ (if is_nil self_bin then [] else lit " ") ++ c_name sc)) sc) subs)
        bin' h v s g
  end.
Definition build_bin_names (c : cmd) : cmd := assign_bins None c.

(** [clap_complete::aot::generate]: [set_bin_name], then [_generate] = [build] + the generator *)
Definition build_fuel (c : cmd) : nat := S (S (depth c)).
Definition build (c : cmd) : option cmd :=
  match build_recursive (build_fuel c) c with
  | Some c' => Some (build_bin_names c')
  | None => None
  end.
Definition set_bin_name (c : cmd) (b : bytes) : cmd := with_bin c (Some b).

(** ---- generator/utils.rs ---- *)
(** [subcommands]: (name, bin_name) for every subcommand and each of its visible aliases;
    [sc.get_bin_name().unwrap()] *)
Definition sc_entries (sc : cmd) : option (list (bytes * bytes)) :=
  match c_bin sc with
  | None => None
  | Some b => Some ((c_name sc, b) :: map (fun a => (a, b)) (get_visible_cmd_aliases sc))
  end.
Definition subcommands (p : cmd) : option (list (bytes * bytes)) :=
  match map_opt sc_entries (c_subs p) with Some l => Some (List.concat l) | None => None end.

(** [all_subcommands]: own entries, then those of every child, depth first *)
Fixpoint all_subcommands (c : cmd) : option (list (bytes * bytes)) :=
  match c with
  | mkCmd _ _ _ subs _ _ _ _ _ =>
      match subcommands c, map_opt all_subcommands subs with
      | Some own, Some rest => Some (own ++ List.concat rest)
      | _, _ => None
      end
  end.

(** [find_subcommand_with_path]: [find_subcommand(sc).unwrap()] per component *)
Fixpoint find_subcommand_with_path (p : cmd) (path : list bytes) : option cmd :=
  match path with
  | [] => Some p
  | sc :: t => match find_subcommand p sc with Some c => find_subcommand_with_path c t | None => None end
  end.

(** [shorts_and_visible_aliases] *)
Definition arg_shorts (a : arg) : option (list bytes) :=
  if negb (a_is_positional a) then
    match get_visible_short_aliases a, a_short a with
    | Some al, Some s => Some (al ++ [s])
    | None, Some s => Some [s]
    | _, None => None
    end
  else None.
Definition shorts_and_visible_aliases (p : cmd) : list bytes := List.concat (filter_map arg_shorts (c_args p)).

(** [longs_and_visible_aliases] *)
Definition arg_longs (a : arg) : option (list bytes) :=
  if negb (a_is_positional a) then
    match get_visible_aliases a, a_long a with
    | Some al, Some s => Some (al ++ [s])
    | None, Some s => Some [s]
    | _, None => None
    end
  else None.
Definition longs_and_visible_aliases (p : cmd) : list bytes := List.concat (filter_map arg_longs (c_args p)).

(** [flags] *)
Definition flags (p : cmd) : list arg :=
  filter (fun a => negb (a_takes_values a) && negb (a_is_positional a)) (c_args p).

(** [possible_values] *)
Definition possible_values (a : arg) : option (list pval) :=
  if negb (a_takes_values a) then None else a_pvs a.
